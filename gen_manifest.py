#!/usr/bin/env python3
"""Regenerates MANIFEST.json from the table below (kept next to the checker so the two stay in step)."""
import json, subprocess, os
V = os.path.dirname(os.path.abspath(__file__))
impl = subprocess.run([os.path.join(V, "bin/xjscheck"), "-list"], capture_output=True, text=True).stdout.split()

WHOLE = "The behavioural statement taken whole is NOT decided (it quantifies over runtime values / an external JavaScript semantics); "
checks = {
 "C01": dict(
   technique="path enumeration of every parse method over its typed syntax tree (tokens consumed, fields filled, loops unrolled twice) cross-checked against the printer event trees (sibling cross-check: printer vs parser); FIRST/LAST lexeme fixpoint over the printers with maximal-munch re-lexing of every adjacent pair, the writer's separator guard found by SSA shape and folded per byte pair; guard evaluation over all level orderings; path rule on the semicolon writer",
   text=WHOLE + "decided is the syntactic chain the behaviour rests on (the source is its own reference): for every success path of every parse method, the printer of the node that path builds writes exactly the tokens the path consumed, in that order, fixed terminals by type and open-class text from the very token; no two lexemes the printers can write back to back fuse into another token in compact or pretty mode unless the writer's separator guard, folded on that pair, separates them (the '-' '-x' defect found here is repaired by a fix: commit); operand parentheses are decided by level comparisons evaluated over all orderings; the semicolon writer emits ';' whenever pretty printing is off. Literal delimiter safety is decided under C07, the pretty post-pass under C06. Evaluation under a JavaScript engine is not decided.",
   ref="DESIGN.md §3 C01",
   note="Trusted: go/types, go/ssa; the structured-code path enumerator (anything it does not understand fails closed); the lexeme table extracted from the lexer is the re-lexing oracle (plus JavaScript's comment openers as fusion hazards)."),
 "C16": dict(
   technique="SSA dataflow: push/pop typestate balance over every path incl. defer/rundefers; who-may-write on the stack field; dominance of pushes over body/statement parses",
   text=WHOLE + "decided, on every path of the current source, is the stack discipline the property rests on: only constructor/push/pop write the context stack; push/pop are exact; every pushing function returns balanced on every path (so any parse, valid or malformed, ends at the constructor's [Global] stack); the function/block contexts are pushed exactly by the function-body and block parsers, after '{' and before the body; CurrentContext/IsInFunction read last element / whole stack. Necessary conditions, each broken by a realistic edit the tests do not see (they never query the context).",
   ref="DESIGN.md §3 C16",
   note="Trusted: go/types, go/ssa (x/tools v0.29.0), the rule implementations. Plugins that push/pop themselves and panicking parses are outside the claim."),
 "C14": dict(
   technique="SSA effect/ownership analysis: interprocedural may-alias propagation over a VTA+CHA call graph (writes into tree/compiler/builders), read-only-use closure for package-level variables, dominance-based non-interference of the source-map switch and of pretty-only state",
   text=WHOLE + "decided is a share-nothing argument over every function of the seven packages: package-level variables are never written after init and never aliased; compiling writes neither tree nor compiler; building writes neither builder and retains no writable builder state; token comment slices are fresh; the source-map switch controls only calls into package sourcemap and no sourcemap value reaches the code; the compact path reads no pretty-only state and debug.ToString uses a zero writer; no order-sensitive map range, no clock/random/unsafe/reflect, no goroutines. These imply race-freedom and isolation for every interleaving without observing any schedule - the quantifier the race-detector tests cannot exhaust.",
   ref="DESIGN.md §3 C14",
   note="Trusted: go/types, go/ssa, VTA over CHA (sound without unsafe/reflect, which R14.8 checks), the propagation's treatment of heap-stored references (a retained reference is itself reported). User interceptors and sharing one parser between goroutines are outside the claim."),
 "C03": dict(
   technique="table agreement by SSA constant folding of the printer's precedence function against the parser's table; parenthesisation guards evaluated over the finite set of level orderings; node levels vs parser production sites; FIRST/LAST lexeme fixpoint over all node types that can fill each slot with maximal-munch re-lexing of adjacent pairs and the separator guard folded per pair; parse-path enumeration vs printer event trees",
   text=WHOLE + "decided is the printer's own precedence knowledge, which only programmatic trees exercise and no test reaches: the printer-side precedence function equals the parser's binding-power table for every token constant; each expression node reports the level at which the parser produces it; every operand of an operator printer is parenthesised by a pure level comparison that is exhaustively evaluated over all orderings against the associativity-aware requirement, balanced and enclosing the operand; no two lexemes that can be written next to each other (over every node type that can fill an operand slot) fuse into another token unless the writer's separator guard separates that pair; the printer writes the tokens of every parse path in the order consumed. Round-trip shape equality itself is not decided.",
   ref="DESIGN.md §3 C03",
   note="Trusted: go/types, go/ssa, the folder (comparisons/constant returns only; anything else is reported unresolved)."),
 "C13": dict(
   technique="SSA non-interference: flag anchored by option-flow from the builder setter; every read must be a branch condition whose flag-false edge records an error before any return/advance (tolerant), or gates only the documented '(' / '[' after-newline cut (smart semicolons)",
   text=WHOLE + "decided is a non-interference argument over every path of package parser: the two mode flags flow uncrossed from their setters into one parser field each; the tolerant flag is only ever a branch condition whose false edge records an error first, so a parse that records no error took no flag-dependent branch (strict = tolerant on strict-accepted programs); the smart-semicolon flag gates only cuts requiring the after-newline flag and a peek type in {(, [}, returning the left operand and consuming nothing. The positive clause (tolerant keeps every complete statement) and tree equality as data are not decided.",
   ref="DESIGN.md §3 C13",
   note="Trusted: go/types, go/ssa, recognition of the condition atoms (peek/current token type tests, after-newline flag, parser bool fields); unknown shapes fail closed."),
 "C11": dict(
   technique="SSA path rules with verified interprocedural summaries (may-return-nil, nil-implies-error, false-implies-error); who-may-write / who-may-construct rules for the error list",
   text=WHOLE + "decided is the error-contract discipline on every path of package parser: no may-be-nil node pointer is converted to an ast interface without a nil test (the typed-nil defect this rule found is repaired by a fix: commit); every nil-valued return of a node is preceded by a recorded error (summaries verified bottom-up, not assumed); ParseProgram returns an error exactly on the non-empty-list branch and never a nil program; only the constructor and the single error constructor write the error list; error ranges are {tok.Start, tok.End} of the parser's current/peek token; every child a printer dereferences without a nil test is filled by a sub-parse on every success path of the method that builds the node. Termination and panic-freedom for all inputs are not claimed beyond these obligations.",
   ref="DESIGN.md §3 C11",
   note="Trusted: go/types, go/ssa. Plugin-supplied function values are assumed non-nil and outside the program. R11.5/R11.6 (panic obligations outside the lexer, termination) are not armed and not claimed."),
 "C12": dict(
   technique="SSA path enumeration with condition atoms over the separator check, the block parser and the prefix dispatcher (accept-path justification, must-pass-through); parse-path enumeration cross-checked against printer terminals (checked-consumption rule); byte-set facts at the scanners' exits",
   text=WHOLE + "decided are the detectors strict mode relies on, for every path: the separator check accepts only on ';' consumed, '}'/EOF at peek, peek after a line break, or tolerant mode, and every semicolon-terminated statement parser passes it before returning its node; the block parser never returns at end of input without '}' unless an error is recorded or tolerant mode is on; the prefix dispatcher records an error for a token without entry; every fixed terminal a node prints is tested on input by the path that builds the node, and the program's statement loop stops only at a tested end of input; unterminated string/backtick literals are observable. The corruption quantifier, the reference-parser filter and error positions are not decided.",
   ref="DESIGN.md §3 C12",
   note="Trusted: go/types, go/ssa; acyclic path enumeration (facts at a loop exit do not depend on the loop body in the analysed functions; a back edge ends a path)."),
 "C02": dict(
   technique="table comparison against a frozen ECMAScript precedence-order reference (orderings only); SSA shape rules for the climbing loop and every infix method (associativity); path enumeration of separator accepts and of the loop's statement cuts (restricted productions)",
   text=WHOLE + "decided are the parser mechanisms that give the ECMAScript tree: all pairwise orderings/ties of binding powers vs the reference; strict comparison in the climbing loop; left-associative operators parse their right operand at their own token's level read before advancing, assignments below their level; every keyword has a consumer and every tested token is producible; the separator check accepts only on the four documented conditions; no return value after a line break and no postfix ++/-- after a line break (the two defects this rule found are repaired by fix: commits), and the loop has no other statement cut. Acceptance of every subset program and full grammar conformance are not decided.",
   ref="DESIGN.md §3 C02",
   note="Trusted: the 11-tier reference transcribed from ECMA-262's expression grammar (in rules_tables.go with one comment per tier); go/types, go/ssa."),
 "C04": dict(
   technique="SSA shape analysis of the three wrapper closure pairs (resolved through captured cells), loop-direction recognition, who-may-reference rule for the base functions, dominance (skipper before chain), save/restore typestate around the interceptor call",
   text=WHOLE + "decided is the interceptor wiring: each wrapper calls its interceptor once with its own argument and a next that calls the previously stored function once with the same arguments, results unchanged; constructor applies statement/expression interceptors in descending order over append-only builder slices (first installed runs first); base functions are referenced only as initial field values so every recursion goes through the chain; one lexer call per parser advance and one chain call per lexer call; trivia is skipped before the chain and never by the base token function; the requested binding power is saved, set to the wrapper's own precedence and restored on every exit, and ParseRemainingExpression passes it unmodified. Equality of results with and without interceptors is not compared.",
   ref="DESIGN.md §3 C04",
   note="Trusted: go/ssa closure/cell representation; single-store cell resolution. User interceptors are outside the program and assumed pass-through/re-entrant as the property states."),
 "C05": dict(
   technique="sibling cross-check of SSA operand-parsing summaries (registered closures vs built-in methods); set equality of bookkeeping seeds vs parser tables; path rules for refusal/allocation; def-use flow of the level",
   text=WHOLE + "decided is that registered operators are the same mechanism as built-ins and the bookkeeping is exact: registered infix/prefix closures have the operand-parsing summary of the built-in binary/unary methods (own level read before advancing / constant unary level, one advance, through the interceptable expression function); registered postfix stores the call level and consumes nothing; the level is stored and passed unchanged into the parser's own table; the three duplicate sets equal the parser's prefix keys / infix keys / postfix entries and binding-power keys equal infix keys; refusal paths are write-free and success paths both record and mark; the token-id allocator is single-writer, memoised, pre-increment. Tree shapes against every neighbour are not computed.",
   ref="DESIGN.md §3 C05",
   note="Trusted: go/types, go/ssa; NewBuilder seeds recognised as map literals or a range over the package-level binding-power table (other idioms fail closed)."),
 "C09": dict(
   technique="SSA def-use/phi analysis of the encoder loop (sibling cross-check of the five delta fields), constants read by value against the spec, path-per-iteration effect rule for line-break accounting, who-may-write rules",
   text=WHOLE + "decided is the encoder's discipline: each of the five segment fields is emitted as (field − loop-carried previous) with the previous updated to that same field under the same condition, generated column reset exactly at ';', field order 1-2-3-4-(5), ',' iff a segment precedes on the line, ';' per generated line; the Base64 alphabet and the VLQ bit constants (mask 31, shift 5, continuation 32, sign in LSB, LSB-first, termination) equal the specification; names are interned with index = length before append and write-free hits; Version is 3; AdvanceString counts \\n, \\r\\n and \\r as one line break each with exact index advance. The tests only check `mappings != \"\"`-style facts, so a lost update or reset survives them. VLQ arithmetic for every integer and decoded equality are not decided.",
   ref="DESIGN.md §3 C09",
   note="Trusted: go/ssa phi placement; exported field names of sourcemap.Mapping as anchors."),
 "C10": dict(
   technique="byte-set abstract interpretation of the lexer cursor (forward dataflow over 256-bit sets for current/look-ahead byte, predicates folded over all byte values, per-delimiter contexts) + SSA shape rules + panic-obligation enumeration + path-sensitive cycle feasibility for termination",
   text=WHOLE + "decided for the lexer's single cursor: all panic sites of package lexer enumerated and discharged; Start read before any advance for every token construction (the two-character-operator defect found here is repaired by a fix: commit); identifier/number literals are input[entry:position] with the type derived from the same result; keyword lookup exact; after-newline flag set before every advance over a possible line break (tracked per byte value) and copied by every constructor; the skipper consumes only trivia and every dispatcher path consumes exactly its token's bytes; no feasible advance-free cycle and no feasible cycle at end of input; end of input is a fixed point and the EOF token is decided by position (defect found here, repaired by a fix: commit). Coverage-guided fuzzing samples byte strings; these rules cover every path of the scanners for every byte value.",
   ref="DESIGN.md §3 C10",
   note="Trusted: go/ssa; the abstract domain is path-insensitive at joins (sets are unioned) except in the cycle-feasibility rule, which is path-sensitive; conditions on non-cursor state are treated as both-ways feasible. Exact End positions and character (vs byte) columns are not decided."),
 "C07": dict(
   technique="byte-set abstract interpretation of the string/backtick scanners per source delimiter: every byte sink of the literal buffer is enumerated with the set of bytes it can write and judged against the printer's output delimiter (read from the printer); SSA shape rules for verbatim numbers and the strconv gate",
   text=WHOLE + "decided is that emitted literals are well delimited and numbers verbatim, for every byte value and every path of the scanners: each sink is a preserved escape pair, a harmless constant, a verbatim source byte that cannot be the output delimiter, or a computed byte that cannot be delimiter/backslash/line terminator; number printers write exactly Token.Literal of the unchanged current token; strconv errors lead to nil. Two defects found by the sink rule are repaired by fix: commits (raw double quote in single-quoted strings; unescaped backtick); three decoded-escape sinks (\\xHH, \\uHHHH, \\u{...}) are genuine defects recorded as known findings because a correct repair changes what Token.Literal means. The VALUE an escape denotes is not decided.",
   ref="DESIGN.md §3 C07, §4 F7",
   note="Trusted: go/ssa; the abstract domain (sets per byte value, path-insensitive joins). Source programs with raw line breaks inside quotes are outside the quantifier (invalid JavaScript), so verbatim sinks are judged against the output delimiter only."),
 "C08": dict(
   technique="event-tree extraction of every node printer (typed syntax) with a successor relation over events; cross-check against the token types the parser stores in each token field (tables E2/E3); SSA must-follow rule for buffer writes vs mapper advances; who-may-write rules for the mapper",
   text=WHOLE + "decided for every path of all 28 printers: each recorded mapping uses a token field's Start and is immediately followed by that token's own text (constant whose first lexeme has a type the parser stores in that field, a field filled from the token's literal, or the opening quote of its class); only the identifier printer reads Identifier.Value and its segment is named with what it writes; every byte appended to the buffer is followed by a mapper advance of the same content and pending layout is flushed before a mapping is recorded; token starts are read before any advance (shared with C10); the mapper's position only moves forward and mappings are appended with the current position. The mapping/space order defect and the unaccounted layout/comment bytes found here are repaired by fix: commits. Decoding the map is not done.",
   ref="DESIGN.md §3 C08",
   note="Trusted: go/types, go/ssa; the printers are structured code (if/range/early return) - anything else fails closed. The post-pass that trims lines after positions were recorded is a C06 finding."),
 "C15": dict(
   technique="path enumeration over printer event trees (replay-before-use, at-most-once), list-terminator carrier rule (parser fills / printer replays), dominance rules on the replay method (pretty-only writes, forced line break), byte-set facts for trivia collection",
   text=WHOLE + "decided is which tokens carry comments and who replays them, on every path: every parser-filled token field is replayed before it is mapped/written and never twice; every node's first byte follows a replay or a delegation to its leftmost child; statement-list nodes keep and replay the token that ends the list (the missing end-of-input carrier found here is repaired by a fix: commit); replay writes are pretty-only and LeadingComments is read nowhere else; a replay that wrote anything forces a pending line break and only flush/WriteNewline/replay may clear pending layout; the skipper resets the list, appends an empty element exactly on a line break and, per comment, exactly the bytes it advanced over. Textual placement in the output is not compared.",
   ref="DESIGN.md §3 C15",
   note="Trusted: go/types, go/ssa, the event-tree extractor (structured printers only). Precedence-guard parentheses are exempt from 'first byte' because they never occur for parsed trees."),
}
na_pending = "rule set designed in DESIGN.md §3 but not yet armed in xjscheck; not claimed until it is silent on the unchanged tree and shown to fire on seeded variants"
all_ids = ["C%02d" % i for i in range(1, 17)]
m = {
 "version": 1,
 "setup_cmd": "cd /verif/xjscheck && GOFLAGS=-mod=mod GOPROXY=off GOSUMDB=off GOTOOLCHAIN=local GOWORK=off go build -o /verif/bin/xjscheck .",
 "hooks": {"guard": "verif", "enable": "none needed: static analysis reads the source; no instrumentation is compiled into xjs (the thorough tier also loads the tree with -tags verif to show no tagged file exists or changes a verdict)",
           "baseline_off_cmd": "cd /repo && GOFLAGS=-mod=mod go test -json -vet=off -count=1 -timeout 25m ./...",
           "source_commits": [], "add_only": True},
 "engines": [{"name": "xjscheck", "path": "xjscheck/", "serves_properties": sorted(k for k in checks if k in impl),
              "kind_free_text": "repository-specific static analyser (go/packages + go/types + go/cfg + go/ssa + VTA call graph, x/tools v0.29.0); decides rule instances on /repo's working tree, never executes xjs"}],
 "checks": [], "not_applicable": [],
 "notes": "Every claim is level 'other': structural necessary conditions decided for all paths of the current source; see DESIGN.md. known_findings.json lists genuine defects (known) and repaired ones (fixed).",
}
for pid in all_ids:
    if pid in checks and pid in impl:
        c = checks[pid]
        m["checks"].append({
            "property_id": pid,
            "quick_cmd": "./check.sh %s quick" % pid,
            "thorough_cmd": "./check.sh %s thorough" % pid,
            "evidence_file": "evidence/%s.json" % pid,
            "replay_cmd_template": "cat {path}",
            "engine": "xjscheck",
            "level_claimed": {"category": "other", "text": c["text"], "design_ref": c["ref"]},
            "level_note": c["note"],
            "technique": c["technique"],
        })
    else:
        m["not_applicable"].append({"property_id": pid, "reason": na_pending})
json.dump(m, open(os.path.join(V, "MANIFEST.json"), "w"), indent=1)
print("checks:", [c["property_id"] for c in m["checks"]])
