#!/bin/sh
# usage: check.sh <property-id> <quick|thorough>
# Builds the analyser if needed (offline, module cache only) and analyses /repo's current working tree.
set -u
V=$(cd "$(dirname "$0")" && pwd)
export GOFLAGS=-mod=mod GOPROXY=off GOSUMDB=off GOTOOLCHAIN=local GOWORK=off
if [ ! -x "$V/bin/xjscheck" ] || [ -n "$(find "$V/xjscheck" -name '*.go' -newer "$V/bin/xjscheck" 2>/dev/null | head -1)" ]; then
  mkdir -p "$V/bin"
  (cd "$V/xjscheck" && go build -o "$V/bin/xjscheck" .) || { echo "VIOLATION property=$1 replay=$V/reports/build-failure"; exit 1; }
fi
exec "$V/bin/xjscheck" -property "$1" -tier "${2:-quick}" -repo "${XJS_REPO:-/repo}" -verif "$V"
