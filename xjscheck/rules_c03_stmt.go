package main

// R3.6 — the first lexeme of an expression statement.
//
// A statement that begins with `{`, `function` or `let` is a block, a function declaration or a let statement: the
// statement dispatcher routes those tokens away from the expression-statement parser. An *expression* whose printed text
// begins with such a lexeme (an object literal, a function expression — possibly as the leftmost operand of members,
// calls, binary and assignment nodes) therefore does not re-parse to itself when it is written as a statement. Trees
// made by the parser are safe for a reason the rule also checks: the source must have had parentheses, and no parse
// method drops tokens it consumed (a method that returns its inner expression instead of the group node it parsed
// would). Trees assembled by hand (C03's quantifier) are safe only if the statement printer adds the parentheses.
//
// Decided, from the printer event trees, the FIRST-lexeme fixpoint and the dispatch table:
//  (a) hazards = lexemes of the tokens the dispatcher routes to a parser other than the expression-statement parser
//      that are also the first lexeme some expression node writes itself;
//  (b) for every statement node whose printer starts with an expression child: every expression node type whose own
//      first lexeme is a hazard is answered `true` by the predicate that guards the statement printer's parentheses,
//      and every expression node type whose text starts with a child is followed into exactly that child by the
//      predicate (structural induction: then the predicate is true whenever the text starts with a hazard). The
//      predicate is read in one shape only — a type switch over the expression, `return true` / `e = n.Field` (or a
//      recursive call) / `default: return false` — anything else is reported as not understood;
//  (c) no success path of a parse method returns a sub-parse result after consuming tokens that are not part of it.
// A hazard no parenthesis can repair (`let x = y` as an expression statement *is* a let statement) is a finding.

import (
	"fmt"
	"go/ast"
	"go/token"
	"go/types"
	"sort"
	"strings"
)

type leafInfo struct {
	kind  string // "lit", "child", "other"
	text  string // lit: the text; child: the field
	issue string
}

// ownFirstLeaf: what a printer writes first itself (comments, mappings and layout skipped; the unparenthesised
// alternative of a parenthesis guard; an early return under a nil test skipped).
func ownFirstLeaf(evs []*pev) leafInfo {
	for _, e := range evs {
		switch e.kind {
		case evComments, evMap, evLayout, evTerm:
			continue
		case evLit:
			if strings.TrimSpace(e.text) == "" {
				continue
			}
			return leafInfo{kind: "lit", text: strings.TrimLeft(e.text, " ")}
		case evChild:
			return leafInfo{kind: "child", text: e.field}
		case evText:
			return leafInfo{kind: "other", text: "text of " + e.field}
		case evOpt:
			if strings.HasPrefix(e.cond, "paren:") {
				// `if guard { ( child ) } else { child }` or `if guard { ( }` in front of the child
				if len(e.alt) > 0 {
					if l := ownFirstLeaf(e.alt); l.kind != "" {
						return l
					}
				}
				continue
			}
			if strings.HasPrefix(e.cond, "nonnil:") && !e.neg && len(e.alt) == 0 {
				// `if x.Child == nil { return }` in front of everything: with the child present, the body is the printer
				if l := ownFirstLeaf(e.kids); l.kind != "" {
					return l
				}
				continue
			}
			onlyRet := len(e.kids) > 0
			for _, k := range e.kids {
				if k.kind != evRet {
					onlyRet = false
				}
			}
			if onlyRet && len(e.alt) == 0 {
				continue
			}
			return leafInfo{kind: "other", issue: "the printer starts under a condition (" + e.cond + ")"}
		default:
			return leafInfo{kind: "other", text: fmt.Sprint(e.kind)}
		}
	}
	return leafInfo{}
}

type stmtGuard struct {
	fn      *types.Func
	yes     map[string]bool   // node types answered true
	descend map[string]string // node type -> field followed
	problem string
}

// readStartGuard reads a predicate of the accepted shape (see the head comment).
func (c *Ctx) readStartGuard(fn *types.Func) *stmtGuard {
	g := &stmtGuard{fn: fn, yes: map[string]bool{}, descend: map[string]string{}}
	fd := c.declIdx[fn]
	if fd == nil || fd.Body == nil || fd.Type.Params == nil || len(fd.Type.Params.List) != 1 || len(fd.Type.Params.List[0].Names) != 1 {
		g.problem = "no declaration with one named parameter"
		return g
	}
	info := c.Pkgs["ast"].TypesInfo
	param := info.Defs[fd.Type.Params.List[0].Names[0]]
	var sw *ast.TypeSwitchStmt
	nsw := 0
	ast.Inspect(fd.Body, func(n ast.Node) bool {
		if s, ok := n.(*ast.TypeSwitchStmt); ok {
			sw = s
			nsw++
		}
		return true
	})
	if nsw != 1 {
		g.problem = fmt.Sprintf("%d type switches (one expected)", nsw)
		return g
	}
	// subject: `switch n := e.(type)` over the parameter
	as, ok := sw.Assign.(*ast.AssignStmt)
	if !ok || len(as.Lhs) != 1 || len(as.Rhs) != 1 {
		g.problem = "type switch without a bound variable"
		return g
	}
	ta, ok := as.Rhs[0].(*ast.TypeAssertExpr)
	if !ok {
		g.problem = "type switch subject not understood"
		return g
	}
	subj, ok := ta.X.(*ast.Ident)
	if !ok || info.ObjectOf(subj) != param {
		g.problem = "the type switch is not over the parameter"
		return g
	}
	// every statement of the function other than the loop around the switch must be absent
	for _, st := range fd.Body.List {
		switch v := st.(type) {
		case *ast.ForStmt:
			if v.Init != nil || v.Cond != nil || v.Post != nil || len(v.Body.List) != 1 || v.Body.List[0] != ast.Stmt(sw) {
				g.problem = "loop around the type switch not of the form `for { switch … }`"
				return g
			}
		case *ast.TypeSwitchStmt:
		case *ast.ReturnStmt:
			if len(v.Results) != 1 || types.ExprString(v.Results[0]) != "false" {
				g.problem = "trailing return other than `return false`"
				return g
			}
		default:
			g.problem = fmt.Sprintf("statement %T outside the type switch", st)
			return g
		}
	}
	hasDefault := false
	for _, cl := range sw.Body.List {
		cc := cl.(*ast.CaseClause)
		if len(cc.Body) != 1 {
			g.problem = "a case with more than one statement"
			return g
		}
		var names []string
		for _, e := range cc.List {
			tv, ok := info.Types[e]
			if !ok || namedOf(tv.Type) == nil {
				g.problem = "a case type that is not a node type"
				return g
			}
			names = append(names, namedOf(tv.Type).Obj().Name())
		}
		switch st := cc.Body[0].(type) {
		case *ast.ReturnStmt:
			if len(st.Results) != 1 {
				g.problem = "return without a single result"
				return g
			}
			switch r := st.Results[0].(type) {
			case *ast.Ident:
				switch r.Name {
				case "true":
					if cc.List == nil {
						g.problem = "default answers true"
						return g
					}
					for _, n := range names {
						g.yes[n] = true
					}
				case "false":
					if cc.List == nil {
						hasDefault = true
					}
				default:
					g.problem = "a case returns something other than true / false"
					return g
				}
			case *ast.CallExpr:
				// return pred(n.Field)
				id, ok := r.Fun.(*ast.Ident)
				if !ok || info.Uses[id] != types.Object(fn) || len(r.Args) != 1 || len(names) != 1 {
					g.problem = "a case returns a call other than the predicate itself on a field"
					return g
				}
				sel, ok := r.Args[0].(*ast.SelectorExpr)
				if !ok {
					g.problem = "recursive call not on a field of the matched node"
					return g
				}
				g.descend[names[0]] = sel.Sel.Name
			default:
				g.problem = "a case returns an expression that is not understood"
				return g
			}
		case *ast.AssignStmt:
			// e = n.Field
			if len(st.Lhs) != 1 || len(st.Rhs) != 1 || len(names) != 1 {
				g.problem = "assignment case not of the form e = n.Field"
				return g
			}
			l, ok := st.Lhs[0].(*ast.Ident)
			sel, ok2 := st.Rhs[0].(*ast.SelectorExpr)
			if !ok || !ok2 || info.ObjectOf(l) != param {
				g.problem = "assignment case not of the form e = n.Field"
				return g
			}
			g.descend[names[0]] = sel.Sel.Name
		default:
			g.problem = fmt.Sprintf("case body %T not understood", st)
			return g
		}
	}
	_ = hasDefault // a missing default falls out of the switch: the trailing `return false` (or the loop going round on the same value) — accepted only with an explicit default
	if !hasDefault {
		g.problem = "no `default: return false`"
	}
	return g
}

func ruleStatementStart(c *Ctx, t *tables, g *grammarModel) {
	fm := c.fusionModel(t, g)
	// (a) hazards
	hazTok := map[string]string{} // lexeme -> the parser it is dispatched to
	for k, m := range t.pt.dispatch {
		if m == nil || m == t.pt.dispatchDefault {
			continue
		}
		if lx := refLexemeOf(t, k); lx != "" {
			hazTok[lx] = m.Name()
		}
	}
	own := map[string]leafInfo{}
	for _, n := range fm.exprTypes {
		if pe := g.printers[n]; pe != nil {
			own[n] = ownFirstLeaf(pe.root)
		}
	}
	firstLex := func(text string) string {
		if _, lex, ok := firstLexemeType(t, text); ok {
			return lex
		}
		return ""
	}
	hazardOf := map[string]string{} // expression node type -> hazard lexeme it writes first itself
	for n, l := range own {
		if l.kind == "lit" {
			if lx := firstLex(l.text); lx != "" && hazTok[lx] != "" {
				hazardOf[n] = lx
			}
		}
	}
	var hz []string
	for n, lx := range hazardOf {
		hz = append(hz, n+" "+lx)
	}
	sort.Strings(hz)
	c.Tables["R3.6_hazards"] = hz
	// (b) statement nodes that start with an expression child
	nStmts := 0
	for _, sn := range fm.stmtTypes {
		pe := g.printers[sn]
		if pe == nil {
			continue
		}
		l := ownFirstLeaf(pe.root)
		if l.kind != "child" {
			continue
		}
		fld := l.text
		nStmts++
		var guard *stmtGuard
		if fn := pe.predGuards[fld]; fn != nil {
			guard = c.readStartGuard(fn)
			if guard.problem != "" {
				c.unres(fmt.Sprintf("%s.%s: predicate %s", sn, fld, fn.Name()), c.declPos(fn), "the predicate that guards the statement's parentheses is not in the shape this rule reads (%s)", guard.problem)
				continue
			}
		}
		var names []string
		for n := range own {
			names = append(names, n)
		}
		sort.Strings(names)
		for _, n := range names {
			lf := own[n]
			pos := token.NoPos
			if g.printers[n] != nil && g.printers[n].decl != nil {
				pos = g.printers[n].decl.Pos()
			}
			switch {
			case lf.issue != "":
				c.unres(fmt.Sprintf("%s.%s × %s", sn, fld, n), pos, "%s", lf.issue)
			case hazardOf[n] != "":
				key := fmt.Sprintf("%s.%s × %s: first lexeme %s", sn, fld, n, hazardOf[n])
				switch {
				case guard != nil && guard.yes[n]:
					c.ok(key, pos, "the statement printer parenthesises it (%s answers true)", guard.fn.Name())
				default:
					c.bad(key, pos, "written as a statement, a %s starts with %q, which the parser dispatches to %s: the printed statement does not parse back to the tree it was printed from (a tree assembled by hand; parsed trees carry a grouping node)", n, hazardOf[n], hazTok[hazardOf[n]])
				}
			case lf.kind == "child" && guard != nil:
				key := fmt.Sprintf("%s.%s × %s: the guard follows %s.%s", sn, fld, n, n, lf.text)
				c.check(guard.descend[n] == lf.text, key, pos, "the predicate looks into the operand that is printed first",
					fmt.Sprintf("%s prints its %s first, but %s does not follow it (it follows %q): an object literal or function expression there starts the statement unparenthesised", n, lf.text, guard.fn.Name(), guard.descend[n]))
			}
		}
	}
	if nStmts == 0 {
		c.unres("statement nodes that start with an expression", token.NoPos, "none found")
	}
	// (c) tokens of the source are in the tree
	n := 0
	for _, gm := range g.methods {
		for _, seq := range gm.passThrough {
			n++
			c.unres(fmt.Sprintf("%s: pass-through path #%d", gm.method.Name(), n), c.declPos(gm.method), "a success path consumes [%s] but returns the inner node instead of the %s it parsed: tokens of the source (parentheses) are not in the tree. Whether that is harmless depends on which inner nodes are handed through, which this rule does not track: the printers protect operands by precedence and the start of a statement by the guard above, but nothing protects an assignment or a binary expression in object / callee position (`(a = b).c`) except the grouping node", seq, gm.node)
		}
	}
	if n == 0 {
		c.ok("no parse method returns an inner node after consuming other tokens", token.NoPos, "%d parse methods walked", len(g.methods))
	}
}

func (c *Ctx) declPos(fn *types.Func) token.Pos {
	if fd := c.declIdx[fn]; fd != nil {
		return fd.Pos()
	}
	return token.NoPos
}
