package main

import (
	"fmt"
	"go/constant"
	"go/token"
	"os"
	"sort"
	"strings"

	"golang.org/x/tools/go/ssa"
)

func init() {
	register("C01", &propSpec{
		run: runC01,
		explanation: "Behaviour under a JavaScript engine is NOT decided (it needs the engine's semantics). Decided is the syntactic chain the behaviour rests on — XJS is a subset of JavaScript and the source is its own reference, so if the emitted text consists of exactly the source's tokens, in source order, each re-lexing to itself, plus parentheses where grouping requires them, behaviour is preserved; breaking any link changes the meaning of some program: " +
			"R1.1 for every success path of every parse method, the node's printer, run on the node that path builds, writes exactly the tokens the path consumed, in the order it consumed them (fixed terminals by type, operator/identifier/number text from the very token, children in fill order); " +
			"R1.2 no two lexemes the printers can write next to each other fuse into a different token stream in any output mode, unless the writer's separator guard (evaluated for that pair) puts a space between them; " +
			"R1.3 operand parenthesisation guards evaluated over all level orderings (= R3.3); " +
			"(R1.4, literals re-lex to themselves, is decided and reported under C07 R7.1 with its known findings, not repeated here;) " +
			"R1.5 statements the parser ends with the separator check are ended by the printer, and the writer emits ';' whenever pretty printing is off; " +
			"R1.6 where a printer writes '.' directly behind a child, every path either brackets the child or has found by a type test that it is not an integer literal (`1 .toString()` must not come out as `1.toString()`: the one place where the library's own lexer and JavaScript's disagree on adjacent lexemes).",
		notDecided: []string{"evaluation semantics under a JavaScript engine", "that the parser's tree is the JavaScript tree (C02)", "the post-pass over pretty output (C06 R6.3)", "decoded values of escapes (C07)", "anything a plugin's own node prints"},
	})
}

func runC01(c *Ctx) {
	if os.Getenv("XJSCHECK_WFOLD") != "" {
		c.debugWfold()
	}
	t := c.tables()
	c.rule("R1.0", "extractors: lexeme table, parser tables, printer event trees, parse-path enumeration")
	if c.extractorProblems(t, "lexemes", "parser", "printer") {
		return
	}
	g := c.grammar(t)
	c.Tables["A2_parse_paths"] = g.dump(t)
	c.Tables["E5_printer_events"] = dumpPrinterEvents(g.printers)
	c.ok("extractors", token.NoPos, "%d printers, %d parse methods enumerated", len(g.printers), len(g.methods))

	c.rule("R1.1", "token-order agreement: the printer writes exactly the tokens each parse path consumed, in that order")
	c.floor(25)
	ruleTokenOrder(c, t, g, "order")

	c.rule("R1.2", "no token fusion between adjacent lexemes of the printed output (compact and pretty), separator guard credited per pair")
	c.floor(200)
	ruleNoFusion(c, t, g)

	c.rule("R1.3", "operand parenthesisation guards evaluated over all level orderings; balanced; enclose the operand (= R3.3)")
	c.floor(8)
	ruleParenGuards(c, t)

	c.rule("R1.6", "a '.' written right behind a child is never preceded by a bare integer literal: JavaScript reads `1.x` as the number \"1.\" followed by x (the library's own lexer does not, so R1.2 cannot see it)")
	c.floor(1)
	ruleNumberBeforeDot(c)

	c.rule("R1.5", "statement termination: WriteSemi emits ';' on every path where pretty printing is off (the position of the terminator is part of R1.1)")
	c.floor(2)
	ruleSemiCompact(c)
}

// ruleTokenOrder runs the grammar comparison and reports one aspect of it under the current rule:
//
//	order     — R1.1 / R3.5: sequence mismatches
//	checked   — R12.1: fixed terminals consumed without a test
//	assigned  — R11.3: children the printer dereferences that a success path leaves unset
func ruleTokenOrder(c *Ctx, t *tables, g *grammarModel, aspect string) {
	var nodes []string
	for n := range g.printers {
		nodes = append(nodes, n)
	}
	sort.Strings(nodes)
	for _, n := range nodes {
		pe := g.printers[n]
		for _, is := range pe.issues {
			c.unres("printer of "+n, token.NoPos, "%s", is)
		}
		gms := g.byNode[n]
		if len(gms) == 0 {
			if aspect == "order" {
				c.info("node "+n, token.NoPos, "no parse method builds this node type (only programmatic trees contain it)")
			}
			continue
		}
		for _, gm := range gms {
			key := fmt.Sprintf("%s built by %s", n, gm.method.Name())
			pos := c.declIdx[gm.method].Pos()
			if len(gm.issues) > 0 {
				c.unres(key, pos, "parse method not understood by the path enumerator: %s", strings.Join(gm.issues, "; "))
				continue
			}
			if len(gm.paths) == 0 {
				c.unres(key, pos, "no success path found (%d failure paths)", gm.failures)
				continue
			}
			type agg struct {
				msgs map[string]bool
				n    int
			}
			probs := &agg{msgs: map[string]bool{}}
			unres := map[string]bool{}
			infos := map[string]bool{}
			seqs := map[string]bool{}
			for _, gp := range gm.paths {
				mr := matchPath(t, n, pe.root, gp)
				for _, is := range mr.issues {
					unres[is] = true
				}
				seqs[mr.parserSeq] = true
				var list []string
				switch aspect {
				case "order":
					list = mr.orderProblems
				case "checked":
					list = mr.uncheckedTerms
				case "assigned":
					for _, f := range mr.nilDeref {
						list = append(list, fmt.Sprintf("the printer dereferences %s without a nil test, and a success path of the parser leaves it unset", f))
					}
				}
				for _, m := range list {
					probs.msgs[fmt.Sprintf("%s  [parser: %s | printer: %s]", m, mr.parserSeq, mr.printerSeq)] = true
				}
				for _, m := range mr.openClass {
					infos[m] = true
				}
			}
			if len(unres) > 0 {
				c.unres(key, pos, "%s", strings.Join(sortedSet(unres), "; "))
				continue
			}
			if len(probs.msgs) > 0 {
				c.bad(key, pos, "%s", strings.Join(sortedSet(probs.msgs), " ;; "))
			} else {
				c.ok(key, pos, "%d success paths, %d distinct token sequences, all matched by the printer", len(gm.paths), len(seqs))
			}
			if aspect == "checked" {
				for m := range infos {
					c.info(key, pos, "%s", m)
				}
			}
		}
	}
	if aspect != "order" {
		return
	}
	// children entered at a token their caller tested: the child's printer must start with that very terminal
	for _, gm := range g.methods {
		seen := map[string]bool{}
		for _, gp := range gm.paths {
			for _, e := range gp.events {
				if e.kind != gChild || e.fresh || e.childType == "" || e.first == nil || !e.first.checked || len(e.first.types) != 1 {
					continue
				}
				pe := g.printers[e.childType]
				if pe == nil {
					continue
				}
				var k int64
				for kk := range e.first.types {
					k = kk
				}
				key := fmt.Sprintf("%s: child %s (%s) entered at %s", gm.method.Name(), e.field, e.childType, t.tc.name(k))
				if seen[key] {
					continue
				}
				seen[key] = true
				ft, ok := firstTerminal(t, pe.root)
				switch {
				case !ok:
					c.info(key, e.pos, "the child's printer does not start with a fixed terminal")
				case ft != k:
					c.bad(key, e.pos, "the caller tests %s before entering the child, but %s's printer starts with %s", t.tc.name(k), e.childType, t.tc.name(ft))
				default:
					c.ok(key, e.pos, "the terminal the caller tested is the first thing the child's printer writes")
				}
			}
		}
	}
}

func sortedSet(m map[string]bool) []string {
	var out []string
	for k := range m {
		out = append(out, k)
	}
	sort.Strings(out)
	return out
}

// ruleNoFusion: R1.2 / R3.4. One obligation per (printer, pair of adjacent leaves, output mode).
func ruleNoFusion(c *Ctx, t *tables, g *grammarModel, modes ...string) {
	fm := c.fusionModel(t, g)
	guard := c.findSepGuard()
	gd := map[string]any{"found": guard.method != nil, "problems": guard.problems, "writers_not_consulting": guard.notes, "text_writers_that_consult_it": guard.writers, "active_in": guard.modes}
	if guard.method != nil {
		gd["method"], gd["predicate"] = fnName(guard.method), fnName(guard.pred)
	}
	c.Tables["A3_separator_guard"] = gd
	if guard.method != nil && len(guard.problems) > 0 {
		c.info("separator guard", guard.pos, "a separator guard exists but is not credited: %s", strings.Join(guard.problems, "; "))
	}
	first := map[string]string{}
	for _, n := range fm.nodeTypesAll {
		if s := fm.sums["compact"][n]; s != nil {
			var f, l []string
			for k := range s.first {
				f = append(f, k)
			}
			for k := range s.last {
				l = append(l, k)
			}
			sort.Strings(f)
			sort.Strings(l)
			first[n] = fmt.Sprintf("nullable=%v FIRST={%s} LAST={%s}", s.nullable, strings.Join(f, " "), strings.Join(l, " "))
		}
	}
	c.Tables["A3_first_last_compact"] = first
	if len(modes) == 0 {
		modes = []string{"compact", "pretty"}
	}
	for _, n := range fm.nodeTypesAll {
		if is := fm.issues[n]; len(is) > 0 {
			c.unres("printer of "+n, token.NoPos, "%s", strings.Join(dedupSorted(is), "; "))
			continue
		}
		for _, mode := range modes {
			type site struct {
				pos     token.Pos
				pairs   int
				fusing  []string
				guarded []string
			}
			sites := map[string]*site{}
			var order []string
			for _, ap := range fm.adjacencies(mode, n) {
				key := fmt.Sprintf("%s: %s · %s [%s]", n, ap.from, ap.to, mode)
				st := sites[key]
				if st == nil {
					st = &site{pos: ap.pos}
					sites[key] = st
					order = append(order, key)
				}
				st.pairs++
				if fz, why := fm.fuses(ap.x, ap.y); fz {
					if guard.covers(mode, ap.x, ap.y) {
						st.guarded = append(st.guarded, ap.x.key+"·"+ap.y.key)
					} else {
						st.fusing = append(st.fusing, fmt.Sprintf("%s·%s (%s)", ap.x.key, ap.y.key, why))
					}
				}
			}
			for _, key := range order {
				st := sites[key]
				if len(st.fusing) > 0 {
					sort.Strings(st.fusing)
					c.bad(key, st.pos, "written back to back with no separator: %s — the output lexes to a different token sequence than the tree", strings.Join(st.fusing, ", "))
					continue
				}
				d := fmt.Sprintf("%d lexeme pairs, none fuses", st.pairs)
				if len(st.guarded) > 0 {
					sort.Strings(st.guarded)
					d = fmt.Sprintf("%d lexeme pairs; %s would fuse and the writer's separator guard (%s, folded on each pair) puts a space between them", st.pairs, strings.Join(st.guarded, ", "), fnName(guard.pred))
				}
				c.ok(key, st.pos, "%s", d)
			}
		}
	}
}

// ruleSemiCompact: on every path through WriteSemi on which the PrettyPrint switch is read as false, ';' is written.
func ruleSemiCompact(c *Ctx) {
	c.buildSSA()
	f := c.fn("(*ast.CodeWriter).WriteSemi")
	pretty := c.fieldByName("ast", "CodeWriter", "PrettyPrint")
	semis := c.fieldByName("ast", "CodeWriter", "WriteSemicolons")
	if f == nil || pretty == nil {
		c.unres("WriteSemi", token.NoPos, "(*CodeWriter).WriteSemi or CodeWriter.PrettyPrint not found")
		return
	}
	writesSemi := func(b *ssa.BasicBlock) bool {
		for _, in := range b.Instrs {
			if call, ok := in.(*ssa.Call); ok && len(call.Call.Args) >= 2 {
				if k, ok := constInt64(call.Call.Args[len(call.Call.Args)-1]); ok && k == ';' {
					return true
				}
				if k, ok := call.Call.Args[len(call.Call.Args)-1].(*ssa.Const); ok && k.Value != nil && k.Value.Kind() == constant.String && constant.StringVal(k.Value) == ";" {
					return true
				}
			}
		}
		return false
	}
	n := 0
	var walk func(b *ssa.BasicBlock, prettyVal, semisVal int, wrote bool, depth int)
	walk = func(b *ssa.BasicBlock, prettyVal, semisVal int, wrote bool, depth int) {
		if depth > 64 {
			c.unres("WriteSemi", f.Pos(), "control flow too deep (loop?)")
			return
		}
		wrote = wrote || writesSemi(b)
		if len(b.Succs) == 0 {
			n++
			key := fmt.Sprintf("WriteSemi: path #%d", n)
			mode := "PrettyPrint not read"
			switch prettyVal {
			case 0:
				mode = "PrettyPrint=false"
			case 1:
				mode = "PrettyPrint=true"
			}
			switch {
			case prettyVal != 1 && !wrote:
				c.bad(key, f.Pos(), "%s: the statement terminator is not written — compact output runs two statements together", mode)
			case prettyVal == 1 && semisVal == 1 && !wrote:
				c.bad(key, f.Pos(), "pretty printing with semicolons requested, but ';' is not written")
			case prettyVal == 1 && semisVal == 0 && wrote:
				c.bad(key, f.Pos(), "pretty printing without semicolons requested, but ';' is written")
			default:
				c.ok(key, f.Pos(), "%s, WriteSemicolons=%d: ';' written=%v", mode, semisVal, wrote)
			}
			return
		}
		if ifi := blockIf(b); ifi != nil {
			cond := ifi.Cond
			neg := false
			if u, ok := cond.(*ssa.UnOp); ok && u.Op == token.NOT {
				cond, neg = u.X, true
			}
			for i, s := range b.Succs {
				val := 1 - i // succ 0 = cond true
				if neg {
					val = 1 - val
				}
				pv, sv := prettyVal, semisVal
				if _, ok := isFieldLoad(cond, pretty); ok {
					if pv >= 0 && pv != val {
						continue
					}
					pv = val
				} else if semis != nil {
					if _, ok := isFieldLoad(cond, semis); ok {
						if sv >= 0 && sv != val {
							continue
						}
						sv = val
					}
				}
				walk(s, pv, sv, wrote, depth+1)
			}
			return
		}
		for _, s := range b.Succs {
			walk(s, prettyVal, semisVal, wrote, depth+1)
		}
	}
	walk(f.Blocks[0], -1, -1, false, 0)
}
