package main

func init() {
	register("C03", &propSpec{
		run: runC03,
		explanation: "Trees built programmatically never come from the parser, so the printer's own precedence knowledge is the mechanism. Decided on the current source: " +
			"R3.1 the printer-side precedence function (folded by constant propagation for every token constant) equals the parser's binding-power table entry by entry, and the atomic level is above every binding power; " +
			"R3.2 every expression node type reports the level at which the parser produces it (infix entry -> binding power of its token; prefix operator -> the level its operand is parsed at; self-delimiting prefix forms -> atomic); " +
			"R3.3 in every operator printer each operand (derived from the parse method: the left parameter, or a sub-parse above the lowest level) is written inside parentheses controlled by a pure comparison of the operand's level with the node's level, which is evaluated over ALL orderings of levels (finite) against the requirement 'left: child < own; right operand of an infix node: child <= own; prefix operand: child < own', with '(' and ')' under the same condition and enclosing the operand. " +
			"R3.4 no two lexemes that the printers can write next to each other (FIRST/LAST sets over all node types that can fill each slot) fuse into another token, except where the writer's separator guard, folded on that byte pair, inserts a space (the defect this rule found, '-' '-x' printed as '--x', is repaired by a fix: commit); " +
			"R3.5 the printer writes the tokens of every parse path in the order the parser consumed them, so re-parsing meets the same token sequence. " +
			"A pass means these necessary conditions hold for every path/ordering; it does NOT show shape equality after re-parse. R3.6 the first lexeme of an expression statement: every expression node type that writes '{' or 'function' first is parenthesised by the statement printer (the guarding predicate read as a type switch and checked by structural induction against the printer event trees), and no parse method hands an inner node through after consuming other tokens.",
		notDecided: []string{"equality of tree shapes after print+parse (needs running both)", "a LetExpression as an expression statement (known finding of R3.6: parentheses cannot repair it)", "callee/object operands looser than call level (outside the property's quantifier)"},
	})
}

func runC03(c *Ctx) {
	t := c.tables()
	c.rule("R3.1", "printer precedence function = parser binding-power table, token by token; atomic level above all")
	c.floor(20)
	ruleTablesAgree(c, t)
	c.rule("R3.2", "each expression node type reports the level at which the parser produces it")
	c.floor(12)
	ruleNodeLevels(c, t)
	c.rule("R3.3", "operand parenthesisation guards evaluated over all level orderings; balanced; enclosing the operand")
	c.floor(8)
	ruleParenGuards(c, t)
	if c.extractorProblems(t, "lexemes", "parser", "printer") {
		return
	}
	g := c.grammar(t)
	c.Tables["A2_parse_paths"] = g.dump(t)
	c.rule("R3.4", "no token fusion between adjacent lexemes of the printed output (compact and pretty; every node type that can fill an operand slot, not only parsed shapes), separator guard credited per pair (= R1.2)")
	c.floor(200)
	ruleNoFusion(c, t, g)
	c.rule("R3.5", "token-order agreement: the printer writes exactly the tokens each parse path consumed, in that order (= R1.1)")
	c.floor(25)
	ruleTokenOrder(c, t, g, "order")
	c.rule("R3.6", "the first lexeme of an expression statement: an expression whose text begins with a lexeme the statement dispatcher routes elsewhere ({, function) is parenthesised by the statement printer — the guarding predicate answers true for every node type that writes such a lexeme first and follows every node type into the operand it prints first — and no parse method returns an inner node after consuming other tokens (the parentheses of the source stay in the tree)")
	c.floor(8)
	ruleStatementStart(c, t, g)
}
