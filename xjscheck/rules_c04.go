package main

import (
	"fmt"
	"go/token"
	"go/types"
	"sort"

	"golang.org/x/tools/go/ssa"
)

func init() {
	register("C04", &propSpec{
		run: runC04,
		explanation: "The wiring that makes pass-through interception transparent, ordered and re-entrant, decided in SSA on the current source: " +
			"R4.1 each of the three installers (found by role: the function that stores a closure into Lexer.nextToken / Parser.statementParseFn / Parser.expressionParseFn) stores a wrapper that calls the interceptor exactly once, with the wrapper's own parser/lexer argument and a `next` closure, and returns its result unchanged; `next` calls the PREVIOUSLY stored function value (loaded before the store) exactly once with the same receiver — for expressions with the wrapper's own precedence — and returns its result unchanged; " +
			"R4.2 with that polarity (last applied = outermost) the constructor applies statement and expression interceptors in descending index order over slices the builder only appends to, so the first installed runs first; " +
			"R4.3 the three base functions are referenced only as the initial values of the three function fields (every recursion goes through the chain), and the inside of one expression step (what the base expression function calls to parse a prefix and its continuation) is called only from the base function, from inside the step, or from API entry points the library itself never calls; a wrapper that takes the binding power as a parameter hands that parameter to the chain; the parser's NextToken calls the lexer's NextToken exactly once, which calls the chain exactly once; " +
			"R4.4 the chain is entered only after the trivia skipper ran, and the base token function never skips trivia itself; " +
			"R4.5 only the expression wrapper writes the 'requested binding power' field: it saves the old value, sets its own precedence argument, and restores the saved value on every exit through an unconditional deferred store registered before the interceptor call; ParseRemainingExpression passes the field unmodified. " +
			"Equality of tokens/tree/errors/output with and without interceptors is not compared.",
		notDecided: []string{"equality of results with/without interceptors as a runtime comparison", "'once per parse step' as a count over executions", "interceptors that are not pass-through"},
	})
}

type installer struct {
	fn      *ssa.Function // the installer
	fld     *types.Var    // the function field
	wrapper *ssa.Function // the stored closure
	store   *ssa.Store
	param   *ssa.Parameter // the interceptor parameter
	kind    string
}

func findInstallers(c *Ctx, t *tables) ([]installer, *types.Var) {
	lexFld := c.fieldByType("lexer", "Lexer", func(ty types.Type) bool { return isFuncReturning(ty, 1, "token", "Token") })
	flds := map[*types.Var]string{t.pt.stmtFld: "statement", t.pt.exprFld: "expression"}
	if lexFld != nil {
		flds[lexFld] = "token"
	}
	var out []installer
	for _, f := range c.libFunctions("parser", "lexer") {
		allInstrs(f, func(_ *ssa.BasicBlock, _ int, in ssa.Instruction) {
			st, ok := in.(*ssa.Store)
			if !ok {
				return
			}
			fa, ok := st.Addr.(*ssa.FieldAddr)
			if !ok {
				return
			}
			kind, ok := flds[fieldOfAddr(fa)]
			if !ok {
				return
			}
			mc, ok := st.Val.(*ssa.MakeClosure)
			if !ok {
				return
			}
			ins := installer{fn: f, fld: fieldOfAddr(fa), wrapper: mc.Fn.(*ssa.Function), store: st, kind: kind}
			for _, p := range f.Params {
				if _, isSig := p.Type().Underlying().(*types.Signature); isSig {
					ins.param = p
				}
			}
			out = append(out, ins)
		})
	}
	return out, lexFld
}

func runC04(c *Ctx) {
	t := c.tables()
	a := c.parserAnchors()
	c.rule("R4.0", "anchors")
	for _, p := range a.problems {
		c.unres("anchors", token.NoPos, "%s", p)
	}
	if c.extractorProblems(t, "parser") || a.ctor == nil {
		return
	}
	ins, lexFld := findInstallers(c, t)
	if lexFld == nil {
		c.unres("lexer chain field", token.NoPos, "no func(*Lexer) token.Token field in Lexer")
		return
	}
	c.ok("anchors", token.NoPos, "%d installers found", len(ins))

	c.rule("R4.1", "wrapper shape: interceptor called once with the wrapper's own argument and next; next calls the previously stored function once with the same arguments; results returned unchanged")
	c.floor(9)
	kinds := map[string]bool{}
	for _, in := range ins {
		kinds[in.kind] = true
		checkWrapper(c, in)
	}
	for _, k := range []string{"token", "statement", "expression"} {
		if !kinds[k] {
			c.unres(k+" installer", token.NoPos, "no function stores a closure into the %s function field", k)
		}
	}

	c.rule("R4.2", "installation order: constructor applies statement/expression interceptors in descending index order; builder appends in call order")
	c.floor(4)
	for _, in := range ins {
		if in.kind == "token" {
			continue
		}
		checkInstallOrder(c, a, in)
	}

	c.rule("R4.3", "base functions referenced only as initial field values; NextToken chain called exactly once per token")
	c.floor(5)
	checkBaseReferences(c, t, a, lexFld)

	c.rule("R4.4", "the token chain runs after the trivia skipper; the base token function does not skip trivia")
	c.floor(2)
	checkTriviaBeforeChain(c, lexFld)

	c.rule("R4.5", "save/restore of the requested binding power around the interceptor call, on every exit")
	c.floor(4)
	for _, in := range ins {
		if in.kind == "expression" {
			checkSaveRestore(c, t, a, in)
		}
	}
}

// nonRecoverReturns lists the returns of f outside its recover block.
func nonRecoverReturns(f *ssa.Function) []*ssa.Return {
	var out []*ssa.Return
	for _, b := range f.Blocks {
		if b == f.Recover {
			continue
		}
		if len(b.Instrs) == 0 {
			continue
		}
		if r, ok := b.Instrs[len(b.Instrs)-1].(*ssa.Return); ok {
			out = append(out, r)
		}
	}
	return out
}

// returnsValue: every non-recover return of f yields exactly v (directly or through a result cell whose stores are all v).
func returnsValue(f *ssa.Function, v ssa.Value) bool {
	rets := nonRecoverReturns(f)
	if len(rets) == 0 {
		return false
	}
	for _, r := range rets {
		if len(r.Results) != 1 {
			return false
		}
		res := r.Results[0]
		if res == v {
			continue
		}
		sts := cellStores(res)
		if len(sts) == 0 {
			return false
		}
		// the result cell must not be modified piecewise (field/element stores)
		if u, ok := res.(*ssa.UnOp); ok {
			for _, rr := range *u.X.Referrers() {
				switch rr.(type) {
				case *ssa.FieldAddr, *ssa.IndexAddr:
					return false
				}
			}
		}
		for _, st := range sts {
			if st.Val != v {
				return false
			}
		}
	}
	return true
}

// wrapperCombinator recognises a wrapper that runs its interceptor call inside a private "call once" combinator:
//
//	return p.with…(arg, func() T { return interceptor(p, next) })
//
// H is an unexported function of the package that is only called (statically) from the wrapper, calls its
// function-typed parameter exactly once on every path to a return and returns that call's result unchanged. The
// closure handed to it then plays the role of the wrapper body.
type combinator struct {
	h        *ssa.Function
	call     *ssa.Call     // the call of h in the wrapper
	body     *ssa.Function // the closure handed to h
	bodyCall *ssa.Call     // the call of the function parameter inside h
}

func wrapperCombinator(c *Ctx, w *ssa.Function) *combinator {
	var out *combinator
	allInstrs(w, func(_ *ssa.BasicBlock, _ int, ins ssa.Instruction) {
		call, ok := ins.(*ssa.Call)
		if !ok || out != nil {
			return
		}
		h := call.Call.StaticCallee()
		if h == nil || h.Pkg != w.Pkg || h.Blocks == nil {
			return
		}
		for i, a := range call.Call.Args {
			mc, ok := a.(*ssa.MakeClosure)
			if !ok || i >= len(h.Params) {
				continue
			}
			k, ok := mc.Fn.(*ssa.Function)
			if !ok || k.Parent() != w {
				continue
			}
			// h calls that parameter exactly once, on every path, and returns its result
			var pcalls []*ssa.Call
			for _, g := range append([]*ssa.Function{h}, h.AnonFuncs...) {
				allInstrs(g, func(_ *ssa.BasicBlock, _ int, hi ssa.Instruction) {
					if pc, ok := hi.(*ssa.Call); ok && !pc.Call.IsInvoke() && resolve(pc.Call.Value) == ssa.Value(h.Params[i]) {
						pcalls = append(pcalls, pc)
					}
				})
			}
			if len(pcalls) != 1 || pcalls[0].Parent() != h || len(pcalls[0].Call.Args) != 0 {
				continue
			}
			onAll := true
			for _, r := range nonRecoverReturns(h) {
				if !pcalls[0].Block().Dominates(r.Block()) {
					onAll = false
				}
			}
			if !onAll || !returnsValue(h, pcalls[0]) {
				continue
			}
			// closed: only the wrapper calls it
			args, closed := c.argsAtCallers(h, i)
			if !closed || len(args) != 1 {
				continue
			}
			out = &combinator{h: h, call: call, body: k, bodyCall: pcalls[0]}
		}
	})
	return out
}

func checkWrapper(c *Ctx, in installer) {
	w := in.wrapper
	key := fmt.Sprintf("%s wrapper (%s)", in.kind, fnName(in.fn))
	if in.param == nil {
		c.unres(key, in.fn.Pos(), "installer has no function-typed parameter")
		return
	}
	// 1. the interceptor call
	outer := w
	isICall := func(ins ssa.Instruction) (*ssa.Call, bool) {
		call, ok := ins.(*ssa.Call)
		return call, ok && !call.Call.IsInvoke() && resolve(call.Call.Value) == ssa.Value(in.param)
	}
	direct := false
	allInstrs(w, func(_ *ssa.BasicBlock, _ int, ins ssa.Instruction) {
		if _, ok := isICall(ins); ok {
			direct = true
		}
	})
	if !direct {
		if cb := wrapperCombinator(c, w); cb != nil {
			// the wrapper runs the call inside a call-once combinator: the closure it hands over is the body
			onAll := true
			for _, r := range nonRecoverReturns(w) {
				if !cb.call.Block().Dominates(r.Block()) {
					onAll = false
				}
			}
			c.check(onAll && returnsValue(w, cb.call), key+": runs its body through "+cb.h.Name(), cb.call.Pos(), cb.h.Name()+" calls the closure exactly once on every path and returns its result, and the wrapper returns that", "the wrapper does not return the result of its call-once helper on every path")
			w = cb.body
		}
	}
	var icalls []*ssa.Call
	allInstrs(w, func(_ *ssa.BasicBlock, _ int, ins ssa.Instruction) {
		if call, ok := isICall(ins); ok {
			icalls = append(icalls, call)
		}
	})
	// also inside nested closures: the interceptor must not be called from there
	var nested func(f *ssa.Function)
	nested = func(f *ssa.Function) {
		for _, n := range f.AnonFuncs {
			allInstrs(n, func(_ *ssa.BasicBlock, _ int, ins ssa.Instruction) {
				if call, ok := isICall(ins); ok && n != w {
					icalls = append(icalls, call)
				}
			})
			nested(n)
		}
	}
	nested(outer)
	if len(icalls) != 1 || icalls[0].Parent() != w {
		c.bad(key+": interceptor called exactly once", w.Pos(), "the wrapper must call the interceptor exactly once on every path (found %d call sites)", len(icalls))
		return
	}
	ic := icalls[0]
	onAll := true
	for _, r := range nonRecoverReturns(w) {
		if !ic.Block().Dominates(r.Block()) {
			onAll = false
		}
	}
	c.check(onAll, key+": interceptor called exactly once", ic.Pos(), "one call, on every path", "the interceptor call is skipped on some path")
	c.check(returnsValue(w, ic), key+": result returned unchanged", ic.Pos(), "the wrapper returns the interceptor's result itself", "the wrapper post-processes or replaces the interceptor's result")
	// arguments
	args := ic.Call.Args
	if len(args) != 2 {
		c.unres(key+": arguments", ic.Pos(), "expected (receiver, next)")
		return
	}
	c.check(resolve(args[0]) == ssa.Value(outer.Params[0]), key+": receiver argument", ic.Pos(), "the wrapper's own first parameter is passed on", "the interceptor is given a parser/lexer other than the wrapper's own argument")
	mc, ok := args[1].(*ssa.MakeClosure)
	if !ok {
		c.unres(key+": next", ic.Pos(), "the second argument is not a closure created in the wrapper")
		return
	}
	n := mc.Fn.(*ssa.Function)
	// 2. next
	var ncalls []*ssa.Call
	allInstrs(n, func(_ *ssa.BasicBlock, _ int, ins ssa.Instruction) {
		if call, ok := ins.(*ssa.Call); ok && !call.Call.IsInvoke() {
			if _, isBuiltin := call.Call.Value.(*ssa.Builtin); !isBuiltin {
				ncalls = append(ncalls, call)
			}
		}
	})
	if len(ncalls) != 1 || len(n.Blocks) != 1 {
		c.bad(key+": next calls the previous function exactly once", n.Pos(), "next must consist of exactly one call of the previously installed function (found %d calls, %d blocks)", len(ncalls), len(n.Blocks))
		return
	}
	nc := ncalls[0]
	prev := resolve(nc.Call.Value)
	_, isPrevLoad := isFieldLoad(prev, in.fld)
	prevInstr, _ := prev.(ssa.Instruction)
	good := isPrevLoad && prevInstr != nil && prevInstr.Parent() == in.fn && instrDominates(prevInstr, in.store)
	c.check(good, key+": next calls the previous function exactly once", nc.Pos(), "calls the value the field held before the wrapper was stored", "next does not call the previously installed function value (loaded before the wrapper is stored): the chain is broken or re-enters itself")
	c.check(returnsValue(n, nc), key+": next returns the result unchanged", nc.Pos(), "returned as is", "next alters the result of the inner parse")
	okArgs := len(nc.Call.Args) == len(outer.Params)
	if okArgs {
		for i, p := range outer.Params {
			if resolve(nc.Call.Args[i]) != ssa.Value(p) {
				okArgs = false
			}
		}
	}
	c.check(okArgs, key+": next passes the wrapper's own arguments", nc.Pos(), "same receiver (and, for expressions, the same precedence)", "next re-enters with other arguments than the wrapper received (e.g. another precedence): the default path and the intercepted path build different trees")
}

// checkInstallOrder: ctor loop descending; builder appends.
func checkInstallOrder(c *Ctx, a *parserAnchors, in installer) {
	key := in.kind + " interceptors"
	// calls of the installer in the constructor
	var calls []*ssa.Call
	for _, f := range c.ctorScope(a) {
		allInstrs(f, func(_ *ssa.BasicBlock, _ int, ins ssa.Instruction) {
			if call, ok := ins.(*ssa.Call); ok && call.Call.StaticCallee() == in.fn {
				calls = append(calls, call)
			}
		})
	}
	if len(calls) != 1 {
		c.unres(key+": application loop", a.ctor.Pos(), "expected one call of %s in the constructor, found %d", fnName(in.fn), len(calls))
		return
	}
	call := calls[0]
	// range-over-func form:  for _, x := range slices.Backward(opts.s) { install(x) }  — the body is a synthetic yield
	// closure of the constructor, the iterator a call of slices.Backward (descending) / slices.All, slices.Values (ascending)
	host := call.Parent()
	if host.Parent() != nil {
		host = host.Parent()
	}
	if y := call.Parent(); y != host {
		var argIdx = -1
		for i, p := range in.fn.Params {
			if p == in.param {
				argIdx = i
			}
		}
		isYieldParam := argIdx >= 0 && len(y.Params) >= 1 && call.Call.Args[argIdx] == ssa.Value(y.Params[len(y.Params)-1])
		var iter *ssa.Call
		allInstrs(host, func(_ *ssa.BasicBlock, _ int, ins ssa.Instruction) {
			dc, ok := ins.(*ssa.Call)
			if !ok || dc.Call.StaticCallee() != nil || len(dc.Call.Args) != 1 {
				return
			}
			if mc, ok := dc.Call.Args[0].(*ssa.MakeClosure); ok && mc.Fn == ssa.Value(y) {
				iter, _ = dc.Call.Value.(*ssa.Call)
			}
		})
		name := ""
		if iter != nil && iter.Call.StaticCallee() != nil && pkgPathOf(iter.Call.StaticCallee()) == "slices" {
			name = iter.Call.StaticCallee().Name()
			if o := iter.Call.StaticCallee().Origin(); o != nil {
				name = o.Name()
			}
		}
		switch {
		case !isYieldParam || iter == nil:
			c.unres(key+": applied in descending index order", call.Pos(), "range-over-func loop whose iterator or loop variable is not recognised (accepted: for _, x := range slices.Backward(s) { install(x) })")
			return
		case name == "Backward":
			c.ok(key+": applied in descending index order", call.Pos(), "range over slices.Backward: last installed is applied first, so the first installed ends up outermost and runs first")
		case name == "All" || name == "Values":
			c.bad(key+": applied in descending index order", call.Pos(), "interceptors are applied in ascending order: the LAST installed becomes the outermost wrapper and runs first")
			return
		default:
			c.unres(key+": applied in descending index order", call.Pos(), "iterator %s not recognised (accepted: slices.Backward)", name)
			return
		}
		checkBuilderAppendOnly(c, key, call, iter.Call.Args[0])
		return
	}
	// argument: element of a slice at index phi
	var arg ssa.Value
	for i, p := range in.fn.Params {
		if p == in.param {
			arg = call.Call.Args[i]
		}
	}
	u, ok := arg.(*ssa.UnOp)
	var ia *ssa.IndexAddr
	if ok {
		ia, _ = u.X.(*ssa.IndexAddr)
	}
	if ia == nil {
		c.unres(key+": application loop", call.Pos(), "the interceptor passed to the installer is not an indexed element of a slice (accepted idiom: for i := len(s)-1; i >= 0; i-- { install(s[i]) })")
		return
	}
	phi, ok := ia.Index.(*ssa.Phi)
	desc := false
	if ok {
		initOK, stepOK := false, false
		for _, e := range phi.Edges {
			if b, ok := e.(*ssa.BinOp); ok && b.Op == token.SUB {
				if k, ok := constInt64(b.Y); ok && k == 1 {
					if b.X == ssa.Value(phi) {
						stepOK = true
					} else if l, ok := isBuiltinCall(b.X, "len"); ok && sameSliceSource(l.Call.Args[0], ia.X) {
						initOK = true
					}
				}
			}
		}
		guard := false
		for _, ob := range host.Blocks {
			if iff := blockIf(ob); iff != nil {
				if b, ok := iff.Cond.(*ssa.BinOp); ok && b.X == ssa.Value(phi) {
					if k, ok := constInt64(b.Y); ok && ((b.Op == token.GEQ && k == 0) || (b.Op == token.GTR && k == -1)) && condEdgeDominates(ob, true, call.Block()) {
						guard = true
					}
				}
			}
		}
		desc = initOK && stepOK && guard
	}
	asc := false
	if ok && !desc {
		for _, e := range phi.Edges {
			if b, ok := e.(*ssa.BinOp); ok && b.Op == token.ADD && b.X == ssa.Value(phi) {
				asc = true
			}
		}
	}
	// go/ssa's lowering of `for _, x := range s`: index = phi(-1, index) + 1
	if inc, isInc := ia.Index.(*ssa.BinOp); isInc && inc.Op == token.ADD {
		if k, isK := constInt64(inc.Y); isK && k == 1 {
			if ph, isPhi := inc.X.(*ssa.Phi); isPhi {
				start, step := false, false
				for _, e := range ph.Edges {
					if kk, ok := constInt64(e); ok && kk == -1 {
						start = true
					}
					if e == ssa.Value(inc) {
						step = true
					}
				}
				if start && step {
					asc = true
				}
			}
		}
	}
	// an ascending walk over a reversed COPY of the options slice is the same order
	if rc, ok := ia.X.(*ssa.Call); ok && asc && !desc && len(rc.Call.Args) == 1 && reversedCopy(rc.Call.StaticCallee()) {
		c.ok(key+": applied in descending index order", call.Pos(), "range over %s(s), a reversed copy: last installed is applied first", rc.Call.StaticCallee().Name())
		checkBuilderAppendOnly(c, key, call, rc.Call.Args[0])
		return
	}
	if rc, ok := ia.X.(*ssa.Call); ok {
		nm := "a call"
		if cal := rc.Call.StaticCallee(); cal != nil {
			nm = cal.Name()
		}
		c.unres(key+": applied in descending index order", call.Pos(), "the interceptors are taken from the result of %s, which is not a recognised reversed copy of the options slice (accepted: r := slices.Clone(s); slices.Reverse(r); return r)", nm)
		return
	}
	switch {
	case desc:
		c.ok(key+": applied in descending index order", call.Pos(), "last installed is applied first, so the first installed ends up outermost and runs first")
	case asc:
		c.bad(key+": applied in descending index order", call.Pos(), "interceptors are applied in ascending order: the LAST installed becomes the outermost wrapper and runs first")
	default:
		c.unres(key+": applied in descending index order", call.Pos(), "loop idiom not recognised (accepted: for i := len(s)-1; i >= 0; i-- over the options slice)")
	}
	checkBuilderAppendOnly(c, key, call, ia.X)
}

// checkBuilderAppendOnly: the slice the interceptors are taken from is an options field copied from a builder field
// that the builder only ever appends its parameter to.
func checkBuilderAppendOnly(c *Ctx, key string, call *ssa.Call, slice ssa.Value) {
	// the slice comes from a builder field that the builder only appends to
	src := sliceSourceField(slice)
	if src == nil {
		c.unres(key+": source slice", call.Pos(), "the slice is not a field of the options struct")
		return
	}
	build := c.fn("(*parser.Builder).Build")
	var bfld *types.Var
	if build != nil {
		allInstrs(build, func(_ *ssa.BasicBlock, _ int, ins ssa.Instruction) {
			if st, ok := ins.(*ssa.Store); ok {
				if fa, ok := st.Addr.(*ssa.FieldAddr); ok && fieldOfAddr(fa) == src {
					if u, ok := st.Val.(*ssa.UnOp); ok {
						if bfa, ok := u.X.(*ssa.FieldAddr); ok && namedIs(bfa.X.Type(), "parser", "Builder") {
							bfld = fieldOfAddr(bfa)
						}
					}
				}
			}
		})
	}
	if bfld == nil {
		c.unres(key+": builder slice", call.Pos(), "Build does not copy a builder field into options field %s", src.Name())
		return
	}
	n := 0
	for _, f := range c.libFunctions("parser") {
		allInstrs(f, func(_ *ssa.BasicBlock, _ int, ins ssa.Instruction) {
			st, ok := ins.(*ssa.Store)
			if !ok {
				return
			}
			if _, ok := isFieldAddr(st.Addr, bfld); !ok {
				return
			}
			if copyConstructStore(st) {
				return // a new builder initialised with a clone of another builder's list (order kept by slices.Clone)
			}
			n++
			k2 := fmt.Sprintf("%s: store #%d to builder field %s in %s", key, n, bfld.Name(), fnName(f))
			if el, ok := sliceLitElems(st.Val); ok && len(el) == 0 {
				c.ok(k2, st.Pos(), "initialised empty")
				return
			}
			if app, ok := isBuiltinCall(st.Val, "append"); ok {
				_, base := isFieldLoad(app.Call.Args[0], bfld)
				el, isLit := sliceLitElems(app.Call.Args[1])
				if base && isLit && len(el) == 1 {
					if _, isParam := unwrap(el[0]).(*ssa.Parameter); isParam {
						c.ok(k2, st.Pos(), "appends its parameter at the end (call order is kept)")
						return
					}
				}
			}
			c.bad(k2, st.Pos(), "the builder's interceptor list is modified other than by appending the new interceptor at the end: installation order is not preserved")
		})
	}
}

func sameSliceSource(a, b ssa.Value) bool {
	fa, fb := sliceSourceField(a), sliceSourceField(b)
	return fa != nil && fa == fb
}

func sliceSourceField(v ssa.Value) *types.Var {
	switch x := v.(type) {
	case *ssa.UnOp:
		if fa, ok := x.X.(*ssa.FieldAddr); ok {
			return fieldOfAddr(fa)
		}
	case *ssa.Field:
		return fieldOfField(x)
	}
	return nil
}

func checkBaseReferences(c *Ctx, t *tables, a *parserAnchors, lexFld *types.Var) {
	bases := map[*ssa.Function]*types.Var{}
	for _, fd := range []*types.Var{t.pt.stmtFld, t.pt.exprFld} {
		_ = fd
	}
	if f := c.Prog.FuncValue(c.Pkgs["parser"].TypesInfo.Defs[t.pt.baseStmt.Name].(*types.Func)); f != nil {
		bases[f] = t.pt.stmtFld
	}
	if f := c.Prog.FuncValue(c.Pkgs["parser"].TypesInfo.Defs[t.pt.baseExpr.Name].(*types.Func)); f != nil {
		bases[f] = t.pt.exprFld
	}
	if lt := t.lt; lt.dispatcher != nil {
		if f := c.Prog.FuncValue(c.Pkgs["lexer"].TypesInfo.Defs[lt.dispatcher.Name].(*types.Func)); f != nil {
			bases[f] = lexFld
		}
	}
	if len(bases) != 3 {
		c.unres("base functions", token.NoPos, "expected three base functions, found %d", len(bases))
	}
	for base, fld := range bases {
		n := 0
		for _, f := range c.libFunctions() {
			allInstrs(f, func(_ *ssa.BasicBlock, _ int, in ssa.Instruction) {
				for _, op := range in.Operands(nil) {
					if *op != ssa.Value(base) {
						continue
					}
					n++
					key := fmt.Sprintf("%s referenced in %s #%d", fnName(base), fnName(f), n)
					if st, ok := in.(*ssa.Store); ok && st.Val == ssa.Value(base) {
						if _, ok := isFieldAddr(st.Addr, fld); ok {
							c.ok(key, in.Pos(), "initial value of the interceptable function field")
							continue
						}
					}
					c.bad(key, in.Pos(), "the base function is used directly: this parse step bypasses the interceptor chain")
				}
			})
		}
		if n == 0 {
			c.unres(fnName(base)+": initial value", base.Pos(), "the base function is not stored into its field anywhere")
		}
	}
	// the inside of one expression step — what the base expression function calls to parse a prefix and its infix
	// continuation — is reached only from the base function (or from an API entry point the library itself never
	// calls: the documented re-entry points for interceptors). A parse method that calls such a step directly makes
	// a recursive parse that no expression interceptor sees.
	if bf := c.Prog.FuncValue(c.Pkgs["parser"].TypesInfo.Defs[t.pt.baseExpr.Name].(*types.Func)); bf != nil {
		exprIface := c.lookupType("ast", "Expression")
		yieldsExpr := func(f *ssa.Function) bool {
			return f != nil && f.Pkg == bf.Pkg && f.Signature.Recv() != nil && f.Signature.Results().Len() == 1 && exprIface != nil && types.Identical(f.Signature.Results().At(0).Type(), exprIface)
		}
		step := map[*ssa.Function]bool{}
		var grow func(f *ssa.Function, depth int)
		grow = func(f *ssa.Function, depth int) {
			allInstrs(f, func(_ *ssa.BasicBlock, _ int, in ssa.Instruction) {
				if call, ok := in.(*ssa.Call); ok {
					if g := call.Call.StaticCallee(); yieldsExpr(g) && !step[g] && depth < 3 {
						// only the climbing machinery: functions that do not build a node themselves
						if len(c.constructedNodes(g.Object().(*types.Func))) == 0 {
							step[g] = true
							grow(g, depth+1)
						}
					}
				}
			})
		}
		grow(bf, 0)
		calledInLib := map[*ssa.Function]bool{}
		for _, f := range c.libFunctions() {
			allInstrs(f, func(_ *ssa.BasicBlock, _ int, in ssa.Instruction) {
				if ci, ok := in.(ssa.CallInstruction); ok {
					if g := ci.Common().StaticCallee(); g != nil {
						calledInLib[g] = true
					}
				}
				for _, op := range in.Operands(nil) {
					if op != nil && *op != nil {
						if g, ok := (*op).(*ssa.Function); ok {
							calledInLib[g] = true // referenced as a value (table entry)
							if g.Synthetic != "" && g.Object() != nil {
								// a bound method value / thunk stands for the method itself
								if fo, ok := g.Object().(*types.Func); ok {
									if m := c.Prog.FuncValue(fo); m != nil {
										calledInLib[m] = true
									}
								}
							}
						}
						if mc, ok := (*op).(*ssa.MakeClosure); ok {
							if g, ok := mc.Fn.(*ssa.Function); ok && g.Synthetic != "" && g.Object() != nil {
								if fo, ok := g.Object().(*types.Func); ok {
									if m := c.Prog.FuncValue(fo); m != nil {
										calledInLib[m] = true
									}
								}
							}
						}
					}
				}
			})
		}
		ns := 0
		for _, f := range c.libFunctions("parser") {
			root := f
			for root.Parent() != nil {
				root = root.Parent()
			}
			allInstrs(f, func(_ *ssa.BasicBlock, _ int, in ssa.Instruction) {
				call, ok := in.(*ssa.Call)
				if !ok || !step[call.Call.StaticCallee()] {
					return
				}
				ns++
				key := fmt.Sprintf("%s: calls the expression step %s #%d", fnName(f), call.Call.StaticCallee().Name(), ns)
				okc := root == bf || step[root] || !calledInLib[root]
				c.check(okc, key, call.Pos(), "from the base expression function, from inside the step, or from an API entry point the library never calls", "a parse method parses a sub-expression by calling the inside of the expression step directly instead of going through the interceptable expression function: expression interceptors never see that sub-expression")
			})
		}
		c.Tables["expression_step_functions"] = func() []string {
			var out []string
			for g := range step {
				out = append(out, g.Name())
			}
			sort.Strings(out)
			return out
		}()
	}
	// a wrapper that takes the binding power as a parameter hands that very parameter to the chain (the public
	// ParseExpressionWithPrecedence is what re-entrant interceptors parse operands with; nothing in the library calls it)
	for _, f := range c.libFunctions("parser") {
		if f.Parent() != nil || f.Signature.Recv() == nil || len(f.Blocks) != 1 || f.Signature.Results().Len() != 1 {
			continue
		}
		var intParams []*ssa.Parameter
		for i, p := range f.Params {
			if b, ok := p.Type().Underlying().(*types.Basic); ok && b.Kind() == types.Int && i > 0 {
				intParams = append(intParams, p)
			}
		}
		if len(intParams) != 1 {
			continue
		}
		var chainCall *ssa.Call
		others := 0
		for _, in := range f.Blocks[0].Instrs {
			if call, ok := in.(*ssa.Call); ok {
				if _, ok := isFieldLoad(call.Call.Value, t.pt.exprFld); ok && !call.Call.IsInvoke() && len(call.Call.Args) == 2 {
					chainCall = call
				} else {
					others++
				}
			}
		}
		if chainCall == nil || others > 0 {
			continue
		}
		c.check(resolve(chainCall.Call.Args[1]) == ssa.Value(intParams[0]), fnName(f)+": passes its binding-power parameter to the chain", chainCall.Pos(), "the level handed to the chain is the function's own parameter", "the wrapper takes a binding power and hands something else to the expression chain: an interceptor (or plugin) that parses an operand at a level above the lowest gets the whole rest of the expression instead")
	}
	// recursion sites through the fields (information + floor)
	sites := 0
	for _, f := range c.libFunctions("parser") {
		allInstrs(f, func(_ *ssa.BasicBlock, _ int, in ssa.Instruction) {
			if call, ok := in.(*ssa.Call); ok && !call.Call.IsInvoke() {
				if _, ok := isFieldLoad(call.Call.Value, t.pt.stmtFld); ok {
					sites++
				}
				if _, ok := isFieldLoad(call.Call.Value, t.pt.exprFld); ok {
					sites++
				}
			}
		})
	}
	c.Tables["recursion_sites_through_chain"] = sites
	// NextToken: exactly one lexer.NextToken call; lexer.NextToken: exactly one chain call
	lexNext := c.fn("(*lexer.Lexer).NextToken")
	if lexNext == nil {
		c.unres("lexer.NextToken", token.NoPos, "not found")
		return
	}
	cnt := 0
	allInstrs(a.nextTok, func(_ *ssa.BasicBlock, _ int, in ssa.Instruction) {
		if call, ok := in.(*ssa.Call); ok && call.Call.StaticCallee() == lexNext {
			cnt++
		}
	})
	c.check(cnt == 1 && len(a.nextTok.Blocks) == 1, "parser.NextToken reads exactly one token", a.nextTok.Pos(), "one unconditional call of the lexer's NextToken", fmt.Sprintf("parser.NextToken calls the lexer %d times / conditionally: token interceptors no longer run once per token", cnt))
	cnt = 0
	allInstrs(lexNext, func(_ *ssa.BasicBlock, _ int, in ssa.Instruction) {
		if call, ok := in.(*ssa.Call); ok && !call.Call.IsInvoke() {
			if _, ok := isFieldLoad(call.Call.Value, lexFld); ok {
				cnt++
			}
		}
	})
	c.check(cnt == 1 && len(lexNext.Blocks) == 1, "lexer.NextToken enters the chain exactly once", lexNext.Pos(), "one unconditional call through the chain field", fmt.Sprintf("lexer.NextToken calls the chain %d times / conditionally", cnt))
}

func triviaSkipper(c *Ctx) *ssa.Function {
	buf := c.fieldByTypeUsedIn("lexer", "Lexer", func(t types.Type) bool {
		s, ok := t.Underlying().(*types.Slice)
		if !ok {
			return false
		}
		b, ok := s.Elem().Underlying().(*types.Basic)
		return ok && b.Kind() == types.String
	}, "(*lexer.Lexer).readLeadingComments", "(*lexer.Lexer).NewToken")
	if buf == nil {
		return nil
	}
	appends := map[*ssa.Function]bool{}
	var sk *ssa.Function
	for _, f := range c.libFunctions("lexer") {
		allInstrs(f, func(_ *ssa.BasicBlock, _ int, in ssa.Instruction) {
			if st, ok := in.(*ssa.Store); ok {
				if _, ok := isFieldAddr(st.Addr, buf); ok {
					if _, isApp := isBuiltinCall(st.Val, "append"); isApp {
						appends[f] = true
						sk = f
					}
				}
			}
		})
	}
	if len(appends) <= 1 {
		return sk
	}
	// several functions append (the skipper was split into helpers): the skipper is the one the token entry point
	// calls, from which the others are reached by static calls
	entry := c.fn("(*lexer.Lexer).NextToken")
	if entry == nil {
		return nil
	}
	var reaches func(f *ssa.Function, seen map[*ssa.Function]bool) bool
	reaches = func(f *ssa.Function, seen map[*ssa.Function]bool) bool {
		if f == nil || seen[f] || f.Pkg == nil || f.Pkg != entry.Pkg {
			return false
		}
		seen[f] = true
		if appends[f] {
			return true
		}
		found := false
		allInstrs(f, func(_ *ssa.BasicBlock, _ int, in ssa.Instruction) {
			if ci, ok := in.(ssa.CallInstruction); ok && !found {
				found = reaches(staticCallee(ci), seen)
			}
		})
		return found
	}
	var cands []*ssa.Function
	allInstrs(entry, func(_ *ssa.BasicBlock, _ int, in ssa.Instruction) {
		if ci, ok := in.(ssa.CallInstruction); ok {
			if g := staticCallee(ci); g != nil && reaches(g, map[*ssa.Function]bool{}) {
				cands = append(cands, g)
			}
		}
	})
	if len(cands) != 1 {
		return nil
	}
	return cands[0]
}

// skipperFns: the trivia skipper and its private helpers — unexported methods of the lexer whose every call site is
// in the skipper or in another such helper (so whatever they do happens during trivia skipping and nowhere else).
func (lf *lexFacts) skipperFns() []*ssa.Function {
	if lf.skipper == nil {
		return nil
	}
	if lf.skFns != nil {
		return lf.skFns
	}
	c := lf.c
	in := map[*ssa.Function]bool{lf.skipper: true}
	callers := map[*ssa.Function][]*ssa.Function{}
	for _, g := range c.libFunctions("lexer") {
		allInstrs(g, func(_ *ssa.BasicBlock, _ int, ins ssa.Instruction) {
			if ci, ok := ins.(ssa.CallInstruction); ok {
				if cal := staticCallee(ci); cal != nil && cal.Pkg == g.Pkg {
					callers[cal] = append(callers[cal], g)
				}
			}
		})
	}
	for changed := true; changed; {
		changed = false
		for f, cs := range callers {
			if in[f] || f == lf.advance || f == lf.peekFn || f.Signature.Recv() == nil || len(cs) == 0 {
				continue
			}
			if _, isPred := lf.preds[f]; isPred {
				continue
			}
			all := true
			for _, g := range cs {
				if !in[g] {
					all = false
				}
			}
			if !all {
				continue
			}
			if _, closed := c.argsAtCallers(f, 0); !closed {
				continue
			}
			in[f] = true
			changed = true
		}
	}
	out := []*ssa.Function{lf.skipper}
	var rest []*ssa.Function
	for f := range in {
		if f != lf.skipper {
			rest = append(rest, f)
		}
	}
	sort.Slice(rest, func(i, j int) bool { return fnName(rest[i]) < fnName(rest[j]) })
	lf.skFns = append(out, rest...)
	return lf.skFns
}

func (lf *lexFacts) isSkipperFn(f *ssa.Function) bool {
	for _, g := range lf.skipperFns() {
		if g == f {
			return true
		}
	}
	return false
}

func checkTriviaBeforeChain(c *Ctx, lexFld *types.Var) {
	sk := triviaSkipper(c)
	lexNext := c.fn("(*lexer.Lexer).NextToken")
	if sk == nil || lexNext == nil {
		c.unres("trivia skipper", token.NoPos, "the function that collects leading comments was not found")
		return
	}
	var skCall, chain ssa.Instruction
	allInstrs(lexNext, func(_ *ssa.BasicBlock, _ int, in ssa.Instruction) {
		if call, ok := in.(*ssa.Call); ok {
			if call.Call.StaticCallee() == sk {
				skCall = call
			}
			if _, ok := isFieldLoad(call.Call.Value, lexFld); ok {
				chain = call
			}
		}
	})
	c.check(skCall != nil && chain != nil && instrDominates(skCall, chain), "lexer.NextToken: skipper before chain", lexNext.Pos(), "token interceptors see the lexer positioned on the lexeme's first byte", "the interceptor chain is entered before whitespace/comments were skipped")
	// the base token function (and everything it calls inside the package) never calls the skipper
	base, _ := c.initialFieldFunc("lexer", "Lexer", func(v *types.Var) bool { return v == lexFld })
	if base == nil {
		c.unres("base token function", token.NoPos, "not found")
		return
	}
	bf := c.Prog.FuncValue(base)
	seen := map[*ssa.Function]bool{}
	var reach func(f *ssa.Function) bool
	reach = func(f *ssa.Function) bool {
		if f == nil || seen[f] || f.Blocks == nil {
			return false
		}
		seen[f] = true
		hit := false
		allInstrs(f, func(_ *ssa.BasicBlock, _ int, in ssa.Instruction) {
			if call, ok := in.(ssa.CallInstruction); ok {
				cal := call.Common().StaticCallee()
				if cal == sk {
					hit = true
				}
				if cal != nil && cal.Pkg == bf.Pkg && reach(cal) {
					hit = true
				}
			}
		})
		return hit
	}
	c.check(!reach(bf), "base token function does not skip trivia", bf.Pos(), "the skipper is called only by NextToken", "the base token function skips trivia itself: with interceptors installed, comments/newline flags of the skipped region are lost")
}

func checkSaveRestore(c *Ctx, t *tables, a *parserAnchors, in installer) {
	fld := c.fieldByType("parser", "Parser", func(ty types.Type) bool {
		b, ok := ty.Underlying().(*types.Basic)
		return ok && b.Kind() == types.Int
	})
	if fld == nil {
		// several int fields (a counter added later): the requested binding power is the one the expression wrapper,
		// its closures, or a one-statement setter they call store into
		cands := map[*types.Var]bool{}
		var scan func(f *ssa.Function, depth int)
		scan = func(f *ssa.Function, depth int) {
			if f == nil || depth > 2 {
				return
			}
			allInstrs(f, func(_ *ssa.BasicBlock, _ int, ins ssa.Instruction) {
				if st, ok := ins.(*ssa.Store); ok {
					if fa, ok := st.Addr.(*ssa.FieldAddr); ok && namedIs(fa.X.Type(), "parser", "Parser") {
						if b, ok := fieldOfAddr(fa).Type().Underlying().(*types.Basic); ok && b.Kind() == types.Int {
							cands[fieldOfAddr(fa)] = true
						}
					}
				}
				if call, ok := ins.(ssa.CallInstruction); ok {
					if cal := staticCallee(call); cal != nil && cal.Pkg == f.Pkg && cal.Object() != nil && !cal.Object().Exported() && len(cal.Blocks) == 1 {
						scan(cal, depth+1)
					}
				}
			})
			for _, n := range f.AnonFuncs {
				scan(n, depth)
			}
		}
		scan(in.wrapper, 0)
		if len(cands) == 1 {
			for k := range cands {
				fld = k
			}
		}
	}
	if fld == nil {
		c.unres("requested-binding-power field", token.NoPos, "Parser has no unique int field, and the expression wrapper does not store into exactly one of its int fields")
		return
	}
	w := in.wrapper
	// who may write
	allowed := map[*ssa.Function]bool{w: true}
	for _, n := range w.AnonFuncs {
		allowed[n] = true
	}
	// save/set/restore may live in a call-once combinator the wrapper runs its body through (only the wrapper calls it)
	cb := wrapperCombinator(c, w)
	directCall := false
	allInstrs(w, func(_ *ssa.BasicBlock, _ int, ins ssa.Instruction) {
		if call, ok := ins.(*ssa.Call); ok && !call.Call.IsInvoke() && in.param != nil && resolve(call.Call.Value) == ssa.Value(in.param) {
			directCall = true
		}
	})
	if directCall {
		cb = nil
	}
	if cb != nil {
		allowed[cb.h] = true
		for _, n := range cb.h.AnonFuncs {
			allowed[n] = true
		}
	}
	// a setter of the field: an unexported method whose whole body is `field = <its parameter>`, called directly only;
	// a call of it counts as a store of the argument at the call site
	var setter *ssa.Function
	for _, f := range c.libFunctions("parser") {
		if f.Parent() != nil || f.Object() == nil || f.Object().Exported() || len(f.Blocks) != 1 || len(f.Params) != 2 || f.Signature.Results().Len() != 0 {
			continue
		}
		var st *ssa.Store
		plain := true
		for _, ins := range f.Blocks[0].Instrs {
			switch x := ins.(type) {
			case *ssa.Store:
				if st != nil {
					plain = false
				}
				st = x
			case *ssa.Call, *ssa.Defer, *ssa.Go, *ssa.MapUpdate, *ssa.Send, *ssa.Panic:
				plain = false
			}
		}
		if !plain || st == nil || st.Val != ssa.Value(f.Params[1]) {
			continue
		}
		if fa, ok := isFieldAddr(st.Addr, fld); !ok || fa.X != ssa.Value(f.Params[0]) {
			continue
		}
		if _, closed := c.argsAtCallers(f, 1); closed {
			setter = f
		}
	}
	// a save-and-set helper that returns the restore: `func (p) enter(level int) func() { old := field; field = level;
	// return func() { field = old } }`, used as `defer p.enter(level)()`
	var enterFn *ssa.Function
	for _, f := range c.libFunctions("parser") {
		if f.Parent() != nil || f.Object() == nil || f.Object().Exported() || len(f.Blocks) != 1 || len(f.Params) != 2 || f.Signature.Results().Len() != 1 {
			continue
		}
		if _, isFn := f.Signature.Results().At(0).Type().Underlying().(*types.Signature); !isFn {
			continue
		}
		var ld *ssa.UnOp
		var st *ssa.Store
		var mc *ssa.MakeClosure
		plain := true
		for _, ins := range f.Blocks[0].Instrs {
			switch x := ins.(type) {
			case *ssa.UnOp:
				if _, ok := isFieldLoad(x, fld); ok && ld == nil {
					ld = x
				}
			case *ssa.Store:
				if _, ok := isFieldAddr(x.Addr, fld); ok {
					if st != nil {
						plain = false
					}
					st = x
				} else if !isLocalCell(x.Addr) {
					plain = false
				}
			case *ssa.MakeClosure:
				mc = x
			case *ssa.Call, *ssa.Defer, *ssa.Go, *ssa.MapUpdate, *ssa.Send, *ssa.Panic:
				plain = false
			case *ssa.Return:
				if len(x.Results) != 1 || mc == nil || x.Results[0] != ssa.Value(mc) {
					plain = false
				}
			}
		}
		if !plain || ld == nil || st == nil || mc == nil || st.Val != ssa.Value(f.Params[1]) || !instrDominates(ld, st) {
			continue
		}
		// the closure stores the saved value back, unconditionally, and does nothing else to the field
		cf, _ := mc.Fn.(*ssa.Function)
		if cf == nil || len(cf.Blocks) != 1 {
			continue
		}
		restores := false
		for _, ins := range cf.Blocks[0].Instrs {
			if cst, ok := ins.(*ssa.Store); ok {
				if _, ok := isFieldAddr(cst.Addr, fld); ok {
					// the stored value is the captured saved value (a free variable bound to the load, directly or via a cell)
					restores = true
					if fv, ok := resolve(cst.Val).(*ssa.FreeVar); ok {
						for i, b := range mc.Bindings {
							if i < len(cf.FreeVars) && cf.FreeVars[i] == fv && resolve(b) != ssa.Value(ld) {
								restores = false
							}
						}
					} else if u, ok := cst.Val.(*ssa.UnOp); ok {
						// a captured cell: its only store in the helper is the saved load
						if fv, ok := u.X.(*ssa.FreeVar); ok {
							for i, b := range mc.Bindings {
								if i < len(cf.FreeVars) && cf.FreeVars[i] == fv {
									okCell := false
									if al, ok := b.(*ssa.Alloc); ok {
										n := 0
										for _, r := range *al.Referrers() {
											if s2, ok := r.(*ssa.Store); ok && s2.Addr == ssa.Value(al) {
												n++
												okCell = resolve(s2.Val) == ssa.Value(ld)
											}
										}
										okCell = okCell && n == 1
									}
									if !okCell {
										restores = false
									}
								}
							}
						} else {
							restores = false
						}
					} else {
						restores = false
					}
				}
			}
		}
		if !restores {
			continue
		}
		if _, closed := c.argsAtCallers(f, 1); closed {
			enterFn = f
			allowed[f] = true
			allowed[cf] = true
		}
	}
	setterArg := func(ins ssa.Instruction) (ssa.Value, bool) {
		if setter == nil {
			return nil, false
		}
		switch x := ins.(type) {
		case *ssa.Call:
			if x.Call.StaticCallee() == setter {
				return x.Call.Args[1], true
			}
		}
		return nil, false
	}
	nw := 0
	for _, f := range c.libFunctions("parser") {
		allInstrs(f, func(_ *ssa.BasicBlock, _ int, ins ssa.Instruction) {
			if st, ok := ins.(*ssa.Store); ok && f != setter {
				if _, ok := isFieldAddr(st.Addr, fld); ok {
					nw++
					c.check(allowed[f], fmt.Sprintf("%s: store #%d to %s", fnName(f), nw, fld.Name()), st.Pos(), "written by the expression wrapper only", "the requested binding power is written outside the expression wrapper")
				}
			}
			isSet := false
			if _, ok := setterArg(ins); ok {
				isSet = true
			}
			if d, ok := ins.(*ssa.Defer); ok && setter != nil && d.Call.StaticCallee() == setter {
				isSet = true
			}
			if isSet {
				nw++
				c.check(allowed[f], fmt.Sprintf("%s: store #%d to %s", fnName(f), nw, fld.Name()), ins.Pos(), "written by the expression wrapper only (through its setter)", "the requested binding power is written outside the expression wrapper")
			}
		})
	}
	// in the wrapper: save, set, deferred restore before the interceptor call
	var save *ssa.UnOp
	var set ssa.Instruction
	var setVal ssa.Value
	var icall *ssa.Call
	// the value that must be stored: the wrapper's own precedence argument
	var wantPrec ssa.Value
	if len(w.Params) == 2 {
		wantPrec = w.Params[1]
	}
	if cb != nil {
		// inside the combinator: the call of its function parameter stands for the interceptor call, and the stored
		// value is the parameter that receives the wrapper's precedence argument at the (single) call site
		wantPrec = nil
		for i, a := range cb.call.Call.Args {
			if len(w.Params) == 2 && resolve(a) == ssa.Value(w.Params[1]) && i < len(cb.h.Params) {
				wantPrec = cb.h.Params[i]
			}
		}
		w = cb.h
		icall = cb.bodyCall
	} else {
		allInstrs(w, func(_ *ssa.BasicBlock, _ int, ins ssa.Instruction) {
			if call, ok := ins.(*ssa.Call); ok && !call.Call.IsInvoke() && in.param != nil && resolve(call.Call.Value) == ssa.Value(in.param) {
				icall = call
			}
		})
	}
	allInstrs(w, func(_ *ssa.BasicBlock, _ int, ins ssa.Instruction) {
		switch x := ins.(type) {
		case *ssa.UnOp:
			if _, ok := isFieldLoad(x, fld); ok && save == nil {
				save = x
			}
		case *ssa.Store:
			if _, ok := isFieldAddr(x.Addr, fld); ok && icall != nil && instrDominates(x, icall) {
				set, setVal = x, x.Val
			}
		case *ssa.Call:
			if v, ok := setterArg(x); ok && icall != nil && instrDominates(x, icall) {
				set, setVal = x, v
			}
		}
	})
	key := "expression wrapper"
	handledByHelper := false
	if enterFn != nil && icall != nil {
		var ec *ssa.Call
		allInstrs(w, func(_ *ssa.BasicBlock, _ int, ins ssa.Instruction) {
			if call, ok := ins.(*ssa.Call); ok && call.Call.StaticCallee() == enterFn {
				ec = call
			}
		})
		if ec != nil {
			deferred := false
			allInstrs(w, func(_ *ssa.BasicBlock, _ int, ins ssa.Instruction) {
				if d, ok := ins.(*ssa.Defer); ok && d.Call.Value == ssa.Value(ec) && instrDominates(d, icall) && instrDominates(ec, d) {
					deferred = true
				}
			})
			c.check(instrDominates(ec, icall) && wantPrec != nil && resolve(ec.Call.Args[1]) == wantPrec, key+": save and set", ec.Pos(), "the save-and-set helper is called with the wrapper's own precedence before the interceptor runs", "the field is not set to the wrapper's own precedence argument before the interceptor call")
			c.check(deferred, key+": restore on every exit", ec.Pos(), "the restore the helper returns is deferred before the interceptor call", "the restore returned by the save-and-set helper is not deferred before the interceptor call: a re-entrant interceptor continues the outer expression with the inner level")
			handledByHelper = true
		}
	}
	if !handledByHelper {
		if save == nil || set == nil || icall == nil {
			c.bad(key+": save and set", w.Pos(), "the wrapper must load the old value, then store its precedence argument into the field, before calling the interceptor")
			return
		}
		c.check(instrDominates(save, set) && instrDominates(set, icall) && wantPrec != nil && resolve(setVal) == wantPrec, key+": save and set", set.Pos(), "old value loaded, own precedence stored, before the interceptor runs", "the field is not set to the wrapper's own precedence argument before the interceptor call (or the old value is read after it)")
		// restore: deferred closure registered before the interceptor call, unconditional store of the saved value
		var restoreOK, anyDefer bool
		allInstrs(w, func(_ *ssa.BasicBlock, _ int, ins ssa.Instruction) {
			d, ok := ins.(*ssa.Defer)
			if !ok {
				return
			}
			// defer p.setter(field) / defer p.setter(saved): the argument is evaluated when the defer statement runs, which
			// must be before the field is set
			if setter != nil && d.Call.StaticCallee() == setter {
				anyDefer = true
				if !instrDominates(d, icall) {
					return
				}
				arg := resolve(d.Call.Args[1])
				if ld, ok := arg.(*ssa.UnOp); ok {
					if _, isFld := isFieldLoad(ld, fld); isFld && instrDominates(ld, set) {
						restoreOK = true
					}
				}
				return
			}
			var dfv ssa.Value = d.Call.Value
			if mc, ok := dfv.(*ssa.MakeClosure); ok {
				dfv = mc.Fn
			}
			df, ok := dfv.(*ssa.Function)
			if !ok || df.Parent() == nil {
				return
			}
			anyDefer = true
			if len(df.Blocks) != 1 || !instrDominates(d, icall) {
				return
			}
			allInstrs(df, func(_ *ssa.BasicBlock, _ int, di ssa.Instruction) {
				if st, ok := di.(*ssa.Store); ok {
					if _, ok := isFieldAddr(st.Addr, fld); ok && resolve(st.Val) == ssa.Value(save) {
						restoreOK = true
					}
					// defer func(old int) { field = old }(field): the old value is the defer's argument, evaluated when the
					// defer statement runs — which must be before the field is set
					if _, ok := isFieldAddr(st.Addr, fld); ok && set != nil {
						for i, dp := range df.Params {
							if st.Val == ssa.Value(dp) && i < len(d.Call.Args) {
								if ld, ok := d.Call.Args[i].(*ssa.UnOp); ok {
									if _, isFld := isFieldLoad(ld, fld); isFld && instrDominates(ld, set) {
										restoreOK = true
									}
								}
							}
						}
					}
				}
			})
		})
		if !anyDefer {
			// explicit restore on every return path
			explicit := true
			for _, r := range nonRecoverReturns(w) {
				found := false
				allInstrs(w, func(_ *ssa.BasicBlock, _ int, ins ssa.Instruction) {
					if st, ok := ins.(*ssa.Store); ok && ssa.Instruction(st) != set {
						if _, ok := isFieldAddr(st.Addr, fld); ok && resolve(st.Val) == ssa.Value(save) && instrDominates(icall, st) && st.Block().Dominates(r.Block()) {
							found = true
						}
					}
				})
				if !found {
					explicit = false
				}
			}
			c.check(explicit, key+": restore on every exit", w.Pos(), "the saved value is stored back on every return path", "the requested binding power is not restored after the interceptor returns: a re-entrant interceptor continues the OUTER expression with the INNER level (visible only at nesting depth >= 2)")
		} else {
			c.check(restoreOK, key+": restore on every exit", w.Pos(), "an unconditional deferred store of the saved value, registered before the interceptor call", "the deferred restore is missing, conditional, registered after the interceptor call, or does not store the saved value: a re-entrant interceptor continues the outer expression with the inner level")
		}
	}
	// reader: ParseRemainingExpression passes the field unmodified
	nr := 0
	for _, f := range c.libFunctions("parser") {
		if allowed[f] {
			continue
		}
		allInstrs(f, func(_ *ssa.BasicBlock, _ int, ins ssa.Instruction) {
			u, ok := ins.(*ssa.UnOp)
			if !ok {
				return
			}
			if _, ok := isFieldLoad(u, fld); !ok {
				return
			}
			nr++
			good := true
			for _, r := range *u.Referrers() {
				switch x := r.(type) {
				case *ssa.Call:
					_ = x
				case *ssa.DebugRef:
				default:
					good = false
				}
			}
			c.check(good, fmt.Sprintf("%s: read #%d of %s", fnName(f), nr, fld.Name()), u.Pos(), "passed on unmodified as the level to continue at", "the requested binding power is modified before use")
		})
	}
	if nr == 0 {
		c.unres("reader of "+fld.Name(), token.NoPos, "no function reads the field: re-entrant continuation cannot work")
	}
}

// reversedCopy: f(s) returns a fresh slice holding the elements of s in reverse order and leaves s alone:
// r := slices.Clone(s); slices.Reverse(r); return r — nothing else (in particular no in-place reversal of s).
func reversedCopy(f *ssa.Function) bool {
	if f == nil || f.Blocks == nil || len(f.Params) != 1 || len(f.Blocks) != 1 {
		return false
	}
	var clone, rev *ssa.Call
	ok := true
	var ret *ssa.Return
	for _, in := range f.Blocks[0].Instrs {
		switch x := in.(type) {
		case *ssa.Call:
			cal := x.Call.StaticCallee()
			switch {
			case extFuncIs(cal, "slices", "Clone") && len(x.Call.Args) == 1 && x.Call.Args[0] == ssa.Value(f.Params[0]) && clone == nil:
				clone = x
			case extFuncIs(cal, "slices", "Reverse") && len(x.Call.Args) == 1 && clone != nil && x.Call.Args[0] == ssa.Value(clone) && rev == nil:
				rev = x
			default:
				ok = false
			}
		case *ssa.Return:
			ret = x
		case *ssa.DebugRef:
		default:
			ok = false
		}
	}
	return ok && clone != nil && rev != nil && ret != nil && len(ret.Results) == 1 && ret.Results[0] == ssa.Value(clone)
}
