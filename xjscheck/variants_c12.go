package main

func init() {
	pf := "parser/parser_functions.go"
	pp := "parser/parser.go"
	addVariants(
		variant{Prop: "C12", Name: "asi-accepts-identifier-on-same-line", File: pf, Old: "\tif !p.PeekToken.AfterNewline {\n\t\treturn false\n\t}", New: "\tif !p.PeekToken.AfterNewline {\n\t\treturn p.PeekToken.Type == token.IDENT\n\t}", Rule: "R12.2", Construct: "shouldInsertSemicolon"},
		variant{Prop: "C12", Name: "asi-accepts-rparen", File: pf, Old: "\tif p.PeekToken.Type == token.RBRACE {\n\t\treturn true\n\t}\n\tif !p.PeekToken.AfterNewline {", New: "\tif p.PeekToken.Type == token.RBRACE || p.PeekToken.Type == token.RPAREN {\n\t\treturn true\n\t}\n\tif !p.PeekToken.AfterNewline {", Rule: "R12.2", Construct: "shouldInsertSemicolon"},
		variant{Prop: "C12", Name: "semicolon-not-consumed", File: pp, Old: "\tif p.PeekToken.Type == token.SEMICOLON {\n\t\tp.NextToken()\n\t\treturn true\n\t}\n\tif p.shouldInsertSemicolon() {", New: "\tif p.PeekToken.Type == token.SEMICOLON {\n\t\treturn true\n\t}\n\tif p.shouldInsertSemicolon() {", Rule: "R12.2", Construct: "ExpectSemicolonASI"},
		variant{Prop: "C12", Name: "let-without-initialiser-skips-separator", File: pf, Old: "\t\tstmt.Value = p.ParseExpression()\n\t}\n\tif !p.ExpectSemicolonASI() {\n\t\treturn nil\n\t}\n\treturn stmt\n}\n\n// ParseLetExpression", New: "\t\tstmt.Value = p.ParseExpression()\n\t} else {\n\t\treturn stmt\n\t}\n\tif !p.ExpectSemicolonASI() {\n\t\treturn nil\n\t}\n\treturn stmt\n}\n\n// ParseLetExpression", Rule: "R12.2", Construct: "ParseLetStatement"},
		variant{Prop: "C12", Name: "unclosed-block-error-deleted", File: pf, Old: "\tif p.CurrentToken.Type != token.RBRACE && !p.tolerantMode {\n\t\tp.AddError(\"unclosed block statement, expected '}'\")\n\t}", New: "", Rule: "R12.3", Construct: "ParseBlockStatement"},
		variant{Prop: "C12", Name: "unknown-prefix-silent", File: pf, Old: "\t\tp.AddError(fmt.Sprintf(\"unexpected %s\", p.CurrentToken.Literal))\n\t\treturn nil", New: "\t\t_ = fmt.Sprintf\n\t\treturn nil", Rule: "R12.4", Construct: "ParsePrefixExpression"},
		variant{Prop: "C12", Name: "unterminated-string-accepted-again", File: "lexer/base_functions.go", Old: "\t\tif l.CurrentChar == '\"' {\n\t\t\ttok = l.NewTokenAt(token.STRING, literal, startLine, startColumn)\n\t\t} else {\n\t\t\t// the input ended before the closing delimiter\n\t\t\ttok = l.NewTokenAt(token.ILLEGAL, literal, startLine, startColumn)\n\t\t}", New: "\t\ttok = l.NewTokenAt(token.STRING, literal, startLine, startColumn)", Rule: "R12.5", Construct: "STRING token from readString"},
		variant{Prop: "C12", Name: "unterminated-backtick-check-wrong-byte", File: "lexer/base_functions.go", Old: "\t\tif l.CurrentChar == '`' {", New: "\t\tif l.CurrentChar != '\\\\' {", Rule: "R12.5", Construct: "RAW_STRING token"},
		variant{Prop: "C12", Name: "benign-asi-eof-or-rbrace-merged", File: pf, Old: "\tif p.PeekToken.Type == token.EOF {\n\t\treturn true\n\t}\n\tif p.PeekToken.Type == token.RBRACE {\n\t\treturn true\n\t}", New: "\tif p.PeekToken.Type == token.EOF || p.PeekToken.Type == token.RBRACE {\n\t\treturn true\n\t}", Benign: true},
	)
}
