package main

import (
	"fmt"
	"go/ast"
	"go/constant"
	"go/token"
	"go/types"
	"sort"
	"strings"
)

// A2 — parser-side half of the printer/parser grammar agreement.
//
// Every parse method of package parser that builds an ast node is abstracted, path by path, into the sequence of
// tokens it consumes and the node fields it fills. This is a structural enumeration of the method's typed syntax
// tree (if / for / switch / early return; loops unrolled at most twice), not an execution: token values are never
// known, only which token TYPE the method has tested for at each consumption, which field receives which token or
// sub-parse, and in which order. Anything the enumerator does not understand makes the method "unresolved".
//
// The cursor convention of the parser (checked by the enumeration itself, not assumed): a parse method is entered
// with the construct's first token as CurrentToken and returns with its last token as CurrentToken; a sub-parse
// call therefore *absorbs* the current token as the child's first token.

type gKind int

const (
	gTok gKind = iota
	gChild
	gSemi
)

type gEvt struct {
	kind      gKind
	types     map[int64]bool // token types the token is known to have (nil = not tested)
	notIn     map[int64]bool
	checked   bool   // the method (or its dispatcher) tested the token type before or when consuming it
	how       string // entry | expect | advance | advance(peek==K)
	tokFields []string
	litFields []string
	field     string // child: the node field that receives it
	childType string // child: static node type when known
	first     *gEvt  // child: the token it absorbed
	param     bool   // child: the method's left-operand parameter
	fresh     bool   // child: a node built directly from the current token (&ast.Identifier{Token: p.CurrentToken})
	pos       token.Pos
}

func (e *gEvt) clone() *gEvt {
	c := *e
	c.types = cloneSet(e.types)
	c.notIn = cloneSet(e.notIn)
	c.tokFields = append([]string(nil), e.tokFields...)
	c.litFields = append([]string(nil), e.litFields...)
	if e.first != nil {
		c.first = e.first.clone()
	}
	return &c
}

func cloneSet(m map[int64]bool) map[int64]bool {
	if m == nil {
		return nil
	}
	o := make(map[int64]bool, len(m))
	for k, v := range m {
		o[k] = v
	}
	return o
}

type gvKind int

const (
	vOther gvKind = iota
	vNil
	vNode   // the node under construction
	vTok    // a token (event index)
	vLit    // a token's literal (event index)
	vChild  // a sub-parse result / fresh node (event index)
	vList   // a list (index into state.lists)
	vConst  // a constant
	vStruct // a non-node struct literal (index into state.structs)
	vTuple  // the results of a helper that returns several values (index into state.tuples)
)

type gVal struct {
	kind gvKind
	idx  int
	k    constant.Value
}

type gList struct {
	elems []gVal
}

type gState struct {
	events   []*gEvt
	cur      int // index of the event whose (last) token is the current token
	peekEq   int64
	peekNot  map[int64]bool
	fields   map[string]gVal
	fieldOrd []string
	locals   map[types.Object]gVal
	lists    []*gList
	structs  []map[string]gVal
	tuples   [][]gVal
	ctl      int // 0 none, 1 break, 2 continue, 3 return
	ret      []gVal
	errRec   bool // an error-recording call happened on the path
	failed   bool
	tolerant bool // the path depends on the tolerant-mode flag being set (an error path in strict mode: R13.1)
	notes    []string
	depth    int
}

const (
	ctlNone = iota
	ctlBreak
	ctlContinue
	ctlReturn
)

func (s *gState) clone() *gState {
	c := &gState{cur: s.cur, peekEq: s.peekEq, peekNot: cloneSet(s.peekNot), ctl: s.ctl, errRec: s.errRec, failed: s.failed, tolerant: s.tolerant, depth: s.depth}
	for _, e := range s.events {
		c.events = append(c.events, e.clone())
	}
	c.fields = make(map[string]gVal, len(s.fields))
	for k, v := range s.fields {
		c.fields[k] = v
	}
	c.fieldOrd = append([]string(nil), s.fieldOrd...)
	c.locals = make(map[types.Object]gVal, len(s.locals))
	for k, v := range s.locals {
		c.locals[k] = v
	}
	for _, l := range s.lists {
		c.lists = append(c.lists, &gList{elems: append([]gVal(nil), l.elems...)})
	}
	for _, st := range s.structs {
		m := map[string]gVal{}
		for k, v := range st {
			m[k] = v
		}
		c.structs = append(c.structs, m)
	}
	c.ret = append([]gVal(nil), s.ret...)
	c.notes = append([]string(nil), s.notes...)
	for _, t := range s.tuples {
		c.tuples = append(c.tuples, append([]gVal(nil), t...))
	}
	return c
}

// gPath is one successful path of a parse method.
type gPath struct {
	events  []*gEvt
	fields  map[string]gVal
	lists   []*gList
	structs []map[string]gVal
	notes   []string
}

type gMethod struct {
	method       *types.Func
	node         string
	paths        []*gPath
	failures     int // paths ending in a nil return / recorded error (not compared)
	tolerantOnly int // paths taken only when the tolerant-mode flag is set (not compared: strict mode records an error there)
	// the tolerant-only paths that return the node (kept for the rules about what tolerant mode accepts)
	tolerantPaths []*gPath
	dropped       int // paths cut by the unrolling bound
	issues        []string
	// passThrough: success paths that return a sub-parse result (not the node the method builds) although the path
	// consumed tokens that are not part of that child: those tokens are in the source and not in the tree (R3.6)
	passThrough []string
}

type gx struct {
	c           *Ctx
	t           *tables
	info        *types.Info
	node        string
	recvObj     types.Object             // the *Parser receiver of the method being walked (and of inlined helpers)
	binds       []map[types.Object]int64 // token.Type parameters of inlined helpers bound to constants
	issues      map[string]bool
	gm          *gMethod
	maxIter     int
	tolerantFld *types.Var
}

func (x *gx) issue(format string, args ...any) {
	x.issues[fmt.Sprintf(format, args...)] = true
}

// enumParse enumerates the success paths of parse method m building node type `node`.
func (c *Ctx) enumParse(t *tables, m *types.Func, node string, entry map[int64]bool) *gMethod {
	gm := &gMethod{method: m, node: node}
	fd := c.declIdx[m]
	if fd == nil || fd.Body == nil {
		gm.issues = append(gm.issues, "no declaration")
		return gm
	}
	info := c.Pkgs["parser"].TypesInfo
	x := &gx{c: c, t: t, info: info, node: node, issues: map[string]bool{}, gm: gm, maxIter: 2}
	if a := c.parserAnchors(); a != nil {
		x.tolerantFld = a.tolerant
	}
	s := &gState{peekEq: -1, fields: map[string]gVal{}, locals: map[types.Object]gVal{}}
	// receiver or first parameter of type *Parser
	if fd.Recv != nil && len(fd.Recv.List) == 1 && len(fd.Recv.List[0].Names) == 1 {
		x.recvObj = info.Defs[fd.Recv.List[0].Names[0]]
	}
	if fd.Type.Params != nil {
		for _, f := range fd.Type.Params.List {
			for _, n := range f.Names {
				obj := info.Defs[n]
				if obj == nil {
					continue
				}
				if x.recvObj == nil && namedIs(obj.Type(), "parser", "Parser") {
					x.recvObj = obj
					continue
				}
				if isNodeIface(obj.Type()) {
					// left operand: parsed before the entry token
					s.events = append(s.events, &gEvt{kind: gChild, param: true, pos: n.Pos()})
					s.locals[obj] = gVal{kind: vChild, idx: len(s.events) - 1}
				}
			}
		}
	}
	ent := &gEvt{kind: gTok, how: "entry", pos: fd.Pos()}
	if len(entry) > 0 {
		ent.types = cloneSet(entry)
		ent.checked = true
	}
	s.events = append(s.events, ent)
	s.cur = len(s.events) - 1
	outs := x.stmts(fd.Body.List, []*gState{s})
	for _, o := range outs {
		if o.ctl != ctlReturn {
			// fell off the end of a function without results
			continue
		}
		x.finish(o)
	}
	for is := range x.issues {
		gm.issues = append(gm.issues, is)
	}
	sort.Strings(gm.issues)
	return gm
}

func isNodeIface(t types.Type) bool {
	return namedIs(t, "ast", "Expression") || namedIs(t, "ast", "Statement") || namedIs(t, "ast", "Node")
}

func (x *gx) finish(s *gState) {
	if s.failed || s.errRec || len(s.ret) == 0 {
		x.gm.failures++
		return
	}
	if s.tolerant {
		x.gm.tolerantOnly++
		if len(s.ret) > 0 && s.ret[0].kind == vNode {
			x.gm.tolerantPaths = append(x.gm.tolerantPaths, &gPath{events: s.events, fields: s.fields, lists: s.lists, structs: s.structs, notes: s.notes})
		}
		return
	}
	if s.ret[0].kind != vNode {
		if s.ret[0].kind == vChild {
			var lost []*gEvt
			for i, e := range s.events {
				if e.kind == gTok && i != s.ret[0].idx {
					lost = append(lost, e)
				}
			}
			if len(lost) > 0 {
				x.gm.passThrough = append(x.gm.passThrough, renderPath(x.t.tc, s.events))
			}
		}
		x.gm.failures++
		return
	}
	x.gm.paths = append(x.gm.paths, &gPath{events: s.events, fields: s.fields, lists: s.lists, structs: s.structs, notes: s.notes})
}

// ---- statements ---------------------------------------------------------------------------------

func (x *gx) stmts(list []ast.Stmt, in []*gState) []*gState {
	states := in
	for _, st := range list {
		var next []*gState
		for _, s := range states {
			if s.ctl != ctlNone || s.failed {
				next = append(next, s)
				continue
			}
			next = append(next, x.stmt(st, s)...)
		}
		states = next
		if len(states) > 4000 {
			x.issue("path explosion (more than 4000 states)")
			return nil
		}
	}
	return states
}

func (x *gx) stmt(st ast.Stmt, s *gState) []*gState {
	switch v := st.(type) {
	case *ast.ExprStmt:
		_, outs := x.eval(v.X, s)
		return outs2states(outs)
	case *ast.AssignStmt:
		return x.assign(v, s)
	case *ast.DeclStmt:
		// var x T — zero value
		if gd, ok := v.Decl.(*ast.GenDecl); ok && gd.Tok == token.VAR {
			for _, sp := range gd.Specs {
				if vs, ok := sp.(*ast.ValueSpec); ok && len(vs.Values) == 0 {
					for _, n := range vs.Names {
						s.locals[x.info.Defs[n]] = gVal{kind: vNil}
					}
					continue
				}
				x.issue("unsupported declaration at %s", x.c.pos(v.Pos()))
			}
			return []*gState{s}
		}
		x.issue("unsupported declaration at %s", x.c.pos(v.Pos()))
		return []*gState{s}
	case *ast.IfStmt:
		states := []*gState{s}
		if v.Init != nil {
			states = x.stmts([]ast.Stmt{v.Init}, states)
		}
		var out []*gState
		for _, s0 := range states {
			if s0.ctl != ctlNone || s0.failed {
				out = append(out, s0)
				continue
			}
			tr := x.cond(v.Cond, s0.clone(), true)
			fa := x.cond(v.Cond, s0, false)
			out = append(out, x.stmts(v.Body.List, tr)...)
			switch e := v.Else.(type) {
			case nil:
				out = append(out, fa...)
			case *ast.BlockStmt:
				out = append(out, x.stmts(e.List, fa)...)
			case *ast.IfStmt:
				out = append(out, x.stmts([]ast.Stmt{e}, fa)...)
			}
		}
		return out
	case *ast.ForStmt:
		if v.Init != nil || v.Post != nil {
			x.issue("for loop with init/post at %s (accepted: `for cond {}` and `for {}`)", x.c.pos(v.Pos()))
			return nil
		}
		return x.loop(v, s)
	case *ast.SwitchStmt:
		return x.switchStmt(v, s)
	case *ast.ReturnStmt:
		states := []*gState{s}
		var rets [][]gVal
		rets = append(rets, nil)
		for _, r := range v.Results {
			var ns []*gState
			var nr [][]gVal
			for i, s0 := range states {
				outs := x.evalOuts(r, s0)
				for _, o := range outs {
					ns = append(ns, o.s)
					nr = append(nr, append(append([]gVal(nil), rets[i]...), o.v))
				}
			}
			states, rets = ns, nr
		}
		for i, s0 := range states {
			s0.ctl = ctlReturn
			s0.ret = rets[i]
		}
		return states
	case *ast.BranchStmt:
		switch v.Tok {
		case token.BREAK:
			if v.Label == nil {
				s.ctl = ctlBreak
				return []*gState{s}
			}
		case token.CONTINUE:
			if v.Label == nil {
				s.ctl = ctlContinue
				return []*gState{s}
			}
		}
		x.issue("unsupported branch statement %s at %s", v.Tok, x.c.pos(v.Pos()))
		return nil
	case *ast.BlockStmt:
		return x.stmts(v.List, []*gState{s})
	case *ast.DeferStmt:
		// deferred context pops / restores do not consume tokens; anything else is not understood
		if f, ok := calleeFunc(x.info, v.Call); ok && f.Pkg() == x.c.Pkg("parser") && !x.consumes(f) {
			return []*gState{s}
		}
		x.issue("unsupported defer at %s", x.c.pos(v.Pos()))
		return []*gState{s}
	case *ast.IncDecStmt, *ast.EmptyStmt:
		return []*gState{s}
	}
	x.issue("unsupported statement %T at %s", st, x.c.pos(st.Pos()))
	return nil
}

type gOut struct {
	s *gState
	v gVal
}

func outs2states(o []gOut) []*gState {
	var out []*gState
	for _, e := range o {
		out = append(out, e.s)
	}
	return out
}

func (x *gx) loop(v *ast.ForStmt, s *gState) []*gState {
	var done []*gState
	cur := []*gState{s}
	for iter := 0; ; iter++ {
		var next []*gState
		for _, s0 := range cur {
			var enter []*gState
			if v.Cond != nil {
				done = append(done, x.cond(v.Cond, s0.clone(), false)...)
				if iter < x.maxIter {
					enter = x.cond(v.Cond, s0, true)
				} else {
					x.gm.dropped++
				}
			} else {
				if iter < x.maxIter {
					enter = []*gState{s0}
				} else {
					x.gm.dropped++
				}
			}
			for _, b := range x.stmts(v.Body.List, enter) {
				switch b.ctl {
				case ctlBreak:
					b.ctl = ctlNone
					done = append(done, b)
				case ctlContinue:
					b.ctl = ctlNone
					next = append(next, b)
				case ctlReturn:
					done = append(done, b)
				default:
					if b.failed {
						done = append(done, b)
					} else {
						next = append(next, b)
					}
				}
			}
		}
		if len(next) == 0 {
			break
		}
		cur = next
	}
	return done
}

func (x *gx) switchStmt(v *ast.SwitchStmt, s *gState) []*gState {
	if v.Init != nil || v.Tag == nil {
		x.issue("unsupported switch form at %s", x.c.pos(v.Pos()))
		return nil
	}
	which := ""
	switch x.exprKey(v.Tag) {
	case "cur.Type":
		which = "cur"
	case "peek.Type":
		which = "peek"
	default:
		x.issue("switch on %s at %s (accepted: the current or the peek token's type)", types.ExprString(v.Tag), x.c.pos(v.Pos()))
		return nil
	}
	var out []*gState
	rest := s
	hasDefault := false
	var defBody []ast.Stmt
	for _, cl := range v.Body.List {
		cc := cl.(*ast.CaseClause)
		if cc.List == nil {
			hasDefault = true
			defBody = cc.Body
			continue
		}
		ks := map[int64]bool{}
		for _, e := range cc.List {
			k, ok := x.tokConst(e)
			if !ok {
				x.issue("non-constant case at %s", x.c.pos(e.Pos()))
				return nil
			}
			ks[k] = true
		}
		for _, st := range cc.Body {
			if b, ok := st.(*ast.BranchStmt); ok && b.Tok == token.FALLTHROUGH {
				x.issue("fallthrough at %s", x.c.pos(b.Pos()))
				return nil
			}
		}
		in := x.refine(rest.clone(), which, ks, true)
		if in != nil {
			res := x.stmts(cc.Body, []*gState{in})
			for _, r := range res {
				if r.ctl == ctlBreak {
					r.ctl = ctlNone
				}
			}
			out = append(out, res...)
		}
		rest = x.refine(rest, which, ks, false)
		if rest == nil {
			break
		}
	}
	if rest != nil {
		if hasDefault {
			res := x.stmts(defBody, []*gState{rest})
			for _, r := range res {
				if r.ctl == ctlBreak {
					r.ctl = ctlNone
				}
			}
			out = append(out, res...)
		} else {
			out = append(out, rest)
		}
	}
	return out
}

// refine narrows the current / peek token of s to (not) be in ks; nil when infeasible.
func (x *gx) refine(s *gState, which string, ks map[int64]bool, in bool) *gState {
	if which == "peek" {
		if in {
			if len(ks) == 1 {
				for k := range ks {
					if s.peekEq >= 0 && s.peekEq != k {
						return nil
					}
					if s.peekNot[k] {
						return nil
					}
					s.peekEq = k
				}
			}
			return s
		}
		if s.peekEq >= 0 && ks[s.peekEq] {
			return nil
		}
		if s.peekNot == nil {
			s.peekNot = map[int64]bool{}
		}
		for k := range ks {
			s.peekNot[k] = true
		}
		return s
	}
	e := s.events[s.cur]
	if e.kind != gTok {
		return s // the last token of a child: not tracked
	}
	if in {
		if e.types == nil {
			e.types = map[int64]bool{}
			for k := range ks {
				if !e.notIn[k] {
					e.types[k] = true
				}
			}
		} else {
			for k := range e.types {
				if !ks[k] {
					delete(e.types, k)
				}
			}
		}
		if len(e.types) == 0 {
			return nil
		}
		e.checked = true
		return s
	}
	if e.types != nil {
		for k := range ks {
			delete(e.types, k)
		}
		if len(e.types) == 0 {
			return nil
		}
		return s
	}
	if e.notIn == nil {
		e.notIn = map[int64]bool{}
	}
	for k := range ks {
		e.notIn[k] = true
	}
	return s
}

// ---- conditions ---------------------------------------------------------------------------------

// exprKey classifies the parser-state expressions the enumerator understands.
func (x *gx) exprKey(e ast.Expr) string {
	e = ast.Unparen(e)
	sel, ok := e.(*ast.SelectorExpr)
	if !ok {
		return ""
	}
	inner, ok := ast.Unparen(sel.X).(*ast.SelectorExpr)
	if ok {
		if id, ok := ast.Unparen(inner.X).(*ast.Ident); ok && x.info.ObjectOf(id) == x.recvObj {
			switch inner.Sel.Name {
			case "CurrentToken":
				return "cur." + sel.Sel.Name
			case "PeekToken":
				return "peek." + sel.Sel.Name
			}
			return "p." + inner.Sel.Name + "." + sel.Sel.Name
		}
		return ""
	}
	if id, ok := ast.Unparen(sel.X).(*ast.Ident); ok && x.info.ObjectOf(id) == x.recvObj {
		switch sel.Sel.Name {
		case "CurrentToken":
			return "cur"
		case "PeekToken":
			return "peek"
		}
		return "p." + sel.Sel.Name
	}
	return ""
}

func (x *gx) tokConst(e ast.Expr) (int64, bool) {
	if k, ok := x.c.tokConstOf(x.info, e); ok {
		return k, true
	}
	if id, ok := ast.Unparen(e).(*ast.Ident); ok {
		obj := x.info.ObjectOf(id)
		for i := len(x.binds) - 1; i >= 0; i-- {
			if k, ok := x.binds[i][obj]; ok {
				return k, true
			}
		}
	}
	return 0, false
}

// cond returns the states in which e evaluates to want.
func (x *gx) cond(e ast.Expr, s *gState, want bool) []*gState {
	e = ast.Unparen(e)
	switch v := e.(type) {
	case *ast.UnaryExpr:
		if v.Op == token.NOT {
			return x.cond(v.X, s, !want)
		}
	case *ast.BinaryExpr:
		switch v.Op {
		case token.LAND:
			if want {
				var out []*gState
				for _, s1 := range x.cond(v.X, s, true) {
					out = append(out, x.cond(v.Y, s1, true)...)
				}
				return out
			}
			out := x.cond(v.X, s.clone(), false)
			for _, s1 := range x.cond(v.X, s, true) {
				out = append(out, x.cond(v.Y, s1, false)...)
			}
			return out
		case token.LOR:
			if !want {
				var out []*gState
				for _, s1 := range x.cond(v.X, s, false) {
					out = append(out, x.cond(v.Y, s1, false)...)
				}
				return out
			}
			out := x.cond(v.X, s.clone(), true)
			for _, s1 := range x.cond(v.X, s, false) {
				out = append(out, x.cond(v.Y, s1, true)...)
			}
			return out
		case token.EQL, token.NEQ:
			eq := (v.Op == token.EQL) == want
			key := x.exprKey(v.X)
			if key == "cur.Type" || key == "peek.Type" {
				if k, ok := x.tokConst(v.Y); ok {
					r := x.refine(s, strings.TrimSuffix(key, ".Type"), map[int64]bool{k: true}, eq)
					if r == nil {
						return nil
					}
					return []*gState{r}
				}
				x.issue("token type compared with a non-constant at %s", x.c.pos(v.Pos()))
				return []*gState{s}
			}
			// x == nil / x != nil for a local holding a sub-parse result: a nil result is an error path (R11.2)
			if id, ok := ast.Unparen(v.Y).(*ast.Ident); ok && id.Name == "nil" {
				// node.Field == nil for a field of the node under construction
				if sel, ok := ast.Unparen(v.X).(*ast.SelectorExpr); ok {
					if bid, ok := ast.Unparen(sel.X).(*ast.Ident); ok {
						if bv, ok := s.locals[x.info.ObjectOf(bid)]; ok && bv.kind == vNode {
							if fv, ok := s.fields[sel.Sel.Name]; ok {
								switch fv.kind {
								case vChild, vList:
									if eq {
										s.failed = true
									}
									return []*gState{s}
								case vNil:
									if eq {
										return []*gState{s}
									}
									return nil
								}
							}
						}
					}
				}
				if lid, ok := ast.Unparen(v.X).(*ast.Ident); ok {
					if lv, ok := s.locals[x.info.ObjectOf(lid)]; ok {
						switch lv.kind {
						case vChild, vNode, vList:
							if eq { // == nil holds
								s.failed = true
								return []*gState{s}
							}
							return []*gState{s}
						case vNil:
							if eq {
								return []*gState{s}
							}
							return nil
						}
					}
				}
			}
		}
	case *ast.SelectorExpr:
		if x.tolerantFld != nil && strings.HasPrefix(x.exprKey(v), "p.") && x.info.ObjectOf(v.Sel) == types.Object(x.tolerantFld) {
			if want {
				s.tolerant = true
			}
			return []*gState{s}
		}
	case *ast.CallExpr:
		if f, ok := calleeFunc(x.info, v); ok && f.Pkg() == x.c.Pkg("parser") {
			switch x.role(f) {
			case "expect":
				if len(v.Args) == 1 {
					if k, ok := x.tokConst(v.Args[0]); ok {
						if !want {
							s.failed = true
							return []*gState{s}
						}
						if s.peekNot[k] || (s.peekEq >= 0 && s.peekEq != k) {
							return nil // the expectation cannot succeed on this path
						}
						x.push(s, &gEvt{kind: gTok, types: map[int64]bool{k: true}, checked: true, how: "expect", pos: v.Pos()})
						return []*gState{s}
					}
				}
				x.issue("expect with a non-constant token at %s", x.c.pos(v.Pos()))
				return []*gState{s}
			case "semi":
				if !want {
					s.failed = true
					return []*gState{s}
				}
				x.push(s, &gEvt{kind: gSemi, pos: v.Pos()})
				return []*gState{s}
			}
		}
	}
	// unknown atom: evaluate for effects, both outcomes possible, no refinement
	outs := x.evalOuts(e, s)
	return outs2states(outs)
}

func (x *gx) push(s *gState, e *gEvt) {
	s.events = append(s.events, e)
	s.cur = len(s.events) - 1
	s.peekEq = -1
	s.peekNot = nil
}

// role classifies a parser function by what it does with the token stream (resolved structurally, not by name).
func (x *gx) role(f *types.Func) string {
	return x.c.parserRoles()[f]
}

func (x *gx) consumes(f *types.Func) bool {
	r := x.role(f)
	return r != "" && r != "noconsume"
}

// ---- expressions --------------------------------------------------------------------------------

func (x *gx) eval(e ast.Expr, s *gState) (gVal, []gOut) {
	outs := x.evalOuts(e, s)
	if len(outs) == 1 {
		return outs[0].v, outs
	}
	return gVal{}, outs
}

func one(s *gState, v gVal) []gOut { return []gOut{{s, v}} }

func (x *gx) evalOuts(e ast.Expr, s *gState) []gOut {
	e = ast.Unparen(e)
	if tv, ok := x.info.Types[e]; ok && tv.Value != nil {
		return one(s, gVal{kind: vConst, k: tv.Value})
	}
	switch v := e.(type) {
	case *ast.Ident:
		if v.Name == "nil" {
			return one(s, gVal{kind: vNil})
		}
		if lv, ok := s.locals[x.info.ObjectOf(v)]; ok {
			return one(s, lv)
		}
		return one(s, gVal{})
	case *ast.SelectorExpr:
		switch x.exprKey(v) {
		case "cur":
			if s.events[s.cur].kind == gTok {
				return one(s, gVal{kind: vTok, idx: s.cur})
			}
			return one(s, gVal{})
		case "cur.Literal":
			if s.events[s.cur].kind == gTok {
				return one(s, gVal{kind: vLit, idx: s.cur})
			}
			return one(s, gVal{})
		}
		// node.Field
		if id, ok := ast.Unparen(v.X).(*ast.Ident); ok {
			if lv, ok := s.locals[x.info.ObjectOf(id)]; ok && lv.kind == vNode {
				if fv, ok := s.fields[v.Sel.Name]; ok {
					return one(s, fv)
				}
				return one(s, gVal{kind: vNil})
			}
		}
		return one(s, gVal{})
	case *ast.UnaryExpr:
		if v.Op == token.AND {
			return x.evalOuts(v.X, s)
		}
		outs := x.evalOuts(v.X, s)
		for i := range outs {
			outs[i].v = gVal{}
		}
		return outs
	case *ast.BinaryExpr:
		var res []gOut
		for _, o := range x.evalOuts(v.X, s) {
			for _, o2 := range x.evalOuts(v.Y, o.s) {
				res = append(res, gOut{o2.s, gVal{}})
			}
		}
		return res
	case *ast.CompositeLit:
		return x.composite(v, s)
	case *ast.CallExpr:
		return x.call(v, s)
	case *ast.FuncLit:
		x.issue("function literal at %s", x.c.pos(v.Pos()))
		return one(s, gVal{})
	case *ast.IndexExpr, *ast.SliceExpr, *ast.TypeAssertExpr, *ast.StarExpr, *ast.BasicLit:
		return one(s, gVal{})
	}
	x.issue("unsupported expression %T at %s", e, x.c.pos(e.Pos()))
	return one(s, gVal{})
}

func (x *gx) astNodeName(t types.Type) string {
	nt := namedOf(t)
	if nt == nil || nt.Obj().Pkg() == nil || nt.Obj().Pkg().Path() != modPath+"/ast" {
		return ""
	}
	return nt.Obj().Name()
}

func (x *gx) composite(cl *ast.CompositeLit, s *gState) []gOut {
	tv := x.info.Types[cl]
	if _, isSlice := tv.Type.Underlying().(*types.Slice); isSlice {
		if len(cl.Elts) != 0 {
			x.issue("non-empty slice literal at %s", x.c.pos(cl.Pos()))
		}
		s.lists = append(s.lists, &gList{})
		return one(s, gVal{kind: vList, idx: len(s.lists) - 1})
	}
	name := x.astNodeName(tv.Type)
	nt := namedOf(tv.Type)
	isNode := name != "" && nt != nil && hasMethod(nt, "WriteTo")
	type kv struct {
		key string
		val ast.Expr
	}
	var kvs []kv
	for _, el := range cl.Elts {
		k, ok := el.(*ast.KeyValueExpr)
		if !ok {
			x.issue("positional composite literal at %s", x.c.pos(cl.Pos()))
			return one(s, gVal{})
		}
		id, ok := k.Key.(*ast.Ident)
		if !ok {
			x.issue("composite literal key at %s", x.c.pos(cl.Pos()))
			return one(s, gVal{})
		}
		kvs = append(kvs, kv{id.Name, k.Value})
	}
	switch {
	case isNode && name == x.node && !x.nodeExists(s):
		// the node under construction
		states := []*gState{s}
		for _, f := range kvs {
			var next []*gState
			for _, s0 := range states {
				for _, o := range x.evalOuts(f.val, s0) {
					x.setField(o.s, f.key, o.v)
					next = append(next, o.s)
				}
			}
			states = next
		}
		var outs []gOut
		for _, s0 := range states {
			outs = append(outs, gOut{s0, gVal{kind: vNode}})
		}
		return outs
	case isNode:
		// a node built directly from the current token: an open-class terminal (identifier in a declaration, parameter)
		usesCur := false
		for _, f := range kvs {
			if k := x.exprKey(f.val); k == "cur" || k == "cur.Literal" {
				usesCur = true
			} else if _, isConst := x.info.Types[f.val]; !isConst || x.info.Types[f.val].Value == nil {
				x.issue("fresh %s node at %s with a field that is not the current token", name, x.c.pos(cl.Pos()))
			}
		}
		if !usesCur {
			x.issue("fresh %s node at %s not built from the current token", name, x.c.pos(cl.Pos()))
			return one(s, gVal{})
		}
		idx := x.absorb(s, &gEvt{kind: gChild, childType: name, fresh: true, pos: cl.Pos()})
		if idx < 0 {
			return one(s, gVal{})
		}
		return one(s, gVal{kind: vChild, idx: idx})
	default:
		// plain struct (ObjectProperty): remember which sub-parse fills which member
		m := map[string]gVal{}
		states := []*gState{s}
		for _, f := range kvs {
			var next []*gState
			for _, s0 := range states {
				for _, o := range x.evalOuts(f.val, s0) {
					next = append(next, o.s)
					m[f.key] = o.v // forks inside a struct literal's values are not expected
				}
			}
			states = next
		}
		if len(states) != 1 {
			x.issue("branching inside a struct literal at %s", x.c.pos(cl.Pos()))
		}
		s0 := states[0]
		s0.structs = append(s0.structs, m)
		return one(s0, gVal{kind: vStruct, idx: len(s0.structs) - 1})
	}
}

func (x *gx) nodeExists(s *gState) bool {
	for _, v := range s.locals {
		if v.kind == vNode {
			return true
		}
	}
	return false
}

// absorb turns the current token into the first token of a child; returns the child's event index.
func (x *gx) absorb(s *gState, ch *gEvt) int {
	e := s.events[s.cur]
	if e.kind != gTok {
		x.issue("a sub-parse at %s starts where the previous one ended (no token consumed in between)", x.c.pos(ch.pos))
		return -1
	}
	if len(e.tokFields) > 0 || len(e.litFields) > 0 {
		x.issue("a sub-parse at %s starts at a token the node already keeps (%s)", x.c.pos(ch.pos), strings.Join(append(e.tokFields, e.litFields...), ","))
		return -1
	}
	ch.first = e
	s.events[s.cur] = ch
	// fix value references to the token event: none can exist (no fields recorded)
	return s.cur
}

func (x *gx) setField(s *gState, name string, v gVal) {
	if _, dup := s.fields[name]; !dup {
		s.fieldOrd = append(s.fieldOrd, name)
	}
	s.fields[name] = v
	x.nameVal(s, name, v)
}

// nameVal records that value v lives in node field `name`.
func (x *gx) nameVal(s *gState, name string, v gVal) {
	switch v.kind {
	case vTok:
		e := s.events[v.idx]
		e.tokFields = appendUniq(e.tokFields, name)
	case vLit:
		e := s.events[v.idx]
		e.litFields = appendUniq(e.litFields, name)
	case vChild:
		s.events[v.idx].field = name
	case vList:
		for _, el := range s.lists[v.idx].elems {
			x.nameVal(s, name+"[]", el)
		}
	case vStruct:
		for k, mv := range s.structs[v.idx] {
			x.nameVal(s, name+"."+k, mv)
		}
	}
}

func appendUniq(l []string, s string) []string {
	for _, x := range l {
		if x == s {
			return l
		}
	}
	return append(l, s)
}

func (x *gx) assign(a *ast.AssignStmt, s *gState) []*gState {
	if len(a.Rhs) != 1 {
		x.issue("parallel assignment at %s", x.c.pos(a.Pos()))
		return []*gState{s}
	}
	outs := x.evalOuts(a.Rhs[0], s)
	var res []*gState
	for _, o := range outs {
		s0 := o.s
		if len(a.Lhs) > 1 {
			var parts []gVal
			if o.v.kind == vTuple && o.v.idx < len(s0.tuples) && len(s0.tuples[o.v.idx]) == len(a.Lhs) {
				parts = s0.tuples[o.v.idx]
			}
			for i, l := range a.Lhs {
				val := gVal{}
				if parts != nil {
					val = parts[i]
				}
				switch lt := ast.Unparen(l).(type) {
				case *ast.Ident:
					if lt.Name != "_" {
						s0.locals[x.info.ObjectOf(lt)] = val
					}
				case *ast.SelectorExpr:
					if id, ok := ast.Unparen(lt.X).(*ast.Ident); ok {
						if lv, ok := s0.locals[x.info.ObjectOf(id)]; ok && lv.kind == vNode && parts != nil {
							x.setField(s0, lt.Sel.Name, val)
						}
					}
				}
			}
			res = append(res, s0)
			continue
		}
		switch l := ast.Unparen(a.Lhs[0]).(type) {
		case *ast.Ident:
			if l.Name != "_" {
				s0.locals[x.info.ObjectOf(l)] = o.v
			}
		case *ast.SelectorExpr:
			if id, ok := ast.Unparen(l.X).(*ast.Ident); ok {
				if lv, ok := s0.locals[x.info.ObjectOf(id)]; ok && lv.kind == vNode {
					x.setField(s0, l.Sel.Name, o.v)
					break
				}
				if x.info.ObjectOf(id) == x.recvObj {
					x.issue("the method writes parser state directly (%s) at %s", types.ExprString(l), x.c.pos(a.Pos()))
				}
			}
		default:
			x.issue("unsupported assignment target at %s", x.c.pos(a.Pos()))
		}
		res = append(res, s0)
	}
	return res
}

func (x *gx) call(call *ast.CallExpr, s *gState) []gOut {
	// builtin append
	if id, ok := ast.Unparen(call.Fun).(*ast.Ident); ok {
		if b, ok := x.info.ObjectOf(id).(*types.Builtin); ok {
			switch b.Name() {
			case "append":
				if len(call.Args) == 2 && !call.Ellipsis.IsValid() {
					var res []gOut
					for _, o := range x.evalOuts(call.Args[0], s) {
						lv := o.v
						for _, o2 := range x.evalOuts(call.Args[1], o.s) {
							s2 := o2.s
							if lv.kind != vList {
								if lv.kind == vNil {
									s2.lists = append(s2.lists, &gList{})
									lv = gVal{kind: vList, idx: len(s2.lists) - 1}
								} else {
									x.issue("append to something that is not a tracked list at %s", x.c.pos(call.Pos()))
									res = append(res, gOut{s2, gVal{}})
									continue
								}
							}
							// a new list value (lists are values here): copy and extend
							nl := &gList{elems: append(append([]gVal(nil), s2.lists[lv.idx].elems...), o2.v)}
							s2.lists = append(s2.lists, nl)
							res = append(res, gOut{s2, gVal{kind: vList, idx: len(s2.lists) - 1}})
						}
					}
					return res
				}
				x.issue("unsupported append form at %s", x.c.pos(call.Pos()))
				return one(s, gVal{})
			case "len", "cap":
				return one(s, gVal{})
			}
		}
	}
	// arguments first (for effects), except for the calls handled specially below
	f, isStatic := calleeFunc(x.info, call)
	if isStatic && f.Pkg() == x.c.Pkg("parser") {
		switch x.role(f) {
		case "advance":
			e := &gEvt{kind: gTok, how: "advance", pos: call.Pos()}
			if s.peekEq >= 0 {
				e.types = map[int64]bool{s.peekEq: true}
				e.checked = true
				e.how = "advance(peek tested)"
			} else if len(s.peekNot) > 0 {
				e.notIn = cloneSet(s.peekNot)
			}
			x.push(s, e)
			return one(s, gVal{})
		case "expect", "semi":
			// result not branched on: the path continues only when it succeeded; failure is an error path
			st := x.cond(call, s, true)
			var res []gOut
			for _, s0 := range st {
				res = append(res, gOut{s0, gVal{}})
			}
			return res
		case "error":
			s.errRec = true
			return one(s, gVal{})
		case "noconsume":
			return one(s, gVal{})
		case "subparse":
			return x.subparse(call, f, s)
		case "listhelper", "voidhelper", "tuplehelper", "nodehelper":
			return x.inline(call, f, s)
		}
		x.issue("call of %s at %s: effect on the token stream not classified", f.Name(), x.c.pos(call.Pos()))
		return one(s, gVal{})
	}
	// calls through the interceptable function fields: p.statementParseFn(p), p.expressionParseFn(p, L)
	if k := x.exprKey(call.Fun); strings.HasPrefix(k, "p.") {
		if sig, ok := x.info.TypeOf(call.Fun).(*types.Signature); ok && sig.Results().Len() == 1 && isNodeIface(sig.Results().At(0).Type()) {
			return x.subparse(call, nil, s)
		}
		x.issue("call through parser field %s at %s", k, x.c.pos(call.Pos()))
		return one(s, gVal{})
	}
	// anything else (strconv, fmt, …): evaluate arguments for effects, unknown value
	states := []*gState{s}
	for _, a := range call.Args {
		var next []*gState
		for _, s0 := range states {
			next = append(next, outs2states(x.evalOuts(a, s0))...)
		}
		states = next
	}
	var res []gOut
	for _, s0 := range states {
		res = append(res, gOut{s0, gVal{}})
	}
	return res
}

func (x *gx) subparse(call *ast.CallExpr, f *types.Func, s *gState) []gOut {
	ch := &gEvt{kind: gChild, pos: call.Pos()}
	if f != nil {
		if sig, ok := f.Type().(*types.Signature); ok && sig.Results().Len() >= 1 {
			ch.childType = x.astNodeName(sig.Results().At(0).Type())
			if isNodeIface(sig.Results().At(0).Type()) {
				ch.childType = ""
			}
		}
	}
	idx := x.absorb(s, ch)
	if idx < 0 {
		return one(s, gVal{})
	}
	return one(s, gVal{kind: vChild, idx: idx})
}

// inline walks a list helper (a parser method returning a slice of nodes) in the caller's state.
func (x *gx) inline(call *ast.CallExpr, f *types.Func, s *gState) []gOut {
	fd := x.c.declIdx[f]
	if fd == nil || fd.Body == nil || s.depth >= 3 {
		x.issue("cannot inline %s at %s", f.Name(), x.c.pos(call.Pos()))
		return one(s, gVal{})
	}
	bind := map[types.Object]int64{}
	// token-constant arguments are bound as constants; any other argument (a list being built, a node) is evaluated in
	// the caller's state and becomes the value of the parameter inside the helper
	type argState struct {
		s    *gState
		vals map[types.Object]gVal
	}
	states := []argState{{s, map[types.Object]gVal{}}}
	i := 0
	for _, fl := range fd.Type.Params.List {
		for _, n := range fl.Names {
			if i < len(call.Args) {
				if k, ok := x.tokConst(call.Args[i]); ok {
					bind[x.info.Defs[n]] = k
				} else {
					var next []argState
					for _, as := range states {
						for _, o := range x.evalOuts(call.Args[i], as.s) {
							vals := make(map[types.Object]gVal, len(as.vals)+1)
							for k2, v2 := range as.vals {
								vals[k2] = v2
							}
							vals[x.info.Defs[n]] = o.v
							next = append(next, argState{o.s, vals})
						}
					}
					states = next
				}
			}
			i++
		}
	}
	savedRecv := x.recvObj
	if fd.Recv != nil && len(fd.Recv.List) == 1 && len(fd.Recv.List[0].Names) == 1 {
		x.recvObj = x.info.Defs[fd.Recv.List[0].Names[0]]
	}
	x.binds = append(x.binds, bind)
	savedLocals := s.locals
	var outs []*gState
	for _, as := range states {
		as.s.locals = as.vals
		as.s.depth++
		outs = append(outs, x.stmts(fd.Body.List, []*gState{as.s})...)
	}
	x.binds = x.binds[:len(x.binds)-1]
	x.recvObj = savedRecv
	var res []gOut
	for _, o := range outs {
		o.depth--
		o.locals = cloneLocals(savedLocals)
		if o.failed {
			res = append(res, gOut{o, gVal{}})
			continue
		}
		if x.role(f) == "voidhelper" {
			o.ctl = ctlNone
			o.ret = nil
			res = append(res, gOut{o, gVal{}})
			continue
		}
		if x.role(f) == "tuplehelper" {
			if o.ctl != ctlReturn || len(o.ret) < 2 {
				x.issue("helper %s can end without returning its values", f.Name())
				continue
			}
			o.ctl = ctlNone
			o.tuples = append(o.tuples, append([]gVal(nil), o.ret...))
			o.ret = nil
			res = append(res, gOut{o, gVal{kind: vTuple, idx: len(o.tuples) - 1}})
			continue
		}
		if o.ctl != ctlReturn || len(o.ret) != 1 {
			x.issue("helper %s can end without returning a value", f.Name())
			continue
		}
		o.ctl = ctlNone
		rv := o.ret[0]
		o.ret = nil
		if rv.kind == vNil {
			o.failed = true // a nil list is the helper's failure result (an error was recorded: R11.2)
		}
		res = append(res, gOut{o, rv})
	}
	return res
}

func cloneLocals(m map[types.Object]gVal) map[types.Object]gVal {
	o := make(map[types.Object]gVal, len(m))
	for k, v := range m {
		o[k] = v
	}
	return o
}

// ---- roles of parser functions, resolved from their bodies ---------------------------------------------------

// parserRoles classifies the functions of package parser by their effect on the token stream:
//
//	advance    — the function whose body is `CurrentToken = PeekToken; PeekToken = lexer.NextToken()`
//	expect     — func(token.Type) bool: advances iff the peek token has that type, otherwise records an error
//	semi       — func() bool that accepts the statement separator (the function R2.4a analyses)
//	error      — records a ParserError
//	subparse   — returns a node / Expression / Statement and (transitively) consumes tokens
//	listhelper — returns a slice of nodes and consumes tokens
//	noconsume  — does not reach the advance function
func (c *Ctx) parserRoles() map[*types.Func]string {
	if c.roles != nil {
		return c.roles
	}
	roles := map[*types.Func]string{}
	c.roles = roles
	info := c.Pkgs["parser"].TypesInfo
	decls := c.allFuncDecls("parser")
	objOf := func(fd *ast.FuncDecl) *types.Func { f, _ := info.Defs[fd.Name].(*types.Func); return f }
	// advance: assigns both CurrentToken and PeekToken of the receiver
	var advance *types.Func
	for _, fd := range decls {
		cur, peek := false, false
		ast.Inspect(fd.Body, func(n ast.Node) bool {
			if as, ok := n.(*ast.AssignStmt); ok {
				for _, l := range as.Lhs {
					if sel, ok := l.(*ast.SelectorExpr); ok {
						if fv, ok := info.ObjectOf(sel.Sel).(*types.Var); ok && fv.IsField() && namedIs(fv.Type(), "token", "Token") {
							switch sel.Sel.Name {
							case "CurrentToken":
								cur = true
							case "PeekToken":
								peek = true
							}
						}
					}
				}
			}
			return true
		})
		if cur && peek && fd.Recv != nil {
			advance = objOf(fd)
		}
	}
	if advance == nil {
		return roles
	}
	roles[advance] = "advance"
	// direct callees per function
	callees := map[*types.Func][]*types.Func{}
	usesFnField := map[*types.Func]bool{}
	for _, fd := range decls {
		f := objOf(fd)
		if f == nil || fd.Body == nil {
			continue
		}
		ast.Inspect(fd.Body, func(n ast.Node) bool {
			if call, ok := n.(*ast.CallExpr); ok {
				if g, ok := calleeFunc(info, call); ok && g.Pkg() == c.Pkg("parser") {
					callees[f] = append(callees[f], g)
				} else if sel, ok := ast.Unparen(call.Fun).(*ast.SelectorExpr); ok {
					if fv, ok := info.ObjectOf(sel.Sel).(*types.Var); ok && fv.IsField() {
						if sig, ok := fv.Type().Underlying().(*types.Signature); ok && sig.Results().Len() == 1 && isNodeIface(sig.Results().At(0).Type()) {
							usesFnField[f] = true
						}
					}
				}
			}
			return true
		})
	}
	reaches := map[*types.Func]bool{advance: true}
	for changed := true; changed; {
		changed = false
		for f, cs := range callees {
			if reaches[f] {
				continue
			}
			if usesFnField[f] {
				reaches[f] = true
				changed = true
				continue
			}
			for _, g := range cs {
				if reaches[g] {
					reaches[f] = true
					changed = true
					break
				}
			}
		}
		for f := range usesFnField {
			if !reaches[f] {
				reaches[f] = true
				changed = true
			}
		}
	}
	errCtor := map[*types.Func]bool{}
	for _, fd := range decls {
		// constructs a ParserError
		f := objOf(fd)
		ast.Inspect(fd.Body, func(n ast.Node) bool {
			if cl, ok := n.(*ast.CompositeLit); ok {
				if tv, ok := info.Types[cl]; ok && namedIs(tv.Type, "parser", "ParserError") {
					errCtor[f] = true
				}
			}
			return true
		})
	}
	for changed := true; changed; {
		changed = false
		for f, cs := range callees {
			if errCtor[f] || reaches[f] {
				continue
			}
			for _, g := range cs {
				if errCtor[g] {
					errCtor[f] = true
					changed = true
				}
			}
		}
	}
	a := c.parserAnchors()
	var expectObj, semiObj types.Object
	if a != nil && a.expect != nil {
		expectObj = a.expect.Object()
	}
	if a != nil && a.expectSemi != nil {
		semiObj = a.expectSemi.Object()
	}
	// a sequencing helper: an unexported method that returns a node it did not build itself (no node literal in its
	// body) and is only ever called directly — `parseOperand(level)` = advance + sub-parse, a function-body helper. It
	// is walked in the caller's state like the list helpers, so that its advances and sub-parses land in the caller's
	// grammar.
	buildsNode := map[*types.Func]bool{}
	usedAsValue := map[*types.Func]bool{}
	for _, fd := range decls {
		f := objOf(fd)
		if f == nil || fd.Body == nil {
			continue
		}
		calledIdents := map[*ast.Ident]bool{}
		ast.Inspect(fd.Body, func(n ast.Node) bool {
			switch v := n.(type) {
			case *ast.CompositeLit:
				if tv, ok := info.Types[v]; ok {
					if nt := namedOf(tv.Type); nt != nil && nt.Obj().Pkg() != nil && nt.Obj().Pkg().Path() == modPath+"/ast" {
						buildsNode[f] = true
					}
				}
			case *ast.CallExpr:
				switch fn := ast.Unparen(v.Fun).(type) {
				case *ast.Ident:
					calledIdents[fn] = true
				case *ast.SelectorExpr:
					calledIdents[fn.Sel] = true
				}
			case *ast.Ident:
				if g, ok := info.Uses[v].(*types.Func); ok && !calledIdents[v] {
					usedAsValue[g] = true
				}
			}
			return true
		})
	}
	for _, fd := range decls {
		f := objOf(fd)
		if f == nil || f == advance {
			continue
		}
		sig := f.Type().(*types.Signature)
		switch {
		case reaches[f] && fd.Recv != nil && !f.Exported() && !buildsNode[f] && !usedAsValue[f] && sig.Results().Len() == 1 && (isNodeIface(sig.Results().At(0).Type()) || isNodePtr(sig.Results().At(0).Type())) && expectObj != types.Object(f) && semiObj != types.Object(f):
			roles[f] = "nodehelper"
		case expectObj != nil && types.Object(f) == expectObj:
			roles[f] = "expect"
		case semiObj != nil && types.Object(f) == semiObj:
			roles[f] = "semi"
		case !reaches[f] && errCtor[f]:
			roles[f] = "error"
		case !reaches[f]:
			roles[f] = "noconsume"
		case sig.Results().Len() >= 1 && (isNodeIface(sig.Results().At(0).Type()) || isNodePtr(sig.Results().At(0).Type())):
			roles[f] = "subparse"
		case sig.Results().Len() == 1 && isNodeSlice(sig.Results().At(0).Type()):
			roles[f] = "listhelper"
		case sig.Results().Len() >= 2 && isNodeSlice(sig.Results().At(0).Type()) && !usesFnField[f]:
			roles[f] = "tuplehelper" // several node results (a list and a node, …): walked in the caller's state
		case sig.Results().Len() == 0 && !usesFnField[f]:
			roles[f] = "voidhelper" // consumes tokens, returns nothing: walked in the caller's state
		}
	}
	return roles
}

func isNodePtr(t types.Type) bool {
	p, ok := t.Underlying().(*types.Pointer)
	if !ok {
		return false
	}
	nt := namedOf(p.Elem())
	return nt != nil && nt.Obj().Pkg() != nil && nt.Obj().Pkg().Path() == modPath+"/ast" && hasMethod(nt, "WriteTo")
}

func isNodeSlice(t types.Type) bool {
	sl, ok := t.Underlying().(*types.Slice)
	if !ok {
		return false
	}
	return isNodeIface(sl.Elem()) || isNodePtr(sl.Elem())
}

// ---- rendering ------------------------------------------------------------------------------------

func (e *gEvt) render(tc *tokConsts) string {
	switch e.kind {
	case gSemi:
		return ";?"
	case gChild:
		s := "<" + e.field + ">"
		if e.field == "" {
			s = "<?>"
		}
		return s
	}
	if e.types == nil {
		return "ANY"
	}
	s := tokSetNames(tc, e.types)
	if !e.checked {
		s += "(unchecked)"
	}
	return s
}

func renderPath(tc *tokConsts, evs []*gEvt) string {
	var p []string
	for _, e := range evs {
		p = append(p, e.render(tc))
	}
	return strings.Join(p, " ")
}
