package main

// The Go compiler's own bounds-check elimination as a discharger of index and slice obligations (R10.1, R11.5).
//
// `go build -gcflags=-d=ssa/check_bce/debug=1` makes the compiler list every index and slice operation whose bounds
// check its prove pass could NOT remove ("Found IsInBounds" / "Found IsSliceInBounds" with file:line:column). An
// operation on a line that has no such report was proven in range by the compiler's value-range analysis for every
// execution — a static argument over the compiler's SSA form; nothing of xjs is executed. It is used only to
// *discharge*: an obligation the repository-specific idioms of R10.1/R11.5 do not recognise (new code with its own
// loop bound, a mask, a comparison against len) is accepted when the compiler proved it. A line carrying a report —
// including a report attributed to it because a call on that line was inlined — is never discharged this way.
//
// Fail-closed conditions: the build fails, or the listing is empty (this code base has dozens of unproven checks; an
// empty listing means the flag did not take effect), or the file of a position is not part of the listing's packages:
// then nothing is credited.

import (
	"bufio"
	"bytes"
	"fmt"
	"go/token"
	"os"
	"os/exec"
	"path/filepath"
	"regexp"
	"strconv"
	"strings"

	"golang.org/x/tools/go/ssa"
)

type bceListing struct {
	unproven map[string]map[int]bool // repo-relative file -> lines with a remaining bounds check
	files    map[string]bool         // files of packages the compiler reported on or compiled silently
	reports  int
	problem  string
}

var bceLine = regexp.MustCompile(`^(.+\.go):(\d+):(\d+): Found (IsInBounds|IsSliceInBounds)`)

func (c *Ctx) bce() *bceListing {
	if c.bceL != nil {
		return c.bceL
	}
	l := &bceListing{unproven: map[string]map[int]bool{}, files: map[string]bool{}}
	c.bceL = l
	args := []string{"build", "-gcflags=-d=ssa/check_bce/debug=1"}
	if c.Tags != "" {
		args = append(args, "-tags="+c.Tags)
	}
	for _, p := range libPkgs {
		args = append(args, "./"+p)
	}
	cmd := exec.Command("go", args...)
	cmd.Dir = c.Repo
	cmd.Env = append(os.Environ(), "GOFLAGS=-mod=mod", "GOPROXY=off", "GOSUMDB=off", "GOTOOLCHAIN=local", "GOWORK=off")
	var out bytes.Buffer
	cmd.Stdout, cmd.Stderr = &out, &out
	if err := cmd.Run(); err != nil {
		l.problem = fmt.Sprintf("go build with check_bce failed: %v: %s", err, firstLines(out.String(), 3))
		return l
	}
	sc := bufio.NewScanner(&out)
	for sc.Scan() {
		m := bceLine.FindStringSubmatch(strings.TrimSpace(sc.Text()))
		if m == nil {
			continue
		}
		file := filepath.ToSlash(strings.TrimPrefix(m[1], "./"))
		ln, _ := strconv.Atoi(m[2])
		if l.unproven[file] == nil {
			l.unproven[file] = map[int]bool{}
		}
		l.unproven[file][ln] = true
		l.reports++
	}
	if l.reports == 0 {
		l.problem = "the compiler listed no remaining bounds check at all: the check_bce listing is not trusted"
		return l
	}
	for _, p := range libPkgs {
		if pk := c.Pkgs[p]; pk != nil {
			for _, f := range pk.GoFiles {
				if rel, err := filepath.Rel(c.Repo, f); err == nil {
					l.files[filepath.ToSlash(rel)] = true
				}
			}
		}
	}
	return l
}

// bceProven: the compiler removed the bounds check of every index/slice operation on the line of p.
func (c *Ctx) bceProven(p token.Pos) bool {
	if !p.IsValid() {
		return false
	}
	l := c.bce()
	if l.problem != "" {
		return false
	}
	pp := c.Fset.Position(p)
	rel, err := filepath.Rel(c.Repo, pp.Filename)
	if err != nil {
		return false
	}
	rel = filepath.ToSlash(rel)
	if !l.files[rel] {
		return false
	}
	return !l.unproven[rel][pp.Line]
}

// bceProvenIn: as bceProven, for an operation of function f. Nothing is credited inside a generic function or an
// instantiation of one: the compiler only compiles the instantiations a package uses, so the absence of a report there
// does not mean that a check was removed.
func (c *Ctx) bceProvenIn(f *ssa.Function, p token.Pos) bool {
	for g := f; g != nil; g = g.Parent() {
		if g.TypeParams().Len() > 0 || g.Origin() != nil || len(g.TypeArgs()) > 0 {
			return false
		}
	}
	return c.bceProven(p)
}

const bceWhy = "the Go compiler's prove pass removed the bounds check on this line (check_bce listing)"

func firstLines(s string, n int) string {
	ls := strings.Split(strings.TrimSpace(s), "\n")
	if len(ls) > n {
		ls = ls[:n]
	}
	return strings.Join(ls, " | ")
}
