package main

// variants for the rules added after the first round of independently seeded changes

func init() {
	lx := "lexer/lexer.go"
	bf := "lexer/base_functions.go"
	addVariants(
		// R8.6
		variant{Prop: "C08", Name: "pending-layout-flushed-into-empty-output", File: "ast/code_writer_format.go", Old: "\tif cw.Builder.Len() > 0 {\n\t\tfor _, ch := range cw.pendings {", New: "\tif true {\n\t\tfor _, ch := range cw.pendings {", Rule: "R8.6", Construct: "flushPending: layout append"},
		variant{Prop: "C08", Name: "comment-separator-at-start-of-output", File: "ast/code_writer_comments.go", Old: "\t\t} else if !atStart {\n", New: "\t\t} else {\n", Rule: "R8.6", Construct: "writeNewline: layout append"},
		variant{Prop: "C08", Name: "post-pass-trims-line-starts", File: "compiler/compiler.go", Old: "strings.TrimRight(line, \" \")", New: "strings.TrimSpace(line)", Rule: "R8.6", Construct: "per line"},
		variant{Prop: "C08", Name: "benign-post-pass-keeps-the-start", File: "compiler/compiler.go", Old: "strings.Split(strings.TrimSpace(code), \"\\n\")", New: "strings.Split(strings.TrimRight(code, \" \\n\\t\"), \"\\n\")", Benign: true},
		variant{Prop: "C08", Name: "benign-non-empty-test-via-string-length", File: "ast/code_writer_format.go", Old: "\tif cw.Builder.Len() > 0 {\n\t\tfor _, ch := range cw.pendings {", New: "\tif len(cw.Builder.String()) != 0 {\n\t\tfor _, ch := range cw.pendings {", Benign: true},
		// R8.3 recording order / request fidelity
		variant{Prop: "C08", Name: "mapping-recorded-before-the-separator", File: "ast/code_writer.go", Old: "func (cw *CodeWriter) WriteString(s string) {\n\tcw.flushPending()\n", New: "func (cw *CodeWriter) WriteString(s string) {\n\tcw.flushPending()\n\tcw.recordMapping()\n", More: []edit{{File: "ast/code_writer.go", Old: "\t\tcw.separate(s[0])\n\t}\n\tcw.recordMapping()\n", New: "\t\tcw.separate(s[0])\n\t}\n"}}, Rule: "R8.3", Construct: "WriteString: the mapping is recorded"},
		variant{Prop: "C08", Name: "mapping-not-recorded-for-runes", File: "ast/code_writer.go", Old: "\t\tcw.separate(byte(r))\n\t}\n\tcw.recordMapping()\n", New: "\t\tcw.separate(byte(r))\n\t}\n", Rule: "R8.3", Construct: "WriteRune: the mapping is recorded"},
		variant{Prop: "C08", Name: "request-line-and-column-crossed", File: "ast/code_writer_mapping.go", Old: "cw.Mapper.AddMapping(cw.mapping.line, cw.mapping.column)", New: "cw.Mapper.AddMapping(cw.mapping.column, cw.mapping.line)", Rule: "R8.3", Construct: "request passed to AddMapping"},
		variant{Prop: "C14", Name: "pending-request-decides-a-separator", File: "ast/code_writer.go", Old: "\tcw.recordMapping()\n\tcw.emitString(s)", New: "\tif cw.mapping != nil {\n\t\tcw.emitRune(' ')\n\t}\n\tcw.recordMapping()\n\tcw.emitString(s)", Rule: "R14.6", Construct: "WriteString"},
		// R10.9 exactness, R10.10
		variant{Prop: "C10", Name: "eof-decided-by-read-position", File: bf, Old: "if l.position >= len(l.input) {\n\t\t\ttok = l.NewToken(token.EOF, \"\")", New: "if l.readPosition >= len(l.input) {\n\t\t\ttok = l.NewToken(token.EOF, \"\")", Rule: "R10.9", Construct: "end-of-input token"},
		variant{Prop: "C10", Name: "benign-eof-by-read-position-past-end", File: bf, Old: "if l.position >= len(l.input) {\n\t\t\ttok = l.NewToken(token.EOF, \"\")", New: "if l.readPosition > len(l.input) {\n\t\t\ttok = l.NewToken(token.EOF, \"\")", Benign: true},
		variant{Prop: "C10", Name: "carriage-return-starts-a-line", File: lx, Old: "\tif l.CurrentChar == '\\n' {\n\t\tl.Line++", New: "\tif l.CurrentChar == '\\n' || l.CurrentChar == '\\r' {\n\t\tl.Line++", Rule: "R10.10", Construct: "Line store"},
		variant{Prop: "C10", Name: "column-not-counted-after-tab", File: lx, Old: "\t// Increment column for the new character position\n\tl.Column++", New: "\tif l.CurrentChar != '\\t' {\n\t\tl.Column++\n\t}", Rule: "R10.10", Construct: "Column+1"},
		variant{Prop: "C10", Name: "benign-newline-test-through-predicate", File: lx, Old: "\tif l.CurrentChar == '\\n' {\n\t\tl.Line++", New: "\tif isLineBreak(l.CurrentChar) {\n\t\tl.Line++", More: []edit{{File: "lexer/helpers.go", Old: "func isLetter(ch byte) bool {", New: "func isLineBreak(ch byte) bool {\n\treturn ch == '\\n'\n}\n\nfunc isLetter(ch byte) bool {"}}, Benign: true},
		// R11.4
		variant{Prop: "C11", Name: "error-list-capped", File: "parser/parser.go", Old: "\tp.errors = append(p.errors, err)", New: "\tif len(p.errors) < 100 {\n\t\tp.errors = append(p.errors, err)\n\t}", Rule: "R11.4", Construct: "every call appends"},
		// R7.5
		variant{Prop: "C07", Name: "utf8-last-code-point-excluded", File: "lexer/helpers.go", Old: "} else if codePoint <= 0x10FFFF {", New: "} else if codePoint < 0x10FFFF {", Rule: "R7.5", Construct: "U+10000..U+10FFFF"},
		variant{Prop: "C07", Name: "utf8-three-byte-lead-marker", File: "lexer/helpers.go", Old: "0xE0 | byte(codePoint>>12),", New: "0xC0 | byte(codePoint>>12),", Rule: "R7.5", Construct: "U+0800..U+FFFF"},
		variant{Prop: "C07", Name: "utf8-continuation-shift", File: "lexer/helpers.go", Old: "0x80 | byte((codePoint>>12)&0x3F),", New: "0x80 | byte((codePoint>>10)&0x3F),", Rule: "R7.5", Construct: "U+10000..U+10FFFF"},
		variant{Prop: "C07", Name: "benign-utf8-exclusive-bounds", File: "lexer/helpers.go", Old: "if codePoint <= 0x7F {", New: "if codePoint < 0x80 {", More: []edit{{File: "lexer/helpers.go", Old: "} else if codePoint <= 0x7FF {", New: "} else if codePoint < 0x800 {"}, {File: "lexer/helpers.go", Old: "} else if codePoint <= 0x10FFFF {", New: "} else if codePoint < 0x110000 {"}}, Benign: true},
		// R7.6
		variant{Prop: "C07", Name: "raw-string-backslash-pair-not-consumed", File: "lexer/lexer.go", Old: "\t\t\tif nextChar == '\\\\' {\n", New: "\t\t\tif false && nextChar == '\\\\' {\n", Rule: "R7.6", Construct: "readRawString"},
		variant{Prop: "C07", Name: "string-escape-steps-over-backslash-only", File: "lexer/lexer.go", Old: "\t\tif l.CurrentChar == '\\\\' {\n\t\t\tl.ReadChar() // Move to the character after backslash\n", New: "\t\tif l.CurrentChar == '\\\\' && l.PeekChar() != '\\\\' {\n\t\t\tl.ReadChar() // Move to the character after backslash\n", Rule: "R7.6", Construct: "readString"},
		// R11.6
		variant{Prop: "C11", Name: "binding-power-without-infix-function", File: "parser/parser.go", Old: "\ttoken.ASSIGN:       ASSIGNMENT,\n", New: "\ttoken.ASSIGN:       ASSIGNMENT,\n\ttoken.COLON:        ASSIGNMENT,\n", Rule: "R11.6", Construct: "constructor: binding-power keys"},
		variant{Prop: "C11", Name: "registered-infix-function-optional", File: "parser/parser.go", Old: "\tp.precedences[tokenType] = precedence\n\tp.infixParseFns[tokenType] = func(left ast.Expression) ast.Expression {", New: "\tp.precedences[tokenType] = precedence\n\tif createExpr == nil {\n\t\treturn\n\t}\n\tp.infixParseFns[tokenType] = func(left ast.Expression) ast.Expression {", Rule: "R11.6", Construct: "registerInfixOperator: binding-power entry"},
		variant{Prop: "C11", Name: "infix-applied-before-advancing", File: "parser/parser_functions.go", Old: "\tp.NextToken()\n\treturn infix(left)", New: "\tresult := infix(left)\n\tp.NextToken()\n\treturn result", Rule: "R11.6", Construct: "ParseInfixExpression: advances before"},
		// R11.5
		variant{Prop: "C11", Name: "first-error-read-without-length-test", File: "parser/parser.go", Old: "\tif len(p.errors) > 0 {\n\t\treturn program, fmt.Errorf(", New: "\tif len(p.errors) >= 0 {\n\t\treturn program, fmt.Errorf(", Rule: "R11.5", Construct: "ParseProgram: index"},
		variant{Prop: "C11", Name: "current-context-of-empty-stack", File: "parser/parser_context.go", Old: "if len(p.contextStack) == 0 {", New: "if len(p.contextStack) < 0 {", Rule: "R11.5", Construct: "CurrentContext: index"},
		variant{Prop: "C11", Name: "prefix-function-called-without-nil-test", File: "parser/parser_functions.go", Old: "\tif prefix == nil {\n\t\tp.AddError(fmt.Sprintf(\"unexpected %s\", p.CurrentToken.Literal))\n\t\treturn nil\n\t}\n", New: "\tif prefix == nil && p.tolerantMode {\n\t\tp.AddError(fmt.Sprintf(\"unexpected %s\", p.CurrentToken.Literal))\n\t\treturn nil\n\t}\n", Rule: "R11.5", Construct: "ParsePrefixExpression: dynamic call"},
		// R12.5 scanner exits
		variant{Prop: "C12", Name: "string-scan-stops-on-lookahead", File: lx, Old: "\tfor {\n\t\tl.ReadChar()\n\t\tif l.CurrentChar == 0 {\n\t\t\tbreak\n\t\t}\n\t\t// Handle escape sequences", New: "\tfor l.PeekChar() != 0 {\n\t\tl.ReadChar()\n\t\t// Handle escape sequences", Rule: "R12.5", Construct: "end-of-input exit"},
	)
}
