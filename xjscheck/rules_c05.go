package main

import (
	"fmt"
	"go/ast"
	"go/constant"
	"go/token"
	"go/types"
	"sort"
	"strconv"

	"golang.org/x/tools/go/ssa"
)

func init() {
	register("C05", &propSpec{
		run: runC05,
		explanation: "Registered operators are shown to be the SAME mechanism as built-ins, and the bookkeeping to be exact (sibling cross-check + table comparison + path rules, on the current source): " +
			"R5.1 the operand-parsing summary of the closure created for a registered infix operator {level = binding power of the current (operator) token read before advancing; advance once; parse through the interceptable expression function at that level} equals that of the built-in binary method; registered prefix = built-in unary {advance once; constant unary level}; registered postfix stores the call level and consumes nothing; " +
			"R5.2 the registrar stores its precedence parameter itself into the receiver's own table, and the value flows unchanged from Builder.RegisterInfixOperator through the operator record and the constructor; " +
			"R5.3 the three 'already registered' sets seeded by the builder equal the key sets of the parser's prefix table, infix/binding-power tables and postfix entries; binding-power keys = infix keys (this is also the climbing loop's progress argument); " +
			"R5.4 each Register…Operator performs no write before an error return, and on success both appends the operator and marks the token; " +
			"R5.5 DYNAMIC_TOKENS_START exceeds every built-in token constant; only NewBuilder and RegisterTokenType write the id allocator; a memo hit returns the stored id without writing; the allocation path returns the pre-increment counter, records it under the name and stores counter+1. " +
			"The resulting tree shapes for every neighbour are not computed.",
		notDecided: []string{"grouping of registered operators against every neighbour as tree shapes", "plugins that bypass the builder"},
	})
}

type operandSummary struct {
	level    string // "own", "const <k>", "none"
	advances int
	viaChain bool
	ordered  bool
}

func (s operandSummary) String() string {
	return fmt.Sprintf("{level=%s advances=%d through-chain=%v level-read-before-advance-before-parse=%v}", s.level, s.advances, s.viaChain, s.ordered)
}

func summariseOperand(c *Ctx, t *tables, a *parserAnchors, f *ssa.Function) operandSummary {
	_, curFn := precReaders(c, t, a)
	s := operandSummary{level: "none", ordered: true}
	var lvlCall, adv, sub ssa.Instruction
	allInstrs(f, func(_ *ssa.BasicBlock, _ int, in ssa.Instruction) {
		call, ok := in.(*ssa.Call)
		if !ok {
			return
		}
		switch {
		case call.Call.StaticCallee() == a.nextTok:
			s.advances++
			if adv == nil {
				adv = call
			}
		case call.Call.StaticCallee() == curFn && curFn != nil:
			lvlCall = call
		default:
			_, direct := isFieldLoad(call.Call.Value, t.pt.exprFld)
			sh := c.stepHelper(t, call.Call.StaticCallee())
			if direct || sh != nil {
				sub = call
				s.viaChain = true
				lv := resolve(call.Call.Args[1])
				if sh != nil {
					// the operand step as a helper: one advance, then the sub-parse at the level handed in
					lv = resolve(call.Call.Args[sh.levelIdx])
					s.advances++
					if adv == nil {
						adv = call
					}
				}
				if k, ok := constInt64(lv); ok {
					s.level = fmt.Sprintf("const %d", k)
				} else if cc, ok := lv.(*ssa.Call); ok && cc.Call.StaticCallee() == curFn {
					s.level = "own"
				} else {
					s.level = "other"
				}
			}
		}
	})
	if s.level == "own" {
		s.ordered = lvlCall != nil && adv != nil && sub != nil && instrDominates(lvlCall, adv) && instrDominates(adv, sub)
	} else if sub != nil {
		s.ordered = adv != nil && instrDominates(adv, sub)
	}
	return s
}

func runC05(c *Ctx) {
	t := c.tables()
	a := c.parserAnchors()
	c.rule("R5.0", "anchors and tables")
	for _, p := range a.problems {
		c.unres("anchors", token.NoPos, "%s", p)
	}
	if c.extractorProblems(t, "parser") || a.ctor == nil {
		return
	}
	c.ok("tables", token.NoPos, "prefix %d, infix %d, binding powers %d", len(t.pt.prefix), len(t.pt.infix), len(t.pt.prec))

	// registrars by role: parser methods (other than the constructor) that update the prefix/infix tables
	type registrar struct {
		fn      *ssa.Function
		table   *types.Var
		closure *ssa.Function
		setsLvl *ssa.MapUpdate
	}
	var regs []registrar
	for _, f := range c.libFunctions("parser") {
		if f == a.ctor || f.Parent() != nil {
			continue
		}
		var r registrar
		allInstrs(f, func(_ *ssa.BasicBlock, _ int, in ssa.Instruction) {
			mu, ok := in.(*ssa.MapUpdate)
			if !ok {
				return
			}
			for _, fld := range []*types.Var{t.pt.prefixFld, t.pt.infixFld} {
				if _, ok := isFieldLoad(mu.Map, fld); ok {
					if mc, ok := mu.Value.(*ssa.MakeClosure); ok {
						r.fn, r.table, r.closure = f, fld, mc.Fn.(*ssa.Function)
					}
				}
			}
			if _, ok := isFieldLoad(mu.Map, t.pt.precFld); ok {
				r.setsLvl = mu
			}
		})
		if r.fn != nil {
			regs = append(regs, r)
		}
	}
	sort.Slice(regs, func(i, j int) bool { return fnName(regs[i].fn) < fnName(regs[j].fn) })

	c.rule("R5.1", "sibling agreement: registered operators parse their operands exactly like the built-in binary/unary methods; registered postfix consumes nothing at call level")
	c.floor(3)
	var binM, unM *ssa.Function
	for _, m := range t.pt.infix {
		for _, nd := range c.constructedNodes(m) {
			if nd == "BinaryExpression" {
				binM = c.Prog.FuncValue(m)
			}
		}
	}
	for _, m := range t.pt.prefix {
		for _, nd := range c.constructedNodes(m) {
			if nd == "UnaryExpression" {
				unM = c.Prog.FuncValue(m)
			}
		}
	}
	if binM == nil || unM == nil {
		c.unres("built-in siblings", token.NoPos, "built-in binary/unary parse methods not found through the tables")
	}
	lparenT, _ := refTypeOf(t, "(")
	callLevel := t.pt.prec[lparenT]
	for _, r := range regs {
		key := fnName(r.fn)
		// the 'right' closure: the nested closure that parses the operand
		var right *ssa.Function
		for _, n := range r.closure.AnonFuncs {
			right = n
		}
		switch {
		case r.table == t.pt.infixFld && right != nil && binM != nil:
			got, want := summariseOperand(c, t, a, right), summariseOperand(c, t, a, binM)
			c.check(got == want && got.ordered && got.level == "own", key+": operand parsing = built-in binary", right.Pos(), "registered infix "+got.String(), fmt.Sprintf("a registered infix operator parses its right operand differently from a built-in binary operator: registered %s, built-in %s", got, want))
			// the operator token handed to the plugin is the current token, read before `right` can advance
			checkOperatorTokenArg(c, a, r.closure, key)
		case r.table == t.pt.prefixFld && right != nil && unM != nil:
			got, want := summariseOperand(c, t, a, right), summariseOperand(c, t, a, unM)
			c.check(got == want && got.ordered, key+": operand parsing = built-in unary", right.Pos(), "registered prefix "+got.String(), fmt.Sprintf("a registered prefix operator parses its operand differently from the built-in unary operators: registered %s, built-in %s", got, want))
			checkOperatorTokenArg(c, a, r.closure, key)
		case r.table == t.pt.infixFld && right == nil:
			// postfix: call level, consumes nothing
			got := summariseOperand(c, t, a, r.closure)
			lvlOK := false
			if r.setsLvl != nil {
				if k, ok := constInt64(r.setsLvl.Value); ok && k == callLevel {
					lvlOK = true
				}
			}
			c.check(got.advances == 0 && !got.viaChain && lvlOK, key+": postfix at call level, consumes nothing", r.closure.Pos(), "binds like a call-level suffix", fmt.Sprintf("a registered postfix operator must store the call level (%d) and must not consume tokens (advances=%d, parses=%v, level ok=%v)", callLevel, got.advances, got.viaChain, lvlOK))
			checkOperatorTokenArg(c, a, r.closure, key)
		default:
			c.unres(key+": shape", r.fn.Pos(), "registrar closure shape not recognised")
		}
	}
	if len(regs) < 3 {
		c.unres("registrars", token.NoPos, "expected the prefix, infix and postfix registrars, found %d", len(regs))
	}

	c.rule("R5.2", "the binding power of a registered infix operator is stored unchanged in the parser's own table and flows unchanged from the builder")
	c.floor(3)
	for _, r := range regs {
		if r.setsLvl == nil || right(r.closure) == nil {
			continue
		}
		key := fnName(r.fn)
		_, isParam := r.setsLvl.Value.(*ssa.Parameter)
		c.check(isParam, key+": stores its parameter", r.setsLvl.Pos(), "p.precedences[tok] = precedence (the parameter itself)", "the registrar stores something other than its precedence parameter")
		// per parser: the map is a field of the receiver (global tables are R14.1's business, checked here too)
		fa, _ := isFieldLoad(r.setsLvl.Map, t.pt.precFld)
		c.check(fa != nil && resolve(fa.X) == ssa.Value(r.fn.Params[0]), key+": own table", r.setsLvl.Pos(), "the receiver's own table", "the level is stored in a table that is not the receiver's own")
		// flow from the builder: ctor passes an int field of the operator record; the builder stores its int parameter in that field
		var pIdx int
		for i, p := range r.fn.Params {
			if p == r.setsLvl.Value {
				pIdx = i
			}
		}
		var recFld *types.Var
		for _, sf := range c.ctorScope(a) {
			allInstrs(sf, func(_ *ssa.BasicBlock, _ int, in ssa.Instruction) {
				if call, ok := in.(*ssa.Call); ok && call.Call.StaticCallee() == r.fn {
					switch x := call.Call.Args[pIdx].(type) {
					case *ssa.Field:
						recFld = fieldOfField(x)
					case *ssa.UnOp:
						if fa, ok := x.X.(*ssa.FieldAddr); ok {
							recFld = fieldOfAddr(fa)
						}
					}
				}
			})
		}
		if recFld == nil {
			c.bad(key+": constructor passes the recorded level", a.ctor.Pos(), "the constructor does not pass a field of the operator record unchanged to the registrar (arithmetic on the level?)")
			continue
		}
		c.ok(key+": constructor passes the recorded level", a.ctor.Pos(), "field %s of the operator record, unmodified", recFld.Name())
		reg := c.fn("(*parser.Builder).RegisterInfixOperator")
		stored := false
		if reg != nil {
			allInstrs(reg, func(_ *ssa.BasicBlock, _ int, in ssa.Instruction) {
				if st, ok := in.(*ssa.Store); ok {
					if fa, ok := st.Addr.(*ssa.FieldAddr); ok && fieldOfAddr(fa) == recFld {
						if _, isParam := st.Val.(*ssa.Parameter); isParam {
							stored = true
						}
					}
				}
			})
		}
		c.check(stored, "Builder.RegisterInfixOperator: records its precedence parameter", token.NoPos, "stored unchanged into the operator record", "the builder does not record the given precedence unchanged")
	}

	c.rule("R5.3", "duplicate bookkeeping seeded exactly: prefix set = prefix keys; infix set ⊇ infix keys; binding-power keys = infix keys; postfix set = postfix entries")
	c.floor(4)
	ruleBookkeeping(c, t)

	c.rule("R5.4", "refusal leaves the builder unchanged; success appends the operator and marks the token")
	c.floor(6)
	for _, name := range []string{"RegisterPrefixOperator", "RegisterInfixOperator", "RegisterPostfixOperator"} {
		ruleRefusal(c, a, c.fn("(*parser.Builder)."+name), name)
	}

	c.rule("R5.5", "token ids: dynamic range above all built-ins; single allocator; memo hit is write-free; allocation returns pre-increment, records it, stores +1")
	c.floor(4)
	ruleTokenIds(c, t)
}

func right(closure *ssa.Function) *ssa.Function {
	for _, n := range closure.AnonFuncs {
		return n
	}
	return nil
}

// the plugin's constructor receives the parser's CURRENT token (the operator), loaded in the outer closure
func checkOperatorTokenArg(c *Ctx, a *parserAnchors, closure *ssa.Function, key string) {
	ok := false
	allInstrs(closure, func(_ *ssa.BasicBlock, _ int, in ssa.Instruction) {
		call, isCall := in.(*ssa.Call)
		if !isCall || call.Call.IsInvoke() || call.Call.StaticCallee() != nil {
			return
		}
		if len(call.Call.Args) > 0 {
			if _, isCur := isFieldLoad(call.Call.Args[0], a.cur); isCur {
				ok = true
			}
		}
	})
	c.check(ok, key+": operator token = current token", closure.Pos(), "the constructor is given the current token", "the plugin's constructor is not given the parser's current token as operator token")
}

// ---- R5.3 ---------------------------------------------------------------------------------

func ruleBookkeeping(c *Ctx, t *tables) {
	p := c.Pkgs["parser"]
	info := p.TypesInfo
	// role: the map field tested in each Register…Operator
	roleField := func(method string) *types.Var {
		f := c.fn("(*parser.Builder)." + method)
		if f == nil {
			return nil
		}
		var fld *types.Var
		allInstrs(f, func(_ *ssa.BasicBlock, _ int, in ssa.Instruction) {
			if lk, ok := in.(*ssa.Lookup); ok {
				if u, ok := lk.X.(*ssa.UnOp); ok {
					if fa, ok := u.X.(*ssa.FieldAddr); ok && namedIs(fa.X.Type(), "parser", "Builder") {
						fld = fieldOfAddr(fa)
					}
				}
			}
		})
		return fld
	}
	roles := map[string]*types.Var{"prefix": roleField("RegisterPrefixOperator"), "infix": roleField("RegisterInfixOperator"), "postfix": roleField("RegisterPostfixOperator")}
	nb := c.funcDecl("parser", "", "NewBuilder")
	if nb == nil {
		c.unres("NewBuilder", token.NoPos, "not found")
		return
	}
	// variable -> set, from map literals and make+range loops in NewBuilder
	sets := map[types.Object]map[int64]bool{}
	setOfLit := func(cl *ast.CompositeLit) map[int64]bool {
		s := map[int64]bool{}
		for _, el := range cl.Elts {
			kv, ok := el.(*ast.KeyValueExpr)
			if !ok {
				continue
			}
			if k, ok := c.tokConstOf(info, kv.Key); ok {
				if v, ok := constOfExpr(info, kv.Value); ok && v.String() == "true" {
					s[k] = true
				}
			}
		}
		return s
	}
	ast.Inspect(nb.Body, func(n ast.Node) bool {
		switch x := n.(type) {
		case *ast.AssignStmt:
			if len(x.Lhs) == 1 && len(x.Rhs) == 1 {
				// set[token.K] = true on a set made before (a map literal written as assignments)
				if ix, ok := x.Lhs[0].(*ast.IndexExpr); ok {
					if sid, ok := ix.X.(*ast.Ident); ok {
						if set, ok := sets[info.ObjectOf(sid)]; ok {
							if k, ok := c.tokConstOf(info, ix.Index); ok {
								if v, ok := constOfExpr(info, x.Rhs[0]); ok && v.String() == "true" {
									set[k] = true
								}
							}
						}
					}
					return true
				}
				id, ok := x.Lhs[0].(*ast.Ident)
				if !ok {
					return true
				}
				obj := info.ObjectOf(id)
				if cl, ok := x.Rhs[0].(*ast.CompositeLit); ok {
					if _, isMap := info.Types[cl].Type.Underlying().(*types.Map); isMap {
						sets[obj] = setOfLit(cl)
					}
				}
				if call, ok := x.Rhs[0].(*ast.CallExpr); ok {
					if fid, ok := call.Fun.(*ast.Ident); ok && fid.Name == "make" {
						if _, isMap := info.Types[call].Type.Underlying().(*types.Map); isMap {
							sets[obj] = map[int64]bool{}
						}
					}
				}
			}
		case *ast.RangeStmt:
			// for k := range <package-level binding-power table> { set[k] = true }
			src, ok := x.X.(*ast.Ident)
			if !ok {
				return true
			}
			if _, isPkgVar := info.ObjectOf(src).(*types.Var); !isPkgVar || info.ObjectOf(src).Parent() != p.Types.Scope() {
				return true
			}
			for _, st := range x.Body.List {
				as, ok := st.(*ast.AssignStmt)
				if !ok || len(as.Lhs) != 1 {
					continue
				}
				ix, ok := as.Lhs[0].(*ast.IndexExpr)
				if !ok {
					continue
				}
				id, ok := ix.X.(*ast.Ident)
				if !ok {
					continue
				}
				// the assigned value must be the constant true
				if v, ok := constOfExpr(info, as.Rhs[0]); !ok || v.String() != "true" {
					continue
				}
				if s, ok := sets[info.ObjectOf(id)]; ok {
					kid, ok := ix.Index.(*ast.Ident)
					if !ok {
						continue
					}
					c.buildSSA()
					g, _ := c.SSA["parser"].Members[src.Name].(*ssa.Global)
					if g == nil {
						continue
					}
					switch deref(g.Type()).Underlying().(type) {
					case *types.Map:
						// for k := range table { set[k] = true }
						if x.Key == nil || info.ObjectOf(kid) != info.ObjectOf(x.Key.(*ast.Ident)) {
							continue
						}
						if t.pt.precVar != nil && info.ObjectOf(src) == t.pt.precVar {
							// the binding-power table itself (read, or folded, by the table extractor)
							for kv := range t.pt.prec {
								s[kv] = true
							}
						} else if tbl := globalMapTable(g); tbl != nil {
							for ks := range tbl {
								if kv, err := strconv.ParseInt(ks, 10, 64); err == nil {
									s[kv] = true
								}
							}
						}
					case *types.Slice, *types.Array:
						// for _, k := range list { set[k] = true }
						vid, isId := x.Value.(*ast.Ident)
						if x.Value == nil || !isId || info.ObjectOf(kid) != info.ObjectOf(vid) {
							continue
						}
						for _, kv := range globalSeqTable(g) {
							if kv != nil {
								if n, ok := constant.Int64Val(kv); ok {
									s[n] = true
								}
							}
						}
					}
				}
			}
		}
		return true
	})
	// the Builder literal: field -> variable
	fieldSet := map[*types.Var]map[int64]bool{}
	ast.Inspect(nb.Body, func(n ast.Node) bool {
		cl, ok := n.(*ast.CompositeLit)
		if !ok {
			return true
		}
		tv, ok := info.Types[cl]
		if !ok || !namedIs(tv.Type, "parser", "Builder") {
			return true
		}
		for _, el := range cl.Elts {
			kv, ok := el.(*ast.KeyValueExpr)
			if !ok {
				continue
			}
			kid, ok := kv.Key.(*ast.Ident)
			if !ok {
				continue
			}
			fld, _ := info.Uses[kid].(*types.Var)
			switch v := kv.Value.(type) {
			case *ast.Ident:
				if s, ok := sets[info.ObjectOf(v)]; ok {
					fieldSet[fld] = s
				}
			case *ast.CompositeLit:
				if _, isMap := info.Types[v].Type.Underlying().(*types.Map); isMap {
					fieldSet[fld] = setOfLit(v)
				}
			}
		}
		return true
	})
	keys := func(m map[int64]*types.Func) map[int64]bool {
		s := map[int64]bool{}
		for k := range m {
			s[k] = true
		}
		return s
	}
	postfixKeys := map[int64]bool{}
	for k, m := range t.pt.infix {
		for _, nd := range c.constructedNodes(m) {
			if nd == "PostfixExpression" {
				postfixKeys[k] = true
			}
		}
	}
	precKeys := map[int64]bool{}
	for k := range t.pt.prec {
		precKeys[k] = true
	}
	cmp := func(role string, want map[int64]bool, exact bool) {
		fld := roles[role]
		if fld == nil {
			c.unres(role+" bookkeeping field", nb.Pos(), "the map tested by Register%sOperator was not found", role)
			return
		}
		got, ok := fieldSet[fld]
		if !ok {
			c.unres(role+" bookkeeping seed", nb.Pos(), "NewBuilder does not seed field %s from a map literal or a range over the binding-power table (accepted idioms)", fld.Name())
			return
		}
		missing, extra := diffSets(want, got)
		key := role + " bookkeeping = built-in " + role + " operators"
		switch {
		case len(missing) > 0:
			c.bad(key, nb.Pos(), "built-in %s tokens missing from the duplicate bookkeeping: %s — registering one of them is not refused and silently replaces the built-in", role, joinNames(t.tc, missing))
		case exact && len(extra) > 0:
			c.bad(key, nb.Pos(), "tokens marked as built-in %s operators that are not: %s — registering them is wrongly refused", role, joinNames(t.tc, extra))
		default:
			c.ok(key, nb.Pos(), "%d tokens, equal to the parser's table", len(got))
			if len(extra) > 0 {
				c.info(role+" bookkeeping has extra tokens", nb.Pos(), "%s", joinNames(t.tc, extra))
			}
		}
	}
	cmp("prefix", keys(t.pt.prefix), true)
	cmp("infix", keys(t.pt.infix), false)
	cmp("postfix", postfixKeys, true)
	missing, extra := diffSets(keys(t.pt.infix), precKeys)
	c.check(len(missing) == 0 && len(extra) == 0, "binding-power keys = infix keys", nb.Pos(), fmt.Sprintf("%d tokens on both sides", len(precKeys)), fmt.Sprintf("tokens with an infix entry but no binding power: [%s]; with binding power but no infix entry: [%s] — the latter make the climbing loop spin without consuming (ParseInfixExpression returns left)", joinNames(t.tc, missing), joinNames(t.tc, extra)))
}

func diffSets(want, got map[int64]bool) (missing, extra []int64) {
	for k := range want {
		if !got[k] {
			missing = append(missing, k)
		}
	}
	for k := range got {
		if !want[k] {
			extra = append(extra, k)
		}
	}
	sort.Slice(missing, func(i, j int) bool { return missing[i] < missing[j] })
	sort.Slice(extra, func(i, j int) bool { return extra[i] < extra[j] })
	return
}

// ---- R5.4 ---------------------------------------------------------------------------------

func ruleRefusal(c *Ctx, a *parserAnchors, f *ssa.Function, name string) {
	if f == nil {
		c.unres(name, token.NoPos, "not found")
		return
	}
	n := 0
	a.enumPaths(f.Blocks[0], func(facts []pathFact, blocks []*ssa.BasicBlock, last *ssa.BasicBlock) {
		ret, ok := last.Instrs[len(last.Instrs)-1].(*ssa.Return)
		if !ok || len(ret.Results) != 1 {
			return
		}
		n++
		stores, marks := 0, 0
		for _, b := range blocks {
			for _, in := range b.Instrs {
				switch x := in.(type) {
				case *ssa.Store:
					if fa, ok := x.Addr.(*ssa.FieldAddr); ok && resolve(fa.X) == ssa.Value(f.Params[0]) {
						stores++
					}
				case *ssa.MapUpdate:
					if u, ok := x.Map.(*ssa.UnOp); ok {
						if fa, ok := u.X.(*ssa.FieldAddr); ok && resolve(fa.X) == ssa.Value(f.Params[0]) {
							marks++
						}
					}
				}
			}
		}
		key := fmt.Sprintf("%s: path #%d", name, n)
		if isNilConst(ret.Results[0]) {
			c.check(stores >= 1 && marks >= 1, key+" (success)", ret.Pos(), "appends the operator and marks the token", fmt.Sprintf("the success path must both record the operator and mark the token as registered (stores=%d, marks=%d): a second registration would not be refused", stores, marks))
		} else {
			c.check(stores == 0 && marks == 0, key+" (refusal)", ret.Pos(), "no write before the error return", "the builder is modified before the registration is refused: a refused registration still changes the parsers built later")
		}
	})
}

// ---- R5.5 ---------------------------------------------------------------------------------

func ruleTokenIds(c *Ctx, t *tables) {
	max := int64(0)
	for _, v := range t.tc.byName {
		if v > max {
			max = v
		}
	}
	c.check(t.tc.dynStart > max, "DYNAMIC_TOKENS_START above all built-in token constants", token.NoPos, fmt.Sprintf("%d > %d", t.tc.dynStart, max), fmt.Sprintf("DYNAMIC_TOKENS_START (%d) does not exceed the largest built-in token constant (%d): a registered type can collide with a built-in", t.tc.dynStart, max))
	counter := c.fieldByType("lexer", "Builder", func(ty types.Type) bool { return namedIs(ty, "token", "Type") })
	memo := c.fieldByType("lexer", "Builder", func(ty types.Type) bool {
		m, ok := ty.Underlying().(*types.Map)
		return ok && namedIs(m.Elem(), "token", "Type")
	})
	reg := c.fn("(*lexer.Builder).RegisterTokenType")
	nb := c.fn("lexer.NewBuilder")
	if counter == nil || memo == nil || reg == nil || nb == nil {
		c.unres("allocator anchors", token.NoPos, "counter/memo fields, RegisterTokenType or NewBuilder not found")
		return
	}
	// who may write
	for _, f := range c.libFunctions() {
		allInstrs(f, func(_ *ssa.BasicBlock, _ int, in ssa.Instruction) {
			switch x := in.(type) {
			case *ssa.Store:
				if fa, ok := x.Addr.(*ssa.FieldAddr); ok && (fieldOfAddr(fa) == counter || fieldOfAddr(fa) == memo) && f != reg && f != nb && !copyConstructStore(x) {
					c.bad(fnName(f)+": writes the token-id allocator", x.Pos(), "only NewBuilder and RegisterTokenType may write the counter/memo")
				}
			case *ssa.MapUpdate:
				if _, ok := isFieldLoad(x.Map, memo); ok && f != reg {
					c.bad(fnName(f)+": writes the token-id memo", x.Pos(), "only RegisterTokenType may record ids")
				}
			}
		})
	}
	// NewBuilder: counter starts at DYNAMIC_TOKENS_START
	init := false
	allInstrs(nb, func(_ *ssa.BasicBlock, _ int, in ssa.Instruction) {
		if st, ok := in.(*ssa.Store); ok {
			if _, ok := isFieldAddr(st.Addr, counter); ok {
				if k, ok := constInt64(unwrap(st.Val)); ok && k == t.tc.dynStart {
					init = true
				}
			}
		}
	})
	c.check(init, "NewBuilder: counter starts at DYNAMIC_TOKENS_START", nb.Pos(), "initialised to the first dynamic id", "the id counter does not start at DYNAMIC_TOKENS_START")
	// RegisterTokenType paths
	var lookup *ssa.Lookup
	allInstrs(reg, func(_ *ssa.BasicBlock, _ int, in ssa.Instruction) {
		if lk, ok := in.(*ssa.Lookup); ok && lk.CommaOk {
			if _, ok := isFieldLoad(lk.X, memo); ok && lk.Index == ssa.Value(reg.Params[1]) {
				lookup = lk
			}
		}
	})
	if lookup == nil {
		c.bad("RegisterTokenType: memo lookup", reg.Pos(), "the name is not looked up in the memo: ids are not stable per name")
		return
	}
	hit, alloc := 0, 0
	a := &parserAnchors{}
	a.enumPaths(reg.Blocks[0], func(facts []pathFact, blocks []*ssa.BasicBlock, last *ssa.BasicBlock) {
		ret, ok := last.Instrs[len(last.Instrs)-1].(*ssa.Return)
		if !ok || len(ret.Results) != 1 {
			return
		}
		writes := 0
		var ctrStore *ssa.Store
		var memoUpd *ssa.MapUpdate
		for _, b := range blocks {
			for _, in := range b.Instrs {
				switch x := in.(type) {
				case *ssa.Store:
					if _, ok := isFieldAddr(x.Addr, counter); ok {
						writes++
						ctrStore = x
					}
				case *ssa.MapUpdate:
					writes++
					memoUpd = x
				}
			}
		}
		res := phiOnPath(ret.Results[0], blocks)
		if ex, ok := res.(*ssa.Extract); ok && ex.Tuple == ssa.Value(lookup) && ex.Index == 0 {
			hit++
			c.check(writes == 0, fmt.Sprintf("RegisterTokenType: memo hit #%d", hit), ret.Pos(), "returns the stored id, no write", "a memo hit writes builder state")
			return
		}
		alloc++
		key := fmt.Sprintf("RegisterTokenType: allocation path #%d", alloc)
		_, isPre := isFieldLoad(res, counter)
		okInc := false
		if ctrStore != nil {
			if bo, ok := ctrStore.Val.(*ssa.BinOp); ok && bo.Op == token.ADD {
				if _, ok := isFieldLoad(bo.X, counter); ok {
					if k, ok := constInt64(unwrap(bo.Y)); ok && k == 1 {
						okInc = true
					}
				}
			}
		}
		okMemo := memoUpd != nil && memoUpd.Key == ssa.Value(reg.Params[1]) && memoUpd.Value == res
		if okMemo {
			_, okMemo = isFieldLoad(memoUpd.Map, memo)
		}
		// the returned value must be read before the increment
		pre := isPre
		if isPre && ctrStore != nil {
			pre = instrDominates(res.(ssa.Instruction), ctrStore)
		}
		c.check(pre && okInc && okMemo, key, ret.Pos(), "returns the pre-increment counter, records it under the name, stores counter+1", fmt.Sprintf("allocation must return the counter read before the increment (%v), store counter+1 (%v) and record the returned id under the name (%v): otherwise names share an id or ids are not stable", pre, okInc, okMemo))
	})
	if hit == 0 || alloc == 0 {
		c.bad("RegisterTokenType: paths", reg.Pos(), "expected a memo-hit path and an allocation path (hit=%d, alloc=%d)", hit, alloc)
	}
}
