package main

func init() {
	pf := "parser/parser_functions.go"
	pp := "parser/parser.go"
	addVariants(
		variant{Prop: "C11", Name: "typed-nil-arm-restored", File: "parser/base_parser_functions.go", Old: "\t\tif stmt := p.ParseWhileStatement(); stmt != nil {\n\t\t\treturn stmt\n\t\t}", New: "\t\treturn p.ParseWhileStatement()", Rule: "R11.1", Construct: "baseParseStatement"},
		variant{Prop: "C11", Name: "integer-literal-silent-nil", File: pf, Old: "\t\tp.AddError(fmt.Sprintf(\"could not parse %q as integer\", p.CurrentToken.Literal))\n\t\treturn nil", New: "\t\t_ = fmt.Sprintf\n\t\treturn nil", Rule: "R11.2", Construct: "ParseIntegerLiteral"},
		variant{Prop: "C11", Name: "expect-token-silent-false", File: pp, Old: "\tp.AddErrorAtToken(fmt.Sprintf(\"%s expected\", t), p.PeekToken)\n\treturn false", New: "\tif t != token.RBRACE {\n\t\tp.AddErrorAtToken(fmt.Sprintf(\"%s expected\", t), p.PeekToken)\n\t}\n\treturn false", Rule: "R11.2", Construct: "ExpectToken"},
		variant{Prop: "C11", Name: "error-threshold-off-by-one", File: pp, Old: "if len(p.errors) > 0 {", New: "if len(p.errors) > 1 {", Rule: "R11.4", Construct: "ParseProgram"},
		variant{Prop: "C11", Name: "error-range-ends-at-peek", File: pp, Old: "\t\tEnd:   tok.End,", New: "\t\tEnd:   p.PeekToken.End,", Rule: "R11.4", Construct: "range"},
		variant{Prop: "C11", Name: "errors-reset-in-parse-program", File: pp, Old: "\tprogram.Statements = []ast.Statement{}", New: "\tprogram.Statements = []ast.Statement{}\n\tp.errors = p.errors[:0]", Rule: "R11.4", Construct: "ParseProgram"},
		variant{Prop: "C11", Name: "error-built-elsewhere", File: pf, Old: "\t\tp.AddError(fmt.Sprintf(\"unexpected %s\", p.CurrentToken.Literal))", New: "\t\tp.errors = append(p.errors, ParserError{Message: fmt.Sprintf(\"unexpected %s\", p.CurrentToken.Literal)})", Rule: "R11.4", Construct: "ParsePrefixExpression"},
		variant{Prop: "C11", Name: "grouped-expression-nil-without-error", File: pf, Old: "\texp := p.ParseExpression()\n\tif !p.ExpectToken(token.RPAREN) {\n\t\treturn nil\n\t}", New: "\texp := p.ParseExpression()\n\tif p.PeekToken.Type != token.RPAREN {\n\t\treturn nil\n\t}\n\tp.NextToken()", Rule: "R11.2", Construct: "ParseGroupedExpression"},
		variant{Prop: "C11", Name: "benign-nonempty-test-neq", File: pp, Old: "if len(p.errors) > 0 {", New: "if len(p.errors) != 0 {", Benign: true},
		variant{Prop: "C11", Name: "benign-block-arm-uniform", File: "parser/base_parser_functions.go", Old: "\t\treturn p.ParseBlockStatement()", New: "\t\tif stmt := p.ParseBlockStatement(); stmt != nil {\n\t\t\treturn stmt\n\t\t}", Benign: true},
	)
}
