package main

import (
	"fmt"
	"go/constant"
	"go/token"
	"go/types"
	"sort"
	"strings"

	"golang.org/x/tools/go/ssa"
)

func init() {
	register("C06", &propSpec{
		run: runC06,
		explanation: "Re-parse equality of formatted output and idempotence of formatting are NOT decided (the pending-whitespace machine's behaviour depends on the whole call history). Decided are the mechanisms that make formatting layout-only: " +
			"R6.1 configuration reaches only whitespace and the statement ';': the writer's configuration and pending state are read only by *CodeWriter methods (no node printer can branch on them); every append to the output buffer is classified, and an append that is control-dependent on configuration or pending state writes whitespace by construction (a pending element — only ' ', '\\n', '\\t' are ever queued —, the indent string — whose producers yield spaces or a tab —, a whitespace constant), or is the ';' of the semicolon writer, or is comment replay (C15); text handed in by the printers is appended independently of configuration; " +
			"R6.2 omitting semicolons is safe only if no statement can continue the previous line: for every statement list, the lexemes that can start a statement are intersected with the tokens that continue an expression after a line break (infix entries, backtick), and a keyword written after a child statement needs that child to end in ';' or '}' (genuine defects found here are listed as known findings); " +
			"R6.3 a post-pass over the emitted text must not rewrite the lines of a multi-line literal (known finding: trailing spaces inside a backtick literal are trimmed), and it returns the text trimmed at its end (line breaks replayed in front of the end of the input would otherwise make the output differ from its own re-formatting); " +
			"R6.4 in both pretty modes no two adjacent lexemes fuse (= R1.2 restricted to pretty output), so pretty and compact output lex to the same token sequence; " +
			"R6.5 the flush of pending layout leaves nothing pending on any return (cleared, or found empty), so layout cannot be replayed in front of a later write; " +
			"R6.7 a printer that changes the indentation level follows every line-break request by an indent request before the next text; " +
			"R6.6 the separator check hands the comments of a consumed ';' on to the following token (the no-semicolon printer places the restored ';' behind the comments of the statement it protects, so a second formatting would lose them otherwise).",
		notDecided: []string{"equality of trees after re-parse", "byte-for-byte idempotence of formatting beyond the necessary conditions R6.5-R6.7 and the end trim of R6.3 (where the pending-whitespace machine puts layout in general)", "that indentation changes only LEADING whitespace (R6.1 shows only whitespace can differ, not where)"},
	})
}

func runC06(c *Ctx) {
	t := c.tables()
	c.rule("R6.0", "extractors")
	if c.extractorProblems(t, "lexemes", "parser", "printer") {
		return
	}
	g := c.grammar(t)
	c.ok("extractors", token.NoPos, "%d printers, %d parse methods", len(g.printers), len(g.methods))

	c.rule("R6.1", "configuration reaches only whitespace and ';': who-may-read the writer's configuration; every buffer append classified; pending elements and indent strings are whitespace by construction")
	c.floor(12)
	ruleLayoutOnly(c)

	c.rule("R6.2", "without semicolons no statement may start with a token that continues the previous line; a keyword after a child statement needs the child to end in ';' or '}'")
	c.floor(8)
	ruleNoSemiHazards(c, t, g)

	c.rule("R6.3", "post-passes over the emitted text do not rewrite lines of multi-line literals, and leave no layout at the end of the text")
	c.floor(1)
	rulePostPass(c, t)

	c.rule("R6.4", "no token fusion in pretty output, with and without semicolons (= R1.2 for the pretty modes)")
	c.floor(200)
	ruleNoFusion(c, t, g, "pretty", "pretty-nosemi")

	c.rule("R6.5", "the flush of pending layout leaves nothing pending: every return of the flush method is behind a clearing of the buffer or behind a test that found it empty")
	c.floor(1)
	ruleFlushLeavesNothing(c)

	c.rule("R6.6", "comments in front of a consumed statement separator stay in the program: the separator check hands the ';' token's trivia on to the token behind it (the no-semicolon printer puts a restored ';' behind the comments of the statement it protects, so on re-formatting those comments lead the ';')")
	c.floor(1)
	ruleSeparatorTriviaKept(c)

	c.rule("R6.8", "every pretty-print option sets single fields of the option set it is handed, never the whole set (an indentation option must not reset the semicolon option, nor the reverse)")
	c.floor(2)
	ruleOptionsSetTheirOwnField(c)

	c.rule("R6.7", "in a printer that changes the indentation level, every line-break request is followed by an indent request before the next text on every path (the comment replay does not count: it indents only when the token carries trivia)")
	c.floor(1)
	ruleIndentAfterNewline(c)
}

// ruleOptionsSetTheirOwnField (R6.8): the option functions of package compiler receive a pointer to the option set;
// a store through that pointer itself (`*opts = PrettyPrintOptions{…}`) replaces every option, so the result depends
// on the order of the options and an indentation option changes more than leading white space.
func ruleOptionsSetTheirOwnField(c *Ctx) {
	c.buildSSA()
	n := 0
	for _, f := range c.libFunctions("compiler") {
		if len(f.Params) == 0 {
			continue
		}
		var optParam *ssa.Parameter
		for _, p := range f.Params {
			if pt, ok := p.Type().(*types.Pointer); ok && namedIs(pt.Elem(), "compiler", "PrettyPrintOptions") {
				optParam = p
			}
		}
		if optParam == nil {
			continue
		}
		stores := 0
		allInstrs(f, func(_ *ssa.BasicBlock, _ int, in ssa.Instruction) {
			st, ok := in.(*ssa.Store)
			if !ok {
				return
			}
			root, path := fieldPath(st.Addr)
			if root != ssa.Value(optParam) {
				return
			}
			stores++
			n++
			key := fmt.Sprintf("%s: store #%d through the option pointer", fnName(f), stores)
			if len(path) == 0 {
				c.bad(key, st.Pos(), "the whole option set is overwritten: the option resets every other option to its zero value (an indentation option switches semicolons off), and the result depends on the order in which options are given")
			} else {
				c.ok(key, st.Pos(), "sets %s", pathString("PrettyPrintOptions", path))
			}
		})
	}
	if n == 0 {
		c.unres("option functions", token.NoPos, "no function of package compiler stores through a *PrettyPrintOptions parameter")
	}
}

// ruleIndentAfterNewline (R6.7). A printer that changes the indentation level asks for the line break and for the
// indentation of the next line separately. If the indent request is missing on some path, the next text is
// indented only when its token happens to carry trivia (the comment replay ends with its own newline + indent), so
// a `}` that closed a one-line block comes out at column 0 — and on the second formatting, where it now stands on a
// line of its own and carries a line-break marker, it is indented: the output is not a fixed point (seed C06-1).
// Decided per printer that calls a level-changing writer method: from every line-break request, every path reaches
// an indent request before the next text write, child print or return; the comment replay does not count.
func ruleIndentAfterNewline(c *Ctx) {
	c.buildSSA()
	w := c.writerCfg()
	nl := c.fn("(*ast.CodeWriter).WriteNewline")
	ind := c.fn("(*ast.CodeWriter).WriteIndent")
	replay := c.fn("(*ast.CodeWriter).WriteLeadingComments")
	if w == nil || nl == nil || ind == nil {
		c.unres("writer methods", token.NoPos, "WriteNewline / WriteIndent not found")
		return
	}
	// writer methods that change the level
	levelFns := map[*ssa.Function]bool{}
	for _, f := range c.libFunctions("ast") {
		if f.Signature.Recv() == nil || !namedIs(f.Signature.Recv().Type(), "ast", "CodeWriter") {
			continue
		}
		allInstrs(f, func(_ *ssa.BasicBlock, _ int, in ssa.Instruction) {
			if st, ok := in.(*ssa.Store); ok {
				if _, ok := isFieldAddr(st.Addr, w.level); ok {
					levelFns[f] = true
				}
			}
		})
	}
	isWriterMethod := func(cal *ssa.Function) bool {
		return cal != nil && cal.Signature.Recv() != nil && namedIs(cal.Signature.Recv().Type(), "ast", "CodeWriter")
	}
	n := 0
	for _, nt := range nodeTypes(c) {
		m := methodFn(c, nt, "WriteTo")
		if m == nil {
			continue
		}
		changes := false
		var reqs []*ssa.Call
		allInstrs(m, func(_ *ssa.BasicBlock, _ int, in ssa.Instruction) {
			if call, ok := in.(*ssa.Call); ok {
				if levelFns[call.Call.StaticCallee()] {
					changes = true
				}
				if call.Call.StaticCallee() == nl {
					reqs = append(reqs, call)
				}
			}
		})
		if !changes {
			continue
		}
		for ri, req := range reqs {
			n++
			key := fmt.Sprintf("%s: line-break request #%d is followed by an indent request", nt.Obj().Name(), ri+1)
			bad := ""
			seen := map[*ssa.BasicBlock]bool{}
			var walk func(b *ssa.BasicBlock, from ssa.Instruction)
			walk = func(b *ssa.BasicBlock, from ssa.Instruction) {
				started := from == nil
				for _, in := range b.Instrs {
					if !started {
						if in == from {
							started = true
						}
						continue
					}
					if bad != "" {
						return
					}
					switch x := in.(type) {
					case *ssa.Call:
						cal := x.Call.StaticCallee()
						switch {
						case cal == ind:
							return // indented
						case cal == nl, cal == replay, levelFns[cal]:
							// another line-break request, the comment replay, a level change: not text
						case x.Call.IsInvoke() && x.Call.Method.Name() == "WriteTo":
							bad = "a child is printed at " + c.pos(x.Pos())
							return
						case isWriterMethod(cal):
							if cal.Name() == "AddMapping" || cal.Name() == "AddNamedMapping" {
								continue
							}
							bad = "text is written (" + cal.Name() + ") at " + c.pos(x.Pos())
							return
						}
					case *ssa.Return:
						bad = "the printer returns at " + c.pos(x.Pos())
						return
					}
				}
				for _, succ := range b.Succs {
					if !seen[succ] {
						seen[succ] = true
						walk(succ, nil)
					}
				}
			}
			walk(req.Block(), req)
			c.check(bad == "", key, req.Pos(), "every path reaches WriteIndent before the next text", "after this line-break request "+bad+" without an indent request in between: the next line is indented only when its first token carries trivia, so a one-line block's closing brace comes out at column 0 and the second formatting moves it (the output is not a fixed point)")
		}
	}
	if n == 0 {
		c.unres("printers that change the indentation level", token.NoPos, "none found that also requests line breaks")
	}
}

// ruleSeparatorTriviaKept (R6.6). Formatting `a; // c⏎(b)` without semicolons gives `a // c⏎;(b)`: the restored ';'
// comes out behind the comment that leads `(b)`. Parsed again, the comment is trivia of the ';' token, which the
// separator check consumes and no node keeps; unless that trivia is handed on, the second formatting loses the
// comment (the byte-for-byte stability clause of C06, and a comment of C15 disappears). Decided on the separator check:
// on every path that consumes the ';', a store into the peek token's comment list of
// append(<current token's comments>, <peek token's comments>...) — both read after the advance — is passed, or the
// path has found the current token's comment list empty.
func ruleSeparatorTriviaKept(c *Ctx) {
	a := c.parserAnchors()
	if a == nil || len(a.problems) > 0 || a.expectSemi == nil {
		c.unres("anchors", token.NoPos, "separator check not resolved")
		return
	}
	f := a.expectSemi
	var advs []*ssa.Call
	allInstrs(f, func(_ *ssa.BasicBlock, _ int, in ssa.Instruction) {
		if call, ok := in.(*ssa.Call); ok && call.Call.StaticCallee() == a.nextTok {
			advs = append(advs, call)
		}
	})
	if len(advs) == 0 {
		c.unres(fnName(f)+": consumption of ';'", f.Pos(), "the separator check never advances: the explicit ';' is consumed elsewhere")
		return
	}
	// loads of <tok>.LeadingComments
	commentsOf := func(v ssa.Value, tok *types.Var) *ssa.UnOp {
		for {
			if sl, ok := v.(*ssa.Slice); ok {
				v = sl.X
				continue
			}
			// a copy: append([]T(nil), x...) / slices.Clone(x)
			if app, ok := isBuiltinCall(v, "append"); ok && len(app.Call.Args) == 2 && isNilConst(app.Call.Args[0]) {
				v = app.Call.Args[1]
				continue
			}
			if call, ok := v.(*ssa.Call); ok && extFuncIs(call.Call.StaticCallee(), "slices", "Clone") && len(call.Call.Args) == 1 {
				v = call.Call.Args[0]
				continue
			}
			break
		}
		u, ok := v.(*ssa.UnOp)
		if !ok || u.Op != token.MUL {
			return nil
		}
		root, path := fieldPath(u.X)
		if len(path) != 2 || path[0] != tok || path[1].Name() != "LeadingComments" || len(f.Params) == 0 || root != ssa.Value(f.Params[0]) {
			return nil
		}
		return u
	}
	type handOn struct {
		st       *ssa.Store
		cur, nxt *ssa.UnOp
	}
	var hands []handOn
	allInstrs(f, func(_ *ssa.BasicBlock, _ int, in ssa.Instruction) {
		st, ok := in.(*ssa.Store)
		if !ok {
			return
		}
		root, path := fieldPath(st.Addr)
		if len(path) != 2 || path[0] != a.peek || path[1].Name() != "LeadingComments" || root != ssa.Value(f.Params[0]) {
			return
		}
		var first, second ssa.Value
		if app, ok := isBuiltinCall(st.Val, "append"); ok && len(app.Call.Args) == 2 {
			first, second = app.Call.Args[0], app.Call.Args[1]
		} else if call, ok := st.Val.(*ssa.Call); ok && extFuncIs(call.Call.StaticCallee(), "slices", "Concat") && len(call.Call.Args) == 1 {
			// slices.Concat(a, b): the variadic argument is a two-element literal
			if el, ok := sliceLitElems(call.Call.Args[0]); ok && len(el) == 2 {
				first, second = el[0], el[1]
			}
		}
		if first == nil {
			c.bad(fnName(f)+": store to the peek token's comments", st.Pos(), "the peek token's comment list is overwritten with something other than append(<current token's comments>, <its own comments>...): comments are dropped or reordered")
			return
		}
		cu, nx := commentsOf(first, a.cur), commentsOf(second, a.peek)
		if cu == nil || nx == nil {
			c.bad(fnName(f)+": store to the peek token's comments", st.Pos(), "the peek token's comment list is overwritten with something other than append(<current token's comments>, <its own comments>...): comments are dropped or reordered")
			return
		}
		// the destination must not share the current token's backing array with a later append: a full slice
		// expression or a fresh copy is not demanded here (aliasing is R14's subject)
		hands = append(hands, handOn{st, cu, nx})
	})
	n := 0
	complete := a.enumPaths(f.Blocks[0], func(facts []pathFact, blocks []*ssa.BasicBlock, last *ssa.BasicBlock) {
		var adv *ssa.Call
		for _, b := range blocks {
			for _, call := range callsIn(b) {
				if call.Call.StaticCallee() == a.nextTok && adv == nil {
					adv = call
				}
			}
		}
		if adv == nil {
			return
		}
		n++
		key := fmt.Sprintf("%s: path #%d that consumes the ';'", fnName(f), n)
		onPath := func(b *ssa.BasicBlock) bool {
			for _, x := range blocks {
				if x == b {
					return true
				}
			}
			return false
		}
		for _, h := range hands {
			if onPath(h.st.Block()) && instrDominates(adv, h.cur) && instrDominates(adv, h.nxt) && instrDominates(h.cur, h.st) && instrDominates(h.nxt, h.st) {
				c.ok(key, h.st.Pos(), "the ';' token's comments are prepended to the next token's")
				return
			}
		}
		// found empty: a test of len(current token's comments) against 0 after the advance
		for _, pf := range facts {
			if pf.at.kind != atCmp || pf.at.bin == nil || !instrDominates(adv, pf.at.bin) {
				continue
			}
			for _, pair := range [][2]ssa.Value{{pf.at.bin.X, pf.at.bin.Y}, {pf.at.bin.Y, pf.at.bin.X}} {
				ln, ok := isBuiltinCall(pair[0], "len")
				if !ok || commentsOf(ln.Call.Args[0], a.cur) == nil {
					continue
				}
				if k, ok := constInt64(pair[1]); ok && k == 0 {
					empty := false
					switch pf.at.bin.Op {
					case token.GTR, token.NEQ:
						empty = pf.at.neg && pair[0] == pf.at.bin.X
					case token.EQL, token.LEQ:
						empty = !pf.at.neg && pair[0] == pf.at.bin.X
					case token.LSS: // 0 < len
						empty = pf.at.neg && pair[0] == pf.at.bin.Y
					}
					if empty {
						c.ok(key, pf.at.bin.Pos(), "the ';' token carries no comments on this path")
						return
					}
				}
			}
		}
		c.bad(key, adv.Pos(), "the explicit ';' is consumed and the comments in front of it are dropped: formatting without semicolons puts a restored ';' behind the comments of the statement it protects (`a // c⏎;(b)`), so formatting that output again loses the comment")
	})
	if !complete {
		c.unres(fnName(f)+": paths", f.Pos(), "too many paths")
	}
	if n == 0 {
		c.unres(fnName(f)+": consumption of ';'", f.Pos(), "no path that consumes the ';' found")
	}
	c.info(fnName(f)+": hand-on sites", f.Pos(), "%d", len(hands))
}

// ruleFlushLeavesNothing: layout that stays pending across a text write is replayed in front of a LATER write — which
// can be the inside of a literal that a printer writes in several pieces.
func ruleFlushLeavesNothing(c *Ctx) {
	c.buildSSA()
	w := c.writerCfg()
	if w == nil || w.pendings == nil {
		c.unres("writer fields", token.NoPos, "pending buffer not found")
		return
	}
	// the flush method: the writer method that walks the pending buffer element by element
	var flush *ssa.Function
	for _, f := range c.libFunctions("ast") {
		if f.Signature.Recv() == nil || !namedIs(f.Signature.Recv().Type(), "ast", "CodeWriter") {
			continue
		}
		allInstrs(f, func(_ *ssa.BasicBlock, _ int, in ssa.Instruction) {
			if ia, ok := in.(*ssa.IndexAddr); ok {
				if _, ok := isFieldLoad(ia.X, w.pendings); ok {
					if _, isLoopIdx := ia.Index.(*ssa.Const); !isLoopIdx {
						if _, isBin := ia.Index.(*ssa.BinOp); isBin || true {
							// a dedup test reads pendings[n-1]: that index is len-1, a BinOp SUB; the walk uses a loop variable
							if bo, ok := ia.Index.(*ssa.BinOp); ok && bo.Op == token.SUB {
								return
							}
							flush = f
						}
					}
				}
			}
		})
	}
	if flush == nil {
		c.unres("flush method", token.NoPos, "no writer method walks the pending buffer")
		return
	}
	clears := func(in ssa.Instruction) bool {
		switch x := in.(type) {
		case *ssa.Store:
			if _, ok := isFieldAddr(x.Addr, w.pendings); ok {
				if _, isApp := isBuiltinCall(x.Val, "append"); !isApp {
					return true
				}
			}
		case *ssa.Call:
			cal := x.Call.StaticCallee()
			if cal != nil && cal.Pkg == flush.Pkg && len(cal.Blocks) == 1 && cal != flush {
				ok := false
				for _, ci := range cal.Blocks[0].Instrs {
					if st, isSt := ci.(*ssa.Store); isSt {
						if _, isP := isFieldAddr(st.Addr, w.pendings); isP {
							if _, isApp := isBuiltinCall(st.Val, "append"); !isApp {
								ok = true
							}
						}
					}
				}
				return ok
			}
		}
		return false
	}
	emptyEdge := func(b *ssa.BasicBlock) (onTrue bool, ok bool) {
		iff := blockIf(b)
		if iff == nil {
			return false, false
		}
		bo, isBo := iff.Cond.(*ssa.BinOp)
		if !isBo {
			return false, false
		}
		l, isLen := isBuiltinCall(bo.X, "len")
		k, isK := constInt64(bo.Y)
		if !isLen || !isK {
			return false, false
		}
		if _, isP := isFieldLoad(l.Call.Args[0], w.pendings); !isP {
			return false, false
		}
		switch {
		case bo.Op == token.EQL && k == 0, bo.Op == token.LSS && k == 1, bo.Op == token.LEQ && k == 0:
			return true, true
		case bo.Op == token.NEQ && k == 0, bo.Op == token.GTR && k == 0, bo.Op == token.GEQ && k == 1:
			return false, true
		}
		return false, false
	}
	n := 0
	for _, r := range nonRecoverReturns(flush) {
		n++
		key := fmt.Sprintf("%s: return #%d", fnName(flush), n)
		good := ""
		for _, b := range flush.Blocks {
			for _, in := range b.Instrs {
				if clears(in) && (b == r.Block() || b.Dominates(r.Block())) {
					good = "behind a clearing of the pending buffer"
				}
			}
			if onTrue, ok := emptyEdge(b); ok && condEdgeDominates(b, onTrue, r.Block()) {
				good = "behind a test that found the buffer empty"
			}
		}
		c.check(good != "", key, r.Pos(), good, "the flush can return with layout still pending (neither cleared nor found empty on this path): it is written in front of a later text, e.g. between the pieces of a literal")
	}
}

// ---- R6.1 -----------------------------------------------------------------------------------------

type writerCfg struct {
	cfg      map[*types.Var]bool // PrettyPrint, IndentLevel, IndentString, WriteSemicolons, pendings
	pretty   *types.Var
	semis    *types.Var
	indentS  *types.Var
	level    *types.Var
	pendings *types.Var
	buf      *types.Var
}

func (c *Ctx) writerCfg() *writerCfg {
	w := &writerCfg{cfg: map[*types.Var]bool{}}
	w.pretty = c.fieldByName("ast", "CodeWriter", "PrettyPrint")
	w.semis = c.fieldByName("ast", "CodeWriter", "WriteSemicolons")
	w.indentS = c.fieldByName("ast", "CodeWriter", "IndentString")
	w.level = c.fieldByName("ast", "CodeWriter", "IndentLevel")
	w.buf = c.fieldByName("ast", "CodeWriter", "Builder")
	w.pendings = c.fieldByType("ast", "CodeWriter", func(t types.Type) bool {
		s, ok := t.Underlying().(*types.Slice)
		if !ok {
			return false
		}
		b, ok := s.Elem().Underlying().(*types.Basic)
		return ok && b.Kind() == types.Int32
	})
	for _, v := range []*types.Var{w.pretty, w.semis, w.indentS, w.level, w.pendings} {
		if v == nil {
			return nil
		}
		w.cfg[v] = true
	}
	if w.buf == nil {
		return nil
	}
	return w
}

func isWhitespaceConst(v ssa.Value) (string, bool) {
	k, ok := v.(*ssa.Const)
	if !ok || k.Value == nil {
		return "", false
	}
	switch k.Value.Kind() {
	case constant.Int:
		i, _ := constant.Int64Val(k.Value)
		s := string(rune(i))
		return s, i == ' ' || i == '\n' || i == '\t'
	case constant.String:
		s := constant.StringVal(k.Value)
		return s, strings.Trim(s, " \t\n") == ""
	}
	return "", false
}

func constText(v ssa.Value) (string, bool) {
	k, ok := v.(*ssa.Const)
	if !ok || k.Value == nil {
		return "", false
	}
	switch k.Value.Kind() {
	case constant.Int:
		i, _ := constant.Int64Val(k.Value)
		return string(rune(i)), true
	case constant.String:
		return constant.StringVal(k.Value), true
	}
	return "", false
}

func ruleLayoutOnly(c *Ctx) {
	c.buildSSA()
	w := c.writerCfg()
	if w == nil {
		c.unres("writer fields", token.NoPos, "CodeWriter configuration fields (PrettyPrint, IndentLevel, IndentString, WriteSemicolons, the pending []rune) or Builder not found")
		return
	}
	sg := c.semiGuard()
	if sg.flag != nil {
		w.cfg[sg.flag] = true // state derived from the semicolon option
	}
	isWriterMethod := func(f *ssa.Function) bool {
		for g := f; g != nil; g = g.Parent() {
			if g.Signature.Recv() != nil && namedIs(g.Signature.Recv().Type(), "ast", "CodeWriter") {
				return true
			}
		}
		return false
	}
	// (a) who may touch the configuration
	for _, f := range c.libFunctions() {
		n := 0
		allInstrs(f, func(_ *ssa.BasicBlock, _ int, in ssa.Instruction) {
			fa, ok := in.(*ssa.FieldAddr)
			if !ok || !w.cfg[fieldOfAddr(fa)] {
				return
			}
			fld := fieldOfAddr(fa)
			n++
			key := fmt.Sprintf("%s: access #%d of CodeWriter.%s", fnName(f), n, fld.Name())
			if isWriterMethod(f) {
				c.ok(key, fa.Pos(), "inside a writer method")
				return
			}
			// outside the writer only initialising stores into a freshly allocated writer are accepted
			onlyStores := true
			for _, r := range *fa.Referrers() {
				if st, ok := r.(*ssa.Store); !ok || st.Addr != ssa.Value(fa) {
					onlyStores = false
				}
			}
			_, fresh := fa.X.(*ssa.Alloc)
			if onlyStores && fresh {
				c.ok(key, fa.Pos(), "initialisation of a fresh writer")
				return
			}
			c.bad(key, fa.Pos(), "the writer's configuration/pending state is read or changed outside the writer: the tokens a printer emits can then depend on the formatting options")
		})
	}
	// emit primitives: unexported writer methods that append their own parameter to the buffer unconditionally
	isBufWrite := func(call *ssa.Call) bool {
		cal := call.Call.StaticCallee()
		if cal == nil || pkgPathOf(cal) != "strings" || !strings.HasPrefix(cal.Name(), "Write") || len(call.Call.Args) < 2 {
			return false
		}
		fa, ok := call.Call.Args[0].(*ssa.FieldAddr)
		return ok && fieldOfAddr(fa) == w.buf
	}
	cfgDep := func(v ssa.Value) bool {
		return dependsOn(v, func(x ssa.Value) bool {
			if u, ok := x.(*ssa.UnOp); ok && u.Op == token.MUL {
				if fa, ok := u.X.(*ssa.FieldAddr); ok && w.cfg[fieldOfAddr(fa)] {
					return true
				}
			}
			return false
		})
	}
	// dependent(in): whether the instruction executes is decided by a branch on configuration/pending state — some
	// successor of such a branch leads to it while another can reach a function exit without passing it
	dependent := func(in ssa.Instruction) string {
		f := in.Parent()
		x := in.Block()
		reach := func(from *ssa.BasicBlock) bool {
			seen := map[*ssa.BasicBlock]bool{}
			var dfs func(b *ssa.BasicBlock) bool
			dfs = func(b *ssa.BasicBlock) bool {
				if b == x {
					return true
				}
				if seen[b] {
					return false
				}
				seen[b] = true
				for _, s := range b.Succs {
					if dfs(s) {
						return true
					}
				}
				return false
			}
			return dfs(from)
		}
		avoid := func(from *ssa.BasicBlock) bool {
			seen := map[*ssa.BasicBlock]bool{}
			var dfs func(b *ssa.BasicBlock) bool
			dfs = func(b *ssa.BasicBlock) bool {
				if b == x || seen[b] {
					return false
				}
				seen[b] = true
				if len(b.Succs) == 0 {
					return true
				}
				for _, s := range b.Succs {
					if dfs(s) {
						return true
					}
				}
				return false
			}
			return dfs(from)
		}
		for _, b := range f.Blocks {
			iff := blockIf(b)
			if iff == nil || !cfgDep(iff.Cond) || b == x && false {
				continue
			}
			reaches, avoids := false, false
			for _, s := range b.Succs {
				if reach(s) {
					reaches = true
				}
				if avoid(s) {
					avoids = true
				}
			}
			if reaches && avoids {
				where := c.pos(iff.Pos())
				if where == "" {
					where = c.pos(iff.Cond.Pos())
				}
				return "branch on writer configuration " + where
			}
		}
		return ""
	}
	prims := map[*ssa.Function]bool{}
	for _, f := range c.libFunctions("ast") {
		if !isWriterMethod(f) || len(f.Params) != 2 {
			continue
		}
		allInstrs(f, func(_ *ssa.BasicBlock, _ int, in ssa.Instruction) {
			if call, ok := in.(*ssa.Call); ok && isBufWrite(call) && call.Call.Args[1] == ssa.Value(f.Params[1]) && (f.Object() == nil || !f.Object().Exported()) {
				prims[f] = true
			}
		})
	}
	var primNames []string
	for f := range prims {
		primNames = append(primNames, fnName(f))
	}
	sort.Strings(primNames)
	c.Tables["R6_1_emit_primitives"] = primNames
	semiWriter := c.fn("(*ast.CodeWriter).WriteSemi")
	// (b) classify every append
	nonWSDependent := 0
	for _, f := range c.libFunctions("ast", "compiler", "debug") {
		n := 0
		allInstrs(f, func(_ *ssa.BasicBlock, _ int, in ssa.Instruction) {
			call, ok := in.(*ssa.Call)
			if !ok {
				return
			}
			var content ssa.Value
			switch {
			case isBufWrite(call):
				content = call.Call.Args[1]
			case prims[call.Call.StaticCallee()]:
				content = call.Call.Args[1]
			default:
				return
			}
			n++
			key := fmt.Sprintf("%s: output append #%d", fnName(f), n)
			dep := dependent(call)
			v := unwrap(content)
			// own parameter
			if p, ok := v.(*ssa.Parameter); ok && p.Parent() == f {
				switch {
				case prims[f]:
					c.check(dep == "", key, call.Pos(), "emit primitive: appends its parameter unconditionally", "the emit primitive appends its parameter only under a configuration-dependent condition ("+dep+")")
				case f.Object() != nil && f.Object().Exported() && isWriterMethod(f):
					c.check(dep == "", key, call.Pos(), "text handed in by a printer, appended independently of configuration", "text handed in by a printer is appended only under a configuration-dependent condition ("+dep+"): the emitted tokens differ between output modes")
				default:
					// a private helper of the comment replay: every call site is in the replay method and hands it an element
					// of that method's comment list
					idx := -1
					for i, q := range f.Params {
						if q == p {
							idx = i
						}
					}
					if args, closed := c.argsAtCallers(f, idx); closed {
						all := true
						for _, a := range args {
							ai, isInstr := a.(ssa.Instruction)
							if !isInstr || !isReplayFn(ai.Parent()) || !isElemOfParam(a, ai.Parent()) {
								all = false
							}
						}
						if all {
							c.check(dep == "", key, call.Pos(), "comment text handed over by the replay method (C15 R15.4/R15.5)", "comment text is appended only under a configuration-dependent condition ("+dep+")")
							return
						}
					}
					c.unres(key, call.Pos(), "appends the parameter of an unexported function that is not an emit primitive")
				}
				return
			}
			if s, ok := isWhitespaceConst(v); ok {
				c.ok(key, call.Pos(), "whitespace constant %q", s)
				return
			}
			if s, ok := constText(v); ok {
				switch {
				case dep == "":
					c.ok(key, call.Pos(), "constant %q appended in every configuration", s)
				case s == ";" && f == semiWriter:
					c.ok(key, call.Pos(), "the statement terminator, controlled by the semicolon policy (paths decided by C01 R1.5)")
				case s == ";" && (f == sg.closer || f == sg.terminate) && f != nil:
					c.ok(key, call.Pos(), "the statement terminator the semicolon writer left out, written because the next text requires it (R6.2)")
				case s == "//" && isReplayFn(f):
					c.ok(key, call.Pos(), "comment marker in the replay method (pretty-only: C15 R15.4; followed by a forced line break: R15.5)")
				default:
					nonWSDependent++
					c.bad(key, call.Pos(), "constant %q is appended only under a configuration-dependent condition (%s): formatting options change the token text", s, dep)
				}
				return
			}
			// element of the pending buffer
			if isElemOfField(v, w.pendings) {
				c.ok(key, call.Pos(), "element of the pending buffer (whitespace: see the pending-append obligations)")
				return
			}
			// the indent string or its default
			if ok, why := isIndentValue(v, w.indentS); ok {
				c.ok(key, call.Pos(), "indent string (%s)", why)
				return
			}
			// comment text in the replay method
			if isReplayFn(f) && isElemOfParam(v, f) {
				c.ok(key, call.Pos(), "comment text in the replay method (C15 R15.4/R15.5)")
				return
			}
			c.unres(key, call.Pos(), "appended value not classified (%s)", v.String())
		})
	}
	// (c) only whitespace is ever queued
	for _, f := range c.libFunctions() {
		n := 0
		allInstrs(f, func(_ *ssa.BasicBlock, _ int, in ssa.Instruction) {
			st, ok := in.(*ssa.Store)
			if !ok {
				return
			}
			if _, ok := isFieldAddr(st.Addr, w.pendings); !ok {
				return
			}
			n++
			key := fmt.Sprintf("%s: store #%d to the pending buffer", fnName(f), n)
			if el, ok := sliceLitElems(st.Val); ok && len(el) == 0 {
				c.ok(key, st.Pos(), "emptied")
				return
			}
			if k, ok := st.Val.(*ssa.Const); ok && k.Value == nil {
				c.ok(key, st.Pos(), "set to nil")
				return
			}
			if truncatedToEmpty(st.Val, w.pendings) {
				c.ok(key, st.Pos(), "emptied in place (pending[:0])")
				return
			}
			if app, ok := isBuiltinCall(st.Val, "append"); ok && len(app.Call.Args) == 2 {
				if _, ok := isFieldLoad(app.Call.Args[0], w.pendings); ok {
					if el, ok := sliceLitElems(app.Call.Args[1]); ok {
						all := true
						var got []string
						for _, e := range el {
							s, ws := isWhitespaceConst(e)
							if par, isPar := e.(*ssa.Parameter); isPar && !ws {
								// an unexported helper queues its parameter: every call site hands it a whitespace constant
								idx := -1
								for i, q := range f.Params {
									if q == par {
										idx = i
									}
								}
								if args, closed := c.argsAtCallers(f, idx); closed {
									ws = true
									var at []string
									for _, a := range args {
										s2, ws2 := isWhitespaceConst(a)
										if !ws2 {
											s2 = a.String()
										}
										at = append(at, fmt.Sprintf("%q", s2))
										ws = ws && ws2
									}
									got = append(got, "parameter "+par.Name()+" (call sites pass "+strings.Join(at, ",")+")")
									all = all && ws
									continue
								}
							}
							got = append(got, fmt.Sprintf("%q", s))
							all = all && ws
						}
						c.check(all, key, st.Pos(), "queues "+strings.Join(got, ","), "queues "+strings.Join(got, ",")+": something other than ' ', '\\n', '\\t' can be pending, and pending bytes are written only in pretty mode")
						return
					}
				}
			}
			c.unres(key, st.Pos(), "store not of the form append(pending, whitespace constants) / empty")
		})
	}
	// (d) producers of the indent string
	optFld := c.fieldByName("compiler", "PrettyPrintOptions", "IndentString")
	for _, f := range c.libFunctions() {
		n := 0
		allInstrs(f, func(_ *ssa.BasicBlock, _ int, in ssa.Instruction) {
			st, ok := in.(*ssa.Store)
			if !ok {
				return
			}
			fa, ok := st.Addr.(*ssa.FieldAddr)
			if !ok {
				return
			}
			fld := fieldOfAddr(fa)
			if fld != w.indentS && (optFld == nil || fld != optFld) {
				return
			}
			n++
			key := fmt.Sprintf("%s: indent string producer #%d", fnName(f), n)
			v := unwrap(st.Val)
			if s, ok := isWhitespaceConst(v); ok {
				c.ok(key, st.Pos(), "constant %q", s)
				return
			}
			if call, ok := v.(*ssa.Call); ok {
				if cal := call.Call.StaticCallee(); cal != nil && pkgPathOf(cal) == "strings" && cal.Name() == "Repeat" {
					if s, ok := isWhitespaceConst(call.Call.Args[0]); ok {
						c.ok(key, st.Pos(), "strings.Repeat(%q, n)", s)
						return
					}
				}
			}
			// copied from the options field
			if optFld != nil {
				if u, ok := v.(*ssa.UnOp); ok && u.Op == token.MUL {
					if fa2, ok := u.X.(*ssa.FieldAddr); ok && fieldOfAddr(fa2) == optFld {
						c.ok(key, st.Pos(), "copied from PrettyPrintOptions.IndentString")
						return
					}
				}
			}
			c.bad(key, st.Pos(), "the indent string is set to something that is not provably spaces/tabs (%s): indentation could then write token text", v.String())
		})
	}
}

func isReplayFn(f *ssa.Function) bool {
	// the writer method whose parameter is the []string of leading comments
	if f == nil || len(f.Params) != 2 {
		return false
	}
	sl, ok := f.Params[1].Type().Underlying().(*types.Slice)
	if !ok {
		return false
	}
	b, ok := sl.Elem().Underlying().(*types.Basic)
	return ok && b.Kind() == types.String && f.Signature.Recv() != nil && namedIs(f.Signature.Recv().Type(), "ast", "CodeWriter")
}

func isElemOfField(v ssa.Value, fld *types.Var) bool {
	u, ok := v.(*ssa.UnOp)
	if !ok || u.Op != token.MUL {
		return false
	}
	ia, ok := u.X.(*ssa.IndexAddr)
	if !ok {
		return false
	}
	_, ok = isFieldLoad(ia.X, fld)
	return ok
}

func isElemOfParam(v ssa.Value, f *ssa.Function) bool {
	u, ok := v.(*ssa.UnOp)
	if !ok || u.Op != token.MUL {
		return false
	}
	ia, ok := u.X.(*ssa.IndexAddr)
	if !ok {
		return false
	}
	base := ia.X
	// a sub-slice of the parameter (comments[1:]) holds elements of the parameter
	for i := 0; i < 3; i++ {
		sl, ok := base.(*ssa.Slice)
		if !ok {
			break
		}
		base = sl.X
	}
	p, ok := base.(*ssa.Parameter)
	return ok && p.Parent() == f
}

// isIndentValue: v is the IndentString field, a whitespace constant, or a phi of those.
func isIndentValue(v ssa.Value, fld *types.Var) (bool, string) {
	seen := map[ssa.Value]bool{}
	usesField := false
	var ok func(v ssa.Value) bool
	ok = func(v ssa.Value) bool {
		if seen[v] {
			return true
		}
		seen[v] = true
		v = unwrap(v)
		if _, isF := isFieldLoad(v, fld); isF {
			usesField = true
			return true
		}
		if _, ws := isWhitespaceConst(v); ws {
			return true
		}
		if phi, isPhi := v.(*ssa.Phi); isPhi {
			for _, e := range phi.Edges {
				if !ok(e) {
					return false
				}
			}
			return true
		}
		return false
	}
	if !ok(v) || !usesField {
		return false, ""
	}
	return true, "CodeWriter.IndentString or a whitespace default; producers checked separately"
}

// ---- R6.2 -----------------------------------------------------------------------------------------

func ruleNoSemiHazards(c *Ctx, t *tables, g *grammarModel) {
	fm := c.fusionModel(t, g)
	mode := "pretty-nosemi"
	// continuation lexemes: every token type with an infix entry, and the backtick (a template continues a call)
	cont := map[string]string{}
	// a postfix operator after a line break does not continue the line (restricted production; the parser's
	// climbing loop cuts there: C02 R2.4b), so a statement may start with ++/--
	postfixTok := map[int64]bool{}
	for _, gm := range g.byNode["PostfixExpression"] {
		for _, gp := range gm.paths {
			for _, e := range gp.events {
				if e.kind == gTok && e.how == "entry" {
					for k := range e.types {
						postfixTok[k] = true
					}
				}
			}
		}
	}
	for k := range t.pt.infix {
		if postfixTok[k] {
			continue
		}
		ls, ok := fm.lexemesOfType(k)
		if !ok {
			continue
		}
		for _, l := range ls {
			cont[l.key] = "infix operator " + t.tc.name(k)
		}
	}
	for d, tt := range t.lt.strDelims {
		if d == '`' {
			cont[fm.delimited(d).key] = "template literal (" + t.tc.name(tt) + "): continues the previous expression as a tagged template"
		}
	}
	sg := c.semiGuard()
	c.Tables["R6_2_omitted_semicolon_mechanism"] = sg.describe()
	// the mechanism is private to the text writers: nothing else may consume or set the flag, and the comment replay
	// must not go through the text writers (a comment between two statements would use up the flag before the
	// statement that needs the ';' is written)
	if sg.flag != nil && sg.closer != nil {
		semiW := c.fn("(*ast.CodeWriter).WriteSemi")
		okWriters := true
		for _, f := range c.libFunctions() {
			allInstrs(f, func(_ *ssa.BasicBlock, _ int, in ssa.Instruction) {
				if st, ok := in.(*ssa.Store); ok {
					if _, ok := isFieldAddr(st.Addr, sg.flag); ok && f != semiW && f != sg.closer && f != sg.terminate {
						okWriters = false
						c.bad(fmt.Sprintf("%s: writes the omitted-semicolon flag", fnName(f)), st.Pos(), "only the semicolon writer may set the flag and only the closer / the terminator request may clear it")
					}
				}
			})
		}
		if okWriters {
			c.ok("omitted-semicolon flag: writers", sg.pos, "set by the semicolon writer, cleared by %s and the terminator request only", fnName(sg.closer))
		}
		textWriter := map[string]bool{}
		for _, wn := range sg.writers {
			textWriter[wn] = true
		}
		okCallers := true
		for _, f := range c.libFunctions() {
			allInstrs(f, func(_ *ssa.BasicBlock, _ int, in ssa.Instruction) {
				if ci, ok := in.(ssa.CallInstruction); ok && ci.Common().StaticCallee() == sg.closer {
					if closerCallerOK(c, f, 0) {
						return
					}
					if forwardsByteTo(f, sg.closer) {
						// a forwarder: judged at its own callers
						for _, g2 := range c.libFunctions() {
							allInstrs(g2, func(_ *ssa.BasicBlock, _ int, in2 ssa.Instruction) {
								if ci2, ok := in2.(ssa.CallInstruction); ok && ci2.Common().StaticCallee() == f {
									if !(g2.Signature.Recv() != nil && namedIs(g2.Signature.Recv().Type(), "ast", "CodeWriter") && textWriter[g2.Name()]) {
										okCallers = false
										c.bad(fmt.Sprintf("%s: consults the closer through %s", fnName(g2), f.Name()), in2.Pos(), "the closer is consulted for text that is not a statement's first token: the flag is used up (and no ';' written) before the statement that needs it")
									}
								}
							})
						}
						return
					}
					if !(f.Signature.Recv() != nil && namedIs(f.Signature.Recv().Type(), "ast", "CodeWriter") && textWriter[f.Name()]) {
						okCallers = false
						c.bad(fmt.Sprintf("%s: consults the closer", fnName(f)), in.Pos(), "the closer is consulted for text that is not a statement's first token: the flag is used up (and no ';' written) before the statement that needs it")
					}
				}
			})
		}
		if okCallers {
			c.ok("closer: callers", sg.pos, "only the text writers %s", strings.Join(sg.writers, ", "))
		}
		// layout / comment methods of the writer do not call the text writers
		okReplay := true
		for _, f := range c.libFunctions("ast") {
			if f.Signature.Recv() == nil || !namedIs(f.Signature.Recv().Type(), "ast", "CodeWriter") || f == semiW {
				continue
			}
			allInstrs(f, func(_ *ssa.BasicBlock, _ int, in ssa.Instruction) {
				ci, ok := in.(ssa.CallInstruction)
				if !ok {
					return
				}
				cal := ci.Common().StaticCallee()
				if cal == nil || cal.Signature.Recv() == nil || !namedIs(cal.Signature.Recv().Type(), "ast", "CodeWriter") || !textWriter[cal.Name()] {
					return
				}
				okReplay = false
				c.bad(fmt.Sprintf("%s: writes through the text writer %s", fnName(f), cal.Name()), in.Pos(), "a writer method other than the semicolon writer sends text through the text writers: layout or comment text between two statements then consumes the omitted-semicolon flag (and a pending mapping) meant for the next statement's first token")
			})
		}
		if okReplay {
			c.ok("writer-internal text does not go through the text writers", sg.pos, "comment replay and layout append with the emit primitives")
		}
	}
	var conts []string
	for k := range cont {
		conts = append(conts, k)
	}
	sort.Strings(conts)
	c.Tables["R6_2_continuation_lexemes"] = conts
	for _, n := range fm.nodeTypesAll {
		tree := fm.trees[mode][n]
		// statement lists: loops whose body prints a Statement-typed child
		var visit func(seq []*fev)
		visit = func(seq []*fev) {
			for i, e := range seq {
				switch e.kind {
				case fOpt:
					visit(e.kids)
					visit(e.alt)
				case fLoop:
					for _, k := range e.alt {
						if k.kind == fChild && sameSet(k.types, fm.stmtTypes) && len(fm.stmtTypes) > 0 {
							_, first, _ := fm.evSumm(mode, k)
							var keys []string
							byKey := map[string][]*lexd{}
							for _, l := range first {
								if byKey[l.key] == nil {
									keys = append(keys, l.key)
								}
								byKey[l.key] = append(byKey[l.key], l)
							}
							sort.Strings(keys)
							for _, lk := range keys {
								key := fmt.Sprintf("%s %s: a statement after the first starts with %s", n, e.label, lk)
								why, bad := cont[lk]
								if !bad {
									c.ok(key, k.pos, "cannot continue the previous line")
									continue
								}
								covered := true
								for _, l := range byKey[lk] {
									covered = covered && sg.covers(l)
								}
								if covered {
									c.ok(key, k.pos, "%s is a %s, and the writer's omitted-semicolon mechanism (%s, folded on its first byte) writes the ';' in front of it", lk, why, fnName(sg.pred))
								} else {
									c.bad(key, k.pos, "without semicolons the previous statement is separated only by a line break, and %s is a %s: JavaScript reads it as a continuation of the previous statement, the printed program has a different tree", lk, why)
								}
							}
						}
					}
					visit(e.kids)
					visit(e.alt)
				case fChild:
					// a keyword written right after a child statement
					if !sameSet(e.types, fm.stmtTypes) || len(fm.stmtTypes) == 0 {
						continue
					}
					for j := i + 1; j < len(seq); j++ {
						nx := seq[j]
						if nx.kind == fOpt {
							// look into the optional part
							term := false
							for _, kk := range nx.kids {
								if kk.kind == fLeaf && kk.label == "';'!" {
									term = true
									continue
								}
								if kk.kind == fLeaf && len(kk.firsts) > 0 {
									checkKeywordAfterStatement(c, fm, mode, n, e, kk, term)
								}
								break
							}
							break
						}
						if nx.kind == fLeaf && nx.label == "';'!" {
							continue
						}
						if nx.kind == fLeaf && len(nx.firsts) > 0 {
							checkKeywordAfterStatement(c, fm, mode, n, e, nx, j > i+1 && seq[j-1].label == "';'!")
						}
						if nx.kind == fLeaf && nx.null {
							continue
						}
						break
					}
				}
			}
		}
		visit(tree)
	}
}

func checkKeywordAfterStatement(c *Ctx, fm *fusionModel, mode, node string, child, lit *fev, terminated bool) {
	// the literal's first real lexeme is a keyword (" else ")
	var kw *lexd
	if len(lit.lasts) > 0 {
		// a literal like " else " has first=sep,last=sep; find the keyword from the label
		lab := strings.Trim(lit.label, "\" ")
		if _, ok := fm.t.lt.keywords[lab]; ok {
			kw = fm.fixed(lab)
		}
	}
	if kw == nil {
		return
	}
	_, _, last := fm.evSumm(mode, child)
	var offenders []string
	seen := map[string]bool{}
	for _, l := range last {
		if l.key == ";" || l.key == "}" || l.sep || seen[l.key] {
			continue
		}
		seen[l.key] = true
		offenders = append(offenders, l.key)
	}
	sort.Strings(offenders)
	key := fmt.Sprintf("%s: %q after %s", node, kw.key, child.label)
	if sg := c.semiGuard(); terminated && sg.terminate != nil && sg.setterOK && len(sg.problems) == 0 {
		c.ok(key, lit.pos, "the printer asks the writer for the omitted terminator (%s) right before the keyword", fnName(sg.terminate))
		return
	}
	if len(offenders) > 0 {
		c.bad(key, lit.pos, "without semicolons the child statement can end in %s, directly followed by the keyword %q on the same line: not a valid program (a ';' or '}' is required before it)", strings.Join(offenders, " "), kw.key)
	} else {
		c.ok(key, lit.pos, "the child always ends in ';' or '}'")
	}
}

func sameSet(a, b []string) bool {
	if len(a) != len(b) {
		return false
	}
	for i := range a {
		if a[i] != b[i] {
			return false
		}
	}
	return true
}

// ---- R6.3 -----------------------------------------------------------------------------------------

func rulePostPass(c *Ctx, t *tables) {
	c.buildSSA()
	// the compile function: allocates a CodeWriter and returns a struct with the code
	var compile *ssa.Function
	for _, f := range c.libFunctions("compiler") {
		allInstrs(f, func(_ *ssa.BasicBlock, _ int, in ssa.Instruction) {
			if al, ok := in.(*ssa.Alloc); ok && namedIs(al.Type(), "ast", "CodeWriter") {
				compile = f
			}
		})
	}
	if compile == nil {
		c.unres("compile function", token.NoPos, "no function of package compiler allocates an ast.CodeWriter")
		return
	}
	// post-passes: library functions string->string called in the compile function
	var passes []*ssa.Function
	allInstrs(compile, func(_ *ssa.BasicBlock, _ int, in ssa.Instruction) {
		call, ok := in.(*ssa.Call)
		if !ok {
			return
		}
		cal := call.Call.StaticCallee()
		if cal == nil || !isLibPath(pkgPathOf(cal)) || cal.Signature.Recv() != nil || len(cal.Params) != 1 || cal.Signature.Results().Len() != 1 {
			return
		}
		if b, ok := cal.Params[0].Type().Underlying().(*types.Basic); !ok || b.Kind() != types.String {
			return
		}
		if b, ok := cal.Signature.Results().At(0).Type().Underlying().(*types.Basic); !ok || b.Kind() != types.String {
			return
		}
		passes = append(passes, cal)
	})
	// the post-pass leaves no layout at the end of the text: the replay of blank lines in front of the end of the input
	// writes line breaks directly, so without a final trim `a⏎⏎` formats to `a;⏎` and that to `a;` (not byte-stable)
	for _, pass := range passes {
		nr := 0
		allInstrs(pass, func(_ *ssa.BasicBlock, _ int, in ssa.Instruction) {
			ret, ok := in.(*ssa.Return)
			if !ok || len(ret.Results) != 1 {
				return
			}
			nr++
			trimmed := false
			if call, ok := unwrapDeferResult(ret.Results[0]).(*ssa.Call); ok {
				cal := call.Call.StaticCallee()
				switch {
				case extFuncIs(cal, "strings", "TrimSpace"):
					trimmed = true
				case extFuncIs(cal, "strings", "TrimRight"), extFuncIs(cal, "strings", "Trim"):
					if k, ok := call.Call.Args[1].(*ssa.Const); ok && k.Value != nil && k.Value.Kind() == constant.String && strings.Contains(constant.StringVal(k.Value), "\n") {
						trimmed = true
					}
				}
			}
			// … or the text is trimmed before it is split into the lines that are joined again (R8.6: the very slice)
			if !trimmed {
				allInstrs(pass, func(_ *ssa.BasicBlock, _ int, in2 ssa.Instruction) {
					sp, ok := in2.(*ssa.Call)
					if !ok || !extFuncIs(sp.Call.StaticCallee(), "strings", "Split") {
						return
					}
					if tr, ok := sp.Call.Args[0].(*ssa.Call); ok && extFuncIs(tr.Call.StaticCallee(), "strings", "TrimSpace") && tr.Call.Args[0] == ssa.Value(pass.Params[0]) {
						if jn, ok := unwrapDeferResult(ret.Results[0]).(*ssa.Call); ok && extFuncIs(jn.Call.StaticCallee(), "strings", "Join") {
							trimmed = true
						}
					}
				})
			}
			c.check(trimmed, fmt.Sprintf("%s: return #%d trims the end of the text", pass.Name(), nr), ret.Pos(), "the result is strings.TrimSpace(…) (or a right trim that includes line breaks), or the lines joined were split from the trimmed text", "the post-pass returns the text without trimming its end: trailing line breaks written for blank lines before the end of the input stay in the output, and formatting that output again drops them (the formatted text is not a fixed point)")
		})
	}
	// multi-line literal classes: token classes whose scanner can copy a line break into the literal
	lf := c.lexFacts()
	type mlClass struct {
		delim byte
		node  string
		legal bool
	}
	var classes []mlClass
	if len(lf.problems) == 0 {
		for d, tt := range t.lt.strDelims {
			lp, _ := literalPrinterFor(c, t, tt)
			if lp == nil {
				continue
			}
			multi := false
			for _, key := range lf.order {
				cx := lf.ctxs[key]
				if cx.fn == lf.base || cx.fn == lf.skipper || !cx.entry.live || resultBuilder(cx.fn) == nil {
					continue
				}
				if !cx.entry.cur.has(d) || cx.entry.cur.count() != 1 {
					continue
				}
				for _, si := range collectSinks(lf, cx) {
					if si.class == "verbatim" && si.set.has('\n') {
						multi = true
					}
				}
			}
			if multi {
				classes = append(classes, mlClass{d, lp.node, d == '`'})
			}
		}
	} else {
		c.unres("lexer analysis", token.NoPos, "not available: %s", strings.Join(lf.problems, "; "))
	}
	sort.Slice(classes, func(i, j int) bool { return classes[i].delim < classes[j].delim })
	if len(passes) == 0 {
		c.ok("post-passes", compile.Pos(), "the compile function applies no post-pass to the emitted text")
		return
	}
	for _, pf := range passes {
		n := 0
		allInstrs(pf, func(_ *ssa.BasicBlock, _ int, in ssa.Instruction) {
			call, ok := in.(*ssa.Call)
			if !ok {
				return
			}
			cal := call.Call.StaticCallee()
			if cal == nil || pkgPathOf(cal) != "strings" {
				if cal != nil && !isLibPath(pkgPathOf(cal)) {
					n++
					c.unres(fmt.Sprintf("%s: call #%d of %s", fnName(pf), n, cal.Name()), call.Pos(), "post-pass calls a function whose effect on the text is not classified")
				}
				return
			}
			var consts []string
			for _, a := range call.Call.Args[1:] {
				if s, ok := constText(a); ok {
					consts = append(consts, fmt.Sprintf("%q", s))
				}
			}
			desc := fmt.Sprintf("strings.%s(·%s)", cal.Name(), func() string {
				if len(consts) == 0 {
					return ""
				}
				return ", " + strings.Join(consts, ", ")
			}())
			perLine := derivesFromSplitElement(call.Call.Args[0])
			whole := call.Call.Args[0] == ssa.Value(pf.Params[0])
			switch cal.Name() {
			case "Split", "Join", "SplitN", "SplitAfter":
				n++
				c.ok(fmt.Sprintf("%s: %s", fnName(pf), desc), call.Pos(), "splits/joins lines, deletes nothing")
			case "TrimSpace", "TrimRight", "TrimLeft", "Trim", "TrimSuffix", "TrimPrefix", "TrimFunc", "TrimRightFunc", "TrimLeftFunc":
				switch {
				case whole:
					n++
					c.ok(fmt.Sprintf("%s: %s on the whole text", fnName(pf), desc), call.Pos(), "trims only the ends of the whole output, which lie outside every literal (a literal printer writes its delimiters first and last)")
				case perLine:
					for _, cl := range classes {
						n++
						key := fmt.Sprintf("%s: %s per line × %s", fnName(pf), desc, cl.node)
						if !cl.legal {
							c.ok(key, call.Pos(), "a %q-delimited literal containing a raw line break is not valid JavaScript: outside the property's quantifier", string(rune(cl.delim)))
							continue
						}
						c.bad(key, call.Pos(), "the post-pass rewrites every line of the emitted text, and a %s can span lines (its scanner copies '\\n' verbatim): characters inside the literal are deleted, so the formatted program denotes a different string than the compact one", cl.node)
					}
					if len(classes) == 0 {
						n++
						c.ok(fmt.Sprintf("%s: %s per line", fnName(pf), desc), call.Pos(), "no literal can span lines")
					}
				default:
					n++
					c.unres(fmt.Sprintf("%s: %s", fnName(pf), desc), call.Pos(), "trim applied to something that is neither the whole text nor a line of it")
				}
			default:
				n++
				c.unres(fmt.Sprintf("%s: %s", fnName(pf), desc), call.Pos(), "effect of this strings function on literal text not classified (accepted: Split/Join, Trim* on the whole text)")
			}
		})
	}
}

// derivesFromSplitElement: v is an element of the result of strings.Split (directly or through a range).
func derivesFromSplitElement(v ssa.Value) bool {
	return dependsOn(v, func(x ssa.Value) bool {
		ia, ok := x.(*ssa.IndexAddr)
		if !ok {
			return false
		}
		return dependsOn(ia.X, func(y ssa.Value) bool {
			call, ok := y.(*ssa.Call)
			if !ok {
				return false
			}
			cal := call.Call.StaticCallee()
			return cal != nil && pkgPathOf(cal) == "strings" && strings.HasPrefix(cal.Name(), "Split")
		})
	})
}

// isTextWriterFn: an exported method of the writer that hands its own (string / rune) parameter on to a function of
// the package — the methods printers write token text with.
func isTextWriterFn(f *ssa.Function) bool {
	if f == nil || f.Signature.Recv() == nil || !namedIs(f.Signature.Recv().Type(), "ast", "CodeWriter") || len(f.Params) != 2 || f.Object() == nil || !f.Object().Exported() {
		return false
	}
	b, ok := f.Params[1].Type().Underlying().(*types.Basic)
	if !ok || (b.Info()&types.IsString == 0 && b.Kind() != types.Int32) {
		return false
	}
	hit := false
	allInstrs(f, func(_ *ssa.BasicBlock, _ int, in ssa.Instruction) {
		if call, ok := in.(*ssa.Call); ok {
			if cal := call.Call.StaticCallee(); cal != nil && cal.Pkg == f.Pkg && len(call.Call.Args) == 2 && call.Call.Args[1] == ssa.Value(f.Params[1]) {
				hit = true
			}
		}
	})
	return hit
}

// closerCallerOK: f may consult the omitted-semicolon closer — it is a text writer, or a private piece of their
// prologue that nothing but text writers (or other such pieces) calls.
func closerCallerOK(c *Ctx, f *ssa.Function, depth int) bool {
	if isTextWriterFn(f) {
		return true
	}
	if depth > 2 || f.Object() == nil || f.Object().Exported() || f.Signature.Recv() == nil || !namedIs(f.Signature.Recv().Type(), "ast", "CodeWriter") {
		return false
	}
	if _, closed := c.argsAtCallers(f, 0); !closed {
		return false
	}
	all, any := true, false
	for _, g := range c.libFunctions() {
		allInstrs(g, func(_ *ssa.BasicBlock, _ int, in ssa.Instruction) {
			if ci, ok := in.(ssa.CallInstruction); ok && ci.Common().StaticCallee() == f {
				any = true
				if !closerCallerOK(c, g, depth+1) {
					all = false
				}
			}
		})
	}
	return all && any
}
