package main

func init() {
	a := "ast/ast.go"
	w := "ast/code_writer.go"
	pf := "parser/parser_functions.go"
	addVariants(
		// R1.1 token order
		variant{Prop: "C01", Name: "assignment-printer-swaps-operands", File: a, Old: "ae.Left.WriteTo(cw)\n\tcw.WriteSpace()", New: "ae.Value.WriteTo(cw)\n\tcw.WriteSpace()", More: []edit{{File: a, Old: "cw.WriteSpace()\n\tae.Value.WriteTo(cw)", New: "cw.WriteSpace()\n\tae.Left.WriteTo(cw)"}}, Rule: "R1.1", Construct: "AssignmentExpression built by"},
		variant{Prop: "C01", Name: "while-printer-drops-rparen", File: a, Old: "ws.Condition.WriteTo(cw)\n\tcw.WriteRune(')')", New: "ws.Condition.WriteTo(cw)", Rule: "R1.1", Construct: "WhileStatement built by"},
		variant{Prop: "C01", Name: "for-printer-swaps-condition-and-update", File: a, Old: "if fs.Condition != nil {\n\t\tfs.Condition.WriteTo(cw)\n\t}", New: "if fs.Update != nil {\n\t\tfs.Update.WriteTo(cw)\n\t}", More: []edit{{File: a, Old: "if fs.Update != nil {\n\t\tfs.Update.WriteTo(cw)\n\t}", New: "if fs.Condition != nil {\n\t\tfs.Condition.WriteTo(cw)\n\t}", Nth: 2}}, Rule: "R1.1", Construct: "ForStatement built by"},
		variant{Prop: "C01", Name: "dot-member-marked-computed", File: pf, Old: "Object:   left,\n\t\tComputed: false,", New: "Object:   left,\n\t\tComputed: true,", Rule: "R1.1", Construct: "MemberExpression built by ParseMemberExpression"},
		variant{Prop: "C01", Name: "compound-operator-crossed", File: pf, Old: "case token.PLUS_ASSIGN:\n\t\texpression.Operator = \"+\"", New: "case token.PLUS_ASSIGN:\n\t\texpression.Operator = \"-\"", Rule: "R1.1", Construct: "CompoundAssignmentExpression built by"},
		variant{Prop: "C01", Name: "let-value-kept-only-in-statements", File: pf, Old: "p.NextToken() // move to value\n\t\texpr.Value = p.ParseExpression()", New: "p.NextToken() // move to value\n\t\tp.ParseExpression()", Rule: "R1.1", Construct: "LetExpression built by"},
		variant{Prop: "C01", Name: "object-printer-writes-value-first", File: a, Old: "prop.Key.WriteTo(cw)\n\t\tcw.WriteRune(':')\n\t\tcw.WriteSpace()\n\t\tprop.Value.WriteTo(cw)", New: "prop.Value.WriteTo(cw)\n\t\tcw.WriteRune(':')\n\t\tcw.WriteSpace()\n\t\tprop.Key.WriteTo(cw)", Rule: "R1.1", Construct: "ObjectLiteral built by"},
		variant{Prop: "C01", Name: "null-printed-as-undefined-keyword", File: a, Old: "cw.WriteString(\"null\")", New: "cw.WriteString(\"false\")", Rule: "R1.1", Construct: "NullLiteral built by"},
		variant{Prop: "C01", Name: "block-child-printer-not-brace", File: a, Old: "cw.AddMapping(bs.Token.Start)\n\tcw.WriteRune('{')", New: "cw.AddMapping(bs.Token.Start)\n\tcw.WriteRune('(')", Rule: "R1.1", Construct: "BlockStatement"},
		// R1.2 fusion
		variant{Prop: "C01", Name: "separator-guard-forgets-plus", File: w, Old: "return last == next && (next == '+' || next == '-')", New: "return last == next && next == '-'", Rule: "R1.2", Construct: "BinaryExpression: text(Operator)"},
		variant{Prop: "C01", Name: "separator-guard-off-in-pretty-mode", File: w, Old: "\tout := cw.Builder.String()\n", New: "\tif cw.PrettyPrint {\n\t\treturn\n\t}\n\tout := cw.Builder.String()\n", Rule: "R1.2", Construct: "UnaryExpression: text(Operator)"},
		variant{Prop: "C01", Name: "separator-guard-skipped-by-writestring", File: w, Old: "\tif len(s) > 0 {\n\t\tcw.separate(s[0])\n\t}\n", New: "", Rule: "R1.2", Construct: "text(Operator)"},
		variant{Prop: "C01", Name: "return-value-glued-to-keyword", File: a, Old: "cw.WriteRune(' ')\n\t\trs.ReturnValue.WriteTo(cw)", New: "cw.WriteSpace()\n\t\trs.ReturnValue.WriteTo(cw)", Rule: "R1.2", Construct: "ReturnStatement:"},
		variant{Prop: "C01", Name: "else-keyword-with-layout-spaces", File: a, Old: "cw.WriteString(\" else \")", New: "cw.WriteSpace()\n\t\tcw.WriteString(\"else\")\n\t\tcw.WriteSpace()", Rule: "R1.2", Construct: "IfStatement:"},
		variant{Prop: "C01", Name: "function-name-glued", File: a, Old: "if fe.Name != nil {\n\t\tcw.WriteRune(' ')", New: "if fe.Name != nil {\n\t\tcw.WriteSpace()", Rule: "R1.2", Construct: "FunctionExpression:"},
		// R1.5
		variant{Prop: "C01", Name: "semicolon-depends-on-indent-level", File: w, Old: "\tif cw.WriteSemicolons {\n\t\tcw.WriteRune(';')\n\t}", New: "\tif cw.WriteSemicolons && cw.IndentLevel == 0 {\n\t\tcw.WriteRune(';')\n\t}", Rule: "R1.5", Construct: "WriteSemi"},
		variant{Prop: "C01", Name: "compact-semicolon-behind-option", File: w, Old: "\tif !cw.PrettyPrint {\n\t\tcw.WriteRune(';')\n\t\treturn\n\t}\n", New: "", Rule: "R1.5", Construct: "WriteSemi"},
		// benign
		variant{Prop: "C01", Name: "benign-else-written-in-three-pieces", File: a, Old: "cw.WriteString(\" else \")", New: "cw.WriteRune(' ')\n\t\tcw.WriteString(\"else\")\n\t\tcw.WriteRune(' ')", Benign: true},
		variant{Prop: "C01", Name: "benign-advance-twice-helper", File: pf, Old: "\t\tp.NextToken() // consume =\n\t\tp.NextToken() // move to value\n\t\tstmt.Value = p.ParseExpression()", New: "\t\tp.skipTwo()\n\t\tstmt.Value = p.ParseExpression()", More: []edit{{File: pf, Old: "func (p *Parser) ParseLetExpression()", New: "func (p *Parser) skipTwo() {\n\tp.NextToken()\n\tp.NextToken()\n}\n\nfunc (p *Parser) ParseLetExpression()"}}, Benign: true},
		variant{Prop: "C01", Name: "benign-level-read-before-literal", File: pf, Old: "\texpression := &ast.BinaryExpression{\n\t\tToken:    p.CurrentToken,\n\t\tLeft:     left,\n\t\tOperator: p.CurrentToken.Literal,\n\t}\n\tprecedence := p.currentPrecedence()", New: "\tprecedence := p.currentPrecedence()\n\texpression := &ast.BinaryExpression{\n\t\tToken:    p.CurrentToken,\n\t\tLeft:     left,\n\t\tOperator: p.CurrentToken.Literal,\n\t}", Benign: true},
		variant{Prop: "C01", Name: "benign-guard-also-separates-slashes", File: w, Old: "return last == next && (next == '+' || next == '-')", New: "return last == next && (next == '+' || next == '-' || next == '/')", Benign: true},
		variant{Prop: "C01", Name: "benign-peek-test-as-switch", File: pf, Old: "\tif p.PeekToken.Type == token.ELSE {\n\t\tp.NextToken()\n\t\tp.NextToken()\n\t\tstmt.ElseBranch = p.statementParseFn(p)\n\t}", New: "\tswitch p.PeekToken.Type {\n\tcase token.ELSE:\n\t\tp.NextToken()\n\t\tp.NextToken()\n\t\tstmt.ElseBranch = p.statementParseFn(p)\n\t}", Benign: true},
	)
	// the shared rules under the other properties
	addVariants(
		variant{Prop: "C03", Name: "fusion-guard-forgets-plus", File: w, Old: "return last == next && (next == '+' || next == '-')", New: "return last == next && next == '-'", Rule: "R3.4", Construct: "BinaryExpression: text(Operator)"},
		variant{Prop: "C03", Name: "postfix-printer-operator-first", File: a, Old: "\tcw.WriteLeadingComments(pe.Token.LeadingComments)\n", New: "\tcw.WriteLeadingComments(pe.Token.LeadingComments)\n\tcw.WriteString(pe.Operator)\n", More: []edit{{File: a, Old: "\tcw.AddMapping(pe.Token.Start)\n\tcw.WriteString(pe.Operator)\n}", New: "\tcw.AddMapping(pe.Token.Start)\n}"}}, Rule: "R3.5", Construct: "PostfixExpression built by"},
		variant{Prop: "C12", Name: "while-rparen-not-checked", File: pf, Old: "stmt := &ast.WhileStatement{Token: p.CurrentToken}\n\tif !p.ExpectToken(token.LPAREN) {\n\t\treturn nil\n\t}\n\tp.NextToken()\n\tstmt.Condition = p.ParseExpression()\n\tif !p.ExpectToken(token.RPAREN) {\n\t\treturn nil\n\t}", New: "stmt := &ast.WhileStatement{Token: p.CurrentToken}\n\tif !p.ExpectToken(token.LPAREN) {\n\t\treturn nil\n\t}\n\tp.NextToken()\n\tstmt.Condition = p.ParseExpression()\n\tp.NextToken()", Rule: "R12.1", Construct: "WhileStatement built by"},
		variant{Prop: "C12", Name: "for-header-semicolon-by-separator-check", File: pf, Old: "\tif !p.ExpectToken(token.SEMICOLON) {\n\t\treturn nil\n\t}\n\tif p.PeekToken.Type != token.SEMICOLON {", New: "\tif !p.ExpectSemicolonASI() {\n\t\treturn nil\n\t}\n\tif p.PeekToken.Type != token.SEMICOLON {", Rule: "R12.1", Construct: "ForStatement built by"},
		variant{Prop: "C12", Name: "program-loop-stops-at-rbrace", File: "parser/parser.go", Old: "for p.CurrentToken.Type != token.EOF {\n\t\tstmt := p.statementParseFn(p)", New: "for p.CurrentToken.Type != token.EOF && p.CurrentToken.Type != token.RBRACE {\n\t\tstmt := p.statementParseFn(p)", Rule: "R12.1", Construct: "Program built by ParseProgram"},
		variant{Prop: "C11", Name: "while-body-not-stored", File: pf, Old: "stmt.Body = p.statementParseFn(p)\n\treturn stmt\n}\n\nfunc (p *Parser) ParseForStatement", New: "p.statementParseFn(p)\n\treturn stmt\n}\n\nfunc (p *Parser) ParseForStatement", Rule: "R11.3", Construct: "WhileStatement built by"},
		variant{Prop: "C11", Name: "if-condition-only-when-not-literal", File: pf, Old: "\tp.NextToken()\n\tstmt.Condition = p.ParseExpression()\n\tif !p.ExpectToken(token.RPAREN) {\n\t\treturn nil\n\t}\n\tp.NextToken()\n\tstmt.ThenBranch", New: "\tp.NextToken()\n\tcond := p.ParseExpression()\n\tif p.PeekToken.Type == token.RPAREN {\n\t\tstmt.Condition = cond\n\t}\n\tif !p.ExpectToken(token.RPAREN) {\n\t\treturn nil\n\t}\n\tp.NextToken()\n\tstmt.ThenBranch", Benign: true},
	)
}
