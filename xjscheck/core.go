package main

import (
	"encoding/json"
	"fmt"
	"go/ast"
	"go/token"
	"go/types"
	"os"
	"path/filepath"
	"sort"
	"strings"
	"time"

	"golang.org/x/tools/go/callgraph"
	"golang.org/x/tools/go/callgraph/cha"
	"golang.org/x/tools/go/callgraph/vta"
	"golang.org/x/tools/go/packages"
	"golang.org/x/tools/go/ssa"
	"golang.org/x/tools/go/ssa/ssautil"
)

const modPath = "github.com/xjslang/xjs"

// libPkgs are the seven packages every rule speaks about.
var libPkgs = []string{"token", "lexer", "parser", "ast", "sourcemap", "compiler", "debug"}

type Status string

const (
	Discharged Status = "discharged"
	Violated   Status = "violated"
	Unresolved Status = "unresolved"
	Known      Status = "known-finding"
	Info       Status = "info"
)

// Obligation is one instance of one rule at one construct.
type Obligation struct {
	Rule      string `json:"rule"`
	Construct string `json:"construct"`
	Pos       string `json:"pos,omitempty"`
	Status    Status `json:"status"`
	Detail    string `json:"detail,omitempty"`
}

type Ctx struct {
	Repo     string
	Property string
	Tier     string
	Tags     string

	Fset    *token.FileSet
	Pkgs    map[string]*packages.Package // short name -> package
	AllPkgs []*packages.Package
	Prog    *ssa.Program
	SSA     map[string]*ssa.Package
	cg      *callgraph.Graph
	chaCG   *callgraph.Graph
	allFns  map[*ssa.Function]bool

	Obl             []*Obligation
	floors          map[string]int
	ruleDoc         map[string]string
	ruleOrd         []string
	Tables          map[string]any // extracted tables, printed in evidence
	NotCov          []string
	Assume          []string
	curRule         string
	declIdx         map[*types.Func]*ast.FuncDecl
	declFile        map[*ast.FuncDecl]*packages.Package
	roles           map[*types.Func]string
	gmodel          *grammarModel
	fmodel          *fusionModel
	sguard          *semiGuard
	lfacts          *lexFacts
	gavals          map[*ssa.Global]*aval
	lastFoldRecords []int
	lastFoldFields  map[*types.Var]*wval
	bceL            *bceListing
}

func shortPkg(path string) string {
	return strings.TrimPrefix(path, modPath+"/")
}

func load(repo, tags string) (*Ctx, error) {
	env := os.Environ()
	env = append(env, "GOFLAGS=-mod=mod", "GOPROXY=off", "GOSUMDB=off", "GOTOOLCHAIN=local", "GOWORK=off")
	cfg := &packages.Config{
		Mode:  packages.LoadAllSyntax,
		Dir:   repo,
		Env:   env,
		Tests: false,
	}
	if tags != "" {
		cfg.BuildFlags = []string{"-tags=" + tags}
	}
	pkgs, err := packages.Load(cfg, "./...")
	if err != nil {
		return nil, fmt.Errorf("packages.Load: %w", err)
	}
	c := &Ctx{Repo: repo, Tags: tags, Pkgs: map[string]*packages.Package{}, SSA: map[string]*ssa.Package{},
		floors: map[string]int{}, ruleDoc: map[string]string{}, Tables: map[string]any{},
		declIdx: map[*types.Func]*ast.FuncDecl{}, declFile: map[*ast.FuncDecl]*packages.Package{}}
	for _, p := range pkgs {
		if len(p.GoFiles) == 0 {
			continue // test-only directories
		}
		for _, e := range p.Errors {
			return nil, fmt.Errorf("package %s does not type-check: %v", p.PkgPath, e)
		}
		c.AllPkgs = append(c.AllPkgs, p)
		if strings.HasPrefix(p.PkgPath, modPath+"/") {
			c.Pkgs[shortPkg(p.PkgPath)] = p
		}
		if c.Fset == nil {
			c.Fset = p.Fset
		}
	}
	for _, n := range libPkgs {
		if c.Pkgs[n] == nil {
			return nil, fmt.Errorf("library package %s/%s not loaded (loaded %d packages)", modPath, n, len(c.AllPkgs))
		}
	}
	// any other non-test package of the module is part of the analysed program too
	for _, p := range c.AllPkgs {
		for _, f := range p.Syntax {
			for _, d := range f.Decls {
				if fd, ok := d.(*ast.FuncDecl); ok {
					if obj, ok := p.TypesInfo.Defs[fd.Name].(*types.Func); ok {
						c.declIdx[obj] = fd
						c.declFile[fd] = p
					}
				}
			}
		}
	}
	return c, nil
}

// buildSSA builds SSA for the whole program (dependencies included).
func (c *Ctx) buildSSA() {
	if c.Prog != nil {
		return
	}
	prog, spkgs := ssautil.AllPackages(c.AllPkgs, ssa.InstantiateGenerics)
	prog.Build()
	c.Prog = prog
	for i, p := range c.AllPkgs {
		if spkgs[i] != nil && strings.HasPrefix(p.PkgPath, modPath+"/") {
			c.SSA[shortPkg(p.PkgPath)] = spkgs[i]
		}
	}
}

func (c *Ctx) callGraph() *callgraph.Graph {
	if c.cg != nil {
		return c.cg
	}
	c.buildSSA()
	c.allFns = ssautil.AllFunctions(c.Prog)
	c.chaCG = cha.CallGraph(c.Prog)
	c.cg = vta.CallGraph(c.allFns, c.chaCG)
	return c.cg
}

// libFunctions returns every SSA function (methods, closures included) whose package is one of the library packages.
func (c *Ctx) libFunctions(pkgs ...string) []*ssa.Function {
	c.buildSSA()
	want := map[string]bool{}
	if len(pkgs) == 0 {
		pkgs = libPkgs
	}
	for _, p := range pkgs {
		want[p] = true
	}
	var out []*ssa.Function
	seen := map[*ssa.Function]bool{}
	var add func(f *ssa.Function)
	add = func(f *ssa.Function) {
		if f == nil || seen[f] {
			return
		}
		seen[f] = true
		if f.Blocks != nil {
			out = append(out, f)
		}
		for _, a := range f.AnonFuncs {
			add(a)
		}
	}
	for name, sp := range c.SSA {
		if !want[name] {
			continue
		}
		for _, m := range sp.Members {
			switch m := m.(type) {
			case *ssa.Function:
				add(m)
			case *ssa.Type:
				for _, t := range []types.Type{m.Type(), types.NewPointer(m.Type())} {
					ms := c.Prog.MethodSets.MethodSet(t)
					for i := 0; i < ms.Len(); i++ {
						f := c.Prog.MethodValue(ms.At(i))
						if f != nil && f.Pkg == sp && f.Synthetic == "" {
							add(f)
						}
					}
				}
			}
		}
	}
	sort.Slice(out, func(i, j int) bool { return fnName(out[i]) < fnName(out[j]) })
	return out
}

// fnName is the stable display name of a function: package-relative, no module prefix.
func fnName(f *ssa.Function) string {
	if f == nil {
		return "<nil>"
	}
	return strings.ReplaceAll(f.String(), modPath+"/", "")
}

// fn finds a function by its stable display name, e.g. "(*parser.Parser).PushContext" or "parser.baseParseStatement".
func (c *Ctx) fn(name string) *ssa.Function {
	for _, f := range c.libFunctions() {
		if fnName(f) == name {
			return f
		}
	}
	return nil
}

func (c *Ctx) pos(p token.Pos) string {
	if !p.IsValid() {
		return ""
	}
	pp := c.Fset.Position(p)
	rel, err := filepath.Rel(c.Repo, pp.Filename)
	if err != nil {
		rel = pp.Filename
	}
	return fmt.Sprintf("%s:%d", rel, pp.Line)
}

// ---- obligations ----------------------------------------------------------------------------

func (c *Ctx) rule(id, doc string) {
	c.curRule = id
	if _, ok := c.ruleDoc[id]; !ok {
		c.ruleOrd = append(c.ruleOrd, id)
	}
	c.ruleDoc[id] = doc
}

func (c *Ctx) floor(n int) { c.floors[c.curRule] = n }

func (c *Ctx) add(st Status, construct string, p token.Pos, format string, args ...any) *Obligation {
	o := &Obligation{Rule: c.curRule, Construct: construct, Pos: c.pos(p), Status: st, Detail: fmt.Sprintf(format, args...)}
	c.Obl = append(c.Obl, o)
	return o
}
func (c *Ctx) ok(construct string, p token.Pos, format string, args ...any) {
	c.add(Discharged, construct, p, format, args...)
}
func (c *Ctx) bad(construct string, p token.Pos, format string, args ...any) {
	c.add(Violated, construct, p, format, args...)
}
func (c *Ctx) unres(construct string, p token.Pos, format string, args ...any) {
	c.add(Unresolved, construct, p, format, args...)
}
func (c *Ctx) info(construct string, p token.Pos, format string, args ...any) {
	c.add(Info, construct, p, format, args...)
}

// check records discharged when cond holds, violated otherwise.
func (c *Ctx) check(cond bool, construct string, p token.Pos, okDetail, badDetail string) bool {
	if cond {
		c.ok(construct, p, "%s", okDetail)
	} else {
		c.bad(construct, p, "%s", badDetail)
	}
	return cond
}

// ---- known findings -------------------------------------------------------------------------

type KnownFinding struct {
	Property  string `json:"property"`
	Rule      string `json:"rule"`
	Construct string `json:"construct"`
	What      string `json:"what"`
	Input     string `json:"input,omitempty"`
}
type FixedFinding struct {
	Property string `json:"property"`
	Commit   string `json:"commit"`
	What     string `json:"what"`
}
type KnownFile struct {
	Known []KnownFinding `json:"known"`
	Fixed []FixedFinding `json:"fixed"`
}

func loadKnown(path string) (*KnownFile, error) {
	var kf KnownFile
	b, err := os.ReadFile(path)
	if err != nil {
		if os.IsNotExist(err) {
			return &kf, nil
		}
		return nil, err
	}
	if err := json.Unmarshal(b, &kf); err != nil {
		return nil, fmt.Errorf("%s: %w", path, err)
	}
	return &kf, nil
}

// ---- finishing: floors, known findings, evidence, exit code ---------------------------------

type RuleSummary struct {
	Rule       string `json:"rule"`
	Decides    string `json:"decides"`
	Instances  int    `json:"instances"`
	Floor      int    `json:"instance_floor"`
	Discharged int    `json:"discharged"`
	Known      int    `json:"known_findings"`
	Violated   int    `json:"violated"`
	Unresolved int    `json:"unresolved"`
}

func (c *Ctx) finish(kf *KnownFile, verifDir string, start time.Time, seed int, explanation string, extra map[string]any) int {
	// instance floors: a rule that matched too few sites fails closed
	counts := map[string]int{}
	for _, o := range c.Obl {
		if o.Status != Info {
			counts[o.Rule]++
		}
	}
	for _, r := range c.ruleOrd {
		if fl, ok := c.floors[r]; ok && counts[r] < fl {
			c.curRule = r
			c.unres("instance-floor", token.NoPos, "rule matched %d instances, floor is %d: anchors not found or idiom not recognised (a rule that matches nothing must not pass)", counts[r], fl)
		}
	}
	// known findings
	usedKnown := map[int]bool{}
	for _, o := range c.Obl {
		if o.Status != Violated {
			continue
		}
		for i, k := range kf.Known {
			if k.Property == c.Property && k.Rule == o.Rule && k.Construct == o.Construct {
				o.Status = Known
				usedKnown[i] = true
				if k.Input != "" {
					o.Detail += " [known finding; input: " + k.Input + "]"
				}
			}
		}
	}
	sums := map[string]*RuleSummary{}
	var order []*RuleSummary
	for _, r := range c.ruleOrd {
		s := &RuleSummary{Rule: r, Decides: c.ruleDoc[r], Floor: c.floors[r]}
		sums[r] = s
		order = append(order, s)
	}
	var nObl, nDis, nKnown, nViol, nUnres int
	var failing []*Obligation
	seenKnownLine := map[string]bool{}
	for _, o := range c.Obl {
		s := sums[o.Rule]
		if s == nil {
			s = &RuleSummary{Rule: o.Rule}
			sums[o.Rule] = s
			order = append(order, s)
		}
		if o.Status == Info {
			continue
		}
		s.Instances++
		nObl++
		switch o.Status {
		case Discharged:
			s.Discharged++
			nDis++
		case Known:
			s.Known++
			nKnown++
			line := fmt.Sprintf("KNOWN-FINDING: property=%s %s %s — %s (%s)", c.Property, o.Rule, o.Construct, o.Detail, o.Pos)
			if !seenKnownLine[line] {
				fmt.Println(line)
				seenKnownLine[line] = true
			}
		case Violated:
			s.Violated++
			nViol++
			failing = append(failing, o)
		case Unresolved:
			s.Unresolved++
			nUnres++
			failing = append(failing, o)
		}
	}
	// stale known entries are reported as information only (a repaired finding must not fail the check)
	var stale []string
	for i, k := range kf.Known {
		if k.Property == c.Property && !usedKnown[i] {
			stale = append(stale, k.Rule+" "+k.Construct)
		}
	}

	// samples: a spread of real obligations
	var samples []any
	perRule := map[string]int{}
	for _, o := range c.Obl {
		if o.Status == Info {
			continue
		}
		if o.Status != Discharged || perRule[o.Rule] < 3 {
			samples = append(samples, o)
			perRule[o.Rule]++
		}
		if len(samples) >= 80 {
			break
		}
	}
	var infos []*Obligation
	for _, o := range c.Obl {
		if o.Status == Info {
			infos = append(infos, o)
		}
	}

	nFuncs := 0
	nFiles := 0
	var pk []string
	for _, n := range libPkgs {
		p := c.Pkgs[n]
		pk = append(pk, p.PkgPath)
		nFiles += len(p.Syntax)
		for _, f := range p.Syntax {
			for _, d := range f.Decls {
				if _, ok := d.(*ast.FuncDecl); ok {
					nFuncs++
				}
			}
		}
	}
	analysed := map[string]any{"packages": pk, "files": nFiles, "declared_functions": nFuncs, "build_tags": c.Tags, "tables": c.Tables}
	if c.cg != nil {
		analysed["callgraph_nodes"] = len(c.cg.Nodes)
	}
	if c.Prog != nil {
		analysed["ssa_functions_library"] = len(c.libFunctions())
	}

	cov := map[string]any{
		"explanation":         explanation,
		"obligations":         nObl,
		"discharged":          nDis,
		"known_findings":      nKnown,
		"violated":            nViol,
		"unresolved":          nUnres,
		"exhaustive":          true,
		"rule":                "every site of every rule of this property in the loaded program is enumerated; an obligation is one rule instance at one construct (keyed rule+construct, not by line)",
		"rules":               order,
		"samples":             samples,
		"information":         infos,
		"analysed":            analysed,
		"not_decided":         c.NotCov,
		"stale_known_entries": stale,
		"checker_cmd":         fmt.Sprintf("bin/xjscheck -property %s -tier %s", c.Property, c.Tier),
		"trusted_base":        []string{"go/types type checker", "golang.org/x/tools v0.29.0 go/ssa builder and go/cfg", "VTA-over-CHA call graph (sound for programs without unsafe/reflect; R14.8 checks the library imports neither)", "the xjscheck rule implementations"},
	}
	for k, v := range extra {
		cov[k] = v
	}
	ev := map[string]any{
		"property_id": c.Property,
		"tier":        c.Tier,
		"seed":        seed,
		"level":       "other",
		"coverage":    cov,
		"assumptions": append([]string{"only the seven library packages are analysed; plugins/user interceptors are outside the program"}, c.Assume...),
		"wall_s":      time.Since(start).Seconds(),
		"violations":  nViol + nUnres,
	}
	evPath := filepath.Join(verifDir, "evidence", c.Property+".json")
	os.MkdirAll(filepath.Dir(evPath), 0o755)
	b, _ := json.MarshalIndent(ev, "", " ")
	if err := os.WriteFile(evPath, b, 0o644); err != nil {
		fmt.Fprintln(os.Stderr, "cannot write evidence:", err)
		return 2
	}

	if d := os.Getenv("XJSCHECK_DUMP"); d != "" {
		ab, _ := json.MarshalIndent(c.Obl, "", " ")
		os.WriteFile(d, ab, 0o644)
	}
	fmt.Printf("property=%s tier=%s rules=%d obligations=%d discharged=%d known=%d violated=%d unresolved=%d wall=%.1fs\n",
		c.Property, c.Tier, len(order), nObl, nDis, nKnown, nViol, nUnres, time.Since(start).Seconds())
	for _, s := range order {
		fmt.Printf("  %-7s inst=%-4d floor=%-3d ok=%-4d known=%-3d viol=%-3d unres=%-3d %s\n", s.Rule, s.Instances, s.Floor, s.Discharged, s.Known, s.Violated, s.Unresolved, s.Decides)
	}
	if len(failing) == 0 {
		return 0
	}
	repDir := filepath.Join(verifDir, "reports")
	os.MkdirAll(repDir, 0o755)
	repPath := filepath.Join(repDir, fmt.Sprintf("%s.%s.json", c.Property, c.Tier))
	rb, _ := json.MarshalIndent(map[string]any{"property": c.Property, "tier": c.Tier, "failing_obligations": failing}, "", " ")
	os.WriteFile(repPath, rb, 0o644)
	for _, o := range failing {
		fmt.Printf("  %s %s %s @ %s: %s\n", strings.ToUpper(string(o.Status)), o.Rule, o.Construct, o.Pos, o.Detail)
	}
	fmt.Printf("VIOLATION property=%s replay=%s\n", c.Property, repPath)
	return 1
}
