package main

// Round 4 (twin pairs written by sub-agents that saw only the property text): the refactoring R_k (benign/<id>) must
// leave the named properties' checks silent, and the same refactoring with the mistake it invites (seeded/<id>) must
// be reported at the named rule and construct. Only the pairs the checks decide on both sides are listed; the
// refactorings still answered fail-closed are in DESIGN.md section 9.
func init() {
	ref := func(prop, id string) variant {
		return variant{Prop: prop, Name: "refactoring-" + id + "-" + prop, Patch: "benign/" + id + "/patch.diff", Benign: true}
	}
	seed := func(prop, id, rule, construct string) variant {
		return variant{Prop: prop, Name: "seeded-" + id + "-" + prop, Patch: "seeded/" + id + "/patch.diff", Rule: rule, Construct: construct}
	}
	addVariants(
		// parseOperand(level): the operand step as a helper
		ref("C01", "C02-r4-1"), ref("C03", "C02-r4-1"), ref("C05", "C02-r4-1"), ref("C02", "C02-r4-1"),
		seed("C02", "C02-r4-1", "R2.2", "PLUS_ASSIGN"),
		// single-exit climbing loop with a line-break predicate
		ref("C02", "C02-r4-2"), ref("C13", "C02-r4-2"),
		seed("C02", "C02-r4-2", "R2.4b", "cut"), seed("C13", "C02-r4-2", "R13.2", "differ only in the flag"),
		ref("C13", "C13-r4-1"), seed("C13", "C13-r4-1", "R13.2", "differ only in the flag"),
		ref("C13", "C13-r3-2"), ref("C02", "C13-r3-2"), seed("C13", "C13-r3-2", "R13.2", "differ only in the flag"),
		// variadic peek predicates
		ref("C02", "C01-r4-2"), ref("C13", "C01-r4-2"),
		seed("C02", "C01-r4-2", "R2.4b", "no value after a line break"),
		// printer precedence table / operand helper
		ref("C03", "C03-r4-1"), seed("C03", "C03-r4-1", "R3.1", "token LT"),
		ref("C03", "C03-r4-2"), ref("C01", "C03-r4-2"), seed("C03", "C03-r4-2", "R3.3", "PostfixExpression.Left"),
		// reversed() installation loops; setter helper for the requested binding power
		ref("C04", "C04-r4-1"), ref("C14", "C04-r4-1"), seed("C14", "C04-r4-1", "R14.4", "write into the builder"),
		ref("C04", "C04-r4-2"), seed("C04", "C04-r4-2", "R4.5", "save and set"),
		// pending-layout helpers; lead-class table
		ref("C15", "C06-r4-1"), ref("C06", "C06-r4-1"), seed("C06", "C06-r4-1", "R6.5", "flushPending"),
		ref("C06", "C06-r4-2"), seed("C06", "C06-r4-2", "R6.2", "starts with -"),
		ref("C06", "C01-r4-1"), ref("C01", "C01-r4-1"), seed("C06", "C01-r4-1", "R6.2", "starts with ("),
		// backtick scanner as a for-clause loop
		ref("C07", "C07-r4-2"), seed("C07", "C07-r4-2", "R7.8", "round"),
		// comment separator helper in the replay method
		ref("C08", "C08-r4-2"), seed("C08", "C08-r4-2", "R8.6", "layout append"),
		// line-comment helpers in the lexer
		ref("C10", "C10-r4-1"), seed("C10", "C10-r4-1", "R10.6", "skipper"),
		ref("C15", "C15-r4-1"), ref("C10", "C15-r4-1"), seed("C15", "C15-r4-1", "R15.6", "append"),
		ref("C15", "C15-r4-2"), seed("C15", "C15-r4-2", "R15.7", "emptiness test"),
		// single-exit separator check with a computed result
		ref("C02", "C11-r4-1"), ref("C12", "C11-r4-1"), ref("C13", "C11-r4-1"), ref("C11", "C11-r4-1"),
		seed("C11", "C11-r4-1", "R11.2", "ExpectSemicolonASI"), seed("C13", "C11-r4-1", "R13.4", "tolerant path"),
		// statement-list helper
		ref("C12", "C12-r4-1"), ref("C01", "C12-r4-1"), seed("C12", "C12-r4-1", "R12.1", "stops only at end of input"),
		// function-body helper
		ref("C16", "C16-r4-2"), ref("C01", "C16-r4-2"), seed("C16", "C16-r4-2", "R16.3", "parseFunctionBody"),
	)
}

// F16 / F17 (found by seeding agents on the unchanged tree, repaired in /repo): the repairs removed again
func init() {
	pp := "parser/parser.go"
	aa := "ast/ast.go"
	addVariants(
		variant{Prop: "C06", Name: "separator-trivia-dropped-again", File: pp,
			Old:  "\t\tif comments := p.CurrentToken.LeadingComments; len(comments) > 0 {\n\t\t\tp.PeekToken.LeadingComments = append(append([]string(nil), comments...), p.PeekToken.LeadingComments...)\n\t\t}\n",
			New:  "",
			Rule: "R6.6", Construct: "consumes the ';'"},
		variant{Prop: "C06", Name: "separator-trivia-appended-behind", File: pp,
			Old:  "p.PeekToken.LeadingComments = append(append([]string(nil), comments...), p.PeekToken.LeadingComments...)",
			New:  "p.PeekToken.LeadingComments = append(append([]string(nil), p.PeekToken.LeadingComments...), comments...)",
			Rule: "R6.6", Construct: "store to the peek token's comments"},
		variant{Prop: "C06", Name: "separator-trivia-handed-on-before-the-advance", File: pp,
			Old:  "\t\tp.NextToken()\n\t\t// comments in front of the ';' stay in the program: they now lead the token behind it\n",
			New:  "\t\t// comments in front of the ';' stay in the program: they now lead the token behind it\n",
			More: []edit{{File: pp, Old: "p.PeekToken.LeadingComments...)\n\t\t}\n\t\treturn true", New: "p.PeekToken.LeadingComments...)\n\t\t}\n\t\tp.NextToken()\n\t\treturn true"}},
			Rule: "R6.6", Construct: "consumes the ';'"},
		variant{Prop: "C01", Name: "integer-literal-bare-before-dot", File: aa,
			Old:  "\t\tif _, integerObject := me.Object.(*IntegerLiteral); integerObject {\n\t\t\t// `1.x` is read as the number \"1.\" followed by x: the dot keeps apart from an integer literal\n\t\t\tcw.WriteRune(' ')\n\t\t}\n",
			New:  "",
			Rule: "R1.6", Construct: "'.' written behind Object"},
		variant{Prop: "C01", Name: "blank-on-the-wrong-type-test", File: aa,
			Old:  "if _, integerObject := me.Object.(*IntegerLiteral); integerObject {",
			New:  "if _, integerObject := me.Object.(*FloatLiteral); integerObject {",
			Rule: "R1.6", Construct: "'.' written behind Object"},
		variant{Prop: "C01", Name: "benign-blank-written-as-a-string", File: aa,
			Old: "\t\t\tcw.WriteRune(' ')\n\t\t}\n\t\tcw.AddMapping(me.Token.Start)", New: "\t\t\tcw.WriteString(\" \")\n\t\t}\n\t\tcw.AddMapping(me.Token.Start)", Benign: true},
	)
}

// Round 5 (minimal mutation-style changes): the ten that were missed at the first run, each now reported at the rule
// that was added or extended because of it.
func init() {
	seed := func(prop, id, rule, construct string) variant {
		return variant{Prop: prop, Name: "seeded-" + id + "-" + prop, Patch: "seeded/" + id + "/patch.diff", Rule: rule, Construct: construct}
	}
	addVariants(
		seed("C07", "C07-r5-2", "R7.9", "value of every hexadecimal digit"),
		seed("C02", "C02-r5-2", "R2.4b", "no value in front of RBRACE"),
		seed("C02", "C13-r5-4", "R2.4b", "no value in front of EOF"),
		seed("C06", "C06-r5-4", "R6.3", "trims the end of the text"),
		seed("C10", "C10-r5-2", "R10.6", "only at a line break"),
		seed("C10", "C10-r5-3", "R10.3", "End is the cursor position"),
		seed("C11", "C11-r5-4", "R11.6", "advances in every iteration"),
		seed("C15", "C15-r5-1", "R15.6", "is passed on every path behind the comment"),
		// the one change of round 1 that stayed undetected until R6.7 was written
		seed("C06", "C06-1", "R6.7", "is followed by an indent request"),
		seed("C14", "C14-r5-4", "R14.9", "does not read the previous configuration"),
	)
}

// Round 6 (a second sample of minimal changes, "far from the mechanism"): the ones missed at the first run, and F18.
func init() {
	seed := func(prop, id, rule, construct string) variant {
		return variant{Prop: prop, Name: "seeded-" + id + "-" + prop, Patch: "seeded/" + id + "/patch.diff", Rule: rule, Construct: construct}
	}
	lx := "lexer/lexer.go"
	addVariants(
		seed("C02", "C02-r6-4", "R2.5", "the white-space set"),
		seed("C04", "C04-r6-4", "R4.3", "calls the expression step"),
		seed("C16", "C16-r6-3", "R16.3", "nothing is parsed behind the pop"),
		variant{Prop: "C15", Name: "empty-comment-is-the-blank-line-marker-again", File: lx,
			Old:  "\t\t\tif text == \"\" {\n\t\t\t\t// the empty string is the blank-line marker: a comment without text keeps one blank\n\t\t\t\ttext = \" \"\n\t\t\t}\n",
			New:  "",
			Rule: "R15.6", Construct: "is never the blank-line marker"},
		variant{Prop: "C15", Name: "benign-empty-comment-test-by-length", File: lx,
			Old: "\t\t\tif text == \"\" {", New: "\t\t\tif len(text) == 0 {", Benign: true},
	)
}

// Round 7 (minimal changes with the earlier ones excluded by name): the ones missed at the first run.
func init() {
	seed := func(prop, id, rule, construct string) variant {
		return variant{Prop: prop, Name: "seeded-" + id + "-" + prop, Patch: "seeded/" + id + "/patch.diff", Rule: rule, Construct: construct}
	}
	addVariants(
		seed("C02", "C02-r7-3", "R2.4c", "after a line break"),
		seed("C02", "C06-r7-3", "R2.4c", "after a line break"),
		seed("C02", "C02-r7-4", "R2.7", "ForStatement.Update"),
		seed("C02", "C16-r7-2", "R2.6", "grows in a loop"),
		seed("C04", "C04-r7-4", "R4.3", "passes its binding-power parameter"),
		seed("C06", "C06-r7-2", "R6.8", "through the option pointer"),
		seed("C07", "C07-r7-4", "R7.1", "writes bytes, not code points"),
		seed("C12", "C13-r7-2", "R12.1", "ends at '}' or at the end of input"),
		seed("C15", "C15-r7-4", "R15.5", "written exactly for non-empty entries"),
		seed("C15", "C06-r7-4", "R15.1", "replayed directly in front of its token"),
	)
}
