package main

import (
	"fmt"
	"go/constant"
	"go/token"
	"go/types"
	"sort"
	"strings"

	"golang.org/x/tools/go/ssa"
)

func init() {
	lexerRulesArmed = true
	register("C10", &propSpec{
		run: runC10,
		explanation: "The lexer is a single cursor; its discipline is decided by a byte-set abstract interpretation (forward dataflow over 256-bit sets for the current and look-ahead byte, refined by comparisons and by the package's byte predicates folded over all 256 values, one context per constant delimiter) plus SSA shape rules: " +
			"R10.1 every index, slice, map write, dynamic call, type assertion, division and panic of package lexer is enumerated and discharged (input indexed only under the `readPosition >= len(input)` test; slices input[a:position] with `a` an earlier load of position and the cursor capped and monotone by R10.9; maps allocated by the constructor; the chain field never nil); " +
			"R10.3 every token's Start is the cursor position read before any advance since the dispatcher was entered, and its End is read from the cursor's Line and Column where the token is built; " +
			"R10.4 identifier/number literals are input[entry position : current position], the identifier's type is the keyword lookup of that same string; " +
			"R10.5 the keyword lookup returns the table's value on a hit and IDENT otherwise; every keyword is spelled with identifier bytes and its type is produced by no fixed lexeme; " +
			"R10.6 the after-newline flag is cleared on entry of the trivia skipper and set before every advance over a byte that may be '\\n' (tracked per byte value) — or the line break is reported by a private helper through a bool that is true whenever it happened, and the flag is set from that report before the skipper returns —, only the skipper and its private helpers write it, `true` is stored only where the byte under the cursor is a line break (or a helper's report of one is settled), no computed value is stored into it once it may have been set, and every token constructor copies it and a fresh copy of the trivia list; " +
			"R10.7 tiling: the skipper only advances over whitespace or inside a `//` comment; every dispatcher path consumes exactly the bytes of the token it builds (fixed lexemes: #advances = length and literal = lexeme; slice scanners: no trailing advance; delimited scanners: one trailing advance); " +
			"R10.8 termination: no feasible cycle without an advance, and no feasible cycle at all once the cursor sits at end of input; " +
			"R10.9 end of input is a fixed point of the advance primitive (position, line and column stop growing) and the end-of-input token is decided by position, not by the byte value 0. " +
			"Not decided: exactness of End beyond 'cursor at construction'; columns count bytes, not characters.",
		notDecided: []string{"that the cursor position at construction is the token's last byte + 1 for every token (End is only shown to be the cursor at construction)", "character (not byte) columns", "behaviour of user token interceptors"},
	})
}

type lexAnchors struct {
	input, pos, rpos, line, col *types.Var
	ctor                        *ssa.Function
}

func lexerAnchors(c *Ctx) *lexAnchors {
	a := &lexAnchors{}
	a.input = c.fieldByTypeUsedIn("lexer", "Lexer", func(t types.Type) bool {
		b, ok := t.Underlying().(*types.Basic)
		return ok && b.Kind() == types.String
	}, "(*lexer.Lexer).ReadChar")
	a.line = c.fieldByName("lexer", "Lexer", "Line")
	a.col = c.fieldByName("lexer", "Lexer", "Column")
	// position/readPosition by role: ReadChar stores `position = readPosition; readPosition = readPosition + 1`
	adv := c.fn("(*lexer.Lexer).ReadChar")
	if adv != nil {
		allInstrs(adv, func(_ *ssa.BasicBlock, _ int, in ssa.Instruction) {
			st, ok := in.(*ssa.Store)
			if !ok {
				return
			}
			fa, ok := st.Addr.(*ssa.FieldAddr)
			if !ok {
				return
			}
			if bo, ok := st.Val.(*ssa.BinOp); ok && bo.Op == token.ADD {
				if u, ok := bo.X.(*ssa.UnOp); ok {
					if fa2, ok := u.X.(*ssa.FieldAddr); ok && fieldOfAddr(fa2) == fieldOfAddr(fa) && fieldOfAddr(fa) != a.line && fieldOfAddr(fa) != a.col {
						a.rpos = fieldOfAddr(fa)
					}
				}
			}
		})
		allInstrs(adv, func(_ *ssa.BasicBlock, _ int, in ssa.Instruction) {
			st, ok := in.(*ssa.Store)
			if !ok || a.rpos == nil {
				return
			}
			if fa, ok := st.Addr.(*ssa.FieldAddr); ok && fieldOfAddr(fa) != a.rpos {
				if _, ok := isFieldLoad(st.Val, a.rpos); ok {
					a.pos = fieldOfAddr(fa)
				}
			}
		})
	}
	for _, f := range c.libFunctions("lexer") {
		allInstrs(f, func(_ *ssa.BasicBlock, _ int, in ssa.Instruction) {
			if al, ok := in.(*ssa.Alloc); ok && namedIs(al.Type(), "lexer", "Lexer") && al.Comment == "complit" {
				a.ctor = f
			}
		})
	}
	return a
}

func runC10(c *Ctx) {
	lf := c.lexFacts()
	t := c.tables()
	la := lexerAnchors(c)
	c.rule("R10.0", "anchors, byte predicates and analysis contexts")
	for _, p := range lf.problems {
		c.unres("anchors", token.NoPos, "%s", p)
	}
	if len(lf.problems) > 0 || c.extractorProblems(t, "lexemes") {
		return
	}
	if la.input == nil || la.pos == nil || la.rpos == nil || la.line == nil || la.col == nil || la.ctor == nil {
		c.unres("cursor fields", token.NoPos, "input/position/readPosition/Line/Column fields or the constructor not found by role")
		return
	}
	c.ok("anchors", lf.base.Pos(), "%d byte predicates folded, %d analysis contexts; cursor fields %s/%s", len(lf.preds), len(lf.order), la.pos.Name(), la.rpos.Name())
	c.Tables["lexer_contexts"] = lf.dump()

	c.rule("R10.9", "end of input is a fixed point of the advance primitive; the end-of-input token is decided by position")
	c.floor(3)
	capOK := r10_9(c, lf, la, t)
	c.rule("R10.1", "panic obligations of package lexer: every index/slice/map write/dynamic call/assertion/division/panic enumerated and discharged")
	c.floor(10)
	r10_1(c, lf, la, capOK)
	c.rule("R10.3", "token Start is the cursor position read before any advance since the dispatcher was entered")
	c.floor(30)
	r10_3(c, lf, la)
	c.rule("R10.4", "identifier/number literals are input[entry position : position]; identifier type = keyword lookup of that string")
	c.floor(5)
	r10_4(c, lf, la)
	c.rule("R10.5", "keyword lookup returns the table's value on a hit and IDENT otherwise; keywords are identifier-shaped and not fixed lexemes")
	c.floor(10)
	r10_5(c, lf, t)
	c.rule("R10.6", "after-newline flag: cleared at skipper entry, set before every advance over a possible '\\n', single writer, copied by every token constructor with a fresh trivia list")
	c.floor(6)
	r10_6(c, lf)
	c.rule("R10.7", "tiling: skipper advances only over trivia; every dispatcher path consumes exactly the bytes of its token")
	c.floor(30)
	r10_7(c, lf, la, t)
	c.rule("R10.8", "termination: no feasible advance-free cycle; no feasible cycle at end of input")
	c.floor(8)
	r10_8(c, lf)
	c.rule("R10.10", "line/column accounting of the advance primitive, evaluated for every value of the byte being left: Line+1 and column reset exactly when that byte is '\\n' (the byte that sets the after-newline flag), Column+1 on every advancing path")
	c.floor(3)
	r10_10(c, lf, la)
}

// R10.10: the advance primitive is folded once per value of the current byte (the byte being left). Conditions that
// do not depend on that byte are followed both ways.
func r10_10(c *Ctx, lf *lexFacts, la *lexAnchors) {
	adv := lf.advance
	if adv == nil || lf.curFld == nil {
		c.unres("advance primitive", token.NoPos, "not found")
		return
	}
	// the store that replaces the current byte: loads after it see the new byte
	var curStore []ssa.Instruction
	allInstrs(adv, func(_ *ssa.BasicBlock, _ int, in ssa.Instruction) {
		if st, ok := in.(*ssa.Store); ok {
			if _, ok := isFieldAddr(st.Addr, lf.curFld); ok {
				curStore = append(curStore, st)
			}
		}
	})
	oldByte := func(v ssa.Value) bool {
		ld, ok := isFieldLoad(v, lf.curFld)
		if !ok {
			return false
		}
		_ = ld
		in, ok := v.(ssa.Instruction)
		if !ok {
			return false
		}
		for _, st := range curStore {
			if instrReachableAfter(st, in) {
				return false
			}
		}
		return true
	}
	var evalV func(v ssa.Value, b byte) (constant.Value, bool)
	evalV = func(v ssa.Value, b byte) (constant.Value, bool) {
		v = unwrap(v)
		if k, ok := v.(*ssa.Const); ok && k.Value != nil {
			return k.Value, true
		}
		if oldByte(v) {
			return constant.MakeInt64(int64(b)), true
		}
		switch x := v.(type) {
		case *ssa.BinOp:
			a, ok1 := evalV(x.X, b)
			d, ok2 := evalV(x.Y, b)
			if !ok1 || !ok2 {
				return nil, false
			}
			switch x.Op {
			case token.EQL, token.NEQ, token.LSS, token.LEQ, token.GTR, token.GEQ:
				return constant.MakeBool(constant.Compare(a, x.Op, d)), true
			}
		case *ssa.UnOp:
			if x.Op == token.NOT {
				if a, ok := evalV(x.X, b); ok {
					return constant.MakeBool(!constant.BoolVal(a)), true
				}
			}
		case *ssa.Call:
			if cal := x.Call.StaticCallee(); cal != nil && len(x.Call.Args) == 1 && cal.Pkg == adv.Pkg {
				if a, ok := evalV(x.Call.Args[0], b); ok {
					return foldFn(cal, []constant.Value{a})
				}
			}
		}
		return nil, false
	}
	reachable := func(b byte) map[*ssa.BasicBlock]bool {
		seen := map[*ssa.BasicBlock]bool{}
		var dfs func(blk *ssa.BasicBlock)
		dfs = func(blk *ssa.BasicBlock) {
			if seen[blk] {
				return
			}
			seen[blk] = true
			if iff := blockIf(blk); iff != nil {
				if v, ok := evalV(iff.Cond, b); ok && v.Kind() == constant.Bool {
					if constant.BoolVal(v) {
						dfs(blk.Succs[0])
					} else {
						dfs(blk.Succs[1])
					}
					return
				}
			}
			for _, s := range blk.Succs {
				dfs(s)
			}
		}
		dfs(adv.Blocks[0])
		return seen
	}
	reach := make([]map[*ssa.BasicBlock]bool, 256)
	for b := 0; b < 256; b++ {
		reach[b] = reachable(byte(b))
	}
	setFor := func(blk *ssa.BasicBlock) bset {
		var s bset
		for b := 0; b < 256; b++ {
			if reach[b][blk] {
				s.add(byte(b))
			}
		}
		return s
	}
	var all bset
	for b := 0; b < 256; b++ {
		all.add(byte(b))
	}
	nLine, nReset, nInc := 0, 0, 0
	allInstrs(adv, func(blk *ssa.BasicBlock, _ int, in ssa.Instruction) {
		st, ok := in.(*ssa.Store)
		if !ok {
			return
		}
		fa, ok := st.Addr.(*ssa.FieldAddr)
		if !ok {
			return
		}
		fld := fieldOfAddr(fa)
		if fld != la.line && fld != la.col {
			return
		}
		S := setFor(blk)
		isIncOf := func(v ssa.Value, f *types.Var) bool {
			bo, ok := v.(*ssa.BinOp)
			if !ok || bo.Op != token.ADD {
				return false
			}
			k, ok := constInt64(bo.Y)
			if !ok || k != 1 {
				return false
			}
			_, ok = isFieldLoad(bo.X, f)
			return ok
		}
		switch {
		case fld == la.line:
			nLine++
			key := fmt.Sprintf("%s: Line store #%d", adv.Name(), nLine)
			if !isIncOf(st.Val, la.line) {
				c.bad(key, st.Pos(), "Line is set to something other than Line+1")
				return
			}
			c.check(S.count() == 1 && S.has('\n'), key, st.Pos(), "Line+1 exactly when the byte being left is '\\n'", fmt.Sprintf("Line is incremented when the byte being left is %s: it must be exactly '\\n' — the byte for which the after-newline flag is set — otherwise token lines and the line-break flag disagree (CR LF counts twice, a lone CR moves the line without a line break)", S))
		case isIncOf(st.Val, la.col):
			nInc++
			key := fmt.Sprintf("%s: Column+1 #%d", adv.Name(), nInc)
			c.check(S == all, key, st.Pos(), "on every advancing path, whatever byte is left", fmt.Sprintf("Column is incremented only when the byte being left is %s", S))
		default:
			nReset++
			key := fmt.Sprintf("%s: Column reset #%d", adv.Name(), nReset)
			k, isK := constInt64(st.Val)
			okVal := isK && (k == 0 || k == -1)
			c.check(okVal && S.count() == 1 && S.has('\n'), key, st.Pos(), "column restarts exactly after '\\n'", fmt.Sprintf("the column is reset (to %v) when the byte being left is %s: it must restart exactly after '\\n'", st.Val, S))
		}
	})
	if nLine == 0 {
		c.bad(adv.Name()+": Line accounting", adv.Pos(), "the advance primitive never increments Line")
	}
}

// ---------------------------------------------------------------------------------------------
// R10.9

func r10_9(c *Ctx, lf *lexFacts, la *lexAnchors, t *tables) bool {
	adv := lf.advance
	// who may write the cursor fields
	cursor := map[*types.Var]bool{la.pos: true, la.rpos: true, la.line: true, la.col: true, lf.curFld: true}
	okWriters := true
	for _, f := range c.libFunctions() {
		allInstrs(f, func(_ *ssa.BasicBlock, _ int, in ssa.Instruction) {
			st, ok := in.(*ssa.Store)
			if !ok {
				return
			}
			fa, ok := st.Addr.(*ssa.FieldAddr)
			if !ok || !cursor[fieldOfAddr(fa)] || !namedIs(fa.X.Type(), "lexer", "Lexer") {
				return
			}
			if f != adv && f != la.ctor {
				okWriters = false
				c.bad(fmt.Sprintf("%s: writes cursor field %s", fnName(f), fieldOfAddr(fa).Name()), st.Pos(), "only the constructor and the advance primitive may move the cursor")
			}
		})
	}
	if okWriters {
		c.ok("cursor fields written only by the constructor and "+adv.Name(), adv.Pos(), "position, readPosition, Line, Column, CurrentChar")
	}
	// the freeze: an early return when the cursor is already behind the last byte
	var freezeBlk *ssa.BasicBlock
	freezeEdge := -1
	for _, b := range adv.Blocks {
		iff := blockIf(b)
		if iff == nil {
			continue
		}
		bo, ok := iff.Cond.(*ssa.BinOp)
		if !ok {
			continue
		}
		isLenInput := func(v ssa.Value) bool {
			call, ok := isBuiltinCall(v, "len")
			if !ok {
				return false
			}
			_, ok = isFieldLoad(call.Call.Args[0], la.input)
			return ok
		}
		_, xRp := isFieldLoad(bo.X, la.rpos)
		_, yRp := isFieldLoad(bo.Y, la.rpos)
		// readPosition > len(input)  (true edge = at end)   |  readPosition <= len(input) (false edge = at end)
		switch {
		case xRp && isLenInput(bo.Y) && bo.Op == token.GTR, yRp && isLenInput(bo.X) && bo.Op == token.LSS:
			freezeBlk, freezeEdge = b, 0
		case xRp && isLenInput(bo.Y) && bo.Op == token.LEQ, yRp && isLenInput(bo.X) && bo.Op == token.GEQ:
			freezeBlk, freezeEdge = b, 1
		}
	}
	capOK := false
	if freezeBlk == nil {
		c.bad(adv.Name()+": end of input is a fixed point", adv.Pos(), "the advance primitive has no `readPosition > len(input)` guard: once the end is reached every further call still increments position, readPosition and Column, so a token requested after end of input gets a position outside the source (end-of-input requested twice reports different columns)")
	} else {
		// on the at-end edge: nothing but a return; every cursor store is dominated by the other edge
		good := true
		atEnd := edgeRegion(adv, freezeBlk, freezeEdge)
		for b := range atEnd {
			for _, in := range b.Instrs {
				if st, ok := in.(*ssa.Store); ok {
					if fa, ok := st.Addr.(*ssa.FieldAddr); ok && cursor[fieldOfAddr(fa)] && fieldOfAddr(fa) != lf.curFld {
						good = false
					}
				}
			}
		}
		allInstrs(adv, func(b *ssa.BasicBlock, _ int, in ssa.Instruction) {
			if st, ok := in.(*ssa.Store); ok {
				if fa, ok := st.Addr.(*ssa.FieldAddr); ok && cursor[fieldOfAddr(fa)] && fieldOfAddr(fa) != lf.curFld {
					if !atEnd[b] && !edgeDominates(freezeBlk, freezeBlk.Succs[1-freezeEdge], b) {
						good = false
					}
				}
			}
		})
		// position := readPosition, readPosition := readPosition + 1 (cap and monotonicity)
		shape := false
		allInstrs(adv, func(_ *ssa.BasicBlock, _ int, in ssa.Instruction) {
			if st, ok := in.(*ssa.Store); ok {
				if _, ok := isFieldAddr(st.Addr, la.pos); ok {
					if _, ok := isFieldLoad(st.Val, la.rpos); ok {
						shape = true
					}
				}
			}
		})
		capOK = good && shape
		c.check(capOK, adv.Name()+": end of input is a fixed point", freezeBlk.Instrs[len(freezeBlk.Instrs)-1].Pos(), "behind the last byte the cursor no longer moves; position := readPosition <= len(input)", "the end-of-input guard does not protect every store to position/readPosition/Line/Column")
	}
	// the end-of-input token is decided by position
	eof := t.tc.byName["EOF"]
	n := 0
	for _, f := range c.libFunctions("lexer") {
		allInstrs(f, func(b *ssa.BasicBlock, _ int, in ssa.Instruction) {
			call, ok := in.(*ssa.Call)
			if !ok || !namedIs(call.Type(), "token", "Token") || len(call.Call.Args) < 2 {
				return
			}
			k, ok := constInt64(unwrap(call.Call.Args[1]))
			if !ok || k != eof {
				return
			}
			n++
			byPos := false
			for _, ob := range f.Blocks {
				iff := blockIf(ob)
				if iff == nil {
					continue
				}
				for i := range ob.Succs {
					if !edgeDominates(ob, ob.Succs[i], b) {
						continue
					}
					if dependsOn(iff.Cond, func(v ssa.Value) bool {
						if _, ok := isFieldLoad(v, la.pos); ok {
							return true
						}
						if _, ok := isFieldLoad(v, la.rpos); ok {
							return true
						}
						// a helper that compares the position with the input length
						if cc, ok := v.(*ssa.Call); ok {
							if cal := cc.Call.StaticCallee(); cal != nil && cal.Pkg == f.Pkg && readsField(cal, la.pos, la.rpos) && readsField(cal, la.input) {
								return true
							}
						}
						return false
					}) {
						byPos = true
					}
				}
			}
			key := fmt.Sprintf("%s: end-of-input token #%d decided by position", fnName(f), n)
			if !byPos {
				c.bad(key, call.Pos(), "the end-of-input token is chosen by the byte value 0 alone: a NUL byte inside the source is reported as end of input in the middle of the text (the parser stops there and the rest is ignored), and later requests return further tokens")
				return
			}
			// exactness: with position in [0, len(input)] (the cap), the token must be built exactly when
			// position == len(input). The dominating comparisons are evaluated for position = len-1 (a real byte) and
			// position = len (behind the last byte), with readPosition = position+1.
			off := func(v ssa.Value, d int64) (int64, bool) { // value - len(input), given position - len(input) = d
				k := int64(0)
				for {
					if bo, ok := v.(*ssa.BinOp); ok && (bo.Op == token.ADD || bo.Op == token.SUB) {
						if kk, ok := constInt64(bo.Y); ok {
							if bo.Op == token.ADD {
								k += kk
							} else {
								k -= kk
							}
							v = bo.X
							continue
						}
					}
					break
				}
				if _, ok := isFieldLoad(v, la.pos); ok {
					return d + k, true
				}
				if _, ok := isFieldLoad(v, la.rpos); ok {
					return d + 1 + k, true
				}
				if lc, ok := isBuiltinCall(v, "len"); ok {
					if _, ok := isFieldLoad(lc.Call.Args[0], la.input); ok {
						return k, true
					}
				}
				return 0, false
			}
			evalAt := func(d int64) (taken bool, known bool) {
				taken, known = true, false
				for _, ob := range f.Blocks {
					iff := blockIf(ob)
					if iff == nil {
						continue
					}
					bo, ok := iff.Cond.(*ssa.BinOp)
					if !ok {
						continue
					}
					for i := range ob.Succs {
						if !edgeDominates(ob, ob.Succs[i], b) {
							continue
						}
						x, ok1 := off(bo.X, d)
						y, ok2 := off(bo.Y, d)
						if !ok1 || !ok2 {
							continue
						}
						known = true
						var v bool
						switch bo.Op {
						case token.GEQ:
							v = x >= y
						case token.GTR:
							v = x > y
						case token.LEQ:
							v = x <= y
						case token.LSS:
							v = x < y
						case token.EQL:
							v = x == y
						case token.NEQ:
							v = x != y
						default:
							known = false
						}
						if (i == 0) != v {
							taken = false
						}
					}
				}
				return
			}
			atEnd, k1 := evalAt(0)
			atLast, k2 := evalAt(-1)
			switch {
			case !k1 || !k2:
				c.ok(key, call.Pos(), "constructed under a test of the cursor position against the input length (through a helper; exactness not evaluated)")
			case atEnd && !atLast:
				c.ok(key, call.Pos(), "constructed exactly when position == len(input): evaluated for position = len-1 (not taken) and position = len (taken)")
			case atLast:
				c.bad(key, call.Pos(), "the position test also holds when the cursor is ON the last byte of the input (position = len(input)-1): a NUL that is the final byte is reported as end of input one byte early and never appears as a token")
			default:
				c.bad(key, call.Pos(), "the position test does not hold behind the last byte (position = len(input)): end of input is never reported")
			}
		})
	}
	if n == 0 {
		c.unres("end-of-input token", token.NoPos, "no construction of an EOF token found")
	}
	return capOK
}

func readsField(f *ssa.Function, flds ...*types.Var) bool {
	hit := false
	allInstrs(f, func(_ *ssa.BasicBlock, _ int, in ssa.Instruction) {
		if u, ok := in.(*ssa.UnOp); ok {
			if fa, ok := u.X.(*ssa.FieldAddr); ok {
				for _, fl := range flds {
					if fieldOfAddr(fa) == fl {
						hit = true
					}
				}
			}
		}
	})
	return hit
}

// ---------------------------------------------------------------------------------------------
// R10.1 (generic panic-obligation audit, also used for other packages)

// guardedIndex: idx < len(x) established by a dominating test (range idiom or explicit), idx known non-negative.
func guardedIndex(f *ssa.Function, x, idx ssa.Value, at *ssa.BasicBlock) string {
	// constant index into an array / constant string / slice literal of known length
	if k, ok := constInt64(idx); ok && k >= 0 {
		switch tt := deref(x.Type()).Underlying().(type) {
		case *types.Array:
			if k < tt.Len() {
				return "constant index inside a fixed-size array"
			}
		}
		if kc, ok := x.(*ssa.Const); ok && kc.Value != nil {
			if int(k) < len(kc.Value.ExactString())-2 {
				return "constant index inside a constant string"
			}
		}
	}
	nonNeg := func(v ssa.Value) bool {
		if k, ok := constInt64(v); ok {
			return k >= 0
		}
		// range idiom: phi(-1) + 1, or phi(0..)
		chk := func(p *ssa.Phi) bool {
			for _, e := range p.Edges {
				if k, ok := constInt64(e); ok {
					if k < -1 {
						return false
					}
					continue
				}
				if bo, ok := e.(*ssa.BinOp); ok && bo.Op == token.ADD {
					if k, ok := constInt64(bo.Y); ok && k >= 0 {
						continue
					}
				}
				return false
			}
			return true
		}
		switch y := v.(type) {
		case *ssa.Phi:
			for _, e := range y.Edges {
				if k, ok := constInt64(e); ok && k < 0 {
					return false
				}
			}
			return chk(y)
		case *ssa.BinOp:
			if y.Op == token.ADD {
				if k, ok := constInt64(y.Y); ok && k >= 0 {
					if p, ok := y.X.(*ssa.Phi); ok {
						if k >= 1 {
							return chk(p)
						}
						for _, e := range p.Edges {
							if kk, ok := constInt64(e); ok && kk < 0 {
								return false
							}
						}
						return chk(p)
					}
					if pk, ok := y.X.(*ssa.Parameter); ok {
						_ = pk
					}
				}
			}
		}
		return false
	}
	sameLen := func(v ssa.Value) bool {
		if call, ok := isBuiltinCall(v, "len"); ok {
			a := call.Call.Args[0]
			if a == x {
				return true
			}
			// two loads of the same field / the same parameter
			if fa1 := sliceSourceField(a); fa1 != nil && fa1 == sliceSourceField(x) {
				return true
			}
		}
		return false
	}
	for _, ob := range f.Blocks {
		iff := blockIf(ob)
		if iff == nil {
			continue
		}
		bo, ok := iff.Cond.(*ssa.BinOp)
		if !ok {
			continue
		}
		edge := -1
		switch {
		case bo.Op == token.LSS && bo.X == idx && sameLen(bo.Y):
			edge = 0
		case bo.Op == token.GTR && bo.Y == idx && sameLen(bo.X):
			edge = 0
		case bo.Op == token.GEQ && bo.X == idx && sameLen(bo.Y):
			edge = 1
		case bo.Op == token.LEQ && bo.Y == idx && sameLen(bo.X):
			edge = 1
		}
		if edge >= 0 && edgeDominates(ob, ob.Succs[edge], at) && nonNeg(idx) {
			return "index tested against the length on a dominating edge"
		}
	}
	// masked constant: (v & m) [| k] < constant length
	if kc, ok := x.(*ssa.Const); ok && kc.Value != nil {
		max := maskedMax(idx, map[ssa.Value]bool{})
		ln := int64(len(kc.Value.ExactString()) - 2)
		if max >= 0 && max < ln {
			return fmt.Sprintf("index is masked to at most %d, below the constant length %d", max, ln)
		}
	}
	return ""
}

// maskedMax: an upper bound of v when v is built from `& const`, `| const` and phis of such; -1 if unknown.
func maskedMax(v ssa.Value, seen map[ssa.Value]bool) int64 {
	if seen[v] {
		return 0
	}
	seen[v] = true
	switch x := v.(type) {
	case *ssa.Const:
		if k, ok := constInt64(x); ok && k >= 0 {
			return k
		}
	case *ssa.BinOp:
		if x.Op == token.AND {
			if k, ok := constInt64(x.Y); ok && k >= 0 {
				return k
			}
		}
		if x.Op == token.OR {
			a, b := maskedMax(x.X, seen), maskedMax(x.Y, seen)
			if a >= 0 && b >= 0 {
				return a | b | (nextPow2(a|b) - 1)
			}
		}
	case *ssa.Phi:
		m := int64(0)
		for _, e := range x.Edges {
			k := maskedMax(e, seen)
			if k < 0 {
				return -1
			}
			if k > m {
				m = k
			}
		}
		return m
	}
	return -1
}

func nextPow2(v int64) int64 {
	p := int64(1)
	for p <= v {
		p <<= 1
	}
	return p
}

func r10_1(c *Ctx, lf *lexFacts, la *lexAnchors, capOK bool) {
	chain := c.fieldByType("lexer", "Lexer", func(ty types.Type) bool { return isFuncReturning(ty, 1, "token", "Token") })
	for _, f := range c.libFunctions("lexer") {
		n := map[string]int{}
		key := func(kind string) string {
			n[kind]++
			return fmt.Sprintf("%s: %s #%d", fnName(f), kind, n[kind])
		}
		allInstrs(f, func(b *ssa.BasicBlock, _ int, in ssa.Instruction) {
			switch x := in.(type) {
			case *ssa.Index, *ssa.IndexAddr:
				var base, idx ssa.Value
				if i, ok := x.(*ssa.Index); ok {
					base, idx = i.X, i.Index
				} else {
					i := x.(*ssa.IndexAddr)
					base, idx = i.X, i.Index
				}
				k := key("index")
				// the two accessors: input[readPosition] under readPosition < len(input)
				if _, isInput := isFieldLoad(base, la.input); isInput {
					_, isRp := isFieldLoad(idx, la.rpos)
					guard := false
					for _, ob := range f.Blocks {
						iff := blockIf(ob)
						if iff == nil {
							continue
						}
						bo, ok := iff.Cond.(*ssa.BinOp)
						if !ok {
							continue
						}
						// rp >= len / rp < len / len <= rp / len > rp: the edge on which rp < len holds
						x, y, op := bo.X, bo.Y, bo.Op
						if _, isLen := isBuiltinCall(x, "len"); isLen {
							x, y = y, x
							switch op {
							case token.LEQ:
								op = token.GEQ
							case token.GTR:
								op = token.LSS
							default:
								continue
							}
						}
						var inRange bool
						switch op {
						case token.GEQ:
							inRange = false
						case token.LSS:
							inRange = true
						default:
							continue
						}
						_, xr := isFieldLoad(x, la.rpos)
						l, isLen := isBuiltinCall(y, "len")
						if !xr || !isLen {
							continue
						}
						if _, ok := isFieldLoad(l.Call.Args[0], la.input); !ok || !condEdgeDominates(ob, inRange, b) {
							continue
						}
						// the position is not moved between the test and the access
						moved := false
						allInstrs(f, func(_ *ssa.BasicBlock, _ int, in2 ssa.Instruction) {
							if st, ok := in2.(*ssa.Store); ok {
								if _, ok := isFieldAddr(st.Addr, la.rpos); ok && instrReachableAfter(iff, st) && instrReachableAfter(st, in) && !instrDominates(in, st) {
									moved = true
								}
							}
						})
						if !moved {
							guard = true
						}
					}
					if !(isRp && guard) && c.bceProvenIn(f, in.Pos()) {
						c.ok(k, in.Pos(), bceWhy)
						return
					}
					c.check(isRp && guard, k, in.Pos(), "input[readPosition] under readPosition < len(input)", "the input is indexed without the dominating `readPosition >= len(input)` test (or not at readPosition): reading past the end panics")
					return
				}
				if why := guardedIndex(f, base, idx, b); why != "" {
					c.ok(k, in.Pos(), "%s", why)
				} else if c.bceProvenIn(f, in.Pos()) {
					c.ok(k, in.Pos(), bceWhy)
				} else {
					c.unres(k, in.Pos(), "index %s[%s] is not shown to be in range (no dominating bound recognised, not proven by the compiler either): it may panic", base.Name(), idx.Name())
				}
			case *ssa.Slice:
				if _, isStr := x.X.Type().Underlying().(*types.Basic); !isStr {
					if _, isArr := deref(x.X.Type()).Underlying().(*types.Array); isArr && x.Low == nil && x.High == nil {
						return // whole-array slice
					}
				}
				k := key("slice")
				_, isInput := isFieldLoad(x.X, la.input)
				if isInput && x.Low != nil && x.High != nil {
					low, okL := x.Low.(*ssa.UnOp)
					_, okH := isFieldLoad(x.High, la.pos)
					okLow := false
					if okL {
						if _, ok := isFieldLoad(low, la.pos); ok && instrDominates(low, x) {
							okLow = true
						}
					}
					how := "the cursor is monotone and capped at len(input) (R10.9)"
					bounded := capOK
					if !bounded {
						// fallback (R10.2): every advance of this function runs on a non-zero current byte, so position never passes len(input)
						bounded, how = guardedAdvances(lf, f), "every advance in this scanner executes on a current byte known to be non-zero (byte-set analysis), so position <= len(input)"
					}
					if !(okLow && okH && bounded) && c.bceProvenIn(f, in.Pos()) {
						c.ok(k, in.Pos(), bceWhy)
						return
					}
					c.check(okLow && okH && bounded, k, in.Pos(), "input[a:position] with a an earlier read of position; 0 <= a <= position <= len(input): "+how, "the input slice is not input[<earlier position>:position], or neither the cursor cap (R10.9) nor guarded advances bound position by len(input): slicing can exceed the input and panic")
					return
				}
				if c.bceProvenIn(f, in.Pos()) {
					c.ok(k, in.Pos(), bceWhy)
					return
				}
				c.unres(k, in.Pos(), "slice of %s is not shown to be in range (no dominating bound recognised, not proven by the compiler either): it may panic", x.X.Name())
			case *ssa.MapUpdate:
				k := key("map write")
				if _, isMake := x.Map.(*ssa.MakeMap); isMake {
					c.ok(k, in.Pos(), "entry of a map literal (freshly made map)")
					return
				}
				fld := sliceSourceField(x.Map)
				okm := false
				if fld != nil {
					okm = true
					for _, g := range c.libFunctions("lexer") {
						allInstrs(g, func(_ *ssa.BasicBlock, _ int, in2 ssa.Instruction) {
							if st, ok := in2.(*ssa.Store); ok {
								if fa, ok := st.Addr.(*ssa.FieldAddr); ok && fieldOfAddr(fa) == fld {
									if _, isMake := st.Val.(*ssa.MakeMap); !isMake && !copyConstructStore(st) {
										okm = false // (a clone of the same field of another builder is non-nil when that one is)
									}
								}
							}
						})
					}
				}
				c.check(okm, k, in.Pos(), "the map field is only ever assigned a freshly made map (builders are created by their constructor)", "write to a map that may be nil")
			case *ssa.Call:
				if x.Call.IsInvoke() || x.Call.StaticCallee() != nil {
					return
				}
				if _, isB := x.Call.Value.(*ssa.Builtin); isB {
					return
				}
				k := key("call through a function value")
				v := resolve(x.Call.Value)
				if _, ok := isFieldLoad(v, chain); ok {
					// the chain field: every store is a function or a closure
					nonNil := true
					for _, g := range c.libFunctions("lexer") {
						allInstrs(g, func(_ *ssa.BasicBlock, _ int, in2 ssa.Instruction) {
							if st, ok := in2.(*ssa.Store); ok {
								if _, ok := isFieldAddr(st.Addr, chain); ok {
									switch st.Val.(type) {
									case *ssa.Function, *ssa.MakeClosure:
									default:
										nonNil = false
									}
								}
							}
						})
					}
					c.check(nonNil, k, in.Pos(), "the token-function field only ever holds the base function or a wrapper closure", "the token-function field can be nil")
					return
				}
				if par, isParam := v.(*ssa.Parameter); isParam {
					idx := -1
					for i, q := range f.Params {
						if q == par {
							idx = i
						}
					}
					if args, closed := c.argsAtCallers(f, idx); closed {
						// private helper: every call site hands it a function
						all := true
						for _, a := range args {
							switch a.(type) {
							case *ssa.Function, *ssa.MakeClosure:
							default:
								all = false
							}
						}
						c.check(all, k, in.Pos(), fmt.Sprintf("every one of the %d call sites passes a function", len(args)), "a call site passes a value that may be a nil function")
						return
					}
					c.ok(k, in.Pos(), "plugin-supplied interceptor (assumed non-nil; outside the analysed program)")
					return
				}
				c.bad(k, in.Pos(), "call through %s, which is not shown to be non-nil", x.Call.Value.Name())
			case *ssa.TypeAssert:
				if !x.CommaOk {
					c.bad(key("type assertion"), in.Pos(), "single-result type assertion can panic")
				}
			case *ssa.Panic:
				c.bad(key("panic"), in.Pos(), "explicit panic")
			case *ssa.BinOp:
				if (x.Op == token.QUO || x.Op == token.REM) && !isFloat(x.Type()) {
					if k, ok := constInt64(x.Y); !ok || k == 0 {
						c.bad(key("integer division"), in.Pos(), "divisor not shown to be non-zero")
					}
				}
			}
		})
	}
}

// guardedAdvances: in every analysed context of f, each advance executes with a current byte that cannot be 0.
func guardedAdvances(lf *lexFacts, f *ssa.Function) bool {
	cxs := lf.contextsOf(f)
	if len(cxs) == 0 {
		return false
	}
	ok := true
	for _, cx := range cxs {
		allInstrs(f, func(_ *ssa.BasicBlock, _ int, in ssa.Instruction) {
			call, isCall := in.(*ssa.Call)
			if !isCall || call.Call.StaticCallee() != lf.advance {
				return
			}
			st := cx.before[call]
			if st == nil || !st.live {
				return
			}
			if st.cur.has(0) {
				ok = false
			}
		})
	}
	return ok
}

func isFloat(t types.Type) bool {
	b, ok := t.Underlying().(*types.Basic)
	return ok && b.Info()&types.IsFloat != 0
}

// ---------------------------------------------------------------------------------------------
// R10.3 start capture

// ctorStartSource: for a function returning token.Token, where Start.Line/Column come from: "field" or parameter.
type startSrc struct {
	lineParam, colParam *ssa.Parameter
	fromFields          bool
	ok                  bool
}

func tokenCtorStart(f *ssa.Function, la *lexAnchors) startSrc {
	return tokenCtorPos(f, la, "Start")
}

// tokenCtorPos: where the Line/Column of the token's position field `which` (Start / End) come from.
func tokenCtorPos(f *ssa.Function, la *lexAnchors, which string) startSrc {
	var out startSrc
	// Start is stored from a Position value: either a complit cell with Line/Column stores, or a direct struct
	var lineV, colV ssa.Value
	allInstrs(f, func(_ *ssa.BasicBlock, _ int, in ssa.Instruction) {
		st, ok := in.(*ssa.Store)
		if !ok {
			return
		}
		fa, ok := st.Addr.(*ssa.FieldAddr)
		if !ok || !namedIs(fa.X.Type(), "token", "Token") || fieldOfAddr(fa).Name() != which {
			return
		}
		// value: load of a Position cell
		u, ok := st.Val.(*ssa.UnOp)
		if !ok {
			return
		}
		cell := u.X
		for _, r := range *cell.Referrers() {
			if pfa, ok := r.(*ssa.FieldAddr); ok {
				for _, r2 := range *pfa.Referrers() {
					if pst, ok := r2.(*ssa.Store); ok && pst.Addr == ssa.Value(pfa) {
						switch fieldOfAddr(pfa).Name() {
						case "Line":
							lineV = pst.Val
						case "Column":
							colV = pst.Val
						}
					}
				}
			}
		}
	})
	// nested literal form: &tok.Start.Line / &tok.Start.Column stored directly
	allInstrs(f, func(_ *ssa.BasicBlock, _ int, in ssa.Instruction) {
		st, ok := in.(*ssa.Store)
		if !ok {
			return
		}
		fa, ok := st.Addr.(*ssa.FieldAddr)
		if !ok {
			return
		}
		outer, ok := fa.X.(*ssa.FieldAddr)
		if !ok || !namedIs(outer.X.Type(), "token", "Token") || fieldOfAddr(outer).Name() != which {
			return
		}
		switch fieldOfAddr(fa).Name() {
		case "Line":
			lineV = st.Val
		case "Column":
			colV = st.Val
		}
	})
	if lineV == nil || colV == nil {
		return out
	}
	lp, lIsP := lineV.(*ssa.Parameter)
	cp, cIsP := colV.(*ssa.Parameter)
	_, lIsF := isFieldLoad(lineV, la.line)
	_, cIsF := isFieldLoad(colV, la.col)
	switch {
	case lIsP && cIsP:
		out.lineParam, out.colParam, out.ok = lp, cp, true
	case lIsF && cIsF:
		out.fromFields, out.ok = true, true
	}
	return out
}

// endPositions: a token's End is the cursor position at the moment the token is built (Line and Column read from the
// cursor fields in the constructor): the error ranges of C11 and every consumer of token ranges rely on it.
func endPositions(c *Ctx, la *lexAnchors) {
	n := 0
	for _, f := range c.libFunctions("lexer") {
		storesEnd := false
		allInstrs(f, func(_ *ssa.BasicBlock, _ int, in ssa.Instruction) {
			if st, ok := in.(*ssa.Store); ok {
				for addr := st.Addr; ; {
					fa, ok := addr.(*ssa.FieldAddr)
					if !ok {
						break
					}
					if namedIs(fa.X.Type(), "token", "Token") && fieldOfAddr(fa).Name() == "End" {
						storesEnd = true
					}
					addr = fa.X
				}
			}
		})
		if !storesEnd {
			continue
		}
		n++
		src := tokenCtorPos(f, la, "End")
		c.check(src.ok && src.fromFields, fnName(f)+": End is the cursor position at construction", f.Pos(), "End.Line and End.Column are read from the cursor's Line and Column", "the token's End is not {cursor line, cursor column} at construction (a start value, a swapped or a constant component): a token that spans a line break, or every token, reports a wrong end — error ranges and consumers of token ranges are off")
	}
	if n == 0 {
		c.unres("token End", token.NoPos, "no lexer function stores a token's End")
	}
}

func r10_3(c *Ctx, lf *lexFacts, la *lexAnchors) {
	endPositions(c, la)
	// every way the dispatcher returns a token (walk per first byte, lexpaths.go): the Line and Column stored in the
	// token's Start were read from the cursor before the path advanced at all — whatever helpers or constructors the
	// values then travelled through
	outs, probs := c.lexOutcomes()
	for _, p := range probs {
		c.unres("dispatcher paths", lf.base.Pos(), "%s", p)
	}
	if len(probs) > 0 {
		return
	}
	tc := c.tokenConsts()
	type verdict struct {
		ok     bool
		detail string
		pos    token.Pos
	}
	verdicts := map[string]*verdict{}
	var order []string
	for _, o := range outs {
		name := "<computed>"
		switch {
		case o.typOK:
			name = tc.name(o.typ)
		case o.ident:
			name = "identifier/keyword"
		case o.scanTyp:
			name = "type from the scanner"
		}
		pos := lf.base.Pos()
		if o.builder != nil {
			pos = o.builder.Pos()
		}
		if o.site != nil {
			pos = o.site.Pos()
		}
		lex := ""
		if o.scanner != nil {
			lex = " via " + o.scanner.Name()
		} else {
			fixed := len(o.consumed) > 0
			var bs []byte
			for _, set := range o.consumed {
				b, single := set.single()
				if !single || b < 0x21 || b > 0x7e {
					fixed = false
					break
				}
				bs = append(bs, b)
			}
			if fixed {
				lex = fmt.Sprintf(" %q", string(bs))
			}
		}
		key := fmt.Sprintf("%s: token construction (%s)%s", fnName(lf.base), name, lex)
		v := verdict{pos: pos}
		switch {
		case o.startLineAdv < 0 || o.startColAdv < 0:
			v.detail = "the token's Start is not the cursor's Line/Column (or the walk lost track of it)"
		case o.startLineAdv != 0 || o.startColAdv != 0:
			v.detail = "the token takes its Start from the cursor after the path has already advanced: Start is not the token's first byte (two-character operators start one column late)"
		default:
			v.ok, v.detail = true, "Start = Line/Column read before any advance"
		}
		if old, seen := verdicts[key]; !seen {
			verdicts[key] = &v
			order = append(order, key)
		} else if old.ok && !v.ok {
			*old = v
		}
	}
	for _, k := range order {
		v := verdicts[k]
		c.check(v.ok, k, v.pos, v.detail, v.detail)
	}
}

// ---------------------------------------------------------------------------------------------
// R10.4 literal = source slice

func r10_4(c *Ctx, lf *lexFacts, la *lexAnchors) {
	// slice scanners: methods whose first result is a string that is a slice of the input, or the result of
	// another slice scanner (fixpoint over delegation)
	sliceScanners := map[*ssa.Function]bool{}
	var cands []*ssa.Function
	for _, f := range c.libFunctions("lexer") {
		if f.Signature.Recv() == nil || f.Signature.Results().Len() == 0 {
			continue
		}
		rb, ok := f.Signature.Results().At(0).Type().Underlying().(*types.Basic)
		if !ok || rb.Kind() != types.String {
			continue
		}
		cands = append(cands, f)
	}
	delegate := func(v ssa.Value) *ssa.Call {
		switch x := v.(type) {
		case *ssa.Extract:
			if x.Index == 0 {
				call, _ := x.Tuple.(*ssa.Call)
				return call
			}
		case *ssa.Call:
			return x
		}
		return nil
	}
	for changed := true; changed; {
		changed = false
		for _, f := range cands {
			if sliceScanners[f] {
				continue
			}
			allInstrs(f, func(_ *ssa.BasicBlock, _ int, in ssa.Instruction) {
				r, ok := in.(*ssa.Return)
				if !ok || sliceScanners[f] {
					return
				}
				if sl, ok := r.Results[0].(*ssa.Slice); ok {
					if _, ok := isFieldLoad(sl.X, la.input); ok {
						sliceScanners[f], changed = true, true
					}
				}
				if call := delegate(r.Results[0]); call != nil && sliceScanners[call.Call.StaticCallee()] {
					sliceScanners[f], changed = true, true
				}
			})
		}
	}
	for _, f := range cands {
		if !sliceScanners[f] {
			continue
		}
		nret := 0
		allInstrs(f, func(_ *ssa.BasicBlock, _ int, in ssa.Instruction) {
			r, ok := in.(*ssa.Return)
			if !ok {
				return
			}
			nret++
			key := fmt.Sprintf("%s: return #%d", fnName(f), nret)
			v := r.Results[0]
			// delegation to another slice scanner: that scanner starts where this one started
			if call := delegate(v); call != nil && sliceScanners[call.Call.StaticCallee()] {
				atEntry := true
				for _, cx := range lf.contextsOf(f) {
					if st := cx.before[call]; st != nil && st.live && !st.noAdv {
						atEntry = false
					}
				}
				c.check(atEntry, key, r.Pos(), "returns the literal of "+call.Call.StaticCallee().Name()+", called before any advance", "the literal is delegated to "+call.Call.StaticCallee().Name()+" after this scanner already advanced: the bytes consumed before the call are missing from the literal")
				return
			}
			sl, ok := v.(*ssa.Slice)
			good := false
			if ok && sl.Low != nil && sl.High != nil {
				_, okX := isFieldLoad(sl.X, la.input)
				_, okH := isFieldLoad(sl.High, la.pos)
				low, isU := sl.Low.(*ssa.UnOp)
				okL := false
				if isU {
					if _, ok := isFieldLoad(low, la.pos); ok && low.Block() == f.Blocks[0] {
						// read before any call in the entry block
						okL = true
						for _, i2 := range f.Blocks[0].Instrs {
							if i2 == ssa.Instruction(low) {
								break
							}
							if _, isCall := i2.(*ssa.Call); isCall {
								okL = false
							}
						}
					}
				}
				good = okX && okH && okL
			}
			c.check(good, key, r.Pos(), "input[position at entry : position]", "the returned literal is not the input slice from the position at entry to the current position")
		})
	}
	// dispatcher: identifier literal and type
	lookup := c.fn("token.LookupIdent")
	n := 0
	allInstrs(lf.base, func(_ *ssa.BasicBlock, _ int, in ssa.Instruction) {
		call, ok := in.(*ssa.Call)
		if !ok || !namedIs(call.Type(), "token", "Token") || len(call.Call.Args) < 3 {
			return
		}
		lit := call.Call.Args[2]
		typ := call.Call.Args[1]
		var src *ssa.Call
		switch x := lit.(type) {
		case *ssa.Call:
			src = x
		case *ssa.Extract:
			src, _ = x.Tuple.(*ssa.Call)
		}
		if src == nil || !sliceScanners[src.Call.StaticCallee()] {
			return
		}
		n++
		key := fmt.Sprintf("%s: slice-literal token #%d (%s)", fnName(lf.base), n, src.Call.StaticCallee().Name())
		good := false
		switch x := typ.(type) {
		case *ssa.Call:
			good = lookup != nil && x.Call.StaticCallee() == lookup && x.Call.Args[0] == lit
		case *ssa.Extract:
			good = x.Tuple == ssa.Value(src)
		}
		c.check(good, key, call.Pos(), "literal is the scanner's slice and the type is derived from that same result", "the token's type is not derived from the same scanner result as its literal (keyword lookup of another string / type of another scan)")
	})
	if n == 0 {
		c.unres("dispatcher: identifier/number tokens", lf.base.Pos(), "no token built from a slice scanner's result")
	}
}

func isSliceScannerCall(call *ssa.Call, la *lexAnchors) bool {
	cal := call.Call.StaticCallee()
	if cal == nil {
		return false
	}
	hit := false
	allInstrs(cal, func(_ *ssa.BasicBlock, _ int, in ssa.Instruction) {
		if sl, ok := in.(*ssa.Slice); ok {
			if _, ok := isFieldLoad(sl.X, la.input); ok {
				hit = true
			}
		}
	})
	return hit
}

// ---------------------------------------------------------------------------------------------
// R10.5 keyword table

func r10_5(c *Ctx, lf *lexFacts, t *tables) {
	lookup := c.fn("token.LookupIdent")
	ident := t.tc.byName["IDENT"]
	if lookup == nil {
		c.unres("LookupIdent", token.NoPos, "not found")
		return
	}
	var lk *ssa.Lookup
	allInstrs(lookup, func(_ *ssa.BasicBlock, _ int, in ssa.Instruction) {
		if l, ok := in.(*ssa.Lookup); ok && l.CommaOk && l.Index == ssa.Value(lookup.Params[0]) {
			if u, ok := l.X.(*ssa.UnOp); ok {
				if g, ok := u.X.(*ssa.Global); ok && g.Name() == "Keywords" {
					lk = l
				}
			}
		}
	})
	good := lk != nil
	if good {
		allInstrs(lookup, func(b *ssa.BasicBlock, _ int, in ssa.Instruction) {
			r, ok := in.(*ssa.Return)
			if !ok {
				return
			}
			v := r.Results[0]
			if ex, ok := v.(*ssa.Extract); ok && ex.Tuple == ssa.Value(lk) && ex.Index == 0 {
				// only under ok
				under := false
				for _, ob := range lookup.Blocks {
					if iff := blockIf(ob); iff != nil {
						if e2, ok := iff.Cond.(*ssa.Extract); ok && e2.Tuple == ssa.Value(lk) && e2.Index == 1 && condEdgeDominates(ob, true, b) {
							under = true
						}
					}
				}
				if !under {
					good = false
				}
				return
			}
			if k, ok := constInt64(unwrap(v)); !ok || k != ident {
				good = false
			}
		})
	}
	// on a hit every reachable return yields the table's value
	if good {
		for _, ob := range lookup.Blocks {
			iff := blockIf(ob)
			if iff == nil {
				continue
			}
			if e2, ok := iff.Cond.(*ssa.Extract); ok && e2.Tuple == ssa.Value(lk) && e2.Index == 1 {
				seen := map[*ssa.BasicBlock]bool{}
				work := []*ssa.BasicBlock{ob.Succs[0]}
				for len(work) > 0 {
					b := work[len(work)-1]
					work = work[:len(work)-1]
					if seen[b] {
						continue
					}
					seen[b] = true
					if r, ok := b.Instrs[len(b.Instrs)-1].(*ssa.Return); ok {
						if ex, ok := r.Results[0].(*ssa.Extract); !ok || ex.Tuple != ssa.Value(lk) || ex.Index != 0 {
							good = false
						}
					}
					work = append(work, b.Succs...)
				}
			}
		}
	}
	c.check(good, "LookupIdent: table value on a hit, IDENT otherwise", lookup.Pos(), "Keywords[ident] when present, else IDENT", "the keyword lookup does not return the table's entry on a hit and IDENT otherwise")
	// keyword spellings are identifier-shaped; types are not produced by fixed lexemes; types are distinct
	var letter, digit bset
	for f, s := range lf.preds {
		switch f.Name() {
		case "isLetter":
			letter = s
		case "isDigit":
			digit = s
		}
	}
	// by role: the predicates the identifier scanner loops on
	fixedTypes := map[int64]string{}
	for l, v := range t.lt.fixed {
		fixedTypes[v] = l
	}
	seenType := map[int64]string{}
	var kws []string
	for s := range t.lt.keywords {
		kws = append(kws, s)
	}
	sort.Strings(kws)
	for _, s := range kws {
		v := t.lt.keywords[s]
		key := fmt.Sprintf("keyword %q", s)
		shape := len(s) > 0 && letter.has(s[0])
		for i := 1; i < len(s); i++ {
			if !letter.has(s[i]) && !digit.has(s[i]) {
				shape = false
			}
		}
		_, clash := fixedTypes[v]
		other, dup := seenType[v]
		seenType[v] = s
		switch {
		case !shape:
			c.bad(key, token.NoPos, "the spelling is not a sequence the identifier scanner can produce: the keyword can never be recognised")
		case clash || v == ident:
			c.bad(key, token.NoPos, "its token type %s is also produced for %q / identifiers", t.tc.name(v), fixedTypes[v])
		case dup:
			c.bad(key, token.NoPos, "shares token type %s with keyword %q", t.tc.name(v), other)
		default:
			c.ok(key, token.NoPos, "identifier-shaped, type %s", t.tc.name(v))
		}
	}
}

// ---------------------------------------------------------------------------------------------
// R10.6 newline flag

func r10_6(c *Ctx, lf *lexFacts) {
	if lf.nlFlag == nil {
		c.unres("after-newline flag", token.NoPos, "no Lexer field is copied into Token.AfterNewline")
		return
	}
	// single writer
	for _, f := range c.libFunctions() {
		allInstrs(f, func(_ *ssa.BasicBlock, _ int, in ssa.Instruction) {
			if st, ok := in.(*ssa.Store); ok {
				if _, ok := isFieldAddr(st.Addr, lf.nlFlag); ok && !lf.isSkipperFn(f) {
					if _, isCtor := st.Addr.(*ssa.FieldAddr).X.(*ssa.Alloc); !isCtor {
						c.bad(fnName(f)+": writes the after-newline flag", st.Pos(), "only the trivia skipper (and helpers called from nowhere else) may write the flag")
					}
				}
			}
		})
	}
	// cleared at entry before any advance
	cleared := false
	for _, in := range lf.skipper.Blocks[0].Instrs {
		if call, ok := in.(*ssa.Call); ok && lf.mayAdvance(call.Call.StaticCallee()) {
			break
		}
		if st, ok := in.(*ssa.Store); ok {
			if _, ok := isFieldAddr(st.Addr, lf.nlFlag); ok && isFalseConst(st.Val) {
				cleared = true
			}
		}
	}
	c.check(cleared, "skipper: flag cleared at entry", lf.skipper.Pos(), "false before the first advance", "the after-newline flag is not cleared when trivia skipping starts: a newline before an earlier token leaks to later tokens")
	// set before every advance over a byte that may be '\n'
	for _, skf := range lf.skipperFns() {
		for _, cx := range lf.contextsOf(skf) {
			n := 0
			allInstrs(skf, func(_ *ssa.BasicBlock, _ int, in ssa.Instruction) {
				call, ok := in.(*ssa.Call)
				if !ok || call.Call.StaticCallee() != lf.advance {
					return
				}
				n++
				st := cx.before[call]
				key := fmt.Sprintf("skipper: advance #%d", n)
				if skf != lf.skipper {
					key = fmt.Sprintf("skipper helper %s: advance #%d", skf.Name(), n)
				}
				if st == nil || !st.live {
					c.info(key+" unreachable", call.Pos(), "not reached by the analysis")
					return
				}
				if st.cur.has('\n') && st.flagU.has('\n') && cx.deferred[call] {
					c.ok(key, call.Pos(), "current byte %s; a line break advanced over here is reported to the caller through a bool that is true whenever it happened (settled where the skipper returns)", st.cur)
					return
				}
				c.check(!(st.cur.has('\n') && st.flagU.has('\n')), key, call.Pos(), fmt.Sprintf("current byte %s; flag set whenever it is a line break", st.cur), "the skipper advances over a byte that may be '\\n' without having set the after-newline flag on that path: the next token is not marked as following a line break (ASI then fuses two statements)")
			})
		}
	}
	// line breaks reported through a bool (a helper returning "saw a newline") are settled before the skipper returns,
	// and a computed value is not stored into the flag once it may have been set
	for _, cx := range lf.contextsOf(lf.skipper) {
		nr := 0
		var rets []*ssa.Return
		for r := range cx.retVals {
			rets = append(rets, r)
		}
		sort.Slice(rets, func(i, j int) bool { return rets[i].Pos() < rets[j].Pos() })
		for _, r := range rets {
			st := cx.retVals[r]
			if !st.wdebt && !st.debt {
				continue
			}
			nr++
			c.bad(fmt.Sprintf("skipper: return #%d", nr), r.Pos(), "the skipper can return after a helper advanced over a line break without the after-newline flag having been set from the helper's report: the next token is not marked as following a line break")
		}
	}
	for _, skf := range lf.skipperFns() {
		for _, cx := range lf.contextsOf(skf) {
			n := 0
			var sts []*ssa.Store
			for st := range cx.flagOver {
				sts = append(sts, st)
			}
			sort.Slice(sts, func(i, j int) bool { return sts[i].Pos() < sts[j].Pos() })
			for _, st := range sts {
				n++
				key := fmt.Sprintf("%s: value other than true stored into the after-newline flag #%d", skf.Name(), n)
				c.check(!cx.flagOver[st], key, st.Pos(), "the flag cannot have been set before on this path", "a value other than true is assigned to the after-newline flag although the flag may already have been set in this gap: an earlier line break is forgotten when the value is false (assign only true, or OR the value in)")
			}
		}
	}
	// … and only then: where `true` is stored, the byte under the cursor is a line break (or the store settles a
	// helper's report of one) — otherwise a token that does not follow a line break is marked as if it did
	// (`a // c` at the end of the input, a NUL byte ending a comment)
	for _, skf := range lf.skipperFns() {
		for ci, cx := range lf.contextsOf(skf) {
			n := 0
			var sts []*ssa.Store
			allInstrs(skf, func(_ *ssa.BasicBlock, _ int, in ssa.Instruction) {
				if st, ok := in.(*ssa.Store); ok && isTrueConst(st.Val) {
					if _, ok := isFieldAddr(st.Addr, lf.nlFlag); ok {
						sts = append(sts, st)
					}
				}
			})
			for _, st := range sts {
				n++
				key := fmt.Sprintf("%s: after-newline flag set #%d only at a line break", skf.Name(), n)
				if ci > 0 {
					key += fmt.Sprintf(" (context %d)", ci+1)
				}
				bs := cx.before[st]
				switch {
				case bs == nil || !bs.live:
					c.info(key+" unreachable", st.Pos(), "not reached by the analysis")
				case bs.wdebt || bs.debt:
					c.ok(key, st.Pos(), "settles a line break a helper advanced over and reported")
				default:
					c.check(bs.cur.minus(setOf('\n')).empty(), key, st.Pos(), "the byte under the cursor is a line break here", fmt.Sprintf("the flag is set while the byte under the cursor may be %s: a token that does not follow a line break is marked as following one (automatic semicolon insertion then splits a statement, and the printer moves code to a new line)", bs.cur.minus(setOf('\n'))))
				}
			}
		}
	}
	// every token.Token literal in the lexer copies the flag and a fresh copy of the trivia buffer
	n := 0
	for _, f := range c.libFunctions("lexer") {
		allInstrs(f, func(_ *ssa.BasicBlock, _ int, in ssa.Instruction) {
			al, ok := in.(*ssa.Alloc)
			if !ok || !namedIs(al.Type(), "token", "Token") || al.Comment != "complit" {
				return
			}
			n++
			key := fmt.Sprintf("%s: token literal #%d", fnName(f), n)
			flag, comments := false, false
			for _, r := range *al.Referrers() {
				fa, ok := r.(*ssa.FieldAddr)
				if !ok {
					continue
				}
				for _, r2 := range *fa.Referrers() {
					st, ok := r2.(*ssa.Store)
					if !ok || st.Addr != ssa.Value(fa) {
						continue
					}
					switch fieldOfAddr(fa).Name() {
					case "AfterNewline":
						_, flag = isFieldLoad(st.Val, lf.nlFlag)
					case "LeadingComments":
						comments = freshSlice(st.Val) || func() bool { _, ok := st.Val.(*ssa.UnOp); return ok }()
					}
				}
			}
			c.check(flag && comments, key, al.Pos(), "copies the after-newline flag and the trivia list", "a token constructor does not copy the after-newline flag / the leading trivia: tokens built by it lose line-break and comment information")
		})
	}
	if n == 0 {
		c.unres("token literals", token.NoPos, "no token.Token composite literal in package lexer")
	}
}

// ---------------------------------------------------------------------------------------------
// R10.7 tiling

func r10_7(c *Ctx, lf *lexFacts, la *lexAnchors, t *tables) {
	var ws bset
	for f, s := range lf.preds {
		if f.Name() == "isWhitespace" {
			ws = s
		}
	}
	// by role: the predicate the skipper loops on
	if ws.empty() {
		for _, skf := range lf.skipperFns() {
			allInstrs(skf, func(_ *ssa.BasicBlock, _ int, in ssa.Instruction) {
				if call, ok := in.(*ssa.Call); ok {
					if s, ok := lf.preds[call.Call.StaticCallee()]; ok {
						ws = s
					}
				}
			})
		}
	}
	// skipper: every advance is over whitespace, over '/' (comment opener) or inside a comment
	for _, skf := range lf.skipperFns() {
		for _, cx := range lf.contextsOf(skf) {
			n := 0
			var openers []*ssa.Call
			allInstrs(skf, func(_ *ssa.BasicBlock, _ int, in ssa.Instruction) {
				call, ok := in.(*ssa.Call)
				if !ok || call.Call.StaticCallee() != lf.advance {
					return
				}
				n++
				st := cx.before[call]
				key := fmt.Sprintf("skipper: advance #%d consumes trivia", n)
				if skf != lf.skipper {
					key = fmt.Sprintf("skipper helper %s: advance #%d consumes trivia", skf.Name(), n)
				}
				if st == nil || !st.live {
					return
				}
				slash := setOf('/')
				switch {
				case st.cur.sub(ws):
					c.ok(key, call.Pos(), "whitespace %s", st.cur)
				case st.cur == slash:
					// first '/' needs the look-ahead '/', the second follows it
					if st.peek == slash || len(openers)%2 == 1 {
						openers = append(openers, call)
						c.ok(key, call.Pos(), "'/' of a `//` comment opener")
					} else {
						c.bad(key, call.Pos(), "a single '/' is consumed as trivia: the division operator disappears from the token stream")
					}
				default:
					inComment := false
					for _, o := range openers {
						if instrDominates(o, call) {
							inComment = true
						}
					}
					// a helper that is only ever entered on the first slash of `//`: everything it advances over up to
					// the line end is the comment (the opener included)
					if skf != lf.skipper && cx.entry != nil && cx.entry.cur == slash && cx.entry.peek == slash {
						inComment = true
					}
					if inComment && !st.cur.has(0) || inComment && st.cur.sub(setOf('\n')) {
						c.ok(key, call.Pos(), "comment body/terminator %s", st.cur)
					} else if inComment {
						c.bad(key, call.Pos(), "the comment scan advances although the current byte may be 0 (end of input)")
					} else {
						c.bad(key, call.Pos(), "the trivia skipper consumes a byte that may be program text (%s): that byte belongs to no token", st.cur)
					}
				}
			})
		}
	}
	// dispatcher paths: the walk of the dispatcher per first byte (lexpaths.go) gives, for every way a token is
	// returned, the bytes advanced over and the token's literal; they must agree
	outs, probs := c.lexOutcomes()
	for _, p := range probs {
		c.unres("dispatcher paths", lf.base.Pos(), "%s", p)
	}
	if len(probs) > 0 {
		return
	}
	isSlice := func(f *ssa.Function) bool {
		hit := false
		allInstrs(f, func(_ *ssa.BasicBlock, _ int, in ssa.Instruction) {
			if sl, ok := in.(*ssa.Slice); ok {
				if _, ok := isFieldLoad(sl.X, la.input); ok {
					hit = true
				}
			}
		})
		return hit
	}
	type verdict struct {
		ok     bool
		unres  bool
		detail string
		pos    token.Pos
	}
	verdicts := map[string]*verdict{}
	var order []string
	put := func(key string, v verdict) {
		old, seen := verdicts[key]
		if !seen {
			verdicts[key] = &v
			order = append(order, key)
			return
		}
		// one obligation per key: the worst case wins
		if old.ok && !v.ok {
			*old = v
		}
	}
	eofT, illT := t.tc.byName["EOF"], t.tc.byName["ILLEGAL"]
	for _, o := range outs {
		pos := lf.base.Pos()
		if o.builder != nil {
			pos = o.builder.Pos()
		}
		if o.site != nil {
			pos = o.site.Pos()
		}
		lex := make([]byte, 0, len(o.consumed))
		fixedLex := true
		for _, bs := range o.consumed {
			b, single := bs.single()
			if !single {
				fixedLex = false
				break
			}
			lex = append(lex, b)
		}
		ttName := "<computed>"
		if o.typOK {
			ttName = t.tc.name(o.typ)
		} else if o.ident {
			ttName = "identifier/keyword"
		} else if o.scanTyp {
			ttName = "type from the scanner"
		}
		if o.scanner != nil {
			key := fmt.Sprintf("dispatcher path: %s via %s", ttName, o.scanner.Name())
			after := len(o.consumed) - o.advBeforeScan
			if isSlice(o.scanner) {
				put(key, verdict{ok: after == 0, pos: pos, detail: fmt.Sprintf("slice scanner %s stops behind the token; %d trailing advance(s)", o.scanner.Name(), after)})
				if after != 0 {
					verdicts[key].detail = fmt.Sprintf("%d advance(s) after %s: the byte after the token is skipped", after, o.scanner.Name())
				}
			} else {
				good := after == 1 && o.advBeforeScan == 0
				d := "delimited scanner " + o.scanner.Name() + " stops on the closing delimiter; exactly one trailing advance"
				if !good {
					d = fmt.Sprintf("%d advance(s) after %s and %d before it: the closing delimiter is not consumed exactly once", after, o.scanner.Name(), o.advBeforeScan)
				}
				if o.typOK && o.typ == illT && after <= 1 && o.advBeforeScan == 0 {
					// the unterminated case ends at the end of input: the trailing advance is a no-op there
					good, d = true, "unterminated literal: reported at end of input"
				}
				put(key, verdict{ok: good, pos: pos, detail: d})
			}
			continue
		}
		if o.typOK && o.typ == eofT {
			put("dispatcher path: EOF", verdict{ok: len(o.consumed) <= 1, pos: pos, detail: "end of input: nothing left to consume"})
			continue
		}
		printable := fixedLex && len(lex) > 0
		for _, b := range lex {
			if b < 0x21 || b > 0x7e {
				printable = false
			}
		}
		key := fmt.Sprintf("dispatcher path: %s %q", ttName, string(lex))
		if !printable {
			key = fmt.Sprintf("dispatcher path: %s for any other byte", ttName)
		}
		if !fixedLex {
			key = fmt.Sprintf("dispatcher path: %s starting with %q", ttName, string(rune(o.first)))
		}
		switch {
		case !fixedLex:
			put(key, verdict{unres: true, pos: pos, detail: "the token is built after advancing over a byte the dispatcher did not pin down"})
		case o.litOK:
			good := o.lit == string(lex)
			d := fmt.Sprintf("%d byte(s) consumed, literal %q", len(lex), o.lit)
			if !good {
				d = fmt.Sprintf("the path consumes %q but the token literal is %q: a byte is skipped or lexed twice", string(lex), o.lit)
			}
			put(key, verdict{ok: good, pos: pos, detail: d})
		case o.typOK && o.typ == illT && len(lex) == 1:
			put(key, verdict{ok: true, pos: pos, detail: "error token for one unexpected byte; one byte consumed"})
		default:
			put(key, verdict{unres: true, pos: pos, detail: "cannot determine the token literal"})
		}
	}
	for _, k := range order {
		v := verdicts[k]
		switch {
		case v.unres:
			c.unres(k, v.pos, "%s", v.detail)
		case v.ok:
			c.ok(k, v.pos, "%s", v.detail)
		default:
			c.bad(k, v.pos, "%s", v.detail)
		}
	}
}

func literalLength(v ssa.Value) int {
	switch x := v.(type) {
	case *ssa.Const:
		if x.Value != nil {
			s := x.Value.ExactString()
			if len(s) >= 2 && s[0] == '"' {
				return len(constantString(x))
			}
		}
	case *ssa.Convert:
		if isByte(x.X.Type()) {
			return 1
		}
	case *ssa.BinOp:
		if x.Op == token.ADD {
			a, b := literalLength(x.X), literalLength(x.Y)
			if a >= 0 && b >= 0 {
				return a + b
			}
		}
	}
	return -1
}

func constantString(k *ssa.Const) string {
	s := k.Value.ExactString()
	// ExactString is a quoted Go string
	var out string
	if _, err := fmt.Sscanf(s, "%q", &out); err == nil {
		return out
	}
	return strings.Trim(s, "\"")
}

// ---------------------------------------------------------------------------------------------
// R10.8 termination

func r10_8(c *Ctx, lf *lexFacts) {
	seenFn := map[*ssa.Function]bool{}
	for _, k := range lf.order {
		cx := lf.ctxs[k]
		f := cx.fn
		if seenFn[f] || f == lf.advance || f == lf.peekFn || !cx.entry.live {
			continue
		}
		seenFn[f] = true
		// simple cycles of f
		cycles := simpleCycles(f)
		for i, cyc := range cycles {
			key := fmt.Sprintf("%s: loop #%d (blocks %s)", fnName(f), i+1, blockList(cyc))
			_ = key
			key = fmt.Sprintf("%s: loop #%d", fnName(f), i+1)
			pos := firstPos(cyc[0])
			if boundedCounting(cyc) {
				c.ok(key, pos, "counting loop over a slice (index < len), terminates by construction")
				continue
			}
			advances := false
			for _, b := range cyc {
				for _, call := range callsIn(b) {
					if lf.mayAdvance(call.Call.StaticCallee()) {
						advances = true
					}
				}
			}
			// feasibility of going round once with constant bytes (no advance), or at end of input (advance = identity)
			if !advances {
				if feasibleCycle(lf, cx, cyc, allBytes, allBytes, false) {
					c.bad(key, pos, "a cycle without any advance is feasible: the lexer can loop forever without consuming input")
				} else {
					c.ok(key, pos, "the advance-free cycle is infeasible (its conditions contradict each other for a fixed current byte)")
				}
				continue
			}
			if feasibleCycle(lf, cx, cyc, setOf(0), setOf(0), true) {
				c.bad(key, pos, "at end of input (current and look-ahead byte 0) the loop condition can still hold: the loop never exits once the input is exhausted")
			} else {
				c.ok(key, pos, "advances every iteration and exits when the current byte is 0")
			}
		}
	}
}

func blockList(bs []*ssa.BasicBlock) string {
	var s []string
	for _, b := range bs {
		s = append(s, fmt.Sprint(b.Index))
	}
	return strings.Join(s, ">")
}

// simpleCycles enumerates the simple cycles of f's CFG (small functions only).
func simpleCycles(f *ssa.Function) [][]*ssa.BasicBlock {
	var out [][]*ssa.BasicBlock
	seen := map[string]bool{}
	for _, start := range f.Blocks {
		if start == f.Recover {
			continue
		}
		var path []*ssa.BasicBlock
		on := map[*ssa.BasicBlock]bool{}
		var rec func(b *ssa.BasicBlock)
		rec = func(b *ssa.BasicBlock) {
			if len(out) > 400 {
				return
			}
			path = append(path, b)
			on[b] = true
			for _, s := range b.Succs {
				if s == start {
					// canonical form: only report when start has the smallest index
					min := true
					for _, p := range path {
						if p.Index < start.Index {
							min = false
						}
					}
					if min {
						k := blockList(path)
						if !seen[k] {
							seen[k] = true
							out = append(out, append([]*ssa.BasicBlock(nil), path...))
						}
					}
				} else if !on[s] && s.Index > start.Index {
					rec(s)
				}
			}
			on[b] = false
			path = path[:len(path)-1]
		}
		rec(start)
	}
	return out
}

// boundedCounting: the cycle is controlled by `i < len(x)` / `i < n` with i an induction phi stepping by +1 and the bound loop-invariant.
func boundedCounting(cyc []*ssa.BasicBlock) bool {
	in := map[*ssa.BasicBlock]bool{}
	for _, b := range cyc {
		in[b] = true
	}
	for _, b := range cyc {
		iff := blockIf(b)
		if iff == nil {
			continue
		}
		bo, ok := iff.Cond.(*ssa.BinOp)
		if !ok || bo.Op != token.LSS {
			continue
		}
		// exits the cycle on the false edge
		if in[b.Succs[1]] {
			continue
		}
		var phi *ssa.Phi
		switch x := bo.X.(type) {
		case *ssa.Phi:
			phi = x
		case *ssa.BinOp:
			if x.Op == token.ADD {
				phi, _ = x.X.(*ssa.Phi)
			}
		}
		if phi == nil || !in[phi.Block()] {
			continue
		}
		step := false
		for _, e := range phi.Edges {
			if inc, ok := e.(*ssa.BinOp); ok && inc.Op == token.ADD {
				if k, ok := constInt64(inc.Y); ok && k >= 1 && (inc.X == ssa.Value(phi) || inc == bo.X) {
					step = true
				}
			}
		}
		// bound defined outside the cycle
		bi, ok := bo.Y.(ssa.Instruction)
		invariant := !ok || !in[bi.Block()]
		if step && invariant {
			return true
		}
	}
	return false
}

// feasibleCycle walks the cycle once with the given constant byte sets, refining along the taken edges.
func feasibleCycle(lf *lexFacts, cx *lexCtx, cyc []*ssa.BasicBlock, cur, peek bset, atEOF bool) bool {
	s := &lexState{cur: cur, peek: peek, live: true, vals: map[ssa.Value]bset{}, alias: map[ssa.Value]int{}}
	for i, b := range cyc {
		next := cyc[(i+1)%len(cyc)]
		for _, in := range b.Instrs {
			switch x := in.(type) {
			case *ssa.UnOp:
				if x.Op == token.MUL {
					if fa, ok := x.X.(*ssa.FieldAddr); ok && fieldOfAddr(fa) == lf.curFld {
						s.vals[x] = s.cur
						s.alias[x] = 1
					}
				}
			case *ssa.Call:
				cal := x.Call.StaticCallee()
				switch {
				case cal == lf.peekFn:
					s.vals[x] = s.peek
					s.alias[x] = 2
				case lf.mayAdvance(cal):
					if !atEOF {
						return true // (not used: advance-free cycles contain no such call)
					}
					// at end of input the advance leaves current = look-ahead = 0
					s.cur, s.peek = setOf(0), setOf(0)
					for k := range s.alias {
						delete(s.alias, k)
					}
				}
			}
		}
		iff := blockIf(b)
		if iff == nil {
			continue
		}
		pol := b.Succs[0] == next
		if b.Succs[0] == next && b.Succs[1] == next {
			continue
		}
		cond := iff.Cond
		// a short-circuit condition joined in this block: on this cycle its value is the one coming in from the cycle's
		// previous block
		if phi, ok := cond.(*ssa.Phi); ok && phi.Block() == b {
			prev := cyc[(i-1+len(cyc))%len(cyc)]
			for ei, p := range b.Preds {
				if p == prev {
					cond = phi.Edges[ei]
				}
			}
			if k, ok := cond.(*ssa.Const); ok && k.Value != nil && k.Value.Kind() == constant.Bool {
				if constant.BoolVal(k.Value) != pol {
					return false
				}
				continue
			}
		}
		if !lf.refine(s, cx, cond, pol) {
			return false
		}
	}
	return true
}
