package main

import (
	"fmt"
	"go/ast"
	"go/constant"
	"go/token"
	"go/types"
	"sort"
	"strings"
)

// E5: event trees of the node printers (WriteTo methods) and of the parse methods, built from the typed syntax tree.
// The methods are structured code (if / range / early return); goto or labels make the extractor fail closed.

type evKind int

const (
	evSeq      evKind = iota
	evComments        // WriteLeadingComments(x.<tok>.LeadingComments)
	evMap             // AddMapping / AddNamedMapping of x.<tok>.Start
	evLit             // constant text
	evText            // text from a field of the node
	evChild           // <field>.WriteTo(cw)
	evLayout          // WriteSpace / WriteNewline / WriteIndent / IncreaseIndent / DecreaseIndent
	evSemi            // WriteSemi
	evOpt             // if cond { body } [else { alt }]
	evLoop            // for … range x.<field> { body }
	evRet             // early return
	evTerm            // request to write the statement terminator that was left out (before a keyword)
	evOther           // unrecognised call (fail closed where it matters)
)

type pev struct {
	kind  evKind
	field string // token field (comments/map), text field, child field, loop field
	name  string // named mapping: the name argument's field
	text  string // literal text / layout kind / other description
	cond  string // classification of the condition: "nonnil:<field>", "nil:<field>", "first", "paren:<field>", "flag:<field>", "other"
	neg   bool
	kids  []*pev
	alt   []*pev
	pos   token.Pos
	start bool   // map argument is <tok>.Start (not End)
	via   string // text events: the writer method used (WriteString / WriteRune)
}

type printerEvents struct {
	node   *types.Named
	recv   *types.Var
	root   []*pev
	issues []string
	decl   *ast.FuncDecl
	// predGuards: parentheses guarded by a pure predicate of package ast over a child (child field -> predicate); what
	// the predicate must answer is the business of R3.6
	predGuards map[string]*types.Func
}

func (c *Ctx) printerEventsOf(nt *types.Named) *printerEvents {
	pe := &printerEvents{node: nt}
	var fn *types.Func
	ms := types.NewMethodSet(types.NewPointer(nt))
	for i := 0; i < ms.Len(); i++ {
		if ms.At(i).Obj().Name() == "WriteTo" {
			fn = ms.At(i).Obj().(*types.Func)
		}
	}
	if fn == nil || c.declIdx[fn] == nil {
		pe.issues = append(pe.issues, "no WriteTo declaration")
		return pe
	}
	fd := c.declIdx[fn]
	pe.decl = fd
	info := c.Pkgs["ast"].TypesInfo
	if fd.Recv != nil && len(fd.Recv.List) == 1 && len(fd.Recv.List[0].Names) == 1 {
		pe.recv, _ = info.Defs[fd.Recv.List[0].Names[0]].(*types.Var)
	}
	var cw *types.Var
	if len(fd.Type.Params.List) == 1 && len(fd.Type.Params.List[0].Names) == 1 {
		cw, _ = info.Defs[fd.Type.Params.List[0].Names[0]].(*types.Var)
	}
	if pe.recv == nil || cw == nil {
		pe.issues = append(pe.issues, "receiver or writer parameter unnamed")
		return pe
	}
	x := &pextract{c: c, info: info, recv: pe.recv, cw: cw, pe: pe, locals: map[types.Object]string{}, rangeVars: map[types.Object]string{}}
	pe.root = x.block(fd.Body.List)
	return pe
}

type pextract struct {
	c         *Ctx
	info      *types.Info
	recv, cw  *types.Var
	pe        *printerEvents
	locals    map[types.Object]string // bool locals bound to a paren guard: name -> "paren:<field>"
	rangeVars map[types.Object]string // range value variable -> loop field path
	// helper functions of package ast that take the writer are walked in place, their parameters bound to what the
	// call site passes (a field path of the node and/or a classified condition)
	cwAlias   map[types.Object]bool
	paramPath map[types.Object]string
	paramCond map[types.Object][2]string // cond, "neg" or ""
	depth     int
}

// fieldPath renders recv.A.B as "A.B"; range variables as "<loopfield>[]" + rest.
func (x *pextract) fieldPath(e ast.Expr) (string, bool) {
	switch v := e.(type) {
	case *ast.Ident:
		obj := x.info.ObjectOf(v)
		if obj == x.recv {
			return "", true
		}
		if lp, ok := x.rangeVars[obj]; ok {
			return lp + "[]", true
		}
		if pp, ok := x.paramPath[obj]; ok {
			return pp, true
		}
	case *ast.SelectorExpr:
		if base, ok := x.fieldPath(v.X); ok {
			if base == "" {
				return v.Sel.Name, true
			}
			return base + "." + v.Sel.Name, true
		}
	case *ast.ParenExpr:
		return x.fieldPath(v.X)
	}
	return "", false
}

func (x *pextract) isWriterCall(call *ast.CallExpr) (string, bool) {
	sel, ok := call.Fun.(*ast.SelectorExpr)
	if !ok {
		return "", false
	}
	id, ok := sel.X.(*ast.Ident)
	if !ok || (x.info.ObjectOf(id) != x.cw && !x.cwAlias[x.info.ObjectOf(id)]) {
		return "", false
	}
	return sel.Sel.Name, true
}

func (x *pextract) block(stmts []ast.Stmt) []*pev {
	var out []*pev
	for i, st := range stmts {
		switch s := st.(type) {
		case *ast.ExprStmt:
			if call, ok := s.X.(*ast.CallExpr); ok {
				if evs, ok := x.inlineHelper(call); ok {
					out = append(out, evs...)
				} else {
					out = append(out, x.call(call))
				}
			} else {
				out = append(out, &pev{kind: evOther, text: "expression statement", pos: st.Pos()})
			}
		case *ast.AssignStmt:
			// myPrecedence := be.Precedence(); leftNeedsParens := be.Left.Precedence() < myPrecedence
			if len(s.Lhs) == 1 && len(s.Rhs) == 1 {
				if id, ok := s.Lhs[0].(*ast.Ident); ok {
					if f := x.guardField(s.Rhs[0]); f != "" {
						x.locals[x.info.ObjectOf(id)] = "paren:" + f
					} else if f := x.predGuard(s.Rhs[0]); f != "" {
						x.locals[x.info.ObjectOf(id)] = "paren:" + f
					}
					continue
				}
			}
			// _, isLiteral := n.Child.(*T): a type test of a child; a bool bound to it guards parentheses added for a
			// lexical reason (`(1).x`), which are transparent to the token comparison like precedence parentheses
			if len(s.Lhs) == 2 && len(s.Rhs) == 1 {
				if ta, ok := s.Rhs[0].(*ast.TypeAssertExpr); ok && ta.Type != nil {
					if id, ok := s.Lhs[1].(*ast.Ident); ok {
						if fp, ok := x.fieldPath(ta.X); ok && fp != "" {
							if first, ok := s.Lhs[0].(*ast.Ident); ok && first.Name == "_" {
								x.locals[x.info.ObjectOf(id)] = "paren:" + fp
								continue
							}
						}
					}
				}
			}
			out = append(out, &pev{kind: evOther, text: "assignment", pos: st.Pos()})
		case *ast.IfStmt:
			// if _, isLiteral := n.Child.(*T); isLiteral { … }: the type test in the init statement
			if as, ok := s.Init.(*ast.AssignStmt); ok && len(as.Lhs) == 2 && len(as.Rhs) == 1 {
				if ta, ok := as.Rhs[0].(*ast.TypeAssertExpr); ok && ta.Type != nil {
					if id, ok := as.Lhs[1].(*ast.Ident); ok {
						if first, ok := as.Lhs[0].(*ast.Ident); ok && first.Name == "_" {
							if fp, ok := x.fieldPath(ta.X); ok && fp != "" {
								x.locals[x.info.ObjectOf(id)] = "paren:" + fp
							}
						}
					}
				}
			}
			cond, neg := x.cond(s.Cond)
			ev := &pev{kind: evOpt, cond: cond, neg: neg, pos: s.Pos()}
			ev.kids = x.block(s.Body.List)
			switch e := s.Else.(type) {
			case *ast.BlockStmt:
				ev.alt = x.block(e.List)
			case *ast.IfStmt:
				ev.alt = x.block([]ast.Stmt{e})
			}
			// early return: `if c { return }` — the rest of the block happens only when !c
			if len(ev.kids) == 1 && ev.kids[0].kind == evRet && ev.alt == nil {
				rest := x.block(stmts[i+1:])
				out = append(out, &pev{kind: evOpt, cond: cond, neg: !neg, kids: rest, pos: s.Pos()})
				return out
			}
			out = append(out, ev)
		case *ast.RangeStmt:
			fp, ok := x.fieldPath(s.X)
			ev := &pev{kind: evLoop, field: fp, pos: s.Pos()}
			if !ok {
				ev.kind, ev.text = evOther, "range over something that is not a field of the node"
			}
			if v, isIdent := s.Value.(*ast.Ident); isIdent && ok {
				x.rangeVars[x.info.ObjectOf(v)] = fp
			}
			if k, ok := s.Key.(*ast.Ident); ok && k.Name != "_" {
				x.locals[x.info.ObjectOf(k)] = "index"
			}
			ev.kids = x.block(s.Body.List)
			out = append(out, ev)
		case *ast.ReturnStmt:
			out = append(out, &pev{kind: evRet, pos: s.Pos()})
		case *ast.BlockStmt:
			out = append(out, x.block(s.List)...)
		default:
			x.pe.issues = append(x.pe.issues, fmt.Sprintf("unsupported statement %T", st))
			out = append(out, &pev{kind: evOther, text: fmt.Sprintf("%T", st), pos: st.Pos()})
		}
	}
	return out
}

// guardField: expr is a comparison involving <field>.Precedence(): returns the field.
func (x *pextract) guardField(e ast.Expr) string {
	found := ""
	ast.Inspect(e, func(n ast.Node) bool {
		call, ok := n.(*ast.CallExpr)
		if !ok {
			return true
		}
		sel, ok := call.Fun.(*ast.SelectorExpr)
		if !ok || sel.Sel.Name != "Precedence" {
			return true
		}
		if fp, ok := x.fieldPath(sel.X); ok && fp != "" {
			found = fp
		}
		return true
	})
	if _, isCmp := e.(*ast.BinaryExpr); !isCmp {
		return ""
	}
	return found
}

// predGuard: e is pred(x.<child>) — a call of a package-level function of package ast that takes one node-typed
// argument, a child of the node, and returns a bool (it is not handed the writer, so it cannot write). Parentheses under
// such a guard are transparent to the token comparison like precedence parentheses; R3.6 judges the predicate.
func (x *pextract) predGuard(e ast.Expr) string {
	call, ok := ast.Unparen(e).(*ast.CallExpr)
	if !ok || len(call.Args) != 1 {
		return ""
	}
	id, ok := call.Fun.(*ast.Ident)
	if !ok {
		return ""
	}
	fn, ok := x.info.Uses[id].(*types.Func)
	if !ok || fn.Pkg() == nil || fn.Pkg() != x.c.Pkg("ast") {
		return ""
	}
	sig := fn.Type().(*types.Signature)
	if sig.Recv() != nil || sig.Params().Len() != 1 || sig.Results().Len() != 1 || !types.Identical(sig.Results().At(0).Type(), types.Typ[types.Bool]) || !isNodeIface(sig.Params().At(0).Type()) {
		return ""
	}
	fp, ok := x.fieldPath(call.Args[0])
	if !ok || fp == "" {
		return ""
	}
	if x.pe.predGuards == nil {
		x.pe.predGuards = map[string]*types.Func{}
	}
	x.pe.predGuards[fp] = fn
	return fp
}

func (x *pextract) cond(e ast.Expr) (string, bool) {
	if fp := x.predGuard(e); fp != "" {
		return "paren:" + fp, false
	}
	switch v := e.(type) {
	case *ast.ParenExpr:
		return x.cond(v.X)
	case *ast.UnaryExpr:
		if v.Op == token.NOT {
			c, n := x.cond(v.X)
			return c, !n
		}
	case *ast.Ident:
		if k, ok := x.locals[x.info.ObjectOf(v)]; ok {
			return k, false
		}
		if pc, ok := x.paramCond[x.info.ObjectOf(v)]; ok {
			return pc[0], pc[1] == "neg"
		}
	case *ast.SelectorExpr:
		if fp, ok := x.fieldPath(v); ok {
			return "flag:" + fp, false
		}
	case *ast.BinaryExpr:
		if f := x.guardField(v); f != "" {
			return "paren:" + f, false
		}
		// field != nil / == nil
		if id, ok := v.Y.(*ast.Ident); ok && id.Name == "nil" {
			if fp, ok := x.fieldPath(v.X); ok {
				return "nonnil:" + fp, v.Op == token.EQL
			}
		}
		// i > 0
		if id, ok := v.X.(*ast.Ident); ok && x.locals[x.info.ObjectOf(id)] == "index" {
			if k, ok := constOfExpr(x.info, v.Y); ok && k.String() == "0" && v.Op == token.GTR {
				return "notfirst", false
			}
		}
	}
	return "other", false
}

// inlineHelper: a call of a function or method of package ast (not a writer method) that is handed the writer is walked
// in place. Parameters are bound eagerly, in the caller's context, to the field path and/or the classified condition
// of the argument.
func (x *pextract) inlineHelper(call *ast.CallExpr) ([]*pev, bool) {
	if _, isW := x.isWriterCall(call); isW {
		return nil, false
	}
	f, ok := calleeFunc(x.info, call)
	if !ok || f.Pkg() == nil || f.Pkg().Path() != modPath+"/ast" || f.Name() == "WriteTo" {
		return nil, false
	}
	fd := x.c.declIdx[f]
	if fd == nil || fd.Body == nil || x.depth >= 3 {
		return nil, false
	}
	// collect the parameter objects in order (receiver first for methods)
	var params []types.Object
	var args []ast.Expr
	if fd.Recv != nil && len(fd.Recv.List) == 1 && len(fd.Recv.List[0].Names) == 1 {
		sel, ok := call.Fun.(*ast.SelectorExpr)
		if !ok {
			return nil, false
		}
		params = append(params, x.info.Defs[fd.Recv.List[0].Names[0]])
		args = append(args, sel.X)
	}
	for _, fl := range fd.Type.Params.List {
		for _, n := range fl.Names {
			params = append(params, x.info.Defs[n])
		}
	}
	args = append(args, call.Args...)
	if len(params) != len(args) {
		return nil, false
	}
	takesWriter := false
	for i, p := range params {
		if p != nil && namedIs(p.Type(), "ast", "CodeWriter") {
			if id, ok := args[i].(*ast.Ident); ok && (x.info.ObjectOf(id) == x.cw || x.cwAlias[x.info.ObjectOf(id)]) {
				takesWriter = true
			}
		}
	}
	if !takesWriter {
		return nil, false
	}
	savedPath, savedCond, savedAlias := x.paramPath, x.paramCond, x.cwAlias
	np, nc, na := map[types.Object]string{}, map[types.Object][2]string{}, map[types.Object]bool{}
	for k, v := range savedPath {
		np[k] = v
	}
	for k, v := range savedCond {
		nc[k] = v
	}
	for k, v := range savedAlias {
		na[k] = v
	}
	for i, p := range params {
		if p == nil {
			continue
		}
		if namedIs(p.Type(), "ast", "CodeWriter") {
			na[p] = true
			continue
		}
		if fp, ok := x.fieldPath(args[i]); ok {
			np[p] = fp
		}
		if b, ok := p.Type().Underlying().(*types.Basic); ok && b.Kind() == types.Bool {
			cd, neg := x.cond(args[i])
			n := ""
			if neg {
				n = "neg"
			}
			nc[p] = [2]string{cd, n}
		}
	}
	x.paramPath, x.paramCond, x.cwAlias = np, nc, na
	x.depth++
	evs := x.block(fd.Body.List)
	x.depth--
	x.paramPath, x.paramCond, x.cwAlias = savedPath, savedCond, savedAlias
	// an early return inside the helper ends the helper, not the printer
	for _, e := range evs {
		if e.kind == evRet {
			return nil, false
		}
	}
	return evs, true
}

func (x *pextract) call(call *ast.CallExpr) *pev {
	pos := call.Pos()
	if m, ok := x.isWriterCall(call); ok {
		switch m {
		case "WriteLeadingComments":
			if len(call.Args) == 1 {
				if fp, ok := x.fieldPath(call.Args[0]); ok && strings.HasSuffix(fp, ".LeadingComments") {
					return &pev{kind: evComments, field: strings.TrimSuffix(fp, ".LeadingComments"), pos: pos}
				}
			}
			return &pev{kind: evOther, text: "comment replay of something that is not a token field's LeadingComments", pos: pos}
		case "AddMapping":
			if len(call.Args) == 1 {
				if fp, ok := x.fieldPath(call.Args[0]); ok {
					switch {
					case strings.HasSuffix(fp, ".Start"):
						return &pev{kind: evMap, field: strings.TrimSuffix(fp, ".Start"), start: true, pos: pos}
					case strings.HasSuffix(fp, ".End"):
						return &pev{kind: evMap, field: strings.TrimSuffix(fp, ".End"), start: false, pos: pos}
					}
				}
			}
			return &pev{kind: evOther, text: "mapping of something that is not a token field's position", pos: pos}
		case "AddNamedMapping":
			if len(call.Args) == 3 {
				l, ok1 := x.fieldPath(call.Args[0])
				cc, ok2 := x.fieldPath(call.Args[1])
				nm, ok3 := x.fieldPath(call.Args[2])
				if ok1 && ok2 {
					tl, tc := strings.TrimSuffix(l, ".Start.Line"), strings.TrimSuffix(cc, ".Start.Column")
					ev := &pev{kind: evMap, field: tl, start: strings.HasSuffix(l, ".Start.Line") && strings.HasSuffix(cc, ".Start.Column") && tl == tc, pos: pos}
					if ok3 {
						ev.name = nm
					} else {
						ev.name = "<expr>"
					}
					return ev
				}
			}
			return &pev{kind: evOther, text: "named mapping with unrecognised arguments", pos: pos}
		case "WriteString", "WriteRune":
			if len(call.Args) == 1 {
				if v, ok := constOfExpr(x.info, call.Args[0]); ok {
					switch v.Kind() {
					case constant.String:
						return &pev{kind: evLit, text: constant.StringVal(v), pos: pos, via: m}
					case constant.Int:
						i, _ := constant.Int64Val(v)
						return &pev{kind: evLit, text: string(rune(i)), pos: pos, via: m}
					}
				}
				arg := call.Args[0]
				// strings.ReplaceAll(field, …): the text of the field with an escape applied
				if rc, ok := arg.(*ast.CallExpr); ok {
					if f, ok := calleeFunc(x.info, rc); ok && f.Pkg() != nil && f.Pkg().Path() == "strings" && f.Name() == "ReplaceAll" && len(rc.Args) == 3 {
						arg = rc.Args[0]
					}
				}
				if fp, ok := x.fieldPath(arg); ok && fp != "" {
					return &pev{kind: evText, field: fp, pos: pos, via: m}
				}
			}
			return &pev{kind: evOther, text: "write of a computed text", pos: pos}
		case "WriteSpace", "WriteNewline", "WriteIndent", "IncreaseIndent", "DecreaseIndent":
			return &pev{kind: evLayout, text: m, pos: pos}
		case "WriteSemi":
			return &pev{kind: evSemi, pos: pos}
		}
		if sg := x.c.semiGuard(); sg.terminate != nil && m == sg.terminate.Name() && len(call.Args) == 0 {
			return &pev{kind: evTerm, pos: pos}
		}
		return &pev{kind: evOther, text: "writer method " + m, pos: pos}
	}
	// <field>.WriteTo(cw)
	if sel, ok := call.Fun.(*ast.SelectorExpr); ok && sel.Sel.Name == "WriteTo" && len(call.Args) == 1 {
		if fp, ok := x.fieldPath(sel.X); ok && fp != "" {
			return &pev{kind: evChild, field: fp, pos: pos}
		}
	}
	return &pev{kind: evOther, text: "call " + types.ExprString(call.Fun), pos: pos}
}

// flatten lists the events in source order, descending into options and loops.
func flatten(evs []*pev, f func(e *pev, under []*pev)) {
	var rec func(es []*pev, under []*pev)
	rec = func(es []*pev, under []*pev) {
		for _, e := range es {
			f(e, under)
			if e.kind == evOpt || e.kind == evLoop {
				rec(e.kids, append(under, e))
				rec(e.alt, append(under, e))
			}
		}
	}
	rec(evs, nil)
}

func (e *pev) String() string {
	switch e.kind {
	case evComments:
		return "C(" + e.field + ")"
	case evMap:
		if e.name != "" {
			return "M(" + e.field + "," + e.name + ")"
		}
		return "M(" + e.field + ")"
	case evLit:
		return fmt.Sprintf("%q", e.text)
	case evText:
		return "text(" + e.field + ")"
	case evChild:
		return "<" + e.field + ">"
	case evLayout:
		return "·" + strings.TrimPrefix(strings.TrimPrefix(e.text, "Write"), "crease")
	case evSemi:
		return ";?"
	case evOpt:
		s := "[" + e.cond
		if e.neg {
			s = "[!" + e.cond
		}
		s += ": " + seqString(e.kids)
		if e.alt != nil {
			s += " | " + seqString(e.alt)
		}
		return s + "]"
	case evLoop:
		return "{" + e.field + ": " + seqString(e.kids) + "}"
	case evRet:
		return "return"
	case evTerm:
		return ";!"
	}
	return "?" + e.text
}

func seqString(es []*pev) string {
	var p []string
	for _, e := range es {
		p = append(p, e.String())
	}
	return strings.Join(p, " ")
}

// allPrinterEvents extracts the event trees of every node type.
func (c *Ctx) allPrinterEvents() map[string]*printerEvents {
	out := map[string]*printerEvents{}
	for _, nt := range nodeTypes(c) {
		out[nt.Obj().Name()] = c.printerEventsOf(nt)
	}
	return out
}

func dumpPrinterEvents(m map[string]*printerEvents) map[string]string {
	out := map[string]string{}
	for n, pe := range m {
		out[n] = seqString(pe.root)
	}
	return out
}

// tokenFields: the fields of node type nt whose type is token.Token.
func tokenFieldsOf(nt *types.Named) []string {
	st, ok := nt.Underlying().(*types.Struct)
	if !ok {
		return nil
	}
	var out []string
	for i := 0; i < st.NumFields(); i++ {
		if namedIs(st.Field(i).Type(), "token", "Token") {
			if _, isPtr := st.Field(i).Type().Underlying().(*types.Pointer); !isPtr {
				out = append(out, st.Field(i).Name())
			}
		}
	}
	return out
}

// ---- parser side: which token types fill a node's token fields, and which terminals a parse method checks -------

type parseFacts struct {
	method     *types.Func
	node       string
	entry      map[int64]bool            // token types that are current when the method is entered
	tokField   map[string]map[int64]bool // token field -> token types stored there
	checked    map[int64]bool            // fixed terminals the method tests (expect / peek / current tests), entry included
	fieldOrder []string                  // node fields in the order the parser fills them (source order)
	fieldSrc   map[string]string         // field -> "param" | "current" | "subparse" | "literal" | "fresh"
	issues     []string
}

// entryTokens: the token types with which each parser method can be entered (from the tables, the dispatch and
// direct calls under a current-token test).
func (c *Ctx) entryTokens(t *tables) map[*types.Func]map[int64]bool {
	out := map[*types.Func]map[int64]bool{}
	add := func(m *types.Func, k int64) {
		if m == nil {
			return
		}
		if out[m] == nil {
			out[m] = map[int64]bool{}
		}
		out[m][k] = true
	}
	for k, m := range t.pt.prefix {
		add(m, k)
	}
	for k, m := range t.pt.infix {
		add(m, k)
	}
	for k, m := range t.pt.dispatch {
		add(m, k)
	}
	// direct calls of a parse method right after ExpectToken(K) / under `CurrentToken.Type == K`
	info := c.Pkgs["parser"].TypesInfo
	for _, fd := range c.allFuncDecls("parser") {
		var lastExpect int64 = -1
		var walk func(stmts []ast.Stmt, cur int64)
		walk = func(stmts []ast.Stmt, cur int64) {
			for _, st := range stmts {
				switch s := st.(type) {
				case *ast.IfStmt:
					// if !p.ExpectToken(K) { return nil }
					if k, ok := c.expectInCond(info, s.Cond); ok {
						lastExpect = k
						continue
					}
					if k, ok := c.curTypeEq(info, s.Cond); ok {
						walk(s.Body.List, k)
						if eb, ok := s.Else.(*ast.BlockStmt); ok {
							walk(eb.List, -1)
						}
						continue
					}
					walk(s.Body.List, -1)
					if eb, ok := s.Else.(*ast.BlockStmt); ok {
						walk(eb.List, -1)
					}
					lastExpect = -1
				default:
					ast.Inspect(st, func(n ast.Node) bool {
						call, ok := n.(*ast.CallExpr)
						if !ok {
							return true
						}
						if f, ok := calleeFunc(info, call); ok && f.Pkg() == c.Pkg("parser") {
							if f.Name() == "NextToken" {
								lastExpect = -1
								return true
							}
							if cur >= 0 {
								add(f, cur)
							} else if lastExpect >= 0 {
								add(f, lastExpect)
							}
						}
						return true
					})
				}
			}
		}
		walk(fd.Body.List, -1)
	}
	return out
}

func (c *Ctx) expectInCond(info *types.Info, e ast.Expr) (int64, bool) {
	var k int64 = -1
	ast.Inspect(e, func(n ast.Node) bool {
		call, ok := n.(*ast.CallExpr)
		if !ok {
			return true
		}
		if f, ok := calleeFunc(info, call); ok && f.Name() == "ExpectToken" && len(call.Args) == 1 {
			if v, ok := c.tokConstOf(info, call.Args[0]); ok {
				k = v
			}
		}
		return true
	})
	return k, k >= 0
}

func (c *Ctx) curTypeEq(info *types.Info, e ast.Expr) (int64, bool) {
	be, ok := e.(*ast.BinaryExpr)
	if !ok || be.Op != token.EQL {
		return 0, false
	}
	if types.ExprString(be.X) != "p.CurrentToken.Type" {
		return 0, false
	}
	return c.tokConstOf(info, be.Y)
}

// parseFactsOf collects, for the parse method m that builds node `node`, its token fields, checked terminals and
// field order. Helper methods it calls for lists (parameters / expression lists) contribute their checked terminals.
func (c *Ctx) parseFactsOf(t *tables, m *types.Func, node string, entries map[*types.Func]map[int64]bool) *parseFacts {
	pf := &parseFacts{method: m, node: node, entry: entries[m], tokField: map[string]map[int64]bool{}, checked: map[int64]bool{}, fieldSrc: map[string]string{}}
	fd := c.declIdx[m]
	info := c.Pkgs["parser"].TypesInfo
	for k := range pf.entry {
		pf.checked[k] = true
	}
	// terminals checked: ExpectToken(K), ParseExpressionList(K), PeekToken.Type ==/!= K, CurrentToken.Type ==/!= K
	var collect func(f *ast.FuncDecl, depth int)
	seen := map[*ast.FuncDecl]bool{}
	collect = func(f *ast.FuncDecl, depth int) {
		if f == nil || seen[f] || depth > 2 {
			return
		}
		seen[f] = true
		ast.Inspect(f.Body, func(n ast.Node) bool {
			switch x := n.(type) {
			case *ast.CallExpr:
				if g, ok := calleeFunc(info, x); ok && g.Pkg() == c.Pkg("parser") {
					switch g.Name() {
					case "ExpectToken", "ParseExpressionList":
						if len(x.Args) == 1 {
							if k, ok := c.tokConstOf(info, x.Args[0]); ok {
								pf.checked[k] = true
							}
						}
					}
					// list helpers: methods returning a slice of nodes
					if sig, ok := g.Type().(*types.Signature); ok && sig.Results().Len() == 1 {
						if _, isSlice := sig.Results().At(0).Type().Underlying().(*types.Slice); isSlice {
							collect(c.declIdx[g], depth+1)
						}
					}
				}
			case *ast.BinaryExpr:
				if x.Op == token.EQL || x.Op == token.NEQ {
					lhs := types.ExprString(x.X)
					if lhs == "p.PeekToken.Type" || lhs == "p.CurrentToken.Type" {
						if k, ok := c.tokConstOf(info, x.Y); ok {
							pf.checked[k] = true
						}
					}
					// comparison with a token.Type parameter (ParseExpressionList(end))
					if lhs == "p.PeekToken.Type" {
						if id, ok := x.Y.(*ast.Ident); ok {
							if _, isParam := info.ObjectOf(id).(*types.Var); isParam && namedIs(info.TypeOf(id), "token", "Type") {
								// resolved at the call sites by the ParseExpressionList case above
							}
						}
					}
				}
			}
			return true
		})
	}
	collect(fd, 0)
	// fields: composite literal keys in order, then assignments in source order
	var leftParam types.Object
	if fd.Type.Params != nil && len(fd.Type.Params.List) > 0 && len(fd.Type.Params.List[0].Names) > 0 {
		leftParam = info.Defs[fd.Type.Params.List[0].Names[0]]
	}
	tokLocals := map[types.Object]bool{} // locals holding p.CurrentToken at entry
	advanced := false
	classify := func(val ast.Expr) string {
		switch v := val.(type) {
		case *ast.Ident:
			if info.ObjectOf(v) == leftParam && leftParam != nil {
				return "param"
			}
			if tokLocals[info.ObjectOf(v)] {
				return "current@entry"
			}
		case *ast.SelectorExpr:
			if types.ExprString(v) == "p.CurrentToken" {
				if advanced {
					return "current"
				}
				return "current@entry"
			}
			if types.ExprString(v) == "p.CurrentToken.Literal" {
				return "literal"
			}
		case *ast.CallExpr:
			return "subparse"
		case *ast.UnaryExpr:
			if v.Op == token.AND {
				return "fresh"
			}
		case *ast.CompositeLit:
			return "fresh"
		}
		return "other"
	}
	record := func(field string, val ast.Expr) {
		src := classify(val)
		if _, dup := pf.fieldSrc[field]; !dup {
			pf.fieldOrder = append(pf.fieldOrder, field)
		}
		pf.fieldSrc[field] = src
	}
	isNodeLit := func(cl *ast.CompositeLit) bool {
		tv, ok := info.Types[cl]
		return ok && namedOf(tv.Type) != nil && namedOf(tv.Type).Obj().Name() == node
	}
	var visit func(n ast.Node) bool
	visit = func(n ast.Node) bool {
		switch x := n.(type) {
		case *ast.AssignStmt:
			if len(x.Lhs) == 1 && len(x.Rhs) == 1 {
				if id, ok := x.Lhs[0].(*ast.Ident); ok && types.ExprString(x.Rhs[0]) == "p.CurrentToken" && !advanced {
					tokLocals[info.ObjectOf(id)] = true
				}
				if sel, ok := x.Lhs[0].(*ast.SelectorExpr); ok {
					if tv, ok := info.Types[sel.X]; ok && namedOf(tv.Type) != nil && namedOf(tv.Type).Obj().Name() == node {
						ast.Inspect(x.Rhs[0], visit)
						record(sel.Sel.Name, x.Rhs[0])
						return false
					}
				}
			}
		case *ast.CompositeLit:
			if isNodeLit(x) {
				for _, el := range x.Elts {
					if kv, ok := el.(*ast.KeyValueExpr); ok {
						if id, ok := kv.Key.(*ast.Ident); ok {
							record(id.Name, kv.Value)
						}
					}
				}
			}
		case *ast.CallExpr:
			if g, ok := calleeFunc(info, x); ok && g.Pkg() == c.Pkg("parser") {
				// any function that (transitively) moves the token window, by role rather than by name
				switch c.parserRoles()[g] {
				case "advance", "expect", "semi", "subparse", "listhelper", "voidhelper":
					advanced = true
				}
			} else if sel, ok := ast.Unparen(x.Fun).(*ast.SelectorExpr); ok {
				// a call through one of the parser's interceptable function fields parses a whole construct
				if fv, ok := info.ObjectOf(sel.Sel).(*types.Var); ok && fv.IsField() {
					if _, isSig := fv.Type().Underlying().(*types.Signature); isSig {
						advanced = true
					}
				}
			}
		}
		return true
	}
	ast.Inspect(fd.Body, visit)
	// token fields
	if nt := c.lookupType("ast", node); nt != nil {
		for _, tf := range tokenFieldsOf(nt) {
			switch pf.fieldSrc[tf] {
			case "current@entry":
				pf.tokField[tf] = pf.entry
				if len(pf.entry) == 0 {
					// the node is built right inside a `case K:` of a switch over the current token's type (a node the
					// statement dispatcher makes itself): the token kept is of type K
					if ks := c.caseTypesOfNodeLit(fd, node); len(ks) > 0 {
						pf.tokField[tf] = ks
						for k := range ks {
							pf.checked[k] = true
						}
					}
				}
			case "current":
				// the current token after an expect: the last expected terminal before the assignment
				pf.tokField[tf] = c.lastExpectBefore(fd, tf, node)
				if len(pf.tokField[tf]) == 0 && len(pf.entry) == 0 {
					if ks := c.caseTypesOfNodeLit(fd, node); len(ks) > 0 {
						pf.tokField[tf] = ks
						for k := range ks {
							pf.checked[k] = true
						}
					}
				}
			}
		}
	}
	return pf
}

// caseTypesOfNodeLit: the token constants of the `case` clauses (of a switch over p.CurrentToken.Type) that directly
// contain a composite literal of ast.<node>.
func (c *Ctx) caseTypesOfNodeLit(fd *ast.FuncDecl, node string) map[int64]bool {
	info := c.Pkgs["parser"].TypesInfo
	out := map[int64]bool{}
	ast.Inspect(fd.Body, func(n ast.Node) bool {
		sw, ok := n.(*ast.SwitchStmt)
		if !ok || sw.Tag == nil || types.ExprString(sw.Tag) != "p.CurrentToken.Type" {
			return true
		}
		for _, cl := range sw.Body.List {
			cc, ok := cl.(*ast.CaseClause)
			if !ok || len(cc.List) == 0 {
				continue
			}
			has, callBefore := false, false
			for _, st := range cc.Body {
				ast.Inspect(st, func(m ast.Node) bool {
					switch x := m.(type) {
					case *ast.CallExpr:
						if !has {
							callBefore = true // something may have moved the token window before the node is built
						}
					case *ast.CompositeLit:
						if tv, ok := info.Types[x]; ok && namedIs(tv.Type, "ast", node) {
							has = true
						}
					}
					return true
				})
			}
			if callBefore {
				continue
			}
			if !has {
				continue
			}
			for _, e := range cc.List {
				if k, ok := c.tokConstOf(info, e); ok {
					out[k] = true
				}
			}
		}
		return true
	})
	return out
}

// lastExpectBefore: the token type expected (ExpectToken / list end) immediately before `x.<tf> = p.CurrentToken`.
func (c *Ctx) lastExpectBefore(fd *ast.FuncDecl, tf, node string) map[int64]bool {
	info := c.Pkgs["parser"].TypesInfo
	out := map[int64]bool{}
	var last int64 = -1
	ast.Inspect(fd.Body, func(n ast.Node) bool {
		switch x := n.(type) {
		case *ast.CallExpr:
			if g, ok := calleeFunc(info, x); ok && (g.Name() == "ExpectToken" || g.Name() == "ParseExpressionList") && len(x.Args) == 1 {
				if k, ok := c.tokConstOf(info, x.Args[0]); ok {
					last = k
				}
			}
		case *ast.AssignStmt:
			if len(x.Lhs) == 1 {
				if sel, ok := x.Lhs[0].(*ast.SelectorExpr); ok && sel.Sel.Name == tf && last >= 0 {
					out[last] = true
				}
			}
		case *ast.KeyValueExpr:
			if id, ok := x.Key.(*ast.Ident); ok && id.Name == tf && last >= 0 && types.ExprString(x.Value) == "p.CurrentToken" {
				out[last] = true
			}
		}
		return true
	})
	return out
}

// nodeBuilders: node type name -> the parser methods that build it (composite literal of that type).
func (c *Ctx) nodeBuilders() map[string][]*types.Func {
	out := map[string][]*types.Func{}
	info := c.Pkgs["parser"].TypesInfo
	for _, fd := range c.allFuncDecls("parser") {
		m, _ := info.Defs[fd.Name].(*types.Func)
		if m == nil {
			continue
		}
		for _, nd := range c.constructedNodes(m) {
			out[nd] = append(out[nd], m)
		}
	}
	for _, ms := range out {
		sort.Slice(ms, func(i, j int) bool { return ms[i].Name() < ms[j].Name() })
	}
	return out
}

// ---- event successor relation (a small CFG over the event tree) --------------------------------

// leafOrder computes, for every leaf event, the set of leaf events that can immediately follow it, and the set of
// leaf events that can come first. The pseudo-event `endEv` marks the end of the printer.
var endEv = &pev{kind: evRet, text: "<end>"}

type evGraph struct {
	first []*pev
	succ  map[*pev][]*pev
}

func isLeaf(e *pev) bool { return e.kind != evOpt && e.kind != evLoop }

func buildEvGraph(root []*pev) *evGraph {
	g := &evGraph{succ: map[*pev][]*pev{}}
	// firstOf(seq, follow): leaves that can start seq, given what follows it
	var firstOf func(seq []*pev, follow []*pev) []*pev
	var link func(seq []*pev, follow []*pev)
	firstOf = func(seq []*pev, follow []*pev) []*pev {
		if len(seq) == 0 {
			return follow
		}
		e := seq[0]
		rest := firstOf(seq[1:], follow)
		switch e.kind {
		case evOpt:
			out := firstOf(e.kids, rest)
			if e.alt != nil {
				out = append(append([]*pev(nil), out...), firstOf(e.alt, rest)...)
			} else {
				out = append(append([]*pev(nil), out...), rest...)
			}
			return out
		case evLoop:
			return append(append([]*pev(nil), firstOf(e.kids, rest)...), rest...)
		case evRet:
			return []*pev{endEv}
		}
		return []*pev{e}
	}
	link = func(seq []*pev, follow []*pev) {
		for i, e := range seq {
			rest := firstOf(seq[i+1:], follow)
			switch e.kind {
			case evOpt:
				link(e.kids, rest)
				link(e.alt, rest)
			case evLoop:
				again := append(append([]*pev(nil), firstOf(e.kids, rest)...), rest...)
				link(e.kids, again)
			case evRet:
			default:
				g.succ[e] = dedupEv(append(g.succ[e], rest...))
			}
		}
	}
	end := []*pev{endEv}
	g.first = dedupEv(firstOf(root, end))
	link(root, end)
	return g
}

func dedupEv(es []*pev) []*pev {
	seen := map[*pev]bool{}
	var out []*pev
	for _, e := range es {
		if !seen[e] {
			seen[e] = true
			out = append(out, e)
		}
	}
	return out
}

// nextOutput: the output-relevant events (text, child, layout, comments, semi, end) that can follow e, skipping maps.
func (g *evGraph) nextVisible(e *pev, skip func(*pev) bool) []*pev {
	var out []*pev
	seen := map[*pev]bool{}
	var rec func(x *pev)
	rec = func(x *pev) {
		for _, s := range g.succ[x] {
			if seen[s] {
				continue
			}
			seen[s] = true
			if s != endEv && skip(s) {
				rec(s)
			} else {
				out = append(out, s)
			}
		}
	}
	rec(e)
	return out
}

// paths enumerates the leaf-event paths from the start to the end, each loop body taken at most once per occurrence.
func (g *evGraph) paths(limit int, visit func(path []*pev)) bool {
	n := 0
	var rec func(e *pev, path []*pev, cnt map[*pev]int) bool
	rec = func(e *pev, path []*pev, cnt map[*pev]int) bool {
		if e == endEv {
			n++
			if n > limit {
				return false
			}
			visit(path)
			return true
		}
		if cnt[e] >= 2 {
			return true
		}
		cnt[e]++
		path = append(path, e)
		for _, s := range g.succ[e] {
			if !rec(s, path, cnt) {
				return false
			}
		}
		cnt[e]--
		return true
	}
	for _, f := range g.first {
		if !rec(f, nil, map[*pev]int{}) {
			return false
		}
	}
	return true
}
