package main

import (
	"fmt"
	"go/constant"
	"go/token"
	"go/types"
	"sort"
	"strings"

	"golang.org/x/tools/go/ssa"
)

func init() {
	register("C15", &propSpec{
		run: runC15,
		explanation: "Comments travel as attachments of tokens, so the decidable mechanism is which tokens carry them and who replays them. Decided on every path of every printer and of the replay/collection code: " +
			"R15.1 every token field the parser fills is replayed (WriteLeadingComments of that field) before that token's mapping/text on every path — and directly in front of it: no child is printed between the replay and the token's own text, except for a token the parser never accepts after a line break (the restricted production), whose trivia is always empty —, and a node's first written byte is preceded by the replay of its leftmost token unless the node starts by delegating to its leftmost child (precedence-guard parentheses exempt: they never occur for parsed trees); " +
			"R15.2 every statement-list node keeps the token on which its list parser stops (it carries the trivia after the last statement) and its printer replays that token after the last statement and before the closing text; " +
			"R15.3 no printer path replays the same token field twice, and the replay method writes each element once; " +
			"R15.4 every buffer write of the replay method is reachable only with PrettyPrint true, and LeadingComments is read in ast/compiler/debug only as the argument of the replay method; " +
			"R15.5 a replay that wrote anything ends by forcing a pending line break, and the pending buffer is cleared only by the flush, by WriteNewline (which re-establishes one) and by the replay method itself; " +
			"R15.6 the trivia skipper resets the list on entry, appends one empty element per line break in whitespace and one element per `//` comment consisting of exactly the bytes it advanced over, never the empty string (the blank-line marker; a comment without text keeps one blank) — on every path behind a scanned comment (a comment ended by the end of the input included) the append is passed before the skipper goes round again or returns; every token constructor copies the list; " +
			"R15.7 a reading of the output buffer's emptiness (which suppresses the separator in front of a replayed entry) is never branched on after something was written since it was taken. " +
			"Textual equality/placement in the output is not compared.",
		notDecided: []string{"textual equality and relative placement of comments in the output", "blank-line preservation as a count", "indentation of replayed comments"},
	})
}

func runC15(c *Ctx) {
	t := c.tables()
	c.rule("R15.0", "extractors")
	if c.extractorProblems(t, "lexemes", "parser", "printer") {
		return
	}
	pes := c.allPrinterEvents()
	facts := c.builderFacts(t)
	c.ok("extractors", token.NoPos, "%d printers", len(pes))
	var names []string
	for n := range pes {
		names = append(names, n)
	}
	sort.Strings(names)

	c.rule("R15.1", "every parser-filled token field is replayed before its mapping/text; first byte preceded by the leftmost token's replay or a delegation")
	c.floor(25)
	c.rule("R15.3", "no path replays a token field twice")
	c.floor(25)
	for _, n := range names {
		ruleReplayOrder(c, n, pes[n], facts[n])
	}

	c.rule("R15.2", "statement-list nodes keep and replay the token that ends the list")
	c.floor(2)
	ruleListTerminators(c, pes, facts)

	c.rule("R15.4", "compact output has no comment text: replay writes are pretty-only; LeadingComments read only as replay argument")
	c.floor(4)
	ruleCompactNoComments(c)

	c.rule("R15.5", "a replay that wrote something ends with a pending line break; who-may-clear the pending buffer")
	c.floor(3)
	ruleCommentCannotSwallow(c)

	c.rule("R15.6", "collection: list reset at entry, one empty element per line break, one element per comment = the bytes advanced over; constructors copy the list")
	c.floor(3)
	ruleCommentCollection(c)

	c.rule("R15.7", "an emptiness test of the output buffer is consulted only while it is still true of the buffer: nothing is written between taking it and branching on it")
	c.floor(2)
	ruleFreshEmptinessTests(c)
}

// ruleFreshEmptinessTests: the writer suppresses separators (the space before a trailing comment, the line break
// between replayed comments, pending layout) while the output is still empty. Such a test must be taken afresh: a
// value taken before a loop and consulted inside it keeps saying "empty" after the first entry was written, and the
// comments that follow are glued to it.
func ruleFreshEmptinessTests(c *Ctx) {
	c.buildSSA()
	w := c.writerCfg()
	if w == nil || w.buf == nil {
		c.unres("writer fields", token.NoPos, "output buffer not found")
		return
	}
	isBufLen := func(v ssa.Value) bool {
		call, ok := v.(*ssa.Call)
		if !ok {
			return false
		}
		if cal := call.Call.StaticCallee(); cal != nil && pkgPathOf(cal) == "strings" && cal.Name() == "Len" {
			fa, ok := call.Call.Args[0].(*ssa.FieldAddr)
			return ok && fieldOfAddr(fa) == w.buf
		}
		if lc, ok := isBuiltinCall(v, "len"); ok {
			if sc, ok := lc.Call.Args[0].(*ssa.Call); ok {
				if cal := sc.Call.StaticCallee(); cal != nil && pkgPathOf(cal) == "strings" && cal.Name() == "String" {
					fa, ok := sc.Call.Args[0].(*ssa.FieldAddr)
					return ok && fieldOfAddr(fa) == w.buf
				}
			}
		}
		return false
	}
	// functions of package ast that (transitively) write the buffer
	writes := map[*ssa.Function]bool{}
	fns := c.libFunctions("ast")
	for changed := true; changed; {
		changed = false
		for _, f := range fns {
			if writes[f] {
				continue
			}
			allInstrs(f, func(_ *ssa.BasicBlock, _ int, in ssa.Instruction) {
				call, ok := in.(*ssa.Call)
				if !ok || writes[f] {
					return
				}
				if cal := call.Call.StaticCallee(); cal != nil {
					if pkgPathOf(cal) == "strings" && strings.HasPrefix(cal.Name(), "Write") && len(call.Call.Args) >= 1 {
						if fa, ok := call.Call.Args[0].(*ssa.FieldAddr); ok && fieldOfAddr(fa) == w.buf {
							writes[f], changed = true, true
						}
					}
					if writes[cal] {
						writes[f], changed = true, true
					}
				} else if call.Call.IsInvoke() && call.Call.Method.Name() == "WriteTo" {
					writes[f], changed = true, true
				}
			})
		}
	}
	mayWrite := func(in ssa.Instruction) bool {
		call, ok := in.(*ssa.Call)
		if !ok {
			return false
		}
		if call.Call.IsInvoke() {
			return call.Call.Method.Name() == "WriteTo"
		}
		cal := call.Call.StaticCallee()
		if cal == nil {
			return false
		}
		if pkgPathOf(cal) == "strings" && strings.HasPrefix(cal.Name(), "Write") && len(call.Call.Args) >= 1 {
			if fa, ok := call.Call.Args[0].(*ssa.FieldAddr); ok && fieldOfAddr(fa) == w.buf {
				return true
			}
		}
		return writes[cal]
	}
	// the emptiness reads: the buffer length itself, or a one-line predicate of the writer that returns a comparison of it
	isTest := func(v ssa.Value) bool {
		if isBufLen(v) {
			return true
		}
		call, ok := v.(*ssa.Call)
		if !ok || call.Call.IsInvoke() {
			return false
		}
		cal := call.Call.StaticCallee()
		if cal == nil || cal.Blocks == nil || len(cal.Blocks) != 1 {
			return false
		}
		ret, ok := cal.Blocks[0].Instrs[len(cal.Blocks[0].Instrs)-1].(*ssa.Return)
		if !ok || len(ret.Results) != 1 {
			return false
		}
		return dependsOn(ret.Results[0], isBufLen)
	}
	idx := func(in ssa.Instruction) int {
		for i, x := range in.Block().Instrs {
			if x == in {
				return i
			}
		}
		return -1
	}
	// reachAvoid: some path from just after `from` reaches `to` without executing `avoid` again
	reachAvoid := func(from, to, avoid ssa.Instruction) bool {
		type pos struct {
			b *ssa.BasicBlock
			i int
		}
		seen := map[*ssa.BasicBlock]bool{}
		var scan func(b *ssa.BasicBlock, start int) bool
		scan = func(b *ssa.BasicBlock, start int) bool {
			for i := start; i < len(b.Instrs); i++ {
				if b.Instrs[i] == to {
					return true
				}
				if b.Instrs[i] == avoid {
					return false
				}
			}
			for _, s := range b.Succs {
				if seen[s] {
					continue
				}
				seen[s] = true
				if scan(s, 0) {
					return true
				}
			}
			return false
		}
		return scan(from.Block(), idx(from)+1)
	}
	n := 0
	for _, f := range fns {
		nf := 0
		allInstrs(f, func(b *ssa.BasicBlock, _ int, in ssa.Instruction) {
			iff, ok := in.(*ssa.If)
			if !ok {
				return
			}
			// the emptiness reads this condition is computed from
			var reads []ssa.Instruction
			seenV := map[ssa.Value]bool{}
			var collect func(v ssa.Value)
			collect = func(v ssa.Value) {
				if v == nil || seenV[v] {
					return
				}
				seenV[v] = true
				if isTest(v) {
					reads = append(reads, v.(ssa.Instruction))
					return
				}
				if vi, ok := v.(ssa.Instruction); ok {
					for _, op := range vi.Operands(nil) {
						if *op != nil {
							collect(*op)
						}
					}
				}
			}
			collect(iff.Cond)
			if len(reads) == 0 {
				return
			}
			n++
			nf++
			key := fmt.Sprintf("%s: emptiness test #%d", fnName(f), nf)
			stale := ""
			for _, rd := range reads {
				allInstrs(f, func(_ *ssa.BasicBlock, _ int, wi ssa.Instruction) {
					if stale != "" || wi == rd || !mayWrite(wi) {
						return
					}
					if instrReachableAfter(rd, wi) && reachAvoid(wi, iff, rd) {
						stale = c.pos(wi.Pos())
					}
				})
			}
			c.check(stale == "", key, iff.Pos(), "consulted before anything is written after it was taken", "the buffer can be written ("+stale+") between taking this emptiness test and branching on it: a stale \"still empty\" suppresses the separator in front of every later entry (comments are glued together, the first statement is glued to a header comment)")
		})
	}
	if n == 0 {
		c.unres("emptiness tests", token.NoPos, "no branch on the output buffer's length found in package ast")
	}
}

// tokenNeverAfterLineBreak: every token type that enters the node through the infix table is cut by the climbing loop
// when it follows a line break, unconditionally (no mode flag): the restricted production of postfix ++/--.
func (c *Ctx) tokenNeverAfterLineBreak(node string) bool {
	t := c.tables()
	a := c.parserAnchors()
	if a == nil || len(a.problems) > 0 {
		return false
	}
	var toks []int64
	for _, r := range c.nodeRoles(t) {
		if r.node == node && r.via == "infix" {
			toks = append(toks, r.tokens...)
		}
	}
	if len(toks) == 0 {
		return false
	}
	_, cuts, complete := loopCuts(c, t, a)
	if !complete {
		return false
	}
	for _, k := range toks {
		cut := false
		for _, lc := range cuts {
			if lc.newline && lc.types[k] && len(lc.flags) == 0 && len(lc.other) == 0 {
				cut = true
			}
		}
		if !cut {
			return false
		}
	}
	return true
}

func ruleReplayOrder(c *Ctx, node string, pe *printerEvents, facts []*parseFacts) {
	if len(pe.root) == 0 {
		return
	}
	g := buildEvGraph(pe.root)
	nt := c.lookupType("ast", node)
	tfs := tokenFieldsOf(nt)
	filled := map[string]bool{}
	for _, pf := range facts {
		for f, src := range pf.fieldSrc {
			if src == "current" || src == "current@entry" {
				filled[f] = true
			}
		}
	}
	if len(facts) == 0 {
		// nodes the parser never builds through a literal we saw (Program has no token)
		for _, f := range tfs {
			filled[f] = true
		}
	}
	type verdict struct {
		missing  map[string]bool // token field written/mapped without prior replay on some path
		twice    map[string]bool
		firstBad bool
		firstWhy string
		paths    int
		early    map[string]string // token field whose comments are replayed with something else printed before its own text
	}
	v := verdict{missing: map[string]bool{}, twice: map[string]bool{}, early: map[string]string{}}
	complete := g.paths(4000, func(path []*pev) {
		v.paths++
		seen := map[string]int{}
		wroteText := false
		pendingMap := ""
		awaiting := "" // the token whose comments were replayed last and whose text has not been written yet
		for i, e := range path {
			switch e.kind {
			case evComments:
				seen[e.field]++
				if seen[e.field] > 1 {
					v.twice[e.field] = true
				}
				awaiting = e.field
			case evMap:
				// the token is used where its text is written: the next text after the mapping
				pendingMap = e.field
				if awaiting == e.field {
					awaiting = ""
				}
			case evLit, evText:
				if pendingMap != "" {
					if seen[pendingMap] == 0 {
						v.missing[pendingMap] = true
					}
					pendingMap = ""
				}
				if !wroteText {
					wroteText = true
					// first written byte: some replay must have happened, unless it is a guard parenthesis
					guard := false
					if e.kind == evLit && (e.text == "(" || e.text == ")") {
						// under a paren condition?
						flatten(pe.root, func(x *pev, under []*pev) {
							if x == e {
								for _, u := range under {
									if strings.HasPrefix(u.cond, "paren:") {
										guard = true
									}
								}
							}
						})
					}
					if guard {
						wroteText = false
						continue
					}
					if len(seen) == 0 && len(tfs) > 0 {
						v.firstBad = true
						v.firstWhy = fmt.Sprintf("%s is written before any token's comments were replayed", e.String())
					}
				}
			case evChild:
				if !wroteText {
					wroteText = true // delegation: the child replays its own leftmost token
				}
				if awaiting != "" {
					if _, dup := v.early[awaiting]; !dup {
						v.early[awaiting] = "child " + e.field
					}
				}
			}
			_ = i
		}
	})
	if !complete {
		c.curRule = "R15.1"
		c.unres(node+": paths", pe.decl.Pos(), "too many printer paths")
		return
	}
	c.curRule = "R15.1"
	for _, f := range tfs {
		key := fmt.Sprintf("%s.%s replayed before it is written", node, f)
		mapped := false
		replayed := false
		flatten(pe.root, func(e *pev, _ []*pev) {
			if e.kind == evMap && e.field == f {
				mapped = true
			}
			if e.kind == evComments && e.field == f {
				replayed = true
			}
		})
		switch {
		case v.missing[f]:
			c.bad(key, pe.decl.Pos(), "on some path the token %s is mapped/written without its leading comments having been replayed: a comment in front of that token is dropped", f)
		case !replayed && filled[f]:
			c.bad(key, pe.decl.Pos(), "the parser stores a token in %s but the printer never replays its comments: comments in front of that token are dropped", f)
		case !replayed && !mapped:
			c.info(key, pe.decl.Pos(), "token field neither filled by the parser nor printed")
		default:
			c.ok(key, pe.decl.Pos(), "replayed on every path before use")
		}
	}
	// a token's comments are replayed directly in front of that token: no child is printed between the replay and the
	// token's own text (a line break or comment that stood in front of `(` must not move in front of the callee: after
	// `return` that line break is a statement end). Exempt: a token the parser never accepts after a line break (the
	// restricted production cuts postfix ++/--), whose trivia is therefore always empty.
	for _, f := range tfs {
		why, isEarly := v.early[f]
		if !isEarly {
			continue
		}
		key := fmt.Sprintf("%s.%s replayed directly in front of its token", node, f)
		if c.tokenNeverAfterLineBreak(node) {
			c.ok(key, pe.decl.Pos(), "the replay precedes %s, but the parser never accepts this node's token after a line break (restricted production): its trivia is always empty", why)
			continue
		}
		c.bad(key, pe.decl.Pos(), "the comments of %s are replayed and then %s is printed before the token itself: a line break or comment that stood in front of the token moves in front of that child (after `return` the moved line break ends the statement; a comment changes its place)", f, why)
	}
	if len(tfs) > 0 {
		c.check(!v.firstBad, node+": first byte preceded by a replay or a delegation", pe.decl.Pos(), fmt.Sprintf("%d paths", v.paths), v.firstWhy+": a comment in front of a statement that starts with this node is emitted after part of the statement (or lost)")
	}
	c.curRule = "R15.3"
	for _, f := range tfs {
		c.check(!v.twice[f], fmt.Sprintf("%s.%s replayed at most once", node, f), pe.decl.Pos(), "no path replays it twice", "some path replays the comments of "+f+" twice: the comment is duplicated")
	}
}

func ruleListTerminators(c *Ctx, pes map[string]*printerEvents, facts map[string][]*parseFacts) {
	for _, nt := range nodeTypes(c) {
		st, ok := nt.Underlying().(*types.Struct)
		if !ok {
			continue
		}
		listField := ""
		for i := 0; i < st.NumFields(); i++ {
			if sl, ok := st.Field(i).Type().Underlying().(*types.Slice); ok && namedIs(sl.Elem(), "ast", "Statement") {
				listField = st.Field(i).Name()
			}
		}
		if listField == "" {
			continue
		}
		node := nt.Obj().Name()
		key := node + ": list terminator kept and replayed"
		// a token field filled from the current token after the list was parsed
		var term string
		for _, pf := range facts[node] {
			for _, f := range tokenFieldsOf(nt) {
				if pf.fieldSrc[f] == "current" {
					term = f
				}
			}
		}
		pe := pes[node]
		if term == "" {
			c.bad(key, pe.decl.Pos(), "the node keeps no token for the position where its statement list ends (`}` / end of input): `//` comments after the last statement are attached to that token by the lexer and are lost when the tree is printed")
			continue
		}
		// the printer replays it after the loop over the list and before the next text
		okOrder := false
		var seq []*pev
		flatten(pe.root, func(e *pev, _ []*pev) { seq = append(seq, e) })
		loopIdx, replayIdx, closeIdx := -1, -1, -1
		for i, e := range seq {
			if e.kind == evLoop && e.field == listField {
				loopIdx = i
			}
			if e.kind == evComments && e.field == term {
				replayIdx = i
			}
			if loopIdx >= 0 && replayIdx < 0 && (e.kind == evLit || e.kind == evText) && i > loopIdx {
				// text inside the loop belongs to the statements; text after it and before the replay is wrong
				inLoop := false
				flatten(pe.root, func(x *pev, under []*pev) {
					if x == e {
						for _, u := range under {
							if u.kind == evLoop {
								inLoop = true
							}
						}
					}
				})
				if !inLoop && closeIdx < 0 {
					closeIdx = i
				}
			}
		}
		okOrder = loopIdx >= 0 && replayIdx > loopIdx && (closeIdx < 0 || closeIdx > replayIdx)
		c.check(okOrder, key, pe.decl.Pos(), fmt.Sprintf("token %s is replayed after the statements and before the closing text", term), fmt.Sprintf("the terminator token %s is not replayed between the last statement and the closing text", term))
	}
}

func ruleCompactNoComments(c *Ctx) {
	c.buildSSA()
	replay := c.fn("(*ast.CodeWriter).WriteLeadingComments")
	pi := prettyOnly(c)
	if replay == nil || pi == nil {
		c.unres("replay method", token.NoPos, "WriteLeadingComments / pretty flag not found")
		return
	}
	n := 0
	allInstrs(replay, func(b *ssa.BasicBlock, _ int, in ssa.Instruction) {
		call, ok := in.(*ssa.Call)
		if !ok {
			return
		}
		cal := call.Call.StaticCallee()
		if cal == nil {
			return
		}
		writes := pkgPathOf(cal) == "strings" && strings.HasPrefix(cal.Name(), "Write")
		if !writes && pkgPathOf(cal) == modPath+"/ast" {
			switch cal.Name() {
			case "emitString", "emitRune", "WriteString", "WriteRune", "writeNewline", "writeIndent":
				writes = true
			}
		}
		if !writes {
			return
		}
		n++
		c.check(pi.poBlocks[b], fmt.Sprintf("replay method: write #%d is pretty-only", n), call.Pos(), "reachable only with PrettyPrint true", "the replay method can write with PrettyPrint false: compact output would contain comment text")
	})
	if n == 0 {
		c.unres("replay method: writes", replay.Pos(), "no buffer write found in the replay method")
	}
	// who reads LeadingComments
	lc := c.fieldByName("token", "Token", "LeadingComments")
	for _, f := range c.libFunctions("ast", "compiler", "debug", "sourcemap") {
		k := 0
		allInstrs(f, func(_ *ssa.BasicBlock, _ int, in ssa.Instruction) {
			u, ok := in.(*ssa.UnOp)
			if !ok {
				return
			}
			if _, ok := isFieldLoad(u, lc); !ok {
				return
			}
			k++
			good := true
			for _, r := range *u.Referrers() {
				switch x := r.(type) {
				case *ssa.Call:
					if x.Call.StaticCallee() != replay {
						good = false
					}
				case *ssa.DebugRef:
				default:
					good = false
				}
			}
			c.check(good, fmt.Sprintf("%s: read #%d of LeadingComments", fnName(f), k), u.Pos(), "passed to the replay method only", "comment text is read outside the replay method: it can reach the output without the PrettyPrint guard")
		})
	}
}

func ruleCommentCannotSwallow(c *Ctx) {
	c.buildSSA()
	replay := c.fn("(*ast.CodeWriter).WriteLeadingComments")
	clear := c.fn("(*ast.CodeWriter).clearPending")
	nl := c.fn("(*ast.CodeWriter).WriteNewline")
	flush := c.fn("(*ast.CodeWriter).flushPending")
	if replay == nil || nl == nil {
		c.unres("writer methods", token.NoPos, "WriteLeadingComments / WriteNewline not found")
		return
	}
	// every return of the replay method that is reachable after a write is preceded (dominated) by a WriteNewline call after the last write
	var writes []ssa.Instruction
	var nlCalls []*ssa.Call
	allInstrs(replay, func(_ *ssa.BasicBlock, _ int, in ssa.Instruction) {
		call, ok := in.(*ssa.Call)
		if !ok {
			return
		}
		cal := call.Call.StaticCallee()
		if cal == nil {
			return
		}
		if cal == nl {
			nlCalls = append(nlCalls, call)
		}
		if (pkgPathOf(cal) == "strings" && strings.HasPrefix(cal.Name(), "Write")) || cal.Name() == "emitString" || cal.Name() == "emitRune" {
			writes = append(writes, call)
		}
	})
	good := len(writes) > 0
	for _, r := range nonRecoverReturns(replay) {
		reachAfterWrite := false
		for _, w := range writes {
			if instrReachableAfter(w, r) {
				reachAfterWrite = true
			}
		}
		if !reachAfterWrite {
			continue
		}
		okRet := false
		for _, n := range nlCalls {
			after := true
			for _, w := range writes {
				if instrReachableAfter(n, w) {
					after = false // a write can still follow this newline request
				}
			}
			if after && instrDominates(n, r) {
				okRet = true
			}
		}
		if !okRet {
			good = false
		}
	}
	c.check(good, "replay method: ends with a forced line break", replay.Pos(), "every exit after a write passes WriteNewline with no write after it", "after replaying a `//` comment the method can return without forcing a line break: the code that follows is appended to the comment line and becomes part of the comment")
	// the replay tells a comment from the blank-line marker by emptiness: "//" is written exactly for the non-empty
	// entries (an entry of one character is a comment too)
	{
		// the write of "//" (alone, or as the constant prefix of a concatenation), in the replay method or in a private
		// helper of the writer it calls
		type slashSite struct {
			call *ssa.Call
			fn   *ssa.Function
		}
		var slashSites []slashSite
		var scanFn func(g *ssa.Function, depth int)
		scannedFns := map[*ssa.Function]bool{}
		scanFn = func(g *ssa.Function, depth int) {
			if g == nil || g.Blocks == nil || scannedFns[g] || depth > 2 {
				return
			}
			scannedFns[g] = true
			allInstrs(g, func(_ *ssa.BasicBlock, _ int, in ssa.Instruction) {
				call, ok := in.(*ssa.Call)
				if !ok {
					return
				}
				if len(call.Call.Args) == 2 {
					isSl := func(v ssa.Value) bool {
						k, ok := v.(*ssa.Const)
						return ok && k.Value != nil && k.Value.Kind() == constant.String && constant.StringVal(k.Value) == "//"
					}
					a1 := call.Call.Args[1]
					if isSl(a1) {
						slashSites = append(slashSites, slashSite{call, g})
					} else if bo, ok := a1.(*ssa.BinOp); ok && bo.Op == token.ADD && isSl(bo.X) {
						slashSites = append(slashSites, slashSite{call, g})
					}
				}
				if cal := call.Call.StaticCallee(); cal != nil && cal.Pkg == replay.Pkg && cal.Object() != nil && !cal.Object().Exported() && cal.Signature.Recv() != nil {
					scanFn(cal, depth+1)
				}
			})
		}
		scanFn(replay, 0)
		var slashes []*ssa.Call
		slashFn := map[*ssa.Call]*ssa.Function{}
		for _, ss := range slashSites {
			slashes = append(slashes, ss.call)
			slashFn[ss.call] = ss.fn
		}
		if len(slashes) == 0 {
			c.unres("replay method: comment opener", replay.Pos(), "no write of the constant \"//\" found in the replay method")
		}
		for i, sl := range slashes {
			key := fmt.Sprintf("replay method: \"//\" #%d is written exactly for non-empty entries", i+1)
			okc := false
			why := "no controlling test of the entry's length found"
			for _, ob := range slashFn[sl].Blocks {
				iff := blockIf(ob)
				if iff == nil {
					continue
				}
				onTrue := condEdgeDominates(ob, true, sl.Block())
				onFalse := condEdgeDominates(ob, false, sl.Block())
				if !onTrue && !onFalse {
					continue
				}
				cond, pos := stripNot(iff.Cond, true)
				cmp, ok := cond.(*ssa.BinOp)
				if !ok {
					continue
				}
				// len(e) <op> k  or  e <op> ""
				var k int64 = -1
				isLen := false
				if ln, ok := isBuiltinCall(cmp.X, "len"); ok {
					_ = ln
					if kk, ok := constInt64(cmp.Y); ok {
						k, isLen = kk, true
					}
				} else if kc, ok := cmp.Y.(*ssa.Const); ok && kc.Value != nil && kc.Value.Kind() == constant.String && constant.StringVal(kc.Value) == "" {
					k, isLen = 0, true // e <op> "" compares like len(e) <op> 0 for == and !=
					if cmp.Op != token.EQL && cmp.Op != token.NEQ {
						isLen = false
					}
				}
				if !isLen {
					continue
				}
				// the set of lengths for which the "//" is written
				writesFor := func(n int64) bool {
					var holds bool
					switch cmp.Op {
					case token.GTR:
						holds = n > k
					case token.GEQ:
						holds = n >= k
					case token.NEQ:
						holds = n != k
					case token.EQL:
						holds = n == k
					case token.LSS:
						holds = n < k
					case token.LEQ:
						holds = n <= k
					default:
						return false
					}
					if !pos {
						holds = !holds
					}
					if onTrue {
						return holds
					}
					return !holds
				}
				okc = !writesFor(0) && writesFor(1) && writesFor(2) && writesFor(100)
				why = fmt.Sprintf("the test writes \"//\" for length 0: %v, 1: %v, 2: %v", writesFor(0), writesFor(1), writesFor(2))
			}
			c.check(okc, key, sl.Pos(), "written for every length >= 1 and not for 0", why+": a comment of that length loses its \"//\" and is written into the output as code (or the blank-line marker gets one)")
		}
	}
	// WriteNewline appends '\n' to the pending buffer after clearing it
	pend := c.fieldByType("ast", "CodeWriter", func(t types.Type) bool {
		s, ok := t.Underlying().(*types.Slice)
		if !ok {
			return false
		}
		b, ok := s.Elem().Underlying().(*types.Basic)
		return ok && b.Kind() == types.Int32
	})
	appendsNL := false
	allInstrs(nl, func(_ *ssa.BasicBlock, _ int, in ssa.Instruction) {
		if st, ok := in.(*ssa.Store); ok {
			if _, ok := isFieldAddr(st.Addr, pend); ok {
				if app, ok := isBuiltinCall(st.Val, "append"); ok {
					if el, ok := sliceLitElems(app.Call.Args[1]); ok && len(el) == 1 {
						if k, ok := constInt64(el[0]); ok && k == '\n' {
							appendsNL = true
						}
					}
				}
			}
		}
	})
	if !appendsNL {
		// folded: whatever layout is pending, a line break is pending afterwards (and nothing is written)
		if w := c.writerCfg(); w != nil {
			all := true
			for _, pd := range [][]rune{nil, {' '}, {'\t'}, {'\n'}, {'\n', '\t'}, {' ', '\t'}} {
				after, em, ok, _ := c.foldLayoutMethod(nl, pd, map[*types.Var]constant.Value{w.pretty: constant.MakeBool(true)}, 'x')
				has := false
				for _, r := range after {
					if r == '\n' {
						has = true
					}
				}
				if !ok || !has || len(em) > 0 {
					all = false
				}
			}
			appendsNL = all
		}
	}
	c.check(appendsNL, "WriteNewline: makes a line break pending", nl.Pos(), "appends '\\n' to the pending buffer", "WriteNewline does not leave a line break pending")
	// who may clear the pending buffer
	for _, f := range c.libFunctions("ast", "compiler", "debug") {
		allInstrs(f, func(_ *ssa.BasicBlock, _ int, in ssa.Instruction) {
			clears := false
			if call, ok := in.(*ssa.Call); ok && clear != nil && call.Call.StaticCallee() == clear {
				clears = true
			}
			if st, ok := in.(*ssa.Store); ok && f != clear {
				if _, ok := isFieldAddr(st.Addr, pend); ok {
					if _, isApp := isBuiltinCall(st.Val, "append"); !isApp {
						clears = true
					}
				}
			}
			if !clears {
				return
			}
			okc := f == flush || f == nl || f == replay
			c.check(okc, fnName(f)+": clears the pending buffer", in.Pos(), "flush (after writing), WriteNewline (re-establishes one) or the replay method (followed by WriteNewline)", "the pending layout is discarded here: a line break owed after a `//` comment can be lost, and the next token lands on the comment line")
		})
	}
}

func ruleCommentCollection(c *Ctx) {
	lf := c.lexFacts()
	if len(lf.problems) > 0 {
		c.unres("lexer analysis", token.NoPos, "not available")
		return
	}
	sk := lf.skipper
	buf := c.fieldByTypeUsedIn("lexer", "Lexer", func(t types.Type) bool {
		s, ok := t.Underlying().(*types.Slice)
		if !ok {
			return false
		}
		b, ok := s.Elem().Underlying().(*types.Basic)
		return ok && b.Kind() == types.String
	}, "(*lexer.Lexer).readLeadingComments", "(*lexer.Lexer).NewToken")
	// reset at entry
	reset := false
	for _, in := range sk.Blocks[0].Instrs {
		if call, ok := in.(*ssa.Call); ok && lf.mayAdvance(call.Call.StaticCallee()) {
			break
		}
		if st, ok := in.(*ssa.Store); ok {
			// (an in-place truncation keeps the backing array: that no token shares it is R14.5's obligation)
			if _, ok := isFieldAddr(st.Addr, buf); ok && (isNilConst(st.Val) || truncatedToEmpty(st.Val, buf) || func() bool { el, ok := sliceLitElems(st.Val); return ok && len(el) == 0 }()) {
				reset = true
			}
		}
	}
	c.check(reset, "skipper: trivia list reset at entry", sk.Pos(), "emptied before the first advance", "the trivia list is not reset when skipping starts: comments of an earlier token are attached again to the next one")
	// only the skipper (and helpers called from nowhere else) writes the list
	for _, f := range c.libFunctions() {
		if lf.isSkipperFn(f) {
			continue
		}
		allInstrs(f, func(_ *ssa.BasicBlock, _ int, in ssa.Instruction) {
			if st, ok := in.(*ssa.Store); ok {
				if fa, ok := isFieldAddr(st.Addr, buf); ok {
					if _, isCtor := fa.X.(*ssa.Alloc); !isCtor {
						c.bad(fnName(f)+": writes the trivia list", st.Pos(), "only the trivia skipper may write the list of leading comments: a write elsewhere attaches trivia to the wrong token or drops it")
					}
				}
			}
		})
	}
	// appends
	n := 0
	for _, skf := range lf.skipperFns() {
		cxs := lf.contextsOf(skf)
		nf := 0
		allInstrs(skf, func(b *ssa.BasicBlock, _ int, in ssa.Instruction) {
			st, ok := in.(*ssa.Store)
			if !ok {
				return
			}
			if _, ok := isFieldAddr(st.Addr, buf); !ok {
				return
			}
			app, ok := isBuiltinCall(st.Val, "append")
			if !ok {
				return
			}
			n++
			nf++
			key := fmt.Sprintf("skipper: append #%d to the trivia list", nf)
			if skf != sk {
				key = fmt.Sprintf("skipper helper %s: append #%d to the trivia list", skf.Name(), nf)
			}
			el, ok := sliceLitElems(app.Call.Args[1])
			if !ok || len(el) != 1 {
				c.unres(key, st.Pos(), "appended value not recognised")
				return
			}
			if k, ok := el[0].(*ssa.Const); ok {
				// empty element: exactly when the current byte is a line break
				isNL := len(cxs) > 0
				for _, cx := range cxs {
					// state before the enclosing block's first call
					found := false
					for _, i2 := range b.Instrs {
						if s2, ok := cx.before[i2]; ok && s2.live {
							found = true
							if s2.cur != setOf('\n') {
								isNL = false
							}
							break
						}
					}
					if !found {
						// no recorded state in this block: use the block's entry state
						if s2 := cx.in[b]; s2 == nil || !s2.live || s2.cur != setOf('\n') {
							isNL = false
						}
					}
				}
				c.check(k.Value != nil && k.Value.ExactString() == `""` && isNL, key, st.Pos(), "an empty element, appended only when the current byte is '\\n'", "the blank-line marker is not appended exactly on a line break")
				return
			}
			// comment element: never the empty string — the blank-line marker is the empty string and the replay tells the
			// two apart by their length, so a comment with no text (`//`, or `//` and blanks that are trimmed) is replayed
			// as a blank line and the comment is gone
			{
				desc := "computed"
				if call, ok := el[0].(*ssa.Call); ok && call.Call.StaticCallee() != nil {
					desc = call.Call.StaticCallee().Name() + "("
					for i, a := range call.Call.Args {
						if i > 0 {
							desc += ", "
						}
						if k, ok := a.(*ssa.Const); ok && k.Value != nil {
							desc += k.Value.ExactString()
						} else {
							desc += "…"
						}
					}
					desc += ")"
				}
				nonEmpty := false
				// the text comes from a private helper of the skipper: every value the helper returns in that position
				// must itself be replaced when empty
				{
					var hc2 *ssa.Call
					idx := 0
					switch x := el[0].(type) {
					case *ssa.Call:
						hc2 = x
					case *ssa.Extract:
						hc2, _ = x.Tuple.(*ssa.Call)
						idx = x.Index
					}
					if hc2 != nil {
						if h := hc2.Call.StaticCallee(); h != nil && h != sk && lf.isSkipperFn(h) {
							all, any := true, false
							allInstrs(h, func(_ *ssa.BasicBlock, _ int, in2 ssa.Instruction) {
								if ret, ok := in2.(*ssa.Return); ok && idx < len(ret.Results) {
									any = true
									if _, ok := emptyReplaced(unwrapDeferResult(ret.Results[idx])); !ok {
										all = false
									}
								}
							})
							if all && any {
								nonEmpty = true
								desc = h.Name() + "(…), a blank when empty"
							}
						}
					}
				}
				if t, ok := emptyReplaced(el[0]); ok {
					nonEmpty = true
					if call, ok := t.(*ssa.Call); ok && call.Call.StaticCallee() != nil {
						desc = call.Call.StaticCallee().Name() + "(…), a blank when empty"
					}
				}
				if bo, ok := el[0].(*ssa.BinOp); ok && bo.Op == token.ADD {
					for _, side := range []ssa.Value{bo.X, bo.Y} {
						if k, ok := side.(*ssa.Const); ok && k.Value != nil && k.Value.Kind() == constant.String && constant.StringVal(k.Value) != "" {
							nonEmpty = true
						}
					}
				}
				// a dominating test of the element against "" / of its length against 0
				for _, ob := range skf.Blocks {
					iff := blockIf(ob)
					if iff == nil {
						continue
					}
					cmp, ok := iff.Cond.(*ssa.BinOp)
					if !ok {
						continue
					}
					isElem := func(v ssa.Value) bool {
						if v == el[0] {
							return true
						}
						if ln, ok := isBuiltinCall(v, "len"); ok && ln.Call.Args[0] == el[0] {
							return true
						}
						return false
					}
					isZero := func(v ssa.Value) bool {
						k, ok := v.(*ssa.Const)
						if !ok || k.Value == nil {
							return false
						}
						if k.Value.Kind() == constant.String {
							return constant.StringVal(k.Value) == ""
						}
						n, ok := constant.Int64Val(constant.ToInt(k.Value))
						return ok && n == 0
					}
					if !(isElem(cmp.X) && isZero(cmp.Y)) {
						continue
					}
					switch cmp.Op {
					case token.NEQ, token.GTR:
						if condEdgeDominates(ob, true, b) {
							nonEmpty = true
						}
					case token.EQL, token.LEQ:
						if condEdgeDominates(ob, false, b) {
							nonEmpty = true
						}
					}
				}
				k2 := fmt.Sprintf("skipper: comment element %s is never the blank-line marker", desc)
				if skf != sk {
					k2 = fmt.Sprintf("skipper helper %s: comment element %s is never the blank-line marker", skf.Name(), desc)
				}
				c.check(nonEmpty, k2, st.Pos(), "the element cannot be the empty string", "a comment without text yields the empty string, which is the blank-line marker: `//` on its own line is replayed as a blank line and a trailing `//` disappears (the comment is lost)")
			}
			// comment element: derived from a builder that received exactly the bytes advanced over
			okc := commentElementOK(lf, skf, el[0])
			c.check(okc, key, st.Pos(), "the comment's bytes: each written byte is the current byte and is advanced over right after", "the appended comment text is not exactly the bytes the skipper advanced over between `//` and the line end")
		})
	}
	if n < 2 {
		c.bad("skipper: appends", sk.Pos(), "expected an append for line breaks and one for comments, found %d", n)
	}
	// every scanned comment is kept: from the point where a comment's text is complete — the exit of the loop that
	// runs to the line end, or the return of the helper that produced the text — every path passes the append before
	// the skipper goes round again or returns (a comment ended by the end of the input is a comment too)
	for _, skf := range lf.skipperFns() {
		cxs := lf.contextsOf(skf)
		na := 0
		allInstrs(skf, func(ab *ssa.BasicBlock, _ int, in ssa.Instruction) {
			st, ok := in.(*ssa.Store)
			if !ok {
				return
			}
			if _, ok := isFieldAddr(st.Addr, buf); !ok {
				return
			}
			app, ok := isBuiltinCall(st.Val, "append")
			if !ok {
				return
			}
			el, ok := sliceLitElems(app.Call.Args[1])
			if !ok || len(el) != 1 {
				return
			}
			if _, isK := el[0].(*ssa.Const); isK {
				return
			}
			na++
			key := fmt.Sprintf("%s: comment append #%d is passed on every path behind the comment", skf.Name(), na)
			// origins
			type origin struct {
				blk   *ssa.BasicBlock
				after ssa.Instruction // nil: from the block's start
			}
			var origins []origin
			var hc *ssa.Call
			switch x := el[0].(type) {
			case *ssa.Call:
				hc = x
			case *ssa.Extract:
				hc, _ = x.Tuple.(*ssa.Call)
			}
			if hc != nil && hc.Call.StaticCallee() != nil && lf.isSkipperFn(hc.Call.StaticCallee()) && hc.Parent() == skf {
				origins = append(origins, origin{hc.Block(), hc})
			} else {
				// exits of a loop of this function that leave with the byte under the cursor in {'\n', 0}
				for _, h := range skf.Blocks {
					isHeader := false
					for _, p := range h.Preds {
						if h.Dominates(p) {
							isHeader = true
						}
					}
					if !isHeader {
						continue
					}
					body := naturalLoop(h)
					for _, b := range skf.Blocks {
						if !body[b] {
							continue // not in the loop
						}
						iff := blockIf(b)
						if iff == nil {
							continue
						}
						for i, succ := range b.Succs {
							if body[succ] {
								continue // stays in the loop
							}
							lineEnd := len(cxs) > 0
							for _, cx := range cxs {
								es := cx.in[b]
								if es == nil || !es.live {
									lineEnd = false
									continue
								}
								e2 := es.clone()
								for _, bi := range b.Instrs {
									lf.transfer(cx, e2, bi)
								}
								if !lf.refine(e2, cx, iff.Cond, i == 0) {
									continue // edge not taken in this context
								}
								if e2.cur.minus(setOf('\n', 0)).empty() && !e2.cur.empty() {
									continue
								}
								lineEnd = false
							}
							if lineEnd {
								origins = append(origins, origin{succ, nil})
							}
						}
					}
				}
			}
			if len(origins) == 0 {
				c.unres(key, st.Pos(), "the point where the comment's text is complete was not found (a loop left at the line end, or a helper call that yields the text)")
				return
			}
			bad := ""
			for _, o := range origins {
				seen := map[*ssa.BasicBlock]bool{}
				var walk func(b *ssa.BasicBlock, from ssa.Instruction)
				walk = func(b *ssa.BasicBlock, from ssa.Instruction) {
					if bad != "" {
						return
					}
					started := from == nil
					for _, bi := range b.Instrs {
						if !started {
							if bi == from {
								started = true
							}
							continue
						}
						if bi == ssa.Instruction(st) {
							return // the append is passed
						}
						if _, isRet := bi.(*ssa.Return); isRet {
							bad = fmt.Sprintf("a return at %s is reached", c.pos(bi.Pos()))
							return
						}
					}
					for _, succ := range b.Succs {
						if succ.Dominates(o.blk) && succ != o.blk {
							bad = "the skipper's loop goes round again"
							return
						}
						if seen[succ] {
							continue
						}
						seen[succ] = true
						walk(succ, nil)
					}
				}
				walk(o.blk, o.after)
			}
			c.check(bad == "", key, st.Pos(), fmt.Sprintf("%d origin(s); every path from there passes the append", len(origins)), "behind a scanned comment "+bad+" without the comment having been appended to the trivia list: the comment is read and thrown away (for instance a comment that ends at the end of the input instead of at a line break)")
		})
	}
}

// naturalLoop: the blocks of the natural loop with header h (h plus everything that reaches a latch without passing h).
func naturalLoop(h *ssa.BasicBlock) map[*ssa.BasicBlock]bool {
	body := map[*ssa.BasicBlock]bool{h: true}
	var work []*ssa.BasicBlock
	for _, p := range h.Preds {
		if h.Dominates(p) && !body[p] {
			body[p] = true
			work = append(work, p)
		}
	}
	for len(work) > 0 {
		b := work[len(work)-1]
		work = work[:len(work)-1]
		for _, p := range b.Preds {
			if !body[p] {
				body[p] = true
				work = append(work, p)
			}
		}
	}
	return body
}

// commentElementOK: v = [strings.TrimRight](builder.String()) where every WriteByte(builder, x) writes the current byte
// and is followed in its block by an advance.
func commentElementOK(lf *lexFacts, sk *ssa.Function, v ssa.Value) bool {
	if commentSubstringOK(lf, sk, v) {
		return true
	}
	// one of several results of a skipper helper (text, sawNewline)
	if ex, ok := v.(*ssa.Extract); ok {
		if hc, ok := ex.Tuple.(*ssa.Call); ok {
			if h := hc.Call.StaticCallee(); h != nil && h != sk && lf.isSkipperFn(h) {
				good, any := true, false
				allInstrs(h, func(_ *ssa.BasicBlock, _ int, in ssa.Instruction) {
					if ret, ok := in.(*ssa.Return); ok && ex.Index < len(ret.Results) {
						any = true
						if !commentElementOK(lf, h, unwrapDeferResult(ret.Results[ex.Index])) {
							good = false
						}
					}
				})
				return good && any
			}
		}
	}
	call, ok := v.(*ssa.Call)
	if !ok {
		return false
	}
	// the text is produced by a skipper helper: each of its results is judged inside the helper
	if h := call.Call.StaticCallee(); h != nil && h != sk && lf.isSkipperFn(h) && h.Signature.Results().Len() == 1 {
		good, any := true, false
		allInstrs(h, func(_ *ssa.BasicBlock, _ int, in ssa.Instruction) {
			if ret, ok := in.(*ssa.Return); ok && len(ret.Results) == 1 {
				any = true
				if !commentElementOK(lf, h, unwrapDeferResult(ret.Results[0])) {
					good = false
				}
			}
		})
		return good && any
	}
	if cal := call.Call.StaticCallee(); cal != nil && pkgPathOf(cal) == "strings" && strings.HasPrefix(cal.Name(), "Trim") {
		// only trailing blanks may be trimmed
		if cal.Name() != "TrimRight" && cal.Name() != "TrimSpace" && cal.Name() != "TrimSuffix" {
			return false
		}
		if commentSubstringOK(lf, sk, call.Call.Args[0]) {
			return true
		}
		// TrimPrefix(input[a:position], "//") with a read on the first slash of the opener: the opener is cut off again
		if tp, ok := call.Call.Args[0].(*ssa.Call); ok && tp.Call.StaticCallee() != nil && pkgPathOf(tp.Call.StaticCallee()) == "strings" && tp.Call.StaticCallee().Name() == "TrimPrefix" {
			if k, ok := tp.Call.Args[1].(*ssa.Const); ok && k.Value != nil && k.Value.ExactString() == `"//"` && commentSubstringFromOpener(lf, sk, tp.Call.Args[0]) {
				return true
			}
		}
		call, ok = call.Call.Args[0].(*ssa.Call)
		if !ok {
			return false
		}
	}
	cal := call.Call.StaticCallee()
	if cal == nil || pkgPathOf(cal) != "strings" || cal.Name() != "String" {
		return false
	}
	buf := call.Call.Args[0]
	good, any := true, false
	allInstrs(sk, func(b *ssa.BasicBlock, i int, in ssa.Instruction) {
		w, ok := in.(*ssa.Call)
		if !ok || w.Call.StaticCallee() == nil || pkgPathOf(w.Call.StaticCallee()) != "strings" || !strings.HasPrefix(w.Call.StaticCallee().Name(), "Write") || w.Call.Args[0] != buf {
			return
		}
		any = true
		// argument is a load of the current byte in the same block, and an advance follows before the block ends
		u, ok := w.Call.Args[1].(*ssa.UnOp)
		isCur := false
		if ok {
			if fa, ok := u.X.(*ssa.FieldAddr); ok && fieldOfAddr(fa) == lf.curFld {
				isCur = true
			}
		}
		adv := false
		for _, nx := range b.Instrs[i+1:] {
			if c2, ok := nx.(*ssa.Call); ok && c2.Call.StaticCallee() == lf.advance {
				adv = true
			}
		}
		if !isCur || !adv {
			good = false
		}
	})
	return good && any
}

// commentSubstringOK: the comment text is input[a:position] where a is an earlier read of the cursor (the index of
// the current byte) and, when the end is read, the current byte is the line end or the end of input: the text is then
// exactly the bytes advanced over in between (only the advance primitive moves the cursor, R10.9).
// commentSubstringFromOpener: like commentSubstringOK, and the start of the slice was read while the cursor stood on
// the first slash of `//` (current and look-ahead byte are both '/'), so the slice begins with the opener.
func commentSubstringFromOpener(lf *lexFacts, sk *ssa.Function, v ssa.Value) bool {
	if !commentSubstringOK(lf, sk, v) {
		return false
	}
	low := v.(*ssa.Slice).Low.(*ssa.UnOp)
	cxs := lf.contextsOf(sk)
	if len(cxs) == 0 {
		return false
	}
	slash := setOf('/')
	for _, cx := range cxs {
		st := cx.before[low]
		if st == nil || !st.live || st.cur != slash || st.peek != slash {
			return false
		}
	}
	return true
}

// emptyReplaced: v = phi[T, K] where K is a non-empty string constant taken exactly on the edge on which T was found
// empty (`if text == "" { text = " " }`). Returns T.
func emptyReplaced(v ssa.Value) (ssa.Value, bool) {
	phi, ok := v.(*ssa.Phi)
	if !ok || len(phi.Edges) != 2 {
		return nil, false
	}
	for i := 0; i < 2; i++ {
		k, isK := phi.Edges[i].(*ssa.Const)
		if !isK || k.Value == nil || k.Value.Kind() != constant.String || constant.StringVal(k.Value) == "" {
			continue
		}
		t := phi.Edges[1-i]
		bK := phi.Block().Preds[i]
		bT := phi.Block().Preds[1-i]
		// bK is entered only from the test block, on the outcome "t is empty"
		if len(bK.Preds) != 1 {
			continue
		}
		ob := bK.Preds[0]
		iff := blockIf(ob)
		if iff == nil {
			continue
		}
		cmp, ok := iff.Cond.(*ssa.BinOp)
		if !ok {
			continue
		}
		lhsIsT := cmp.X == t
		if ln, ok := isBuiltinCall(cmp.X, "len"); ok && ln.Call.Args[0] == t {
			lhsIsT = true
		}
		zero := false
		if kk, ok := cmp.Y.(*ssa.Const); ok && kk.Value != nil {
			if kk.Value.Kind() == constant.String {
				zero = constant.StringVal(kk.Value) == ""
			} else if n, ok := constant.Int64Val(constant.ToInt(kk.Value)); ok {
				zero = n == 0
			}
		}
		if !lhsIsT || !zero {
			continue
		}
		emptyOnTrue := cmp.Op == token.EQL || cmp.Op == token.LEQ
		emptyOnFalse := cmp.Op == token.NEQ || cmp.Op == token.GTR
		idx := -1
		for si, sc := range ob.Succs {
			if sc == bK {
				idx = si
			}
		}
		if (idx == 0 && emptyOnTrue) || (idx == 1 && emptyOnFalse) {
			// the other edge comes from the test block itself (no else) or from a block reached on the other outcome
			if bT == ob || (len(bT.Preds) == 1 && bT.Preds[0] == ob) {
				return t, true
			}
		}
	}
	return nil, false
}

func commentSubstringOK(lf *lexFacts, sk *ssa.Function, v ssa.Value) bool {
	// `if text == "" { text = " " }`: the text form is judged, the replacement is a constant the rule for empty
	// comments accounts for
	if t, ok := emptyReplaced(v); ok {
		return commentElementOK(lf, sk, t)
	}
	sl, ok := v.(*ssa.Slice)
	if !ok || sl.Low == nil || sl.High == nil || sl.Max != nil {
		return false
	}
	la := lexerAnchors(lf.c)
	if la.input == nil || la.pos == nil {
		return false
	}
	if _, ok := isFieldLoad(sl.X, la.input); !ok {
		return false
	}
	low, okL := sl.Low.(*ssa.UnOp)
	high, okH := sl.High.(*ssa.UnOp)
	if !okL || !okH {
		return false
	}
	if _, ok := isFieldLoad(low, la.pos); !ok {
		return false
	}
	if _, ok := isFieldLoad(high, la.pos); !ok {
		return false
	}
	if !instrDominates(low, high) || !instrDominates(high, sl) {
		return false
	}
	// (the end is the value the position had when it was read — advancing afterwards, over the line break, does not
	// change it)
	// at the end read, the current byte is the line end or the end of input
	cxs := lf.contextsOf(sk)
	if len(cxs) == 0 {
		return false
	}
	for _, cx := range cxs {
		st := cx.before[high]
		if st == nil {
			return false
		}
		if st.live && !st.cur.minus(setOf('\n', 0)).empty() {
			return false
		}
	}
	return true
}
