package main

// R12.7 — a dot access takes a NAME.
//
// ECMAScript: MemberExpression '.' IdentifierName. The parser's infix method for '.' advances over the dot and then
// parses the property with the general expression machinery; unless it looks at the token that follows the dot first,
// `console.(x)`, `x.[0]`, `a."s"`, `a.-b` are all accepted — and each of them is what a single deleted token leaves of a
// valid program (`console.log(x)` without `log`), which strict mode has to report (C12) and JavaScript does not parse
// (C02). Decided here, on the SSA form of that method: every call that parses the property (a call through one of the
// parser's interceptable function fields, or of a sub-parsing method) is dominated by one edge of a branch (i) that lies
// behind the advance over the dot, (ii) whose condition is computed from the parser's current token (read directly or
// through a side-effect-free method of the parser), and (iii) whose other edge cannot reach a return without passing
// the error constructor. What the test accepts (identifiers, reserved words, plugin token types) is NOT decided — only
// that the token behind the dot is examined and that the refusal is reported.

import (
	"fmt"
	"go/token"
	"go/types"

	"golang.org/x/tools/go/ssa"
)

func ruleNameAfterDot(c *Ctx, a *parserAnchors, t *tables) {
	dot, ok := refTypeOf(t, ".")
	if !ok {
		c.info("dot access", token.NoPos, "the lexer produces no '.' token")
		return
	}
	m := t.pt.infix[dot]
	if m == nil {
		c.info("dot access", token.NoPos, "no infix entry for '.'")
		return
	}
	f := c.Prog.FuncValue(m)
	if f == nil || len(f.Blocks) == 0 {
		c.unres("infix method of '.'", token.NoPos, "no body found for %s", m.Name())
		return
	}
	roles := c.parserRoles()
	// the advance over the dot: the first call that moves the token window
	var adv *ssa.Call
	var subs []*ssa.Call
	for _, b := range f.DomPreorder() {
		for _, in := range b.Instrs {
			call, ok := in.(*ssa.Call)
			if !ok {
				continue
			}
			cal := call.Call.StaticCallee()
			if cal != nil && cal.Object() != nil {
				if fo, ok := cal.Object().(*types.Func); ok {
					switch roles[fo] {
					case "advance":
						if adv == nil {
							adv = call
						}
						continue
					case "subparse", "expect", "listhelper":
						if adv != nil {
							subs = append(subs, call)
						}
						continue
					}
				}
			}
			if cal == nil {
				// a call through a function-typed field of the parser (the interceptable chain)
				if u, ok := call.Call.Value.(*ssa.UnOp); ok && u.Op == token.MUL {
					if fa, ok := u.X.(*ssa.FieldAddr); ok && namedIs(fa.X.Type(), "parser", "Parser") && adv != nil {
						subs = append(subs, call)
					}
				}
			}
		}
	}
	if adv == nil {
		c.unres(fnName(f)+": advance over '.'", f.Pos(), "no call that advances the token window found")
		return
	}
	if len(subs) == 0 {
		c.unres(fnName(f)+": property parse", f.Pos(), "no call that parses the property found behind the advance")
		return
	}
	readsCur := func(v ssa.Value) bool {
		for _, sub := range []string{"Type", "Literal", "AfterNewline"} {
			if tokenFieldLoad(v, a.cur, sub) {
				return true // also through a local copy of the token (`tok := p.CurrentToken`)
			}
		}
		if u, ok := v.(*ssa.UnOp); ok && u.Op == token.MUL {
			_, path := fieldPath(u.X)
			for _, fld := range path {
				if fld == a.cur {
					return true
				}
			}
		}
		if call, ok := v.(*ssa.Call); ok {
			if cal := call.Call.StaticCallee(); cal != nil && cal.Pkg == f.Pkg && a.pureReader(cal) && readsFieldDeep(cal, a.cur, 0) {
				return true
			}
		}
		return false
	}
	qualifies := func(b *ssa.BasicBlock) bool {
		iff := blockIf(b)
		if iff == nil || !dependsOn(iff.Cond, readsCur) || !adv.Block().Dominates(b) {
			return false
		}
		if adv.Block() == b {
			// the current-token reads the condition is computed from stand behind the advance
			seenAdv := false
			for _, in := range b.Instrs {
				if in == ssa.Instruction(adv) {
					seenAdv = true
				}
				if v, ok := in.(ssa.Value); ok && readsCur(v) && !seenAdv && dependsOn(iff.Cond, func(x ssa.Value) bool { return x == v }) {
					return false
				}
			}
		}
		return true
	}
	reaches := func(from, to *ssa.BasicBlock, stop func(*ssa.BasicBlock) bool) bool {
		seen := map[*ssa.BasicBlock]bool{}
		var walk func(b *ssa.BasicBlock) bool
		walk = func(b *ssa.BasicBlock) bool {
			if b == to {
				return true
			}
			if seen[b] || (stop != nil && stop(b)) {
				return false
			}
			seen[b] = true
			for _, s2 := range b.Succs {
				if walk(s2) {
					return true
				}
			}
			return false
		}
		return walk(from)
	}
	for i, sp := range subs {
		key := fmt.Sprintf("%s: property parse #%d behind a test of the token after '.'", fnName(f), i+1)
		// (1) every path from the advance to the property parse passes a branch computed from the token behind the dot
		cut := true
		if !qualifies(adv.Block()) {
			cut = !reaches(adv.Block(), sp.Block(), func(b *ssa.BasicBlock) bool { return b != adv.Block() && qualifies(b) })
			if adv.Block() == sp.Block() {
				cut = false
			}
		}
		// (2) one of those branches has an edge that never reaches the property parse and cannot return without an error
		good := ""
		for _, b := range f.Blocks {
			if !qualifies(b) {
				continue
			}
			for e := 0; e < 2; e++ {
				if reaches(b.Succs[e], sp.Block(), nil) || escapesWithoutError(a, b.Succs[e], sp.Block()) {
					continue
				}
				good = "block " + fmt.Sprint(b.Index)
				if v, ok := blockIf(b).Cond.(ssa.Instruction); ok && v.Pos().IsValid() {
					good = c.pos(v.Pos())
				}
			}
		}
		c.check(cut && good != "", key, sp.Pos(), "every path to the property parse passes a test of the token behind the dot; the refusal at "+good+" records an error",
			"the token behind '.' is handed to the expression parser without having been looked at (or the test cannot refuse with an error): `console.(x)`, `x.[0]`, `a.\"s\"` are accepted — what a deleted property name leaves of a valid program is not reported, and the output is not JavaScript")
	}
}

// readsFieldDeep: f (or a same-package function it calls, to a small depth) loads field fld.
func readsFieldDeep(f *ssa.Function, fld *types.Var, depth int) bool {
	if f == nil || depth > 3 {
		return false
	}
	found := false
	allInstrs(f, func(_ *ssa.BasicBlock, _ int, in ssa.Instruction) {
		if fa, ok := in.(*ssa.FieldAddr); ok && fieldOfAddr(fa) == fld {
			found = true
		}
		if call, ok := in.(*ssa.Call); ok {
			if cal := call.Call.StaticCallee(); cal != nil && cal.Pkg == f.Pkg && cal != f && readsFieldDeep(cal, fld, depth+1) {
				found = true
			}
		}
	})
	return found
}

// escapesWithoutError: from block `from` a return can be reached without passing a call of an error recorder (and
// without passing block `avoid`, the property parse itself).
func escapesWithoutError(a *parserAnchors, from, avoid *ssa.BasicBlock) bool {
	seen := map[*ssa.BasicBlock]bool{}
	var walk func(b *ssa.BasicBlock) bool
	walk = func(b *ssa.BasicBlock) bool {
		if seen[b] || b == avoid {
			return false
		}
		seen[b] = true
		for _, call := range callsIn(b) {
			if a.errRecorders[call.Call.StaticCallee()] {
				return false
			}
		}
		if len(b.Instrs) > 0 {
			if _, ok := b.Instrs[len(b.Instrs)-1].(*ssa.Return); ok {
				return true
			}
		}
		for _, s := range b.Succs {
			if walk(s) {
				return true
			}
		}
		return false
	}
	return walk(from)
}
