package main

import (
	"fmt"
	"go/constant"
	"go/token"
	"go/types"
	"sort"

	"golang.org/x/tools/go/ssa"
)

// The writer's "omitted semicolon" mechanism, recognised by shape (not by name):
//
//	WriteSemi:          on every path on which pretty printing is on, semicolons are off and no ';' is written,
//	                    a bool field F of the writer is set
//	closer(next byte):  if F { F = false; if P(next) { <emit ';'> } }      — P a pure one-byte predicate
//	text writers:       call closer(first byte of the text) after flushing pending layout and before emitting
//	terminate():        if F { F = false; <emit ';'> }                      — called by a printer before a keyword
//
// With it, a statement whose first lexeme would continue the previous line gets its ';' after all. R6.2 credits the
// mechanism per hazardous lexeme by folding P on that lexeme's first byte.

type semiGuard struct {
	c         *Ctx
	flag      *types.Var
	setterOK  bool
	closer    *ssa.Function
	pred      *ssa.Function
	terminate *ssa.Function
	writers   []string
	problems  []string
	notes     []string
	pos       token.Pos
}

func (c *Ctx) semiGuard() *semiGuard {
	if c.sguard != nil {
		return c.sguard
	}
	c.buildSSA()
	g := &semiGuard{c: c}
	c.sguard = g
	semiW := c.fn("(*ast.CodeWriter).WriteSemi")
	pretty := c.fieldByName("ast", "CodeWriter", "PrettyPrint")
	semis := c.fieldByName("ast", "CodeWriter", "WriteSemicolons")
	if semiW == nil || pretty == nil || semis == nil {
		return g
	}
	isWriter := func(f *ssa.Function) bool {
		return f.Signature.Recv() != nil && namedIs(f.Signature.Recv().Type(), "ast", "CodeWriter")
	}
	boolConstStore := func(in ssa.Instruction, val bool) *types.Var {
		st, ok := in.(*ssa.Store)
		if !ok {
			return nil
		}
		fa, ok := st.Addr.(*ssa.FieldAddr)
		if !ok {
			return nil
		}
		k, ok := st.Val.(*ssa.Const)
		if !ok || k.Value == nil || k.Value.Kind() != constant.Bool || constant.BoolVal(k.Value) != val {
			return nil
		}
		if _, isParam := fa.X.(*ssa.Parameter); !isParam {
			return nil
		}
		return fieldOfAddr(fa)
	}
	// the flag: a bool field the semicolon writer sets to true
	allInstrs(semiW, func(_ *ssa.BasicBlock, _ int, in ssa.Instruction) {
		if f := boolConstStore(in, true); f != nil {
			g.flag = f
			g.pos = in.Pos()
		}
	})
	if g.flag == nil {
		return g
	}
	// every pretty / no-semicolon path that writes no ';' sets the flag
	g.setterOK = true
	var walk func(b *ssa.BasicBlock, pv, sv int, wrote, set bool, depth int)
	walk = func(b *ssa.BasicBlock, pv, sv int, wrote, set bool, depth int) {
		if depth > 64 {
			g.setterOK = false
			return
		}
		for _, in := range b.Instrs {
			if call, ok := in.(*ssa.Call); ok && len(call.Call.Args) >= 2 {
				if s, ok := constText(call.Call.Args[len(call.Call.Args)-1]); ok && s == ";" {
					wrote = true
				}
			}
			if f := boolConstStore(in, true); f == g.flag {
				set = true
			}
		}
		if len(b.Succs) == 0 {
			if pv != 0 && sv != 1 && !wrote && !set {
				g.setterOK = false
				g.problems = append(g.problems, "the semicolon writer can leave ';' out without setting the omitted-semicolon flag")
			}
			if (pv == 0 || sv == 1) && set {
				g.problems = append(g.problems, "the omitted-semicolon flag is set on a path that writes ';'")
				g.setterOK = false
			}
			return
		}
		if iff := blockIf(b); iff != nil {
			cond, neg := iff.Cond, false
			if u, ok := cond.(*ssa.UnOp); ok && u.Op == token.NOT {
				cond, neg = u.X, true
			}
			for i, s := range b.Succs {
				val := 1 - i
				if neg {
					val = 1 - val
				}
				p2, s2 := pv, sv
				if _, ok := isFieldLoad(cond, pretty); ok {
					if p2 >= 0 && p2 != val {
						continue
					}
					p2 = val
				} else if _, ok := isFieldLoad(cond, semis); ok {
					if s2 >= 0 && s2 != val {
						continue
					}
					s2 = val
				}
				walk(s, p2, s2, wrote, set, depth+1)
			}
			return
		}
		for _, s := range b.Succs {
			walk(s, pv, sv, wrote, set, depth+1)
		}
	}
	walk(semiW.Blocks[0], -1, -1, false, false, 0)

	isBytePred := func(f *ssa.Function) bool {
		if f == nil || f.Signature.Recv() != nil || len(f.Params) != 1 || f.Signature.Results().Len() != 1 || !isByte(f.Params[0].Type()) {
			return false
		}
		b, ok := f.Signature.Results().At(0).Type().Underlying().(*types.Basic)
		return ok && b.Kind() == types.Bool
	}
	emitsSemiIn := func(f *ssa.Function, entry *ssa.BasicBlock) bool {
		for _, b := range f.Blocks {
			if b != entry && !entry.Dominates(b) {
				continue
			}
			for _, in := range b.Instrs {
				if call, ok := in.(*ssa.Call); ok && len(call.Call.Args) >= 2 {
					if s, ok := constText(call.Call.Args[len(call.Call.Args)-1]); ok && s == ";" {
						return true
					}
				}
			}
		}
		return false
	}
	// flagRegion: the successor taken when the flag is true, for the (single) branch on the flag in f
	flagTrueSucc := func(f *ssa.Function) *ssa.BasicBlock {
		for _, b := range f.Blocks {
			iff := blockIf(b)
			if iff == nil {
				continue
			}
			cond, neg := iff.Cond, false
			if u, ok := cond.(*ssa.UnOp); ok && u.Op == token.NOT {
				cond, neg = u.X, true
			}
			if _, ok := isFieldLoad(cond, g.flag); ok {
				if neg {
					return b.Succs[1]
				}
				return b.Succs[0]
			}
		}
		return nil
	}
	clearsIn := func(f *ssa.Function, entry *ssa.BasicBlock) bool {
		for _, in := range entry.Instrs {
			if boolConstStore(in, false) == g.flag {
				return true
			}
		}
		return false
	}
	for _, f := range c.libFunctions("ast") {
		if !isWriter(f) || f == semiW {
			continue
		}
		ts := flagTrueSucc(f)
		if ts == nil {
			continue
		}
		switch len(f.Params) {
		case 2:
			if !isByte(f.Params[1].Type()) {
				continue
			}
			var pc *ssa.Call
			allInstrs(f, func(_ *ssa.BasicBlock, _ int, in ssa.Instruction) {
				if call, ok := in.(*ssa.Call); ok && isBytePred(call.Call.StaticCallee()) && call.Call.Args[0] == ssa.Value(f.Params[1]) {
					pc = call
				}
			})
			if pc == nil {
				continue
			}
			g.closer, g.pred = f, pc.Call.StaticCallee()
			if !(pc.Block() == ts || ts.Dominates(pc.Block())) {
				g.problems = append(g.problems, "the continuation predicate is consulted outside the flag-set branch")
			}
			if !clearsIn(f, ts) {
				g.problems = append(g.problems, "the flag is not cleared as soon as it is found set (a later, unrelated token would get the semicolon)")
			}
			okEmit := false
			for _, ref := range *pc.Referrers() {
				if iff, ok := ref.(*ssa.If); ok && emitsSemiIn(f, iff.Block().Succs[0]) {
					okEmit = true
				}
			}
			if !okEmit {
				g.problems = append(g.problems, "no ';' is written on the predicate's true edge")
			}
		case 1:
			if clearsIn(f, ts) && emitsSemiIn(f, ts) {
				g.terminate = f
			}
		}
	}
	if g.closer == nil {
		return g
	}
	// the text writers consult the closer after flushing and before emitting
	pend := c.fieldByType("ast", "CodeWriter", func(t types.Type) bool {
		s, ok := t.Underlying().(*types.Slice)
		if !ok {
			return false
		}
		b, ok := s.Elem().Underlying().(*types.Basic)
		return ok && b.Kind() == types.Int32
	})
	isFlush := func(f *ssa.Function) bool {
		if f == nil || pend == nil {
			return false
		}
		found := false
		allInstrs(f, func(_ *ssa.BasicBlock, _ int, in ssa.Instruction) {
			if ia, ok := in.(*ssa.IndexAddr); ok {
				if _, ok := isFieldLoad(ia.X, pend); ok {
					found = true
				}
			}
		})
		return found
	}
	for _, f := range c.libFunctions("ast") {
		if !isWriter(f) || len(f.Params) != 2 || f == g.closer || f.Object() == nil || !f.Object().Exported() {
			continue
		}
		par := f.Params[1]
		var emit, gc, fl *ssa.Call
		allInstrs(f, func(_ *ssa.BasicBlock, _ int, in ssa.Instruction) {
			call, ok := in.(*ssa.Call)
			if !ok {
				return
			}
			cal := call.Call.StaticCallee()
			switch {
			case cal == g.closer || forwardsByteTo(cal, g.closer):
				gc = call
			case isFlush(cal):
				fl = call
			case cal != nil && cal.Pkg == f.Pkg && len(call.Call.Args) == 2 && call.Call.Args[1] == ssa.Value(par):
				emit = call
			}
		})
		if emit == nil {
			continue
		}
		name := f.Name()
		switch {
		case gc == nil:
			g.notes = append(g.notes, name+" does not consult the omitted-semicolon closer")
		case !isFirstByteOf(gc.Call.Args[1], par):
			g.notes = append(g.notes, name+" does not hand the first byte of its text to the closer")
		case fl != nil && !instrDominatesOrPrecedes(fl, gc):
			g.notes = append(g.notes, name+" consults the closer before pending layout is flushed (the ';' would land before a replayed comment's line break)")
		case !instrDominatesOrPrecedes(gc, emit):
			g.notes = append(g.notes, name+" consults the closer after emitting")
		case reachesAvoiding(f, emit.Block(), gc.Block(), func(b *ssa.BasicBlock, succIdx int) bool {
			iff := blockIf(b)
			if iff == nil {
				return false
			}
			cond, neg := iff.Cond, succIdx == 1
			if u, ok := cond.(*ssa.UnOp); ok && u.Op == token.NOT {
				cond, neg = u.X, !neg
			}
			return isEmptyOrNonASCIIEdge(cond, neg, par)
		}):
			g.notes = append(g.notes, name+" can emit its text on a path that does not consult the closer")
		default:
			g.writers = append(g.writers, name)
		}
	}
	sort.Strings(g.writers)
	return g
}

// covers: a statement whose first lexeme is y gets the omitted ';' written in front of it.
func (g *semiGuard) covers(y *lexd) bool {
	if g.coversByShape(y) {
		return true
	}
	// not in the recognised shape: fold the prologue of the writer of y with the flag set (wfold.go)
	if g == nil || g.c == nil || g.flag == nil || !g.setterOK || y.via == "" || y.first.count() == 0 || y.first.count() > 4 {
		return false
	}
	for b := 0; b < 256; b++ {
		if !y.first.has(byte(b)) {
			continue
		}
		if b >= 0x80 {
			return false
		}
		cl, ok := g.c.writerClosesStatement(y.via, g.flag, byte(b))
		if !ok || !cl {
			return false
		}
	}
	return true
}

func (g *semiGuard) coversByShape(y *lexd) bool {
	if g == nil || g.closer == nil || g.pred == nil || !g.setterOK || len(g.problems) > 0 {
		return false
	}
	consults := false
	for _, w := range g.writers {
		if w == y.via {
			consults = true
		}
	}
	if !consults || y.first.count() == 0 || y.first.count() > 4 {
		return false
	}
	for b := 0; b < 256; b++ {
		if !y.first.has(byte(b)) {
			continue
		}
		v, ok := foldFn(g.pred, []constant.Value{constant.MakeInt64(int64(b))})
		if !ok || v.Kind() != constant.Bool || !constant.BoolVal(v) {
			return false
		}
	}
	return true
}

func (g *semiGuard) describe() map[string]any {
	d := map[string]any{"found": g.closer != nil, "setter_sets_flag_on_every_omission": g.setterOK, "problems": g.problems, "writers_not_consulting": g.notes, "text_writers_that_consult_it": g.writers}
	if g.flag != nil {
		d["flag"] = g.flag.Name()
	}
	if g.closer != nil {
		d["closer"], d["predicate"] = fnName(g.closer), fnName(g.pred)
	}
	if g.terminate != nil {
		d["terminate"] = fnName(g.terminate)
	}
	return d
}

var _ = fmt.Sprintf
