package main

import (
	"fmt"
	"go/constant"
	"go/token"
	"go/types"
	"strings"

	"golang.org/x/tools/go/ssa"
)

func init() {
	register("C13", &propSpec{
		run: runC13,
		explanation: "Non-interference argument for the two parser modes, decided on every path of package parser (SSA): " +
			"R13.3 each mode flag flows, unchanged and uncrossed, from its builder setter through the options struct into exactly one Parser field (the fields are identified by that flow, not by name); " +
			"R13.1 every read of the tolerant flag is a branch condition, and on the edge taken when the flag is false an error is recorded before any return and before any token is consumed — so a run that records no error never took a branch whose outcome depended on the flag, hence strict and tolerant runs of a strict-accepted program execute the same path and build the same tree with no errors; " +
			"R13.2 every read of the smart-semicolon flag is a branch condition in the climbing loop; the only statement cuts it enables are conjoined with the peek token's after-newline flag and a peek type in {'(', '['}, and they return the left operand without consuming anything — so on programs with no '('/'[' at the start of a line the flag is never decisive. " +
			"R13.4 in the separator check and in the block parser every path that records that function's own error has read the tolerant flag as false, and with the flag read as true the separator check answers true and the block parser returns its node (the two documented acceptances). " +
			"A pass shows these necessary conditions for all paths; tree equality itself is not compared, and 'tolerant mode keeps every complete statement' is decided only at these two sites.",
		notDecided: []string{"tolerant mode keeps every complete statement beyond the two acceptance sites (positive clause)", "equality of trees as data across modes"},
	})
}

func runC13(c *Ctx) {
	a := c.parserAnchors()
	c.rule("R13.3", "option flow: With…(flag) -> builder field -> options field -> parser field, one store per hop, uncrossed")
	c.floor(2)
	for _, p := range a.problems {
		c.unres("anchors", token.NoPos, "%s", p)
	}
	if a.tolerant == nil || a.smart == nil {
		return
	}
	for _, s := range []string{"WithTolerantMode", "WithSmartSemicolon"} {
		c.ok("flow from "+s, token.NoPos, "%s", strings.Join(a.flow[s], " -> "))
	}
	c.check(a.tolerant != a.smart, "flows are distinct", token.NoPos, "the two options reach different parser fields", "both options flow into the same parser field")
	c.Tables["option_flow"] = a.flow
	// the parser fields have no other writer
	for _, fld := range []*types.Var{a.tolerant, a.smart} {
		for _, f := range c.libFunctions("parser") {
			allInstrs(f, func(_ *ssa.BasicBlock, _ int, in ssa.Instruction) {
				if st, ok := in.(*ssa.Store); ok {
					if a.writesFlag(st, fld) && f != a.ctor {
						c.bad(fmt.Sprintf("%s: store to mode field %s", fnName(f), fld.Name()), st.Pos(), "a mode flag is written outside the constructor: the mode can change during a parse")
					}
				}
			})
		}
	}
	r13_1(c, a)
	r13_2(c, a)
	r13_4(c, a)
}

// R13.4: the two documented acceptances of tolerant mode. In the separator check and in the block parser every
// path on which this function itself records an error has read the tolerant flag as false; and with the flag read
// as true the separator check answers true and the block parser returns its node. (What tolerant mode does to the
// rest of the statement is not decided.)
func r13_4(c *Ctx, a *parserAnchors) {
	c.rule("R13.4", "tolerant mode suppresses exactly the two documented errors: the missing separator and the block left open at end of input")
	c.floor(4)
	var blockFn *ssa.Function
	for _, f := range c.libFunctions("parser") {
		if len(allocsOf(f, "ast", "BlockStatement")) > 0 {
			blockFn = f
		}
	}
	sites := []struct {
		name string
		f    *ssa.Function
	}{{"separator check", a.expectSemi}, {"block parser", blockFn}}
	for _, site := range sites {
		f := site.f
		if f == nil {
			c.unres(site.name, token.NoPos, "function not found")
			continue
		}
		nerr, ntol := 0, 0
		onPath := func(facts []pathFact, blocks []*ssa.BasicBlock, last *ssa.BasicBlock, forced ssa.Value) {
			ret, ok := last.Instrs[len(last.Instrs)-1].(*ssa.Return)
			if !ok {
				return
			}
			flagTrue, flagFalse := false, false
			for _, pf := range facts {
				if pf.at.kind == atFlag && pf.at.fld == a.tolerant {
					if pf.at.neg {
						flagFalse = true
					} else {
						flagTrue = true
					}
				}
			}
			var errCall *ssa.Call
			for _, b := range blocks {
				for _, call := range callsIn(b) {
					if cal := call.Call.StaticCallee(); cal != nil && (a.errRecorders[cal] || cal == a.addErrAt) {
						errCall = call
					}
				}
			}
			if errCall != nil {
				nerr++
				c.check(flagFalse && !flagTrue, fmt.Sprintf("%s (%s): error path #%d", site.name, f.Name(), nerr), errCall.Pos(), "the error is recorded only after the tolerant flag was read as false", "this function records its error on a path that does not depend on the tolerant flag being off: tolerant mode still reports it (two statements on one line / a block left open are documented to be accepted)")
			}
			if flagTrue {
				ntol++
				key := fmt.Sprintf("%s (%s): tolerant path #%d", site.name, f.Name(), ntol)
				if len(ret.Results) != 1 {
					c.unres(key, ret.Pos(), "no single result")
					return
				}
				v := unwrapDeferResult(ret.Results[0])
				if forced != nil {
					v = forced
				}
				switch {
				case isTrueConst(v):
					c.ok(key, ret.Pos(), "answers true")
				case isFalseConst(v) || isNilConst(v):
					c.bad(key, ret.Pos(), "with the tolerant flag set the function still gives up (false / nil): the statement or block is dropped although tolerant mode is documented to keep it")
				default:
					if _, isAlloc := v.(*ssa.Alloc); isAlloc {
						c.ok(key, ret.Pos(), "returns the node it built")
					} else if b, isB := v.Type().Underlying().(*types.Basic); isB && b.Kind() == types.Bool {
						c.bad(key, ret.Pos(), "with the tolerant flag set the answer still depends on something else (%s): some statements without a separator are refused in tolerant mode", v.Name())
					} else {
						c.unres(key, ret.Pos(), "returns a computed value (%s): cannot tell that the node is kept", v.Name())
					}
				}
			}
		}
		complete := a.enumPaths(f.Blocks[0], func(facts []pathFact, blocks []*ssa.BasicBlock, last *ssa.BasicBlock) {
			// a computed bool result is split into the ways it can be true / false
			if ret, ok := last.Instrs[len(last.Instrs)-1].(*ssa.Return); ok && len(ret.Results) == 1 {
				v := unwrapDeferResult(ret.Results[0])
				if b, isB := v.Type().Underlying().(*types.Basic); isB && b.Kind() == types.Bool && !isTrueConst(v) && !isFalseConst(v) {
					if alts := a.returnAlternatives(v, facts, blocks, last); len(alts) > 0 {
						for _, ra := range alts {
							onPath(ra.facts, blocks, last, ssa.NewConst(constant.MakeBool(ra.val), v.Type()))
						}
						return
					}
				}
			}
			onPath(facts, blocks, last, nil)
		})
		if !complete {
			c.unres(site.name+": paths", f.Pos(), "too many paths")
		}
		if nerr == 0 {
			c.unres(site.name+": error path", f.Pos(), "the function records no error itself: the strict-mode diagnostic is missing or lives elsewhere")
		}
		if ntol == 0 {
			c.unres(site.name+": tolerant path", f.Pos(), "no path reads the tolerant flag as true")
		}
	}
}

// R13.1: tolerant flag only on error paths
func r13_1(c *Ctx, a *parserAnchors) {
	c.rule("R13.1", "every read of the tolerant flag is a branch condition whose flag-false edge records an error before any return or token advance")
	c.floor(2)
	for _, f := range c.libFunctions("parser") {
		n := 0
		allInstrs(f, func(b *ssa.BasicBlock, _ int, in ssa.Instruction) {
			u, ok := in.(*ssa.UnOp)
			if !ok {
				return
			}
			if _, ok := isFieldLoad(u, a.tolerant); !ok {
				return
			}
			n++
			key := fmt.Sprintf("%s: read #%d of the tolerant flag", fnName(f), n)
			// the load must be used only as the (possibly negated) condition of the If ending its block
			iff := blockIf(b)
			onlyCond := iff != nil
			if onlyCond {
				at := a.parseCond(iff.Cond)
				if at.kind != atFlag || at.fld != a.tolerant {
					onlyCond = false
				}
			}
			for _, r := range *u.Referrers() {
				switch r.(type) {
				case *ssa.If, *ssa.DebugRef:
				case *ssa.UnOp:
				default:
					onlyCond = false
				}
			}
			if !onlyCond {
				// the flag as (part of) a bool result — `return terminated || p.tolerant`: the run with the flag false
				// answers differently from the tolerant run there, so on every path that takes its answer from this read
				// with the flag false an error must have been recorded before
				if feedsOnlyResult(u) {
					bad := ""
					paths := 0
					complete := a.enumPaths(f.Blocks[0], func(facts []pathFact, blocks []*ssa.BasicBlock, last *ssa.BasicBlock) {
						ret, ok := last.Instrs[len(last.Instrs)-1].(*ssa.Return)
						if !ok || len(ret.Results) != 1 || phiOnPath(ret.Results[0], blocks) != ssa.Value(u) {
							return
						}
						// strict run: flag false, unless the path has already seen it true
						for _, pf := range facts {
							if pf.at.kind == atFlag && pf.at.fld == a.tolerant && !pf.at.neg {
								return
							}
						}
						paths++
						recorded := false
						for _, blk := range blocks {
							if blk == u.Block() {
								break
							}
							for _, call := range callsIn(blk) {
								if a.errRecorders[call.Call.StaticCallee()] {
									recorded = true
								}
							}
						}
						if !recorded {
							bad = "a path returns the flag as its answer without having recorded an error: strict and tolerant mode can differ on a program that produces no error"
						}
					})
					switch {
					case !complete:
						c.unres(key, u.Pos(), "too many paths")
					case bad != "":
						c.bad(key, u.Pos(), "%s", bad)
					default:
						c.ok(key, u.Pos(), "the flag is the function's answer only on %d path(s) that recorded an error first (or saw the flag set)", paths)
					}
					return
				}
				c.bad(key, u.Pos(), "the tolerant flag is used other than as a branch condition: it can influence the tree of an error-free program")
				return
			}
			at := a.parseCond(iff.Cond)
			// successor taken when the flag is false
			falseSucc := b.Succs[1]
			if at.neg {
				falseSucc = b.Succs[0]
			}
			trueSucc := b.Succs[0]
			if at.neg {
				trueSucc = b.Succs[1]
			}
			if why := errorBeforeExitOrJoin(a, falseSucc, trueSucc); why != "" {
				c.bad(key, u.Pos(), "with the flag false this branch %s without recording an error first: strict and tolerant mode can differ on a program that produces no error", why)
			} else {
				c.ok(key, u.Pos(), "flag-false edge records an error before any return/advance")
			}
		})
	}
}

// feedsOnlyResult: the loaded value is used only as the function's bool result (directly or through the phis of a
// short-circuit expression).
func feedsOnlyResult(u *ssa.UnOp) bool {
	seen := map[ssa.Value]bool{}
	var ok func(v ssa.Value) bool
	ok = func(v ssa.Value) bool {
		if seen[v] {
			return true
		}
		seen[v] = true
		refs := v.Referrers()
		if refs == nil {
			return false
		}
		n := 0
		for _, r := range *refs {
			switch x := r.(type) {
			case *ssa.DebugRef:
			case *ssa.Return:
				n++
			case *ssa.Phi:
				n++
				if !ok(x) {
					return false
				}
			default:
				return false
			}
		}
		return n > 0
	}
	return ok(u)
}

// errorBeforeExit explores all paths from b; returns "" if every path records an error before returning or advancing.
func errorBeforeExit(a *parserAnchors, start *ssa.BasicBlock) string {
	seen := map[*ssa.BasicBlock]bool{}
	var rec func(b *ssa.BasicBlock) string
	rec = func(b *ssa.BasicBlock) string {
		if seen[b] {
			return ""
		}
		seen[b] = true
		for _, in := range b.Instrs {
			switch x := in.(type) {
			case *ssa.Call:
				cal := x.Call.StaticCallee()
				if a.errRecorders[cal] {
					return ""
				}
				if cal == nil || isLibPath(pkgPathOf(cal)) {
					return "calls " + x.Call.Value.Name()
				}
			case *ssa.Return:
				return "returns"
			case *ssa.Store:
				if !isLocalCell(x.Addr) {
					return "writes state"
				}
			case *ssa.MapUpdate:
				return "writes state"
			}
		}
		for _, s := range b.Succs {
			if why := rec(s); why != "" {
				return why
			}
		}
		return ""
	}
	return rec(start)
}

// errorBeforeExitOrJoin decides the tolerant flag's non-interference at one branch: a strict run (flag false) that
// records no error must do exactly what the tolerant run (flag true) does. From the flag-false successor every path is
// followed, without side effects, to its first effect: an error-recording call (fine: the run is not error-free) or
// the first block that stores, calls, or returns. All error-free strict paths must reach ONE such block, and every
// path of the tolerant successor must reach that same block, equally without side effects and without merging a
// differing value there.
func errorBeforeExitOrJoin(a *parserAnchors, falseSucc, trueSucc *ssa.BasicBlock) string {
	type eff struct {
		blk *ssa.BasicBlock
		why string
	}
	firstEffects := func(start *ssa.BasicBlock) (map[*ssa.BasicBlock]string, bool) {
		out := map[*ssa.BasicBlock]string{}
		errFirst := false
		seen := map[*ssa.BasicBlock]bool{}
		var rec func(b *ssa.BasicBlock)
		rec = func(b *ssa.BasicBlock) {
			if seen[b] {
				return
			}
			seen[b] = true
			for _, in := range b.Instrs {
				switch x := in.(type) {
				case *ssa.Call:
					cal := x.Call.StaticCallee()
					if a.errRecorders[cal] {
						errFirst = true
						return
					}
					if cal != nil && (a.purePredicate(cal) || a.pureReader(cal)) {
						continue
					}
					if _, isB := x.Call.Value.(*ssa.Builtin); isB {
						continue
					}
					if cal != nil && !isLibPath(pkgPathOf(cal)) {
						continue // formatting helpers of the standard library: no parser state involved
					}
					out[b] = "calls " + x.Call.Value.Name()
					return
				case *ssa.Return:
					out[b] = "returns"
					return
				case *ssa.Store:
					if !isLocalCell(x.Addr) {
						out[b] = "writes state"
						return
					}
				case *ssa.MapUpdate:
					out[b] = "writes state"
					return
				case *ssa.Phi:
					if !allSame(x.Edges) {
						out[b] = "merges a value"
						return
					}
				}
			}
			for _, s := range b.Succs {
				rec(s)
			}
		}
		rec(start)
		return out, errFirst
	}
	fe, _ := firstEffects(falseSucc)
	if len(fe) == 0 {
		return "" // every strict path records an error first
	}
	te, tErr := firstEffects(trueSucc)
	if len(fe) > 1 {
		var w string
		for _, v := range fe {
			w = v
		}
		return "can, depending on further conditions, do different things (" + w + " …)"
	}
	var fb *ssa.BasicBlock
	var fwhy string
	for b, w := range fe {
		fb, fwhy = b, w
	}
	if tErr || len(te) != 1 || te[fb] == "" {
		return fwhy + " on a path where the tolerant run can do something else"
	}
	return ""
}

// R13.2: smart semicolons only for '(' / '[' after a line break.
//
// Decided as a non-interference property of the expression loop: its paths (conditions that are pure predicates of
// the package or membership tests in token lists are expanded) are paired — one taken with the flag set, one with the
// flag clear, otherwise compatible facts — and whenever the two end differently (one cuts the expression and returns
// the left operand, the other goes on), the facts of the pair must include "peek token follows a line break" and
// "peek type is '(' or '['". The flag may be read only in that loop and in pure predicates used as its conditions.
func r13_2(c *Ctx, a *parserAnchors) {
	c.rule("R13.2", "the smart-semicolon flag is read only by the expression loop (and pure predicates it uses as conditions); two runs that differ only in the flag end an iteration differently only when the peek token follows a line break and is '(' or '['")
	c.floor(1)
	t := c.tables()
	tc := t.tc
	allowed := map[int64]bool{tc.byName["LPAREN"]: true, tc.byName["LBRACKET"]: true}
	loop, _ := climbingLoop(c, t, a)
	if loop == nil {
		c.unres("expression loop", token.NoPos, "not found")
		return
	}
	// who may read the flag: the loop, and pure predicates all of whose call sites are in allowed readers
	allowedReader := map[*ssa.Function]bool{loop: true}
	for changed := true; changed; {
		changed = false
		for _, f := range c.libFunctions("parser") {
			if allowedReader[f] || !a.purePredicate(f) {
				continue
			}
			sites, all := 0, true
			for _, g := range c.libFunctions() {
				allInstrs(g, func(_ *ssa.BasicBlock, _ int, in ssa.Instruction) {
					if ci, ok := in.(ssa.CallInstruction); ok && ci.Common().StaticCallee() == f {
						sites++
						if !allowedReader[g] {
							all = false
						}
					}
				})
			}
			if sites > 0 && all {
				allowedReader[f] = true
				changed = true
			}
		}
	}
	// who reads the flag
	nReads := 0
	for _, f := range c.libFunctions("parser") {
		n := 0
		allInstrs(f, func(b *ssa.BasicBlock, _ int, in ssa.Instruction) {
			u, ok := in.(*ssa.UnOp)
			if !ok {
				return
			}
			if _, ok := isFieldLoad(u, a.smart); !ok {
				return
			}
			n++
			nReads++
			key := fmt.Sprintf("%s: read #%d of the smart-semicolon flag", fnName(f), n)
			if !allowedReader[f] {
				c.bad(key, u.Pos(), "the flag is read outside the expression loop and outside the pure predicates that loop uses as conditions: it can steer something other than the documented cut")
				return
			}
			okUse := true
			var walk func(v ssa.Value, depth int)
			walk = func(v ssa.Value, depth int) {
				if v.Referrers() == nil || depth > 4 {
					return
				}
				for _, r := range *v.Referrers() {
					switch x := r.(type) {
					case *ssa.If, *ssa.DebugRef, *ssa.Return:
					case *ssa.UnOp:
						walk(x, depth+1)
					case *ssa.Phi:
						walk(x, depth+1)
					default:
						okUse = false
					}
				}
			}
			walk(u, 0)
			c.check(okUse, key, u.Pos(), "used only as a branch condition (or as the result of a pure predicate)", "the flag flows into something other than a branch condition")
		})
	}
	if nReads == 0 {
		c.unres("smart-semicolon flag", loop.Pos(), "no read of the flag found")
		return
	}
	// path pairs
	type outcome struct {
		kind string // "cut" (returns the left operand), "return" (other return), "continue" (back edge), "apply"
		pos  token.Pos
	}
	type lpath struct {
		facts []pathFact
		out   outcome
		flag  int // 1 set, 0 clear, -1 not read
	}
	var paths []lpath
	complete := a.enumPathsAll(loop.Blocks[0], func(facts []pathFact, blocks []*ssa.BasicBlock, last *ssa.BasicBlock, back bool) {
		lp := lpath{facts: facts, flag: -1}
		for _, pf := range facts {
			if pf.at.kind == atFlag && pf.at.fld == a.smart {
				if pf.at.neg {
					lp.flag = 0
				} else {
					lp.flag = 1
				}
			}
		}
		consumed := false
		for _, b := range blocks {
			for _, call := range callsIn(b) {
				cal := call.Call.StaticCallee()
				if cal == nil || !(a.purePredicate(cal) || a.pureReader(cal)) {
					if cal == nil || isLibPath(pkgPathOf(cal)) {
						consumed = true
					}
				}
			}
		}
		switch {
		case back || consumed:
			lp.out = outcome{kind: "continue"}
		default:
			ret, _ := last.Instrs[len(last.Instrs)-1].(*ssa.Return)
			if ret != nil && len(ret.Results) == 1 && isLeftOperand(ret.Results[0], loop) {
				lp.out = outcome{kind: "cut", pos: ret.Pos()}
			} else {
				lp.out = outcome{kind: "return"}
				if ret != nil {
					lp.out.pos = ret.Pos()
				}
			}
		}
		paths = append(paths, lp)
	})
	if !complete {
		c.unres(fnName(loop)+": paths", loop.Pos(), "too many paths")
		return
	}
	// is this path an ordinary loop exit (level comparison failed / explicit ';')? those are the same for both flag values
	compatible := func(p, q []pathFact) bool {
		for _, x := range p {
			for _, y := range q {
				if x.at.kind != y.at.kind {
					continue
				}
				switch x.at.kind {
				case atPeekType, atCurType:
					if x.at.k == y.at.k && x.at.neg != y.at.neg {
						return false
					}
					if !x.at.neg && !y.at.neg && x.at.k != y.at.k {
						return false
					}
				case atPeekNewline:
					if x.at.neg != y.at.neg {
						return false
					}
				case atFlag:
					if x.at.fld == y.at.fld && x.at.fld != a.smart && x.at.neg != y.at.neg {
						return false
					}
				case atCmp:
					if x.at.bin == y.at.bin && x.at.neg != y.at.neg {
						return false
					}
				case atCall:
					if x.at.call == y.at.call && x.at.neg != y.at.neg {
						return false
					}
				}
			}
		}
		return true
	}
	var problems []string
	pairs := 0
	for _, p := range paths {
		if p.flag != 1 {
			continue
		}
		for _, q := range paths {
			if q.flag != 0 || !compatible(p.facts, q.facts) {
				continue
			}
			pairs++
			if p.out.kind == q.out.kind {
				continue
			}
			nl, ty := false, false
			for _, pf := range append(append([]pathFact(nil), p.facts...), q.facts...) {
				if pf.at.kind == atPeekNewline && !pf.at.neg {
					nl = true
				}
				if pf.at.kind == atPeekType && !pf.at.neg && allowed[pf.at.k] {
					ty = true
				}
			}
			var others []string
			for _, pf := range p.facts {
				if pf.at.kind == atPeekType && !pf.at.neg && !allowed[pf.at.k] {
					others = append(others, tc.name(pf.at.k))
				}
			}
			where := c.pos(p.out.pos)
			if where == "" {
				where = c.pos(q.out.pos)
			}
			switch {
			case !nl:
				problems = append(problems, fmt.Sprintf("with the flag set an iteration ends as %q, with the flag clear as %q, on a path that does not require the peek token to follow a line break (%s)", p.out.kind, q.out.kind, where))
			case !ty:
				problems = append(problems, fmt.Sprintf("with the flag set an iteration ends as %q, with the flag clear as %q, for a peek token that is not '(' or '[' (%s) (%s)", p.out.kind, q.out.kind, strings.Join(dedupSorted(others), ","), where))
			case p.out.kind != "cut":
				problems = append(problems, fmt.Sprintf("the flag-set run does not simply return the left operand (%s)", where))
			}
		}
	}
	// the documented cut happens: with the flag set, a path compatible with "peek follows a line break and is k"
	// (k = '(' or '[') must end as a cut — no further condition may keep the loop going, and nothing may be consumed
	for k := range allowed {
		want := []pathFact{{atom{kind: atPeekNewline}, nil}, {atom{kind: atPeekType, k: k}, nil}}
		for _, p := range paths {
			if p.flag != 1 || !compatible(p.facts, want) || p.out.kind == "cut" {
				continue
			}
			var conds []string
			for _, pf := range p.facts {
				switch pf.at.kind {
				case atCmp, atCall, atOpaque, atCurType, atNil:
					if pf.at.bin != nil {
						conds = append(conds, c.pos(pf.at.bin.Pos()))
					} else if pf.at.call != nil {
						conds = append(conds, c.pos(pf.at.call.Pos()))
					}
				}
			}
			problems = append(problems, fmt.Sprintf("with the flag set and %s at the start of a line, an iteration can end as %q instead of returning the left operand untouched (further conditions on that path: %s)", tc.name(k), p.out.kind, strings.Join(dedupSorted(conds), ", ")))
		}
	}
	key := fnName(loop) + ": runs that differ only in the flag"
	switch {
	case pairs == 0:
		c.unres(key, loop.Pos(), "no pair of paths with the flag set / clear found in the loop")
	case len(problems) > 0:
		c.bad(key, loop.Pos(), "%s", strings.Join(dedupSorted(problems), "; "))
	default:
		c.ok(key, loop.Pos(), "%d path pairs; they end differently only for '(' / '[' after a line break, where the flag-set run returns the left operand without consuming", pairs)
	}
}

func r13_2_old(c *Ctx, a *parserAnchors) {
	c.rule("R13.2", "every read of the smart-semicolon flag gates only cuts that require the peek token's after-newline flag and a peek type in {'(', '['}, returning the left operand without consuming")
	c.floor(1)
	tc := c.tokenConsts()
	allowed := map[int64]bool{tc.byName["LPAREN"]: true, tc.byName["LBRACKET"]: true}
	for _, f := range c.libFunctions("parser") {
		n := 0
		allInstrs(f, func(b *ssa.BasicBlock, _ int, in ssa.Instruction) {
			u, ok := in.(*ssa.UnOp)
			if !ok {
				return
			}
			if _, ok := isFieldLoad(u, a.smart); !ok {
				return
			}
			n++
			key := fmt.Sprintf("%s: read #%d of the smart-semicolon flag", fnName(f), n)
			iff := blockIf(b)
			if iff == nil {
				c.bad(key, u.Pos(), "the flag is not a branch condition")
				return
			}
			at := a.parseCond(iff.Cond)
			if at.kind != atFlag || at.fld != a.smart {
				c.bad(key, u.Pos(), "the flag is used other than as a branch condition")
				return
			}
			for _, r := range *u.Referrers() {
				switch r.(type) {
				case *ssa.If, *ssa.DebugRef, *ssa.UnOp:
				default:
					c.bad(key, u.Pos(), "the flag flows into %T", r)
					return
				}
			}
			trueIdx := 0
			if at.neg {
				trueIdx = 1
			}
			region := edgeRegion(f, b, trueIdx)
			// the flag-false edge must lead straight to code that is also reached with the flag true (no region of its own)
			if other := edgeRegion(f, b, 1-trueIdx); len(other) > 0 {
				c.bad(key, u.Pos(), "code runs only when the flag is false")
				return
			}
			var problems []string
			// a value merged after the gated region depends on the flag
			for _, blk := range f.Blocks {
				if region[blk] {
					continue
				}
				for _, ins := range blk.Instrs {
					phi, ok := ins.(*ssa.Phi)
					if !ok {
						break
					}
					for _, p := range blk.Preds {
						if (region[p] || p == b) && !allSame(phi.Edges) {
							problems = append(problems, "a value computed under the flag is merged into "+phi.Comment+" ("+c.pos(phi.Pos())+")")
							break
						}
					}
				}
			}
			for blk := range region {
				for _, ins := range blk.Instrs {
					switch x := ins.(type) {
					case *ssa.UnOp, *ssa.FieldAddr, *ssa.If, *ssa.Jump, *ssa.DebugRef, *ssa.Phi:
					case *ssa.BinOp:
						at2 := a.parseCond(x)
						if at2.kind == atPeekType {
							if !allowed[at2.k] {
								problems = append(problems, fmt.Sprintf("tests peek type %s, outside {LPAREN, LBRACKET} (%s)", tc.name(at2.k), c.pos(x.Pos())))
							}
						} else {
							problems = append(problems, "comparison other than a peek-type test ("+c.pos(x.Pos())+")")
						}
					case *ssa.Return:
						// must return the left operand: the loop's accumulated expression (a parameter or the phi that carries it)
						if len(x.Results) != 1 || !isLeftOperand(x.Results[0], f) {
							problems = append(problems, "returns something other than the left operand ("+c.pos(x.Pos())+")")
						}
						// every return in the region must be under the after-newline test and an allowed peek-type test
						nl, ty := false, false
						for _, ob := range f.Blocks {
							for i := range ob.Succs {
								eat, ok := a.edgeAtom(ob, i)
								if !ok {
									continue
								}
								if eat.kind == atPeekNewline && !eat.neg && edgeDominates(ob, ob.Succs[i], blk) {
									nl = true
								}
							}
						}
						// type test: all predecessors edges into the return block are true edges of allowed peek-type tests
						ty = len(blk.Preds) > 0
						for _, p := range blk.Preds {
							okp := false
							for i, s := range p.Succs {
								if s != blk {
									continue
								}
								if eat, ok := a.edgeAtom(p, i); ok && eat.kind == atPeekType && !eat.neg && allowed[eat.k] {
									okp = true
								}
							}
							if !okp {
								ty = false
							}
						}
						if !nl {
							problems = append(problems, "a cut is not conditional on the peek token following a line break ("+c.pos(x.Pos())+")")
						}
						if !ty {
							problems = append(problems, "a cut is reachable for peek tokens other than '(' and '[' ("+c.pos(x.Pos())+")")
						}
					default:
						problems = append(problems, fmt.Sprintf("%T under the flag (%s): only tests and a return of the left operand are allowed, nothing may be consumed", ins, c.pos(ins.Pos())))
					}
				}
			}
			if len(problems) > 0 {
				c.bad(key, u.Pos(), "%s", strings.Join(dedupSorted(problems), "; "))
			} else {
				c.ok(key, u.Pos(), "gates only the documented cut ('(' / '[' after a line break, left operand returned, nothing consumed)")
			}
		})
	}
}

func isLeftOperand(v ssa.Value, f *ssa.Function) bool {
	switch x := v.(type) {
	case *ssa.Parameter:
		return namedIs(x.Type(), "ast", "Expression")
	case *ssa.Phi:
		for _, e := range x.Edges {
			if p, ok := e.(*ssa.Parameter); ok && namedIs(p.Type(), "ast", "Expression") {
				return true
			}
		}
	}
	return false
}

func dedupSorted(s []string) []string {
	m := map[string]bool{}
	var out []string
	for _, x := range s {
		if !m[x] {
			m[x] = true
			out = append(out, x)
		}
	}
	return out
}
