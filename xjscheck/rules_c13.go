package main

import (
	"fmt"
	"go/token"
	"go/types"
	"strings"

	"golang.org/x/tools/go/ssa"
)

func init() {
	register("C13", &propSpec{
		run: runC13,
		explanation: "Non-interference argument for the two parser modes, decided on every path of package parser (SSA): " +
			"R13.3 each mode flag flows, unchanged and uncrossed, from its builder setter through the options struct into exactly one Parser field (the fields are identified by that flow, not by name); " +
			"R13.1 every read of the tolerant flag is a branch condition, and on the edge taken when the flag is false an error is recorded before any return and before any token is consumed — so a run that records no error never took a branch whose outcome depended on the flag, hence strict and tolerant runs of a strict-accepted program execute the same path and build the same tree with no errors; " +
			"R13.2 every read of the smart-semicolon flag is a branch condition in the climbing loop; the only statement cuts it enables are conjoined with the peek token's after-newline flag and a peek type in {'(', '['}, and they return the left operand without consuming anything — so on programs with no '('/'[' at the start of a line the flag is never decisive. " +
			"A pass shows these necessary conditions for all paths; tree equality itself is not compared, and the positive clause 'tolerant mode keeps every complete statement' is not decided.",
		notDecided: []string{"tolerant mode keeps every complete statement (positive clause)", "equality of trees as data across modes"},
	})
}

func runC13(c *Ctx) {
	a := c.parserAnchors()
	c.rule("R13.3", "option flow: With…(flag) -> builder field -> options field -> parser field, one store per hop, uncrossed")
	c.floor(2)
	for _, p := range a.problems {
		c.unres("anchors", token.NoPos, "%s", p)
	}
	if a.tolerant == nil || a.smart == nil {
		return
	}
	for _, s := range []string{"WithTolerantMode", "WithSmartSemicolon"} {
		c.ok("flow from "+s, token.NoPos, "%s", strings.Join(a.flow[s], " -> "))
	}
	c.check(a.tolerant != a.smart, "flows are distinct", token.NoPos, "the two options reach different parser fields", "both options flow into the same parser field")
	c.Tables["option_flow"] = a.flow
	// the parser fields have no other writer
	for _, fld := range []*types.Var{a.tolerant, a.smart} {
		for _, f := range c.libFunctions("parser") {
			allInstrs(f, func(_ *ssa.BasicBlock, _ int, in ssa.Instruction) {
				if st, ok := in.(*ssa.Store); ok {
					if _, ok := isFieldAddr(st.Addr, fld); ok && f != a.ctor {
						c.bad(fmt.Sprintf("%s: store to mode field %s", fnName(f), fld.Name()), st.Pos(), "a mode flag is written outside the constructor: the mode can change during a parse")
					}
				}
			})
		}
	}
	r13_1(c, a)
	r13_2(c, a)
}

// R13.1: tolerant flag only on error paths
func r13_1(c *Ctx, a *parserAnchors) {
	c.rule("R13.1", "every read of the tolerant flag is a branch condition whose flag-false edge records an error before any return or token advance")
	c.floor(2)
	for _, f := range c.libFunctions("parser") {
		n := 0
		allInstrs(f, func(b *ssa.BasicBlock, _ int, in ssa.Instruction) {
			u, ok := in.(*ssa.UnOp)
			if !ok {
				return
			}
			if _, ok := isFieldLoad(u, a.tolerant); !ok {
				return
			}
			n++
			key := fmt.Sprintf("%s: read #%d of the tolerant flag", fnName(f), n)
			// the load must be used only as the (possibly negated) condition of the If ending its block
			iff := blockIf(b)
			onlyCond := iff != nil
			if onlyCond {
				at := a.parseCond(iff.Cond)
				if at.kind != atFlag || at.fld != a.tolerant {
					onlyCond = false
				}
			}
			for _, r := range *u.Referrers() {
				switch r.(type) {
				case *ssa.If, *ssa.DebugRef:
				case *ssa.UnOp:
				default:
					onlyCond = false
				}
			}
			if !onlyCond {
				c.bad(key, u.Pos(), "the tolerant flag is used other than as a branch condition: it can influence the tree of an error-free program")
				return
			}
			at := a.parseCond(iff.Cond)
			// successor taken when the flag is false
			falseSucc := b.Succs[1]
			if at.neg {
				falseSucc = b.Succs[0]
			}
			if why := errorBeforeExit(a, falseSucc); why != "" {
				c.bad(key, u.Pos(), "with the flag false this branch %s without recording an error first: strict and tolerant mode can differ on a program that produces no error", why)
			} else {
				c.ok(key, u.Pos(), "flag-false edge records an error before any return/advance")
			}
		})
	}
}

// errorBeforeExit explores all paths from b; returns "" if every path records an error before returning or advancing.
func errorBeforeExit(a *parserAnchors, start *ssa.BasicBlock) string {
	seen := map[*ssa.BasicBlock]bool{}
	var rec func(b *ssa.BasicBlock) string
	rec = func(b *ssa.BasicBlock) string {
		if seen[b] {
			return ""
		}
		seen[b] = true
		for _, in := range b.Instrs {
			switch x := in.(type) {
			case *ssa.Call:
				cal := x.Call.StaticCallee()
				if a.errRecorders[cal] {
					return ""
				}
				if cal == nil || isLibPath(pkgPathOf(cal)) {
					return "calls " + x.Call.Value.Name()
				}
			case *ssa.Return:
				return "returns"
			case *ssa.Store:
				if !isLocalCell(x.Addr) {
					return "writes state"
				}
			case *ssa.MapUpdate:
				return "writes state"
			}
		}
		for _, s := range b.Succs {
			if why := rec(s); why != "" {
				return why
			}
		}
		return ""
	}
	return rec(start)
}

// R13.2: smart semicolons only for '(' / '[' after a line break
func r13_2(c *Ctx, a *parserAnchors) {
	c.rule("R13.2", "every read of the smart-semicolon flag gates only cuts that require the peek token's after-newline flag and a peek type in {'(', '['}, returning the left operand without consuming")
	c.floor(1)
	tc := c.tokenConsts()
	allowed := map[int64]bool{tc.byName["LPAREN"]: true, tc.byName["LBRACKET"]: true}
	for _, f := range c.libFunctions("parser") {
		n := 0
		allInstrs(f, func(b *ssa.BasicBlock, _ int, in ssa.Instruction) {
			u, ok := in.(*ssa.UnOp)
			if !ok {
				return
			}
			if _, ok := isFieldLoad(u, a.smart); !ok {
				return
			}
			n++
			key := fmt.Sprintf("%s: read #%d of the smart-semicolon flag", fnName(f), n)
			iff := blockIf(b)
			if iff == nil {
				c.bad(key, u.Pos(), "the flag is not a branch condition")
				return
			}
			at := a.parseCond(iff.Cond)
			if at.kind != atFlag || at.fld != a.smart {
				c.bad(key, u.Pos(), "the flag is used other than as a branch condition")
				return
			}
			for _, r := range *u.Referrers() {
				switch r.(type) {
				case *ssa.If, *ssa.DebugRef, *ssa.UnOp:
				default:
					c.bad(key, u.Pos(), "the flag flows into %T", r)
					return
				}
			}
			trueIdx := 0
			if at.neg {
				trueIdx = 1
			}
			region := edgeRegion(f, b, trueIdx)
			// the flag-false edge must lead straight to code that is also reached with the flag true (no region of its own)
			if other := edgeRegion(f, b, 1-trueIdx); len(other) > 0 {
				c.bad(key, u.Pos(), "code runs only when the flag is false")
				return
			}
			var problems []string
			// a value merged after the gated region depends on the flag
			for _, blk := range f.Blocks {
				if region[blk] {
					continue
				}
				for _, ins := range blk.Instrs {
					phi, ok := ins.(*ssa.Phi)
					if !ok {
						break
					}
					for _, p := range blk.Preds {
						if (region[p] || p == b) && !allSame(phi.Edges) {
							problems = append(problems, "a value computed under the flag is merged into "+phi.Comment+" ("+c.pos(phi.Pos())+")")
							break
						}
					}
				}
			}
			for blk := range region {
				for _, ins := range blk.Instrs {
					switch x := ins.(type) {
					case *ssa.UnOp, *ssa.FieldAddr, *ssa.If, *ssa.Jump, *ssa.DebugRef, *ssa.Phi:
					case *ssa.BinOp:
						at2 := a.parseCond(x)
						if at2.kind == atPeekType {
							if !allowed[at2.k] {
								problems = append(problems, fmt.Sprintf("tests peek type %s, outside {LPAREN, LBRACKET} (%s)", tc.name(at2.k), c.pos(x.Pos())))
							}
						} else {
							problems = append(problems, "comparison other than a peek-type test ("+c.pos(x.Pos())+")")
						}
					case *ssa.Return:
						// must return the left operand: the loop's accumulated expression (a parameter or the phi that carries it)
						if len(x.Results) != 1 || !isLeftOperand(x.Results[0], f) {
							problems = append(problems, "returns something other than the left operand ("+c.pos(x.Pos())+")")
						}
						// every return in the region must be under the after-newline test and an allowed peek-type test
						nl, ty := false, false
						for _, ob := range f.Blocks {
							for i := range ob.Succs {
								eat, ok := a.edgeAtom(ob, i)
								if !ok {
									continue
								}
								if eat.kind == atPeekNewline && !eat.neg && edgeDominates(ob, ob.Succs[i], blk) {
									nl = true
								}
							}
						}
						// type test: all predecessors edges into the return block are true edges of allowed peek-type tests
						ty = len(blk.Preds) > 0
						for _, p := range blk.Preds {
							okp := false
							for i, s := range p.Succs {
								if s != blk {
									continue
								}
								if eat, ok := a.edgeAtom(p, i); ok && eat.kind == atPeekType && !eat.neg && allowed[eat.k] {
									okp = true
								}
							}
							if !okp {
								ty = false
							}
						}
						if !nl {
							problems = append(problems, "a cut is not conditional on the peek token following a line break ("+c.pos(x.Pos())+")")
						}
						if !ty {
							problems = append(problems, "a cut is reachable for peek tokens other than '(' and '[' ("+c.pos(x.Pos())+")")
						}
					default:
						problems = append(problems, fmt.Sprintf("%T under the flag (%s): only tests and a return of the left operand are allowed, nothing may be consumed", ins, c.pos(ins.Pos())))
					}
				}
			}
			if len(problems) > 0 {
				c.bad(key, u.Pos(), "%s", strings.Join(dedupSorted(problems), "; "))
			} else {
				c.ok(key, u.Pos(), "gates only the documented cut ('(' / '[' after a line break, left operand returned, nothing consumed)")
			}
		})
	}
}

func isLeftOperand(v ssa.Value, f *ssa.Function) bool {
	switch x := v.(type) {
	case *ssa.Parameter:
		return namedIs(x.Type(), "ast", "Expression")
	case *ssa.Phi:
		for _, e := range x.Edges {
			if p, ok := e.(*ssa.Parameter); ok && namedIs(p.Type(), "ast", "Expression") {
				return true
			}
		}
	}
	return false
}

func dedupSorted(s []string) []string {
	m := map[string]bool{}
	var out []string
	for _, x := range s {
		if !m[x] {
			m[x] = true
			out = append(out, x)
		}
	}
	return out
}
