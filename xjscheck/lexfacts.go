package main

import (
	"fmt"
	"go/constant"
	"go/token"
	"go/types"
	"sort"
	"strings"

	"golang.org/x/tools/go/ssa"
)

// Byte-set abstract interpretation of the lexer's cursor (A8/A9).
// Abstract state: the set of values the current byte and the look-ahead byte may have, plus a set per byte-typed SSA
// value and whether that value is (an unmodified read of) the current/look-ahead byte since the last advance.
// Branches on comparisons with constants and on the package's byte predicates (folded over all 256 values) refine the
// sets; the advance primitive shifts look-ahead into current. Functions with byte parameters are analysed once per
// constant argument (context). Nothing is executed: this is a forward dataflow to a fixpoint over 256-bit sets.

type bset [4]uint64

func (s bset) has(b byte) bool { return s[b>>6]&(1<<(b&63)) != 0 }
func (s *bset) add(b byte)     { s[b>>6] |= 1 << (b & 63) }
func (s bset) union(o bset) bset {
	return bset{s[0] | o[0], s[1] | o[1], s[2] | o[2], s[3] | o[3]}
}
func (s bset) inter(o bset) bset {
	return bset{s[0] & o[0], s[1] & o[1], s[2] & o[2], s[3] & o[3]}
}
func (s bset) minus(o bset) bset {
	return bset{s[0] &^ o[0], s[1] &^ o[1], s[2] &^ o[2], s[3] &^ o[3]}
}
func (s bset) empty() bool     { return s[0]|s[1]|s[2]|s[3] == 0 }
func (s bset) sub(o bset) bool { return s.minus(o).empty() }
func (s bset) count() int {
	n := 0
	for i := 0; i < 256; i++ {
		if s.has(byte(i)) {
			n++
		}
	}
	return n
}
func (s bset) single() (byte, bool) {
	if s.count() != 1 {
		return 0, false
	}
	for i := 0; i < 256; i++ {
		if s.has(byte(i)) {
			return byte(i), true
		}
	}
	return 0, false
}

var allBytes = bset{^uint64(0), ^uint64(0), ^uint64(0), ^uint64(0)}

func setOf(bs ...byte) bset {
	var s bset
	for _, b := range bs {
		s.add(b)
	}
	return s
}

func (s bset) String() string {
	n := s.count()
	if n == 256 {
		return "any"
	}
	if n == 0 {
		return "none"
	}
	show := func(t bset) string {
		var parts []string
		for i := 0; i < 256; i++ {
			if !t.has(byte(i)) {
				continue
			}
			j := i
			for j+1 < 256 && t.has(byte(j+1)) {
				j++
			}
			q := func(b int) string {
				if b >= 33 && b < 127 {
					return fmt.Sprintf("%c", b)
				}
				return fmt.Sprintf("\\x%02x", b)
			}
			if j > i+1 {
				parts = append(parts, q(i)+"-"+q(j))
			} else if j == i+1 {
				parts = append(parts, q(i), q(j))
			} else {
				parts = append(parts, q(i))
			}
			i = j
		}
		return strings.Join(parts, " ")
	}
	if n > 128 {
		return "any except {" + show(allBytes.minus(s)) + "}"
	}
	return "{" + show(s) + "}"
}

type lexState struct {
	cur, peek bset
	vals      map[ssa.Value]bset
	contents  map[ssa.Value]bset // bytes a local []byte value may contain
	alias     map[ssa.Value]int  // 1 = current byte, 2 = look-ahead byte (since the last advance)
	noAdv     bool               // no advance has happened since the analysed root was entered (on every path)
	live      bool
	flagU     bset // values of the current byte for which the after-newline flag may still be unset
	flagMust  bool // the after-newline flag is set on every path
	// line breaks reported through a bool instead of the flag (a helper that returns "saw a newline"):
	trueFor map[ssa.Value]bset // bool values: the current-byte values for which the value is known to be true
	wit     map[ssa.Value]bool // bool values that are true on every path on which an unflagged line break was advanced over
	wdebt   bool               // such a line break may have been advanced over (and is witnessed by wit)
	debt    bool               // … and is witnessed by nothing: the flag is owed unconditionally
	flagMay bool               // the flag may have been set since the skipper was entered
}

func (s *lexState) clone() *lexState {
	n := &lexState{cur: s.cur, peek: s.peek, noAdv: s.noAdv, live: s.live, flagU: s.flagU, flagMust: s.flagMust, vals: make(map[ssa.Value]bset, len(s.vals)), alias: make(map[ssa.Value]int, len(s.alias))}
	for k, v := range s.vals {
		n.vals[k] = v
	}
	if len(s.contents) > 0 {
		n.contents = make(map[ssa.Value]bset, len(s.contents))
		for k, v := range s.contents {
			n.contents[k] = v
		}
	}
	for k, v := range s.alias {
		n.alias[k] = v
	}
	n.wdebt, n.debt, n.flagMay = s.wdebt, s.debt, s.flagMay
	if len(s.trueFor) > 0 {
		n.trueFor = make(map[ssa.Value]bset, len(s.trueFor))
		for k, v := range s.trueFor {
			n.trueFor[k] = v
		}
	}
	if len(s.wit) > 0 {
		n.wit = make(map[ssa.Value]bool, len(s.wit))
		for k := range s.wit {
			n.wit[k] = true
		}
	}
	return n
}

// join merges o into s; reports whether s changed.
func (s *lexState) join(o *lexState) bool {
	if !o.live {
		return false
	}
	if !s.live {
		*s = *o.clone()
		return true
	}
	ch := false
	if c := s.cur.union(o.cur); c != s.cur {
		s.cur, ch = c, true
	}
	if p := s.peek.union(o.peek); p != s.peek {
		s.peek, ch = p, true
	}
	if s.noAdv && !o.noAdv {
		s.noAdv, ch = false, true
	}
	if u := s.flagU.union(o.flagU); u != s.flagU {
		s.flagU, ch = u, true
	}
	if s.flagMust && !o.flagMust {
		s.flagMust, ch = false, true
	}
	for k, v := range o.vals {
		if old, ok := s.vals[k]; ok {
			if u := old.union(v); u != old {
				s.vals[k], ch = u, true
			}
		} else {
			s.vals[k], ch = v, true
			if a, ok := o.alias[k]; ok {
				s.alias[k] = a
			}
		}
	}
	for k, v := range o.contents {
		if s.contents == nil {
			s.contents = map[ssa.Value]bset{}
		}
		if old, ok := s.contents[k]; !ok || old.union(v) != old {
			s.contents[k], ch = old.union(v), true
		}
	}
	for k, a := range s.alias {
		if oa, ok := o.alias[k]; ok && oa != a {
			delete(s.alias, k)
			ch = true
		} else if _, defined := o.vals[k]; defined && !ok {
			delete(s.alias, k)
			ch = true
		}
	}
	// reported line breaks: what is known for a value must hold on both ways in; a way in without a pending report
	// imposes nothing on the witnesses
	for k, v := range s.trueFor {
		ov := o.trueFor[k]
		if n := v.inter(ov); n != v {
			if n.empty() {
				delete(s.trueFor, k)
			} else {
				s.trueFor[k] = n
			}
			ch = true
		}
	}
	switch {
	case !o.wdebt:
	case !s.wdebt:
		s.wdebt, ch = true, true
		s.wit = map[ssa.Value]bool{}
		for k := range o.wit {
			s.wit[k] = true
		}
	default:
		for k := range s.wit {
			if !o.wit[k] {
				delete(s.wit, k)
				ch = true
			}
		}
	}
	if o.debt && !s.debt {
		s.debt, ch = true, true
	}
	if o.flagMay && !s.flagMay {
		s.flagMay, ch = true, true
	}
	return ch
}

type lexCtxKey struct {
	fn    *ssa.Function
	param string // rendering of the byte-parameter sets
}

type lexCtx struct {
	fn         *ssa.Function
	params     map[*ssa.Parameter]bset
	fparams    map[*ssa.Parameter]*ssa.Function // function-typed parameters bound to a known byte predicate
	entry      *lexState
	exit       *lexState // union over returns
	in         map[*ssa.BasicBlock]*lexState
	before     map[ssa.Instruction]*lexState // state before calls, returns and sinks
	edgeDead   map[[2]int]bool               // infeasible edges (block index pairs)
	threaded   map[*ssa.BasicBlock]bool      // short-circuit join blocks that were bypassed by jump threading
	retVals    map[*ssa.Return]*lexState
	deferred   map[*ssa.Call]bool  // advances over a possible line break without the flag, witnessed by a bool value
	flagOver   map[*ssa.Store]bool // stores of a computed value into the flag after it may already have been set
	witIdx     int                 // result index that reports an unflagged line break on every return (-1: none)
	pendingWit map[*ssa.Call]int   // calls of a reporting helper: 1 + the index of the reporting result
}

type lexFacts struct {
	c           *Ctx
	recvType    *types.Named
	curFld      *types.Var
	advance     *ssa.Function // ReadChar
	peekFn      *ssa.Function // PeekChar
	preds       map[*ssa.Function]bset
	ctxs        map[lexCtxKey]*lexCtx
	order       []lexCtxKey
	changed     bool
	nlFlag      *types.Var // the lexer's "had a newline before" flag (copied into Token.AfterNewline)
	skipper     *ssa.Function
	skFns       []*ssa.Function
	threadDepth int
	base        *ssa.Function
	problems    []string
}

func (c *Ctx) lexFacts() *lexFacts {
	c.buildSSA()
	lf := &lexFacts{c: c, preds: map[*ssa.Function]bset{}, ctxs: map[lexCtxKey]*lexCtx{}}
	lf.recvType = c.lookupType("lexer", "Lexer")
	lf.curFld = c.fieldByName("lexer", "Lexer", "CurrentChar")
	lf.advance = c.fn("(*lexer.Lexer).ReadChar")
	lf.peekFn = c.fn("(*lexer.Lexer).PeekChar")
	lf.skipper = triviaSkipper(c)
	if lf.curFld == nil || lf.advance == nil || lf.peekFn == nil || lf.skipper == nil {
		lf.problems = append(lf.problems, "Lexer.CurrentChar, ReadChar, PeekChar or the trivia skipper not found")
		return lf
	}
	for _, f := range c.libFunctions("lexer") {
		allInstrs(f, func(_ *ssa.BasicBlock, _ int, in ssa.Instruction) {
			if st, ok := in.(*ssa.Store); ok {
				if fa, ok := st.Addr.(*ssa.FieldAddr); ok && namedIs(fa.X.Type(), "token", "Token") && fieldOfAddr(fa).Name() == "AfterNewline" {
					if u, ok := st.Val.(*ssa.UnOp); ok {
						if sfa, ok := u.X.(*ssa.FieldAddr); ok && namedIs(sfa.X.Type(), "lexer", "Lexer") {
							lf.nlFlag = fieldOfAddr(sfa)
						}
					}
				}
			}
		})
	}
	lexFld := c.fieldByType("lexer", "Lexer", func(ty types.Type) bool { return isFuncReturning(ty, 1, "token", "Token") })
	if bf, _ := c.initialFieldFunc("lexer", "Lexer", func(v *types.Var) bool { return v == lexFld }); bf != nil {
		lf.base = c.Prog.FuncValue(bf)
	}
	if lf.base == nil {
		lf.problems = append(lf.problems, "base token function not found")
		return lf
	}
	// byte predicates: func(byte) bool of package lexer, folded over all 256 values
	for _, f := range c.libFunctions("lexer") {
		if f.Signature.Recv() != nil || len(f.Params) != 1 || f.Signature.Results().Len() != 1 {
			continue
		}
		pb, ok1 := f.Params[0].Type().Underlying().(*types.Basic)
		rb, ok2 := f.Signature.Results().At(0).Type().Underlying().(*types.Basic)
		if !ok1 || !ok2 || pb.Kind() != types.Uint8 || rb.Kind() != types.Bool {
			continue
		}
		var s bset
		okAll := true
		for b := 0; b < 256; b++ {
			v, ok := foldFn(f, []constant.Value{constant.MakeInt64(int64(b))})
			if !ok {
				okAll = false
				break
			}
			if constant.BoolVal(v) {
				s.add(byte(b))
			}
		}
		if okAll {
			lf.preds[f] = s
		}
	}
	// roots: the skipper with unknown bytes; the base token function with the skipper's exit state
	sk := lf.context(lf.skipper, nil)
	sk.entry.join(&lexState{cur: allBytes, peek: allBytes, flagU: allBytes, noAdv: true, live: true, vals: map[ssa.Value]bset{}, alias: map[ssa.Value]int{}})
	for round := 0; round < 50; round++ {
		lf.changed = false
		for i := 0; i < len(lf.order); i++ {
			lf.analyse(lf.ctxs[lf.order[i]])
		}
		if sk.exit != nil && sk.exit.live {
			b := lf.context(lf.base, nil)
			st := &lexState{cur: sk.exit.cur, peek: sk.exit.peek, noAdv: true, live: true, vals: map[ssa.Value]bset{}, alias: map[ssa.Value]int{}}
			if b.entry.join(st) {
				lf.changed = true
			}
		}
		if !lf.changed {
			break
		}
	}
	return lf
}

func (lf *lexFacts) context(f *ssa.Function, params map[*ssa.Parameter]bset, fps ...map[*ssa.Parameter]*ssa.Function) *lexCtx {
	var parts []string
	var fparams map[*ssa.Parameter]*ssa.Function
	if len(fps) > 0 {
		fparams = fps[0]
	}
	for _, p := range f.Params {
		if s, ok := params[p]; ok {
			parts = append(parts, p.Name()+"="+s.String())
		}
		if g, ok := fparams[p]; ok {
			parts = append(parts, p.Name()+"="+g.Name())
		}
	}
	key := lexCtxKey{f, strings.Join(parts, ",")}
	if cx, ok := lf.ctxs[key]; ok {
		return cx
	}
	cx := &lexCtx{fn: f, params: params, fparams: fparams, entry: &lexState{vals: map[ssa.Value]bset{}, alias: map[ssa.Value]int{}}}
	lf.ctxs[key] = cx
	lf.order = append(lf.order, key)
	lf.changed = true
	return cx
}

func (lf *lexFacts) contextsOf(f *ssa.Function) []*lexCtx {
	var out []*lexCtx
	for _, k := range lf.order {
		if k.fn == f {
			out = append(out, lf.ctxs[k])
		}
	}
	return out
}

func (cx *lexCtx) label() string {
	var parts []string
	for _, p := range cx.fn.Params {
		if s, ok := cx.params[p]; ok {
			parts = append(parts, p.Name()+"="+s.String())
		}
		if g, ok := cx.fparams[p]; ok {
			parts = append(parts, p.Name()+"="+g.Name())
		}
	}
	if len(parts) == 0 {
		return fnName(cx.fn)
	}
	return fnName(cx.fn) + "[" + strings.Join(parts, ",") + "]"
}

func isByte(t types.Type) bool {
	b, ok := t.Underlying().(*types.Basic)
	return ok && (b.Kind() == types.Uint8 || b.Kind() == types.Byte)
}

func (lf *lexFacts) isRecv(v ssa.Value, f *ssa.Function) bool {
	if len(f.Params) == 0 {
		return false
	}
	return namedIs(v.Type(), "lexer", "Lexer")
}

// valSet: the set of byte value v in state s.
func (lf *lexFacts) valSet(s *lexState, cx *lexCtx, v ssa.Value) bset {
	switch x := v.(type) {
	case *ssa.Const:
		if k, ok := constInt64(x); ok && k >= 0 && k < 256 {
			return setOf(byte(k))
		}
		return allBytes
	case *ssa.Parameter:
		if ps, ok := cx.params[x]; ok {
			return ps
		}
		return allBytes
	case *ssa.Convert:
		if isByte(x.X.Type()) {
			return lf.valSet(s, cx, x.X)
		}
		return allBytes
	case *ssa.ChangeType:
		return lf.valSet(s, cx, x.X)
	}
	if vs, ok := s.vals[v]; ok {
		return vs
	}
	return allBytes
}

func (lf *lexFacts) restrict(s *lexState, v ssa.Value, allowed bset) {
	v = unwrap(v)
	if _, isConst := v.(*ssa.Const); isConst {
		return
	}
	old, ok := s.vals[v]
	if !ok {
		old = allBytes
	}
	s.vals[v] = old.inter(allowed)
	switch s.alias[v] {
	case 1:
		s.cur = s.cur.inter(allowed)
		for k, a := range s.alias {
			if a == 1 {
				s.vals[k] = s.vals[k].inter(allowed)
			}
		}
	case 2:
		s.peek = s.peek.inter(allowed)
		for k, a := range s.alias {
			if a == 2 {
				s.vals[k] = s.vals[k].inter(allowed)
			}
		}
	}
}

func cmpSet(op token.Token, c byte, flipped bool) bset {
	var s bset
	for b := 0; b < 256; b++ {
		x, y := byte(b), c
		if flipped {
			x, y = c, byte(b)
		}
		ok := false
		switch op {
		case token.EQL:
			ok = x == y
		case token.NEQ:
			ok = x != y
		case token.LSS:
			ok = x < y
		case token.LEQ:
			ok = x <= y
		case token.GTR:
			ok = x > y
		case token.GEQ:
			ok = x >= y
		}
		if ok {
			s.add(byte(b))
		}
	}
	return s
}

// refine applies condition cond with the given polarity to s; returns false if the edge is infeasible.
func (lf *lexFacts) refine(s *lexState, cx *lexCtx, cond ssa.Value, pol bool) bool {
	if !pol && s.wdebt && s.wit[cond] {
		s.wdebt, s.wit = false, nil
	}
	switch x := cond.(type) {
	case *ssa.UnOp:
		if x.Op == token.NOT {
			return lf.refine(s, cx, x.X, !pol)
		}
	case *ssa.BinOp:
		switch x.Op {
		case token.EQL, token.NEQ, token.LSS, token.LEQ, token.GTR, token.GEQ:
			if !isByte(x.X.Type()) {
				return true
			}
			sx, sy := lf.valSet(s, cx, x.X), lf.valSet(s, cx, x.Y)
			if cy, ok := sy.single(); ok {
				al := cmpSet(x.Op, cy, false)
				if !pol {
					al = allBytes.minus(al)
				}
				lf.restrict(s, x.X, al)
			} else if cxv, ok := sx.single(); ok {
				al := cmpSet(x.Op, cxv, true)
				if !pol {
					al = allBytes.minus(al)
				}
				lf.restrict(s, x.Y, al)
			} else if (x.Op == token.EQL && pol) || (x.Op == token.NEQ && !pol) {
				lf.restrict(s, x.X, sy)
				lf.restrict(s, x.Y, sx)
			}
		}
	case *ssa.Call:
		cal := x.Call.StaticCallee()
		if cal == nil {
			if par, ok := x.Call.Value.(*ssa.Parameter); ok {
				cal = cx.fparams[par]
			}
		}
		if cal != nil {
			if ps, ok := lf.preds[cal]; ok && len(x.Call.Args) == 1 {
				al := ps
				if !pol {
					al = allBytes.minus(ps)
				}
				lf.restrict(s, x.Call.Args[0], al)
			}
		}
	}
	s.flagU = s.flagU.inter(s.cur)
	if s.cur.empty() || s.peek.empty() {
		return false
	}
	for _, v := range s.vals {
		if v.empty() {
			return false
		}
	}
	return true
}

func (lf *lexFacts) analyse(cx *lexCtx) {
	f := cx.fn
	if !cx.entry.live {
		return
	}
	cx.in = map[*ssa.BasicBlock]*lexState{}
	cx.before = map[ssa.Instruction]*lexState{}
	cx.edgeDead = map[[2]int]bool{}
	cx.threaded = map[*ssa.BasicBlock]bool{}
	cx.retVals = map[*ssa.Return]*lexState{}
	cx.deferred = map[*ssa.Call]bool{}
	cx.flagOver = map[*ssa.Store]bool{}
	cx.witIdx = -1
	cx.pendingWit = map[*ssa.Call]int{}
	exit := &lexState{vals: map[ssa.Value]bset{}, alias: map[ssa.Value]int{}}
	cx.in[f.Blocks[0]] = cx.entry.clone()
	work := []*ssa.BasicBlock{f.Blocks[0]}
	inWork := map[*ssa.BasicBlock]bool{f.Blocks[0]: true}
	for _, b := range f.Blocks {
		for i := range b.Succs {
			cx.edgeDead[[2]int{b.Index, i}] = true
		}
	}
	steps := 0
	for len(work) > 0 && steps < 100000 {
		steps++
		b := work[0]
		work = work[1:]
		inWork[b] = false
		s := cx.in[b].clone()
		for _, in := range b.Instrs {
			lf.transfer(cx, s, in)
		}
		last := b.Instrs[len(b.Instrs)-1]
		switch x := last.(type) {
		case *ssa.Return:
			cx.retVals[x] = s.clone()
			exit.join(s)
		case *ssa.If:
			for i, succ := range b.Succs {
				es := s.clone()
				if !lf.refine(es, cx, x.Cond, i == 0) {
					continue
				}
				cx.edgeDead[[2]int{b.Index, i}] = false
				lf.flow(cx, es, b, succ, &work, inWork)
			}
		default:
			for i, succ := range b.Succs {
				cx.edgeDead[[2]int{b.Index, i}] = false
				lf.flow(cx, s.clone(), b, succ, &work, inWork)
			}
		}
	}
	if cx.exit == nil {
		cx.exit = &lexState{vals: map[ssa.Value]bset{}, alias: map[ssa.Value]int{}}
	}
	// which result reports an unflagged line break: on every return that may owe one, that result is a witness
	if f.Signature.Results().Len() > 0 {
		for i := 0; i < f.Signature.Results().Len(); i++ {
			if b, ok := f.Signature.Results().At(i).Type().Underlying().(*types.Basic); !ok || b.Kind() != types.Bool {
				continue
			}
			good, any := true, false
			for r, rs := range cx.retVals {
				if !rs.wdebt {
					continue
				}
				any = true
				v := r.Results[i]
				if !isTrueConst(v) && !rs.wit[v] {
					good = false
				}
			}
			if good && any {
				cx.witIdx = i
				break
			}
		}
	}
	// exit states carry the cursor sets and the flag facts
	ex := &lexState{cur: exit.cur, peek: exit.peek, noAdv: exit.noAdv, live: exit.live, flagU: exit.flagU, flagMust: exit.flagMust, debt: exit.debt, wdebt: exit.wdebt, flagMay: exit.flagMay, vals: map[ssa.Value]bset{}, alias: map[ssa.Value]int{}}
	if cx.exit.join(ex) {
		lf.changed = true
	}
}

func (lf *lexFacts) flow(cx *lexCtx, es *lexState, from, to *ssa.BasicBlock, work *[]*ssa.BasicBlock, inWork map[*ssa.BasicBlock]bool) {
	// jump threading through the join block of a short-circuit condition (`a && b`, `a || b` lowered to a bool phi
	// that is branched on at once): the edge coming in decides, or further refines, where control goes next — joining
	// the byte sets of both ways in would lose what the left operand established
	if len(to.Instrs) >= 2 {
		if iff, ok := to.Instrs[len(to.Instrs)-1].(*ssa.If); ok {
			if phi, ok := iff.Cond.(*ssa.Phi); ok && phi.Block() == to {
				onlyPhis := true
				for _, in := range to.Instrs[:len(to.Instrs)-1] {
					if _, isPhi := in.(*ssa.Phi); !isPhi {
						if _, isDbg := in.(*ssa.DebugRef); !isDbg {
							onlyPhis = false
						}
					}
				}
				edge := -1
				for i, p := range to.Preds {
					if p == from {
						edge = i
					}
				}
				if onlyPhis && edge >= 0 && lf.threadDepth < 4 {
					v := phi.Edges[edge]
					cx.threaded[to] = true
					lf.threadDepth++
					defer func() { lf.threadDepth-- }()
					for i, succ := range to.Succs {
						ns := es.clone()
						if k, ok := v.(*ssa.Const); ok && k.Value != nil && k.Value.Kind() == constant.Bool {
							if constant.BoolVal(k.Value) != (i == 0) {
								continue
							}
						} else if !lf.refine(ns, cx, v, i == 0) {
							continue
						}
						cx.edgeDead[[2]int{to.Index, i}] = false
						lf.flow(cx, ns, to, succ, work, inWork)
					}
					return
				}
			}
		}
	}
	// phis of the successor
	for _, in := range to.Instrs {
		phi, ok := in.(*ssa.Phi)
		if !ok {
			break
		}
		if bt, isB := phi.Type().Underlying().(*types.Basic); isB && bt.Kind() == types.Bool {
			for i, p := range to.Preds {
				if p != from {
					continue
				}
				ev := phi.Edges[i]
				var tf bset
				switch {
				case isTrueConst(ev):
					tf = allBytes
				case isFalseConst(ev):
				default:
					tf = es.trueFor[ev]
				}
				// for values the current byte cannot have on this way in, the claim holds vacuously
				tf = tf.union(allBytes.minus(es.cur))
				if es.trueFor == nil {
					es.trueFor = map[ssa.Value]bset{}
				}
				es.trueFor[phi] = tf
				if es.wdebt {
					if es.wit == nil {
						es.wit = map[ssa.Value]bool{}
					}
					if isTrueConst(ev) || es.wit[ev] {
						es.wit[phi] = true
					} else {
						delete(es.wit, phi)
					}
				}
			}
			continue
		}
		if !isByte(phi.Type()) {
			continue
		}
		for i, p := range to.Preds {
			if p == from {
				es.vals[phi] = lf.valSet(es, cx, phi.Edges[i])
				if a, ok := es.alias[unwrap(phi.Edges[i])]; ok {
					es.alias[phi] = a
				} else {
					delete(es.alias, phi)
				}
			}
		}
	}
	dst, ok := cx.in[to]
	if !ok {
		dst = &lexState{vals: map[ssa.Value]bset{}, alias: map[ssa.Value]int{}}
		cx.in[to] = dst
	}
	if dst.join(es) && !inWork[to] {
		*work = append(*work, to)
		inWork[to] = true
	}
}

func (lf *lexFacts) transfer(cx *lexCtx, s *lexState, in ssa.Instruction) {
	switch x := in.(type) {
	case *ssa.BinOp:
		// cur == c / cur != c as a bool value: the current-byte values for which it is true
		if (x.Op == token.EQL || x.Op == token.NEQ) && isByte(x.X.Type()) {
			xv, yv := x.X, x.Y
			if _, isK := xv.(*ssa.Const); isK {
				xv, yv = yv, xv
			}
			if k, ok := constInt64(unwrap(yv)); ok && k >= 0 && k < 256 && s.alias[unwrap(xv)] == 1 {
				tf := setOf(byte(k))
				if x.Op == token.NEQ {
					tf = allBytes.minus(tf)
				}
				if s.trueFor == nil {
					s.trueFor = map[ssa.Value]bset{}
				}
				s.trueFor[x] = tf
			}
		}
	case *ssa.Extract:
		// the reporting result of a helper that advanced over a line break without setting the flag
		if call, ok := x.Tuple.(*ssa.Call); ok && cx.pendingWit[call] == x.Index+1 {
			if s.wdebt && s.wit != nil && s.wit[call] {
				s.wit[x] = true
			}
		}
	case *ssa.UnOp:
		if x.Op == token.MUL {
			if fa, ok := x.X.(*ssa.FieldAddr); ok && fieldOfAddr(fa) == lf.curFld {
				s.vals[x] = s.cur
				s.alias[x] = 1
			}
		}
	case *ssa.Call:
		cx.before[x] = s.clone()
		if b, ok := x.Call.Value.(*ssa.Builtin); ok && b.Name() == "append" && isByteSlice(x.Type()) {
			u := lf.contentSet(s, x.Call.Args[0])
			if el, ok := sliceLitElems(x.Call.Args[1]); ok {
				for _, e := range el {
					u = u.union(lf.valSet(s, cx, e))
				}
			} else {
				u = u.union(lf.contentSet(s, x.Call.Args[1]))
			}
			s.setContent(x, u)
			return
		}
		cal := x.Call.StaticCallee()
		switch {
		case cal == lf.peekFn:
			s.vals[x] = s.peek
			s.alias[x] = 2
		case cal == lf.advance:
			if lf.nlFlag != nil && s.cur.has('\n') && s.flagU.has('\n') {
				// a line break may be advanced over with the flag unset: which bool values are true whenever it is one?
				ws := map[ssa.Value]bool{}
				for v, tf := range s.trueFor {
					if tf.has('\n') {
						ws[v] = true
					}
				}
				if s.wdebt {
					for k := range ws {
						if !s.wit[k] {
							delete(ws, k)
						}
					}
				}
				if len(ws) == 0 {
					s.debt = true
					if cx.deferred != nil {
						cx.deferred[x] = false
					}
				} else {
					s.wdebt, s.wit = true, ws
					if cx.deferred != nil {
						cx.deferred[x] = true
					}
				}
			}
			// what was known per value of the old current byte holds afterwards only if it held for all of them
			for v, tf := range s.trueFor {
				if s.cur.sub(tf) {
					s.trueFor[v] = allBytes
				} else {
					delete(s.trueFor, v)
				}
			}
			lf.advanceState(s)
		case cal != nil && cal.Pkg == cx.fn.Pkg && cal.Signature.Recv() != nil && namedIs(cal.Signature.Recv().Type(), "lexer", "Lexer"):
			// another method of the lexer: analyse it in the context of this call
			params := map[*ssa.Parameter]bset{}
			for i, p := range cal.Params {
				if i == 0 {
					continue
				}
				if isByte(p.Type()) {
					params[p] = lf.valSet(s, cx, x.Call.Args[i])
				}
			}
			// one context per constant byte argument; otherwise a merged context
			for p, ps := range params {
				if _, single := ps.single(); !single {
					delete(params, p)
				}
			}
			// a function-typed parameter handed a known byte predicate: one context per predicate
			var fparams map[*ssa.Parameter]*ssa.Function
			for i, p := range cal.Params {
				if i == 0 || i >= len(x.Call.Args) {
					continue
				}
				if g, ok := x.Call.Args[i].(*ssa.Function); ok {
					if _, isPred := lf.preds[g]; isPred {
						if fparams == nil {
							fparams = map[*ssa.Parameter]*ssa.Function{}
						}
						fparams[p] = g
					}
				}
			}
			callee := lf.context(cal, params, fparams)
			entry := &lexState{cur: s.cur, peek: s.peek, noAdv: s.noAdv, flagU: s.flagU, flagMust: s.flagMust, flagMay: s.flagMay, live: true, vals: map[ssa.Value]bset{}, alias: map[ssa.Value]int{}}
			if callee.entry.join(entry) {
				lf.changed = true
			}
			if callee.exit != nil && callee.exit.live {
				s.cur, s.peek = callee.exit.cur, callee.exit.peek
				s.noAdv = s.noAdv && callee.exit.noAdv
				s.flagU, s.flagMust = callee.exit.flagU, callee.exit.flagMust
				s.flagMay = s.flagMay || callee.exit.flagMay
				if callee.exit.debt {
					s.debt = true
				}
				if callee.exit.wdebt {
					// the callee may have advanced over a line break without the flag: it must report it in a result
					if callee.witIdx < 0 || s.wdebt {
						s.debt = true
					} else {
						s.wdebt, s.wit = true, map[ssa.Value]bool{x: true}
						if cx.pendingWit != nil {
							cx.pendingWit[x] = callee.witIdx + 1
						}
					}
				}
				for k := range s.trueFor {
					delete(s.trueFor, k)
				}
			} else if lf.mayAdvance(cal) {
				// not analysed yet: nothing flows past this call in this round
				s.live = false
			}
			if lf.mayAdvance(cal) {
				for k := range s.alias {
					delete(s.alias, k)
				}
			}
		}
	case *ssa.Return:
		cx.before[x] = s.clone()
	case *ssa.Phi:
		// byte slices carried by phis: union of the contents
		if isByteSlice(x.Type()) {
			var u bset
			for _, e := range x.Edges {
				u = u.union(lf.contentSet(s, e))
			}
			s.setContent(x, u)
		}
	case *ssa.Store:
		if fa, ok := x.Addr.(*ssa.FieldAddr); ok && lf.nlFlag != nil && fieldOfAddr(fa) == lf.nlFlag {
			cx.before[x] = s.clone()
			if isTrueConst(x.Val) {
				s.flagU, s.flagMust = bset{}, true
				s.debt, s.wdebt, s.wit, s.flagMay = false, false, nil, true
			} else {
				s.flagU, s.flagMust = s.cur, false
				if isFalseConst(x.Val) && s.flagMay && cx.flagOver != nil {
					cx.flagOver[x] = true // cleared although it may have been set in this gap
				}
				if !isFalseConst(x.Val) {
					// a computed value: it settles a pending report when it is one of its witnesses (the flag is then true
					// whenever the line break happened) — but it may also clear a flag that was already set
					if cx.flagOver != nil {
						cx.flagOver[x] = s.flagMay
					}
					if s.wit[x.Val] {
						s.wdebt, s.wit = false, nil
					}
					s.flagMay = true
				}
			}
		}
	}
	if u, ok := in.(*ssa.UnOp); ok && u.Op == token.MUL {
		if fa, ok := u.X.(*ssa.FieldAddr); ok && namedIs(fa.X.Type(), "lexer", "Lexer") {
			cx.before[u] = s.clone()
		}
		// element of a local byte slice
		if ia, ok := u.X.(*ssa.IndexAddr); ok && isByteSlice(ia.X.Type()) {
			s.vals[u] = lf.contentSet(s, ia.X)
		}
	}
}

func (s *lexState) setContent(v ssa.Value, u bset) {
	if s.contents == nil {
		s.contents = map[ssa.Value]bset{}
	}
	s.contents[v] = u
}

func isByteSlice(t types.Type) bool {
	sl, ok := t.Underlying().(*types.Slice)
	return ok && isByte(sl.Elem())
}

// contentSet: the bytes a local []byte value may contain (built by append from tracked bytes); unknown = any.
func (lf *lexFacts) contentSet(s *lexState, v ssa.Value) bset {
	if k, ok := v.(*ssa.Const); ok && k.IsNil() {
		return bset{}
	}
	if cs, ok := s.contents[v]; ok {
		return cs
	}
	if _, ok := v.(*ssa.Phi); ok {
		return bset{} // not yet computed on this path (loop-carried): grows by the fixpoint
	}
	if _, ok := isBuiltinCall(v, "append"); ok {
		return bset{} // defined on a path not taken yet: grows by the fixpoint
	}
	return allBytes
}

func (lf *lexFacts) advanceState(s *lexState) {
	s.cur = s.peek
	s.peek = allBytes
	s.noAdv = false
	if s.flagMust {
		s.flagU = bset{}
	} else {
		s.flagU = s.cur
	}
	for k, a := range s.alias {
		switch a {
		case 2:
			s.alias[k] = 1
		case 1:
			delete(s.alias, k)
		}
	}
}

// mayAdvance: f (transitively, inside the package) calls the advance primitive.
func (lf *lexFacts) mayAdvance(f *ssa.Function) bool {
	seen := map[*ssa.Function]bool{}
	var rec func(g *ssa.Function) bool
	rec = func(g *ssa.Function) bool {
		if g == lf.advance {
			return true
		}
		if g == nil || seen[g] || g.Blocks == nil {
			return false
		}
		seen[g] = true
		hit := false
		allInstrs(g, func(_ *ssa.BasicBlock, _ int, in ssa.Instruction) {
			if call, ok := in.(ssa.CallInstruction); ok {
				if cal := call.Common().StaticCallee(); cal != nil && (cal == lf.advance || (cal.Pkg == f.Pkg && rec(cal))) {
					hit = true
				}
			}
		})
		return hit
	}
	return rec(f)
}

func (lf *lexFacts) dump() map[string]any {
	out := map[string]any{}
	var preds []string
	for f, s := range lf.preds {
		preds = append(preds, fmt.Sprintf("%s = %s", f.Name(), s))
	}
	sort.Strings(preds)
	out["byte_predicates"] = preds
	var cxs []string
	for _, k := range lf.order {
		cx := lf.ctxs[k]
		if cx.exit != nil && cx.exit.live {
			cxs = append(cxs, fmt.Sprintf("%s: entry cur=%s peek=%s; exit cur=%s peek=%s", cx.label(), cx.entry.cur, cx.entry.peek, cx.exit.cur, cx.exit.peek))
		}
	}
	out["contexts"] = cxs
	return out
}
