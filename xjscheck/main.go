// xjscheck decides structural necessary conditions of the xjs properties C01..C16 by static analysis of
// /repo's current working tree (typed syntax, go/cfg, go/ssa, VTA call graph). It never runs xjs code.
package main

import (
	"flag"
	"fmt"
	"os"
	"path/filepath"
	"runtime/debug"
	"sort"
	"strconv"
	"time"
)

type propSpec struct {
	run         func(c *Ctx)
	explanation string
	notDecided  []string
}

var props = map[string]*propSpec{}

func register(id string, s *propSpec) { props[id] = s }

func main() {
	prop := flag.String("property", "", "property id (C01..C16)")
	tier := flag.String("tier", "quick", "quick|thorough")
	repo := flag.String("repo", "/repo", "repository working tree to analyse")
	verif := flag.String("verif", "", "verif directory (default: parent of the binary's directory)")
	list := flag.Bool("list", false, "list implemented properties")
	noSelf := flag.Bool("no-selftest", false, "thorough tier without checker self-validation (used by the self-validation itself)")
	onlyVariants := flag.Bool("variants", false, "development: run only the self-validation variants of -property and print the kill matrix")
	flag.Parse()
	if *list {
		var ids []string
		for id := range props {
			ids = append(ids, id)
		}
		sort.Strings(ids)
		for _, id := range ids {
			fmt.Println(id)
		}
		return
	}
	if *verif == "" {
		exe, _ := os.Executable()
		*verif = filepath.Dir(filepath.Dir(exe))
	}
	if t := os.Getenv("VERIF_TIER"); t != "" && *tier == "" {
		*tier = t
	}
	seed := 0
	if s := os.Getenv("VERIF_SEED"); s != "" {
		seed, _ = strconv.Atoi(s)
	}
	if *onlyVariants {
		sv := selfValidate(*prop, *repo, *verif)
		for _, o := range sv.Summary["kill_matrix"].([]variantOutcome) {
			fmt.Printf("%-14s %-44s expect=%-40s %s\n", o.Outcome, o.Name, o.Expect, o.Reported)
		}
		if len(sv.Failures) > 0 {
			os.Exit(1)
		}
		return
	}
	spec := props[*prop]
	if spec == nil {
		fmt.Fprintf(os.Stderr, "unknown or unimplemented property %q\n", *prop)
		os.Exit(2)
	}
	os.Exit(runProperty(*prop, spec, *tier, *repo, *verif, seed, *noSelf))
}

func runProperty(id string, spec *propSpec, tier, repo, verif string, seed int, noSelf bool) (code int) {
	start := time.Now()
	repPath := filepath.Join(verif, "reports", fmt.Sprintf("%s.%s.json", id, tier))
	fail := func(format string, args ...any) int {
		// analyser failure: fail closed, with a report and an evidence file saying so
		msg := fmt.Sprintf(format, args...)
		os.MkdirAll(filepath.Dir(repPath), 0o755)
		os.WriteFile(repPath, []byte(fmt.Sprintf("{\"property\":%q,\"analyser_failure\":%q}\n", id, msg)), 0o644)
		ev := fmt.Sprintf("{\"property_id\":%q,\"tier\":%q,\"seed\":%d,\"level\":\"other\",\"coverage\":{\"explanation\":%q,\"obligations\":0,\"discharged\":0},\"wall_s\":%f,\"violations\":1}\n",
			id, tier, seed, "analyser failure, nothing decided: "+msg, time.Since(start).Seconds())
		os.MkdirAll(filepath.Join(verif, "evidence"), 0o755)
		os.WriteFile(filepath.Join(verif, "evidence", id+".json"), []byte(ev), 0o644)
		fmt.Println("ANALYSER FAILURE:", msg)
		fmt.Printf("VIOLATION property=%s replay=%s\n", id, repPath)
		return 1
	}
	defer func() {
		if r := recover(); r != nil {
			code = fail("panic in analyser: %v\n%s", r, debug.Stack())
		}
	}()
	kf, err := loadKnown(filepath.Join(verif, "known_findings.json"))
	if err != nil {
		return fail("known findings file: %v", err)
	}
	c, err := load(repo, "")
	if err != nil {
		return fail("%v", err)
	}
	c.Property, c.Tier = id, tier
	c.NotCov = spec.notDecided
	spec.run(c)

	extra := map[string]any{}
	if tier == "thorough" {
		// (i) the same rules under the tagged build configurations: no tagged non-test file may change a verdict
		for _, tags := range []string{"integration", "e2e", "verif"} {
			c2, err := load(repo, tags)
			if err != nil {
				return fail("build tags %q: %v", tags, err)
			}
			c2.Property, c2.Tier = id, tier
			spec.run(c2)
			n := 0
			for _, o := range c2.Obl {
				o.Construct = "[tags=" + tags + "] " + o.Construct
				if o.Status == Violated || o.Status == Unresolved {
					// keep only what differs from the default configuration
					dup := false
					for _, o1 := range c.Obl {
						if "[tags="+tags+"] "+o1.Construct == o.Construct && o1.Rule == o.Rule && o1.Status == o.Status {
							dup = true
						}
					}
					if !dup {
						c.Obl = append(c.Obl, o)
					}
				}
				n++
			}
			extra["tagged_config_"+tags] = map[string]any{"obligations": n, "files": countFiles(c2)}
		}
		// (ii) checker self-validation
		if !noSelf {
			sv := selfValidate(id, repo, verif)
			extra["self_validation"] = sv.Summary
			for _, f := range sv.Failures {
				c.curRule = "SELF"
				c.unres(f.Name, 0, "%s", f.Why)
			}
		}
	}
	return c.finish(kf, verif, start, seed, spec.explanation, extra)
}

func countFiles(c *Ctx) int {
	n := 0
	for _, p := range libPkgs {
		n += len(c.Pkgs[p].Syntax)
	}
	return n
}
