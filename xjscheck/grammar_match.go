package main

import (
	"fmt"
	"go/constant"
	"go/token"
	"sort"
	"strings"
)

// A2 — printer side and the comparison.
//
// For every successful path of a parse method, the abstract node that path builds (which fields are filled, how many
// list elements, which flag constants) selects exactly one path through the node's printer (E5 event tree). The
// printer's output on that path, projected to terminals / token texts / children, must be the parser path's own
// consumption sequence: same tokens, same order, every fixed terminal tested on input.

type pItem struct {
	kind  string // "lit" | "tok" | "child" | "semi"
	text  string // lit
	ev    int    // tok: parser event index whose text is written
	field string // child field / text field
	pos   token.Pos
}

type printRun struct {
	items  []pItem
	nilDer []string // children printed without a nil guard that the parse path left unset
	issues []string
}

// runPrinter walks printer tree `root` for the abstract node of parser path gp.
func runPrinter(root []*pev, gp *gPath) *printRun {
	pr := &printRun{}
	type loopCtx struct {
		field string
		i     int
	}
	var loops []loopCtx
	// resolve "Field[].Sub" against the loop stack
	fieldVal := func(path string) (gVal, bool) {
		// direct field
		if v, ok := gp.fields[path]; ok {
			return v, true
		}
		// loop element paths: <list>[] or <list>[].<member>
		for _, lc := range loops {
			pref := lc.field + "[]"
			if path == pref || strings.HasPrefix(path, pref+".") {
				lv, ok := gp.fields[lc.field]
				if !ok || lv.kind != vList || lc.i >= len(gp.lists[lv.idx].elems) {
					return gVal{}, false
				}
				el := gp.lists[lv.idx].elems[lc.i]
				if path == pref {
					return el, true
				}
				if el.kind == vStruct {
					mv, ok := gp.structs[el.idx][strings.TrimPrefix(path, pref+".")]
					return mv, ok
				}
				return gVal{}, false
			}
		}
		return gVal{}, false
	}
	tokEvent := func(tokField string) int {
		for i, e := range gp.events {
			for _, f := range e.tokFields {
				if f == tokField {
					return i
				}
			}
		}
		return -1
	}
	stop := false
	var walk func(evs []*pev)
	walk = func(evs []*pev) {
		for _, e := range evs {
			if stop {
				return
			}
			switch e.kind {
			case evComments, evMap, evLayout, evTerm:
			case evLit:
				pr.items = append(pr.items, pItem{kind: "lit", text: e.text, pos: e.pos})
			case evSemi:
				pr.items = append(pr.items, pItem{kind: "semi", pos: e.pos})
			case evText:
				// <tok>.Literal, or a string field of the node
				if strings.HasSuffix(e.field, ".Literal") {
					if i := tokEvent(strings.TrimSuffix(e.field, ".Literal")); i >= 0 {
						pr.items = append(pr.items, pItem{kind: "tok", ev: i, field: e.field, pos: e.pos})
						continue
					}
					pr.issues = append(pr.issues, fmt.Sprintf("the printer writes %s but the parse path stores no token there", e.field))
					continue
				}
				v, ok := fieldVal(e.field)
				switch {
				case ok && v.kind == vLit:
					pr.items = append(pr.items, pItem{kind: "tok", ev: v.idx, field: e.field, pos: e.pos})
				case ok && v.kind == vConst && v.k.Kind() == constant.String:
					pr.items = append(pr.items, pItem{kind: "lit", text: constant.StringVal(v.k), pos: e.pos})
				case !ok:
					pr.items = append(pr.items, pItem{kind: "lit", text: "", pos: e.pos}) // unset string field prints nothing
				default:
					pr.issues = append(pr.issues, fmt.Sprintf("the printer writes field %s, which the parse path fills with neither the token's literal nor a constant", e.field))
				}
			case evChild:
				v, ok := fieldVal(e.field)
				if !ok || v.kind == vNil {
					pr.nilDer = append(pr.nilDer, e.field)
					pr.items = append(pr.items, pItem{kind: "child", field: e.field + "(unset)", pos: e.pos})
					continue
				}
				if v.kind != vChild {
					pr.issues = append(pr.issues, fmt.Sprintf("the printer prints child %s, which the parse path does not fill with a sub-parse", e.field))
					continue
				}
				pr.items = append(pr.items, pItem{kind: "child", field: e.field, ev: v.idx, pos: e.pos})
			case evOpt:
				truth, known := false, true
				switch {
				case strings.HasPrefix(e.cond, "nonnil:"):
					v, ok := fieldVal(strings.TrimPrefix(e.cond, "nonnil:"))
					truth = ok && v.kind != vNil
				case strings.HasPrefix(e.cond, "paren:"):
					truth = false // operands of parsed trees never need added parentheses (R1.3 / R2.2)
				case strings.HasPrefix(e.cond, "flag:"):
					v, ok := fieldVal(strings.TrimPrefix(e.cond, "flag:"))
					if ok && v.kind == vConst && v.k.Kind() == constant.Bool {
						truth = constant.BoolVal(v.k)
					} else if ok {
						known = false
					}
				case e.cond == "notfirst":
					truth = len(loops) > 0 && loops[len(loops)-1].i > 0
				default:
					known = false
				}
				if !known {
					pr.issues = append(pr.issues, fmt.Sprintf("printer condition %q cannot be decided from what the parse path stores", e.cond))
					continue
				}
				if e.neg {
					truth = !truth
				}
				if truth {
					walk(e.kids)
				} else {
					walk(e.alt)
				}
			case evLoop:
				n := 0
				if lv, ok := gp.fields[e.field]; ok && lv.kind == vList {
					n = len(gp.lists[lv.idx].elems)
				} else if ok && lv.kind != vNil {
					pr.issues = append(pr.issues, fmt.Sprintf("the printer ranges over %s, which the parse path does not fill with a list", e.field))
				}
				for i := 0; i < n; i++ {
					loops = append(loops, loopCtx{e.field, i})
					walk(e.kids)
					loops = loops[:len(loops)-1]
				}
			case evRet:
				stop = true
				return
			default:
				pr.issues = append(pr.issues, "printer statement not understood: "+e.text)
			}
		}
	}
	walk(root)
	return pr
}

// pTerm is one element of the printer's projected output.
type pTerm struct {
	kind  string // "T" fixed terminal | "tok" token text | "class" delimited open-class token | "child" | "semi"
	typ   int64
	lex   string
	ev    int
	field string
	pos   token.Pos
}

// projectPrinter lexes the literal runs of a printer run with maximal munch over the lexeme table.
func projectPrinter(t *tables, pr *printRun) ([]pTerm, []string) {
	var out []pTerm
	var issues []string
	items := pr.items
	isIdStart := func(b byte) bool { return b == '_' || b == '$' || (b >= 'a' && b <= 'z') || (b >= 'A' && b <= 'Z') }
	isIdPart := func(b byte) bool { return isIdStart(b) || (b >= '0' && b <= '9') }
	for i := 0; i < len(items); i++ {
		it := items[i]
		switch it.kind {
		case "semi":
			out = append(out, pTerm{kind: "semi", pos: it.pos})
			continue
		case "child":
			out = append(out, pTerm{kind: "child", field: it.field, ev: it.ev, pos: it.pos})
			continue
		case "tok":
			out = append(out, pTerm{kind: "tok", ev: it.ev, field: it.field, pos: it.pos})
			continue
		}
		// literal run: concatenate adjacent literals (layout writes emit nothing in compact mode)
		run := it.text
		pos := it.pos
		for i+1 < len(items) && items[i+1].kind == "lit" {
			i++
			run += items[i].text
		}
		for len(run) > 0 {
			if run[0] == ' ' {
				run = run[1:]
				continue
			}
			if isIdStart(run[0]) {
				j := 1
				for j < len(run) && isIdPart(run[j]) {
					j++
				}
				w := run[:j]
				run = run[j:]
				if k, ok := t.lt.keywords[w]; ok {
					out = append(out, pTerm{kind: "T", typ: k, lex: w, pos: pos})
				} else {
					issues = append(issues, fmt.Sprintf("the printer writes the constant identifier %q", w))
				}
				continue
			}
			// opening delimiter of a string class directly before a token text and the same delimiter after it
			if cls, ok := t.lt.strDelims[run[0]]; ok && len(run) == 1 && i+2 < len(items) && items[i+1].kind == "tok" && items[i+2].kind == "lit" && strings.HasPrefix(items[i+2].text, run[:1]) {
				out = append(out, pTerm{kind: "class", typ: cls, lex: run[:1], ev: items[i+1].ev, field: items[i+1].field, pos: pos})
				items[i+2].text = items[i+2].text[1:]
				i++ // skip the token text; the closing literal continues as the next run
				run = ""
				continue
			}
			best := ""
			for l := range t.lt.fixed {
				if strings.HasPrefix(run, l) && len(l) > len(best) {
					best = l
				}
			}
			if best == "" {
				issues = append(issues, fmt.Sprintf("constant text %q does not start with a lexeme of the language", run))
				break
			}
			out = append(out, pTerm{kind: "T", typ: t.lt.fixed[best], lex: best, pos: pos})
			run = run[len(best):]
		}
	}
	return out, issues
}

func renderTerms(t *tables, ts []pTerm) string {
	var p []string
	for _, x := range ts {
		switch x.kind {
		case "T":
			p = append(p, t.tc.name(x.typ))
		case "tok":
			p = append(p, "text("+x.field+")")
		case "class":
			p = append(p, x.lex+"text("+x.field+")"+x.lex)
		case "child":
			p = append(p, "<"+x.field+">")
		case "semi":
			p = append(p, ";?")
		}
	}
	return strings.Join(p, " ")
}

type matchResult struct {
	orderProblems  []string // R1.1
	uncheckedTerms []string // R12.1
	openClass      []string // information: open-class tokens consumed without a test
	nilDeref       []string // R11.3
	issues         []string // unresolved
	parserSeq      string
	printerSeq     string
}

// matchPath compares one parser path with the printer's output for the node that path builds.
func matchPath(t *tables, node string, root []*pev, gp *gPath) *matchResult {
	mr := &matchResult{}
	pr := runPrinter(root, gp)
	mr.issues = append(mr.issues, pr.issues...)
	mr.nilDeref = pr.nilDer
	terms, is := projectPrinter(t, pr)
	mr.issues = append(mr.issues, is...)
	eof, hasEOF := t.tc.byName["EOF"]
	// parser sequence without the end-of-input token (it has no text)
	var pevs []*gEvt
	var pidx []int
	for i, e := range gp.events {
		if hasEOF && e.kind == gTok && len(e.types) == 1 && e.types[eof] {
			continue
		}
		pevs = append(pevs, e)
		pidx = append(pidx, i)
	}
	// ECMAScript: a single comma between the last element of a list and its closing bracket (ArrayLiteral, Arguments,
	// FormalParameters, ObjectLiteral) denotes nothing — a parser may accept it and the printer leave it out. (A comma
	// behind another comma or behind the opening bracket is an elision, which does denote something: not dropped.)
	if comma, okc := refTypeOf(t, ","); okc {
		closers := map[int64]bool{}
		for _, lx := range []string{")", "]", "}"} {
			if k, ok := refTypeOf(t, lx); ok {
				closers[k] = true
			}
		}
		single := func(e *gEvt, set map[int64]bool) bool {
			if e.kind != gTok || len(e.types) != 1 {
				return false
			}
			for k := range e.types {
				return set[k]
			}
			return false
		}
		var kept []*gEvt
		var keptIdx []int
		for i, e := range pevs {
			if i > 0 && i+1 < len(pevs) && e.checked && len(e.tokFields) == 0 && len(e.litFields) == 0 &&
				single(e, map[int64]bool{comma: true}) && pevs[i-1].kind == gChild && single(pevs[i+1], closers) {
				continue
			}
			kept = append(kept, e)
			keptIdx = append(keptIdx, pidx[i])
		}
		if len(kept) == len(terms) && len(pevs) != len(terms) {
			pevs, pidx = kept, keptIdx
		}
	}
	mr.parserSeq = renderPath(t.tc, pevs)
	mr.printerSeq = renderTerms(t, terms)
	n := len(pevs)
	if len(terms) != n {
		mr.orderProblems = append(mr.orderProblems, fmt.Sprintf("the parser consumes %d items, the printer writes %d", n, len(terms)))
		return mr
	}
	for i := 0; i < n; i++ {
		e, x := pevs[i], terms[i]
		switch x.kind {
		case "semi":
			if e.kind != gSemi {
				mr.orderProblems = append(mr.orderProblems, fmt.Sprintf("position %d: the printer ends the statement, the parser has %s", i+1, e.render(t.tc)))
			}
		case "child":
			if e.kind != gChild || pidx[i] != x.ev {
				mr.orderProblems = append(mr.orderProblems, fmt.Sprintf("position %d: the printer writes child %s, the parser has %s", i+1, x.field, e.render(t.tc)))
				continue
			}
			if e.fresh && e.first != nil && !e.first.checked {
				mr.openClass = append(mr.openClass, fmt.Sprintf("%s is built from a token whose type the parser never tests", x.field))
			}
		case "tok", "class":
			if e.kind != gTok || pidx[i] != x.ev {
				mr.orderProblems = append(mr.orderProblems, fmt.Sprintf("position %d: the printer writes the text of %s, the parser has %s", i+1, x.field, e.render(t.tc)))
				continue
			}
			if x.kind == "class" {
				if e.types == nil || len(e.types) != 1 || !e.types[x.typ] {
					mr.orderProblems = append(mr.orderProblems, fmt.Sprintf("position %d: the printer delimits %s with %s (class %s), the token is %s", i+1, x.field, x.lex, t.tc.name(x.typ), e.render(t.tc)))
				}
			}
			if !e.checked {
				mr.openClass = append(mr.openClass, fmt.Sprintf("the token printed from %s is consumed without a test of its type", x.field))
			}
		case "T":
			if e.kind != gTok {
				mr.orderProblems = append(mr.orderProblems, fmt.Sprintf("position %d: the printer writes %s, the parser has %s", i+1, t.tc.name(x.typ), e.render(t.tc)))
				if e.kind == gSemi {
					mr.uncheckedTerms = append(mr.uncheckedTerms, fmt.Sprintf("position %d: the printer writes %q, but the parser accepts the statement separator check there (a line break or a closing brace passes for the terminal)", i+1, x.lex))
				}
				continue
			}
			if e.types == nil {
				mr.uncheckedTerms = append(mr.uncheckedTerms, fmt.Sprintf("position %d: the printer writes %q but the parser consumes the token there without testing its type (%s)", i+1, x.lex, e.how))
				continue
			}
			if len(e.types) != 1 || !e.types[x.typ] {
				mr.orderProblems = append(mr.orderProblems, fmt.Sprintf("position %d: the printer writes %q (%s), the parser has consumed %s", i+1, x.lex, t.tc.name(x.typ), tokSetNames(t.tc, e.types)))
				continue
			}
			if !e.checked {
				mr.uncheckedTerms = append(mr.uncheckedTerms, fmt.Sprintf("position %d: %q is not tested on input", i+1, x.lex))
			}
		}
	}
	return mr
}

// firstTerminal: the first fixed terminal a node's printer writes on every path (nil when it starts with a child
// or a token text).
func firstTerminal(t *tables, root []*pev) (int64, bool) {
	for _, e := range root {
		switch e.kind {
		case evComments, evMap, evLayout:
			continue
		case evLit:
			tt, _, ok := firstLexemeType(t, strings.TrimLeft(e.text, " "))
			return tt, ok
		default:
			return 0, false
		}
	}
	return 0, false
}

// ---- the grammar model shared by R1.1 / R3.5 / R11.3 / R12.1 ----------------------------------------------------

type grammarModel struct {
	methods  []*gMethod
	byNode   map[string][]*gMethod
	printers map[string]*printerEvents
}

func (c *Ctx) grammar(t *tables) *grammarModel {
	if c.gmodel != nil {
		return c.gmodel
	}
	g := &grammarModel{byNode: map[string][]*gMethod{}, printers: c.allPrinterEvents()}
	c.gmodel = g
	entries := c.entryTokens(t)
	builders := c.nodeBuilders()
	var nodes []string
	for n := range builders {
		nodes = append(nodes, n)
	}
	sort.Strings(nodes)
	for _, n := range nodes {
		for _, m := range builders[n] {
			if r := c.parserRoles()[m]; r == "listhelper" {
				continue
			}
			gm := c.enumParse(t, m, n, entries[m])
			if len(gm.paths) == 0 && len(gm.issues) == 0 {
				continue // the method builds this node type only as a part of another node
			}
			g.methods = append(g.methods, gm)
			g.byNode[n] = append(g.byNode[n], gm)
		}
	}
	return g
}

func (g *grammarModel) dump(t *tables) map[string]any {
	out := map[string]any{}
	for _, gm := range g.methods {
		seen := map[string]bool{}
		var seqs []string
		for _, p := range gm.paths {
			s := renderPath(t.tc, p.events)
			if !seen[s] {
				seen[s] = true
				seqs = append(seqs, s)
			}
		}
		sort.Strings(seqs)
		out[gm.method.Name()+" -> "+gm.node] = map[string]any{"success_paths": len(gm.paths), "failure_paths": gm.failures, "tolerant_only_paths": gm.tolerantOnly, "cut_by_unrolling_bound": gm.dropped, "distinct_sequences": seqs}
	}
	return out
}
