package main

// Variants for the rules and widenings of rounds 9/10: the widened rule must still fire on the mistake that sits next
// to the accepted idiom, and stay silent on the stored feature PR itself.
func init() {
	pf := "parser/parser_functions.go"
	test := "\tif !p.atPropertyName() {\n\t\tp.AddError(fmt.Sprintf(\"property name expected after '.', found %q\", p.CurrentToken.Literal))\n\t\treturn nil\n\t}\n"
	addVariants(
		// R12.7
		variant{Prop: "C12", Name: "dot-name-test-removed", File: pf, Old: test, New: "", Rule: "R12.7", Construct: "ParseMemberExpression"},
		variant{Prop: "C12", Name: "dot-name-refusal-silent", File: pf, Old: "\t\tp.AddError(fmt.Sprintf(\"property name expected after '.', found %q\", p.CurrentToken.Literal))\n\t\treturn nil", New: "\t\t_ = fmt.Sprintf\n\t\treturn nil", Rule: "R12.7", Construct: "ParseMemberExpression"},
		variant{Prop: "C12", Name: "dot-name-test-before-the-advance", File: pf, Old: "\tp.NextToken()\n" + test, New: test + "\tp.NextToken()\n", Rule: "R12.7", Construct: "ParseMemberExpression"},
		// the operator reference is keyed by lexeme: a new operator of JavaScript is judged like the old ones
		variant{Prop: "C02", Name: "feature-muldivmod-assign", Patch: "benign/C01-r10-1/patch.diff", Benign: true},
		variant{Prop: "C03", Name: "feature-muldivmod-assign-C03", Patch: "benign/C01-r10-1/patch.diff", Benign: true},
		variant{Prop: "C02", Name: "feature-strict-equality", Patch: "benign/C02-r10-1/patch.diff", Benign: true},
		variant{Prop: "C02", Name: "feature-mul-assign-at-product-level", Patch: "benign/C01-r10-1/patch.diff", File: "parser/parser.go", Old: "\ttoken.MUL_ASSIGN:   ASSIGNMENT,", New: "\ttoken.MUL_ASSIGN:   PRODUCT,", Rule: "R2.1", Construct: "MUL_ASSIGN"},
		variant{Prop: "C02", Name: "feature-mul-assign-left-associative", Patch: "benign/C01-r10-1/patch.diff", File: "parser/parser.go", Old: "\tp.infixParseFns[token.MUL_ASSIGN] = p.ParseCompoundAssignmentExpression", New: "\tp.infixParseFns[token.MUL_ASSIGN] = p.ParseBinaryExpression", Rule: "R2.2", Construct: "MUL_ASSIGN"},
		// copy-constructor idiom: a clone must clone
		variant{Prop: "C05", Name: "feature-builder-clone", Patch: "benign/C14-r10-1/patch.diff", Benign: true},
		variant{Prop: "C04", Name: "feature-builder-clone-C04", Patch: "benign/C14-r10-1/patch.diff", Benign: true},
		variant{Prop: "C05", Name: "feature-builder-clone-shares-the-memo", Patch: "benign/C14-r10-1/patch.diff", File: "lexer/builder.go", Old: "\t\tdynamicTokens: maps.Clone(lb.dynamicTokens),", New: "\t\tdynamicTokens: lb.dynamicTokens,", More: []edit{{File: "lexer/builder.go", Old: "\t\"maps\"\n", New: ""}}, Rule: "R5.5", Construct: "Clone"},
		variant{Prop: "C04", Name: "feature-builder-clone-shares-the-interceptors", Patch: "benign/C14-r10-1/patch.diff", File: "parser/builder.go", Old: "\t\tstmtInterceptors:     slices.Clip(slices.Clone(pb.stmtInterceptors)),", New: "\t\tstmtInterceptors:     pb.stmtInterceptors,", Rule: "R4.2", Construct: "Clone"},
		// R14.6: information may flow into the map, not out of it
		variant{Prop: "C14", Name: "feature-sourcemap-metadata", Patch: "benign/C14-r10-3/patch.diff", Benign: true},
		variant{Prop: "C14", Name: "feature-sourcemap-metadata-helper", Patch: "benign/C08-r10-3/patch.diff", Benign: true},
		// R14.7: opt-in post-processing
		variant{Prop: "C14", Name: "feature-final-newline", Patch: "benign/C01-r10-3/patch.diff", Benign: true},
		// trailing comma
		variant{Prop: "C01", Name: "feature-trailing-comma", Patch: "benign/C16-r10-3/patch.diff", Benign: true},
		// in-place truncation of the pending buffer
		variant{Prop: "C06", Name: "perf-pending-truncated-in-place", Patch: "benign/C06-r10-2/patch.diff", Benign: true},
		variant{Prop: "C14", Name: "perf-pending-truncated-in-place-C14", Patch: "benign/C06-r10-2/patch.diff", Benign: true},
		// a node built in the dispatcher's own case
		variant{Prop: "C08", Name: "feature-empty-statement", Patch: "benign/C02-r10-3/patch.diff", Benign: true},
		// Compile delegating to an exported sibling
		variant{Prop: "C14", Name: "feature-compile-node", Patch: "benign/C07-r10-3/patch.diff", Benign: true},
		// plugin push API / copy of the stack
		variant{Prop: "C16", Name: "feature-context-queries", Patch: "benign/C16-r10-1/patch.diff", Benign: true},
	)
}

// R3.6: the statement printer's guard
func init() {
	af := "ast/ast.go"
	addVariants(
		variant{Prop: "C03", Name: "stmt-guard-forgets-member-object", File: af, Old: "\t\tcase *MemberExpression:\n\t\t\te = n.Object\n", New: "", Rule: "R3.6", Construct: "MemberExpression"},
		variant{Prop: "C03", Name: "stmt-guard-follows-the-wrong-operand", File: af, Old: "\t\tcase *AssignmentExpression:\n\t\t\te = n.Left\n", New: "\t\tcase *AssignmentExpression:\n\t\t\te = n.Value\n", Rule: "R3.6", Construct: "AssignmentExpression"},
		variant{Prop: "C03", Name: "stmt-guard-without-function-expression", File: af, Old: "\t\tcase *ObjectLiteral, *FunctionExpression:\n\t\t\treturn true\n", New: "\t\tcase *ObjectLiteral:\n\t\t\treturn true\n", Rule: "R3.6", Construct: "FunctionExpression"},
		variant{Prop: "C03", Name: "stmt-guard-not-consulted", File: af, Old: "\tneedsParens := beginsLikeStatement(es.Expression)\n", New: "\tneedsParens := false && beginsLikeStatement(es.Expression)\n", Rule: "R3.5", Construct: "ExpressionStatement"},
		variant{Prop: "C03", Name: "group-method-hands-the-inner-node-through", Patch: "seeded/C03-r9-3/patch.diff", Rule: "R3.6", Construct: "ParseGroupedExpression"},
	)
}

// the trivia list emptied in place (R15.6 accepts it): that no token shares the backing array is R14.5's obligation
func init() {
	addVariants(
		variant{Prop: "C15", Name: "perf-trivia-list-truncated-in-place", Patch: "benign/C04-r10-3/patch.diff", Benign: true},
		variant{Prop: "C14", Name: "perf-trivia-list-truncated-in-place-C14", Patch: "benign/C04-r10-3/patch.diff", Benign: true},
		variant{Prop: "C14", Name: "perf-trivia-list-truncated-and-shared-with-the-token", Patch: "benign/C04-r10-3/patch.diff", File: "lexer/base_functions.go", Old: "LeadingComments: append([]string(nil), l.leadingComments...),", New: "LeadingComments: l.leadingComments,", Nth: 1, Rule: "R14.5", Construct: "LeadingComments"},
	)
}

// the library "one release later": twelve of round 10's feature PRs applied together (seeded/future-base.diff, the base
// of round 11) — every check stays silent on it
func init() {
	for _, p := range []string{"C01", "C02", "C03", "C04", "C05", "C06", "C07", "C08", "C09", "C10", "C11", "C12", "C13", "C14", "C15", "C16"} {
		addVariants(variant{Prop: p, Name: "future-base-" + p, Patch: "seeded/future-base.diff", Benign: true})
	}
}

// whole-struct copies (R14.4): a copied builder must replace every slice and map it copied
func init() {
	addVariants(
		variant{Prop: "C14", Name: "clone-by-struct-copy-leaves-the-interceptor-lists-shared", Patch: "seeded/future-base.diff", More: []edit{{File: "parser/builder.go", Old: "\tclone := &Builder{\n", New: "\tclone := new(Builder)\n\t*clone = *pb\n\t_ = &Builder{\n"}}, Rule: "R14.4", Construct: "Clone"},
	)
}

// plausible rewrites of the two repairs of rounds 9/10 must stay silent
func init() {
	af := "ast/ast.go"
	pf := "parser/parser_functions.go"
	addVariants(
		variant{Prop: "C12", Name: "benign-dot-name-test-inlined", File: pf, Old: "\tif !p.atPropertyName() {\n", New: "\tif tok := p.CurrentToken; tok.Type != token.IDENT && tok.Type < token.DYNAMIC_TOKENS_START && token.Keywords[tok.Literal] != tok.Type {\n", Benign: true},
		variant{Prop: "C03", Name: "benign-stmt-guard-recursive", File: af, Old: "\t\tcase *BinaryExpression:\n\t\t\te = n.Left\n", New: "\t\tcase *BinaryExpression:\n\t\t\treturn beginsLikeStatement(n.Left)\n", Benign: true},
		variant{Prop: "C03", Name: "benign-stmt-parens-if-else", File: af, Old: "\tneedsParens := beginsLikeStatement(es.Expression)\n\tif needsParens {\n\t\tcw.WriteRune('(')\n\t}\n\tes.Expression.WriteTo(cw)\n\tif needsParens {\n\t\tcw.WriteRune(')')\n\t}\n", New: "\tif beginsLikeStatement(es.Expression) {\n\t\tcw.WriteRune('(')\n\t\tes.Expression.WriteTo(cw)\n\t\tcw.WriteRune(')')\n\t} else {\n\t\tes.Expression.WriteTo(cw)\n\t}\n", Benign: true},
		variant{Prop: "C01", Name: "benign-stmt-parens-if-else-C01", File: af, Old: "\tneedsParens := beginsLikeStatement(es.Expression)\n\tif needsParens {\n\t\tcw.WriteRune('(')\n\t}\n\tes.Expression.WriteTo(cw)\n\tif needsParens {\n\t\tcw.WriteRune(')')\n\t}\n", New: "\tif beginsLikeStatement(es.Expression) {\n\t\tcw.WriteRune('(')\n\t\tes.Expression.WriteTo(cw)\n\t\tcw.WriteRune(')')\n\t} else {\n\t\tes.Expression.WriteTo(cw)\n\t}\n", Benign: true},
	)
}

// R7.4: the strconv error kept in a bool
func init() {
	addVariants(
		variant{Prop: "C07", Name: "feature-numeric-separators-validation", Patch: "benign/C07-r10-1/patch.diff", Benign: true},
		variant{Prop: "C07", Name: "feature-numeric-separators-error-inverted", Patch: "benign/C07-r10-1/patch.diff", File: "parser/parser_functions.go", Old: "\t\tok = err == nil\n", New: "\t\tok = err != nil\n", Nth: 1, Rule: "R7.4", Construct: "INT"},
	)
}

// anchors are fields by their role: a second field of the same type (a file name next to the input, a list of
// sources next to the names, a second string list in the lexer) must not lose them
func init() {
	lx := "lexer/lexer.go"
	sm := "sourcemap/sourcemap.go"
	for _, p := range []string{"C04", "C07", "C08", "C09", "C10", "C12", "C15"} {
		addVariants(variant{Prop: p, Name: "benign-second-field-of-an-anchor-type-" + p, File: lx,
			Old:    "\tleadingComments  []string // leading comments before the token\n",
			New:    "\tleadingComments  []string // leading comments before the token\n\tFileName         string   // name of the source, for messages\n\tNotes            []string // remarks collected by plugins\n",
			More:   []edit{{File: sm, Old: "\tnames     []string\n", New: "\tnames     []string\n\tsources   []string\n\tsourceIdx map[string]int\n"}},
			Benign: true})
	}
}

func init() {
	for _, p := range []string{"C02", "C05", "C11"} {
		addVariants(variant{Prop: p, Name: "benign-second-token-to-int-map-in-the-parser-" + p, File: "parser/parser.go",
			Old: "\tprecedences map[token.Type]int\n", New: "\tprecedences map[token.Type]int\n\tarity       map[token.Type]int\n", Benign: true})
	}
}
