package main

import (
	"go/constant"
	"go/token"
	"go/types"
	"sort"
	"strings"

	"golang.org/x/tools/go/ssa"
)

// Folding of pure parser predicates. A condition of the parser is sometimes wrapped in a predicate whose body the
// path enumerator cannot turn into facts — typically one that walks a package-level table of rows
// (`for _, t := range terminators { if t.tokenType == p.PeekToken.Type { return !t.smartOnly || p.smart } }`).
// Such a predicate reads a finite state: the type of the peek / current token (one of the token constants the
// predicate or its tables mention, or "any other"), the peek token's after-newline flag and bool fields of the
// parser. For each such state every test in it is a constant and the predicate folds to true or false; the states
// in which it yields the wanted value become the alternative fact lists the path rules work with.

type pState map[string]constant.Value // "PeekToken.Type", "PeekToken.AfterNewline", "CurrentToken.Type", "<boolfield>"

type pFolder struct {
	c     *Ctx
	state pState
	steps int
	fail  string
}

func (pf *pFolder) stop(why string) bool {
	if pf.fail == "" {
		pf.fail = why
	}
	return false
}

func (pf *pFolder) ev(env map[ssa.Value]*aval, v ssa.Value) *aval {
	if k, ok := v.(*ssa.Const); ok {
		if k.Value == nil {
			return &aval{tag: "nil"}
		}
		return &aval{k: k.Value}
	}
	return env[v]
}

// pathOf: the field path of an address rooted at the receiver ("PeekToken.Type"), or "" when it is something else.
func recvFieldPath(env map[ssa.Value]*aval, addr ssa.Value) string {
	var names []string
	for {
		fa, ok := addr.(*ssa.FieldAddr)
		if !ok {
			break
		}
		names = append([]string{fieldOfAddr(fa).Name()}, names...)
		addr = fa.X
	}
	if a := env[addr]; a != nil && a.tag == "recv" && len(names) > 0 {
		return strings.Join(names, ".")
	}
	return ""
}

func (pf *pFolder) run(f *ssa.Function, env map[ssa.Value]*aval, depth int) (*aval, bool) {
	if depth > 4 || f.Blocks == nil {
		return nil, pf.stop("callee not available")
	}
	blk := f.Blocks[0]
	var prev *ssa.BasicBlock
	for {
		var next *ssa.BasicBlock
		for _, in := range blk.Instrs {
			pf.steps++
			if pf.steps > 50000 {
				return nil, pf.stop("folding budget exhausted")
			}
			switch x := in.(type) {
			case *ssa.DebugRef:
			case *ssa.Phi:
				for i, p := range blk.Preds {
					if p == prev {
						v := pf.ev(env, x.Edges[i])
						if v == nil {
							return nil, pf.stop("a merged value does not fold")
						}
						env[x] = v
					}
				}
			case *ssa.Alloc:
				env[x] = &aval{tag: "local"}
			case *ssa.Store:
				a := pf.ev(env, x.Addr)
				v := pf.ev(env, x.Val)
				if a == nil || a.tag != "local" || v == nil {
					return nil, pf.stop("store that is not into a local variable")
				}
				c := v.copy()
				c.tag = "local"
				env[x.Addr] = c
			case *ssa.FieldAddr:
				if base := pf.ev(env, x.X); base != nil && (base.tag == "elemaddr" || base.tag == "local") {
					if base.fields == nil {
						return nil, pf.stop("field of a non-struct table element")
					}
					fv := base.fields[fieldOfAddr(x).Name()]
					if fv == nil {
						fv = zeroAval(fieldOfAddr(x).Type())
					}
					c := fv.copy()
					c.tag = "elemaddr"
					env[x] = c
					continue
				}
				if p := recvFieldPath(env, x); p != "" {
					env[x] = &aval{tag: "recvaddr:" + p}
					continue
				}
				return nil, pf.stop("address of a field of something other than the parser or a table row")
			case *ssa.IndexAddr:
				lv, iv := pf.ev(env, x.X), pf.ev(env, x.Index)
				if lv == nil || !lv.isList || iv == nil || iv.k == nil || iv.tag == "toktype" {
					return nil, pf.stop("index that does not fold")
				}
				n, _ := constant.Int64Val(constant.ToInt(iv.k))
				if n < 0 || n >= int64(len(lv.list)) || lv.list[n] == nil {
					return nil, pf.stop("index out of the folded table")
				}
				c := lv.list[n].copy()
				c.tag = "elemaddr"
				env[x] = c
			case *ssa.UnOp:
				switch x.Op {
				case token.MUL:
					if g, ok := x.X.(*ssa.Global); ok {
						gv := pf.c.globalAval(g)
						if gv == nil {
							return nil, pf.stop("package-level variable " + g.Name() + " is not literal data")
						}
						env[x] = gv
						continue
					}
					a := pf.ev(env, x.X)
					switch {
					case a == nil:
						return nil, pf.stop("load that does not fold")
					case strings.HasPrefix(a.tag, "recvaddr:"):
						p := strings.TrimPrefix(a.tag, "recvaddr:")
						v, ok := pf.state[p]
						if !ok {
							return nil, pf.stop("the predicate reads parser state outside the folded state: " + p)
						}
						env[x] = &aval{k: v}
						if strings.HasSuffix(p, ".Type") {
							env[x].tag = "toktype" // only equality tests can be folded against "any other type"
						}
					case a.tag == "elemaddr" || a.tag == "local":
						c := a.copy()
						c.tag = ""
						env[x] = c
					default:
						return nil, pf.stop("load through an unsupported address")
					}
				case token.NOT:
					a := pf.ev(env, x.X)
					if a == nil || a.k == nil || a.k.Kind() != constant.Bool {
						return nil, pf.stop("negation does not fold")
					}
					env[x] = &aval{k: constant.MakeBool(!constant.BoolVal(a.k))}
				default:
					return nil, pf.stop("unary operation")
				}
			case *ssa.Field:
				sv := pf.ev(env, x.X)
				if sv == nil || sv.fields == nil {
					return nil, pf.stop("field of a value that does not fold")
				}
				fv := sv.fields[fieldOfField(x).Name()]
				if fv == nil {
					fv = zeroAval(fieldOfField(x).Type())
				}
				env[x] = fv
			case *ssa.BinOp:
				a, b := pf.ev(env, x.X), pf.ev(env, x.Y)
				if a == nil || b == nil || a.k == nil || b.k == nil {
					return nil, pf.stop("operand does not fold")
				}
				ak, bk := a.k, b.k
				if ak.Kind() == constant.Int || bk.Kind() == constant.Int {
					ak, bk = constant.ToInt(ak), constant.ToInt(bk)
				}
				if (a.tag == "toktype" || b.tag == "toktype") && x.Op != token.EQL && x.Op != token.NEQ {
					return nil, pf.stop("a token type of the parser state is used other than in an equality test")
				}
				switch x.Op {
				case token.EQL, token.NEQ, token.LSS, token.LEQ, token.GTR, token.GEQ:
					if ak.Kind() != bk.Kind() {
						return nil, pf.stop("comparison of different kinds")
					}
					env[x] = &aval{k: constant.MakeBool(constant.Compare(ak, x.Op, bk))}
				case token.ADD, token.SUB:
					env[x] = &aval{k: constant.BinaryOp(ak, x.Op, bk)}
				case token.LAND, token.LOR, token.AND, token.OR:
					if ak.Kind() == constant.Bool {
						if x.Op == token.AND || x.Op == token.LAND {
							env[x] = &aval{k: constant.MakeBool(constant.BoolVal(ak) && constant.BoolVal(bk))}
						} else {
							env[x] = &aval{k: constant.MakeBool(constant.BoolVal(ak) || constant.BoolVal(bk))}
						}
					} else {
						return nil, pf.stop("bit operation")
					}
				default:
					return nil, pf.stop("binary operation")
				}
			case *ssa.Convert, *ssa.ChangeType:
				var src ssa.Value
				if cv, ok := x.(*ssa.Convert); ok {
					src = cv.X
				} else {
					src = x.(*ssa.ChangeType).X
				}
				a := pf.ev(env, src)
				if a == nil {
					return nil, pf.stop("conversion does not fold")
				}
				env[x.(ssa.Value)] = a
			case *ssa.Call:
				if b, ok := x.Call.Value.(*ssa.Builtin); ok && b.Name() == "len" {
					lv := pf.ev(env, x.Call.Args[0])
					if lv == nil || !lv.isList {
						return nil, pf.stop("len of a value that does not fold")
					}
					env[x] = &aval{k: constant.MakeInt64(int64(len(lv.list)))}
					continue
				}
				cal := x.Call.StaticCallee()
				if cal == nil || x.Call.IsInvoke() {
					return nil, pf.stop("dynamic call")
				}
				if extFuncIs(cal, "slices", "Contains") && len(x.Call.Args) == 2 {
					lv, kv := pf.ev(env, x.Call.Args[0]), pf.ev(env, x.Call.Args[1])
					if lv == nil || !lv.isList || kv == nil || kv.k == nil {
						return nil, pf.stop("slices.Contains over a value that does not fold")
					}
					hit := false
					for _, e := range lv.list {
						if e != nil && e.k != nil && constant.Compare(constant.ToInt(e.k), token.EQL, constant.ToInt(kv.k)) {
							hit = true
						}
					}
					env[x] = &aval{k: constant.MakeBool(hit)}
					continue
				}
				if !isLibPath(pkgPathOf(cal)) {
					return nil, pf.stop("call out of the library: " + fnName(cal))
				}
				sub := map[ssa.Value]*aval{}
				for i, p := range cal.Params {
					if i < len(x.Call.Args) {
						v := pf.ev(env, x.Call.Args[i])
						if v == nil {
							return nil, pf.stop("argument does not fold")
						}
						sub[p] = v
					}
				}
				rv, ok := pf.run(cal, sub, depth+1)
				if !ok {
					return nil, false
				}
				if rv != nil {
					env[x] = rv
				}
			case *ssa.If:
				cv := pf.ev(env, x.Cond)
				if cv == nil || cv.k == nil || cv.k.Kind() != constant.Bool {
					return nil, pf.stop("a branch condition does not fold")
				}
				if constant.BoolVal(cv.k) {
					next = blk.Succs[0]
				} else {
					next = blk.Succs[1]
				}
			case *ssa.Jump:
				next = blk.Succs[0]
			case *ssa.Return:
				if len(x.Results) == 0 {
					return nil, true
				}
				v := pf.ev(env, x.Results[0])
				if v == nil {
					return nil, pf.stop("returned value does not fold")
				}
				return v, true
			default:
				return nil, pf.stop("instruction form not folded (the predicate is not pure)")
			}
		}
		if next == nil {
			return nil, pf.stop("block without a successor")
		}
		prev, blk = blk, next
	}
}

// predicateStateFields: which parts of the parser state the predicate (and what it calls) reads.
func (a *parserAnchors) predicateReads(f *ssa.Function, seen map[*ssa.Function]bool, out map[string]*types.Var) bool {
	if f == nil || seen[f] || f.Blocks == nil {
		return true
	}
	seen[f] = true
	ok := true
	allInstrs(f, func(_ *ssa.BasicBlock, _ int, in ssa.Instruction) {
		switch x := in.(type) {
		case *ssa.Store:
			if !storesIntoOwnLocal(x) {
				ok = false // only a copy of a table row into a local variable is tolerated
			}
		case *ssa.MapUpdate, *ssa.Send, *ssa.Go, *ssa.Defer, *ssa.Panic:
			ok = false
		case *ssa.UnOp:
			if x.Op != token.MUL {
				return
			}
			var names []string
			var leaf *types.Var
			addr := x.X
			for {
				fa, isFA := addr.(*ssa.FieldAddr)
				if !isFA {
					break
				}
				if leaf == nil {
					leaf = fieldOfAddr(fa)
				}
				names = append([]string{fieldOfAddr(fa).Name()}, names...)
				addr = fa.X
			}
			if len(names) > 0 && namedIs(addr.Type(), "parser", "Parser") {
				out[strings.Join(names, ".")] = leaf
			}
		case *ssa.Call:
			if cal := x.Call.StaticCallee(); cal != nil && cal.Pkg == f.Pkg {
				if !a.predicateReads(cal, seen, out) {
					ok = false
				}
			}
		}
	})
	return ok
}

// literalArg: an argument that is a constant or a literal list of constants (also the empty variadic list).
func literalArg(v ssa.Value) *aval {
	switch x := v.(type) {
	case *ssa.Const:
		if x.Value == nil {
			if _, isSlice := x.Type().Underlying().(*types.Slice); isSlice {
				return &aval{isList: true}
			}
			return nil
		}
		return &aval{k: x.Value}
	case *ssa.Slice:
		al, ok := x.X.(*ssa.Alloc)
		if !ok || x.Low != nil || x.High != nil {
			return nil
		}
		at, ok := deref(al.Type()).Underlying().(*types.Array)
		if !ok || at.Len() > 64 {
			return nil
		}
		out := &aval{isList: true, list: make([]*aval, at.Len())}
		for _, r := range *al.Referrers() {
			switch y := r.(type) {
			case *ssa.IndexAddr:
				k, ok := y.Index.(*ssa.Const)
				if !ok || k.Value == nil {
					return nil
				}
				n, _ := constant.Int64Val(constant.ToInt(k.Value))
				for _, r2 := range *y.Referrers() {
					st, ok := r2.(*ssa.Store)
					if !ok {
						return nil
					}
					kv, ok := st.Val.(*ssa.Const)
					if !ok || kv.Value == nil || n < 0 || n >= at.Len() || out.list[n] != nil {
						return nil
					}
					out.list[n] = &aval{k: kv.Value}
				}
			case *ssa.Slice, *ssa.DebugRef:
			default:
				return nil
			}
		}
		for _, e := range out.list {
			if e == nil {
				return nil
			}
		}
		return out
	}
	return nil
}

// foldPredicate returns the alternative fact lists under which the pure predicate call yields want; nil when the
// predicate does not fold.
func (a *parserAnchors) foldPredicate(c *Ctx, call *ssa.Call, want bool, from *ssa.BasicBlock) [][]pathFact {
	cal := call.Call.StaticCallee()
	if cal == nil || cal.Signature.Recv() == nil || cal.Signature.Results().Len() != 1 || len(call.Call.Args) < 1 || len(call.Call.Args) != len(cal.Params) {
		return nil
	}
	// arguments besides the receiver: constants and literal lists of constants (`p.peekIs(token.A, token.B)`)
	argVals := map[ssa.Value]*aval{}
	argDims := map[ssa.Value]string{}
	for i, av := range call.Call.Args {
		if i == 0 {
			continue
		}
		// the peek / current token's type or after-newline flag handed in as an argument: the parameter stands for that
		// part of the folded state
		switch {
		case tokenFieldLoad(av, a.peek, "Type"):
			argDims[cal.Params[i]] = a.peek.Name() + ".Type"
			continue
		case tokenFieldLoad(av, a.cur, "Type"):
			argDims[cal.Params[i]] = a.cur.Name() + ".Type"
			continue
		case tokenFieldLoad(av, a.peek, "AfterNewline"):
			argDims[cal.Params[i]] = a.peek.Name() + ".AfterNewline"
			continue
		}
		v := literalArg(av)
		if v == nil {
			return nil
		}
		argVals[cal.Params[i]] = v
	}
	if b, ok := cal.Signature.Results().At(0).Type().Underlying().(*types.Basic); !ok || b.Kind() != types.Bool {
		return nil
	}
	reads := map[string]*types.Var{}
	if !a.predicateReads(cal, map[*ssa.Function]bool{}, reads) {
		return nil
	}
	for _, path := range argDims {
		if _, ok := reads[path]; !ok {
			reads[path] = nil
		}
	}
	// the token constants the predicate can tell apart: those its code and its tables mention
	mention := map[int64]bool{}
	seenF := map[*ssa.Function]bool{}
	var scan func(f *ssa.Function)
	var scanVal func(v *aval)
	scanVal = func(v *aval) {
		if v == nil {
			return
		}
		if v.k != nil && v.k.Kind() == constant.Int {
			if n, ok := constant.Int64Val(v.k); ok {
				mention[n] = true
			}
		}
		for _, e := range v.list {
			scanVal(e)
		}
		for _, e := range v.fields {
			scanVal(e)
		}
		for _, e := range v.mapv {
			scanVal(e)
		}
	}
	scan = func(f *ssa.Function) {
		if f == nil || seenF[f] || f.Blocks == nil {
			return
		}
		seenF[f] = true
		allInstrs(f, func(_ *ssa.BasicBlock, _ int, in ssa.Instruction) {
			for _, op := range in.Operands(nil) {
				if *op == nil {
					continue
				}
				if k, ok := (*op).(*ssa.Const); ok && k.Value != nil && namedIs(k.Type(), "token", "Type") {
					if n, ok := constant.Int64Val(constant.ToInt(k.Value)); ok {
						mention[n] = true
					}
				}
				if g, ok := (*op).(*ssa.Global); ok {
					scanVal(c.globalAval(g))
				}
			}
			if ci, ok := in.(ssa.CallInstruction); ok {
				if cc := ci.Common().StaticCallee(); cc != nil && cc.Pkg == f.Pkg {
					scan(cc)
				}
			}
		})
	}
	scan(cal)
	for _, v := range argVals {
		scanVal(v)
	}
	tc := c.tokenConsts()
	var types_ []int64
	for k := range mention {
		if _, isTok := tc.byVal[k]; isTok {
			types_ = append(types_, k)
		}
	}
	sort.Slice(types_, func(i, j int) bool { return types_[i] < types_[j] })
	const other = int64(-7777) // a token type none of the constants equals
	// the dimensions of the state
	type dim struct {
		path   string
		values []constant.Value
		fact   func(v constant.Value) []pathFact
	}
	var dims []dim
	var paths []string
	for p := range reads {
		paths = append(paths, p)
	}
	sort.Strings(paths)
	for _, p := range paths {
		leaf := reads[p]
		switch {
		case p == a.peek.Name()+".Type" || p == a.cur.Name()+".Type":
			kind := atPeekType
			if p == a.cur.Name()+".Type" {
				kind = atCurType
			}
			var vals []constant.Value
			for _, k := range types_ {
				vals = append(vals, constant.MakeInt64(k))
			}
			vals = append(vals, constant.MakeInt64(other))
			ts := append([]int64(nil), types_...)
			dims = append(dims, dim{p, vals, func(v constant.Value) []pathFact {
				n, _ := constant.Int64Val(v)
				if n != other {
					return []pathFact{{atom{kind: kind, k: n}, from}}
				}
				var out []pathFact
				for _, k := range ts {
					out = append(out, pathFact{atom{kind: kind, neg: true, k: k}, from})
				}
				return out
			}})
		case p == a.peek.Name()+".AfterNewline":
			dims = append(dims, dim{p, []constant.Value{constant.MakeBool(true), constant.MakeBool(false)}, func(v constant.Value) []pathFact {
				return []pathFact{{atom{kind: atPeekNewline, neg: !constant.BoolVal(v)}, from}}
			}})
		default:
			b, isBool := leaf.Type().Underlying().(*types.Basic)
			if !isBool || b.Kind() != types.Bool || strings.Contains(p, ".") && a.flagPath[leaf] == nil {
				return nil // reads something the path facts cannot express
			}
			lf := leaf
			dims = append(dims, dim{p, []constant.Value{constant.MakeBool(true), constant.MakeBool(false)}, func(v constant.Value) []pathFact {
				return []pathFact{{atom{kind: atFlag, neg: !constant.BoolVal(v), fld: lf}, from}}
			}})
		}
	}
	total := 1
	for _, d := range dims {
		total *= len(d.values)
	}
	if len(dims) == 0 || total > 4000 {
		return nil
	}
	// the states in which the predicate yields `want`, as index tuples (-1 = any value of that dimension)
	var hits [][]int
	idx := make([]int, len(dims))
	for {
		st := pState{}
		for i, d := range dims {
			st[d.path] = d.values[idx[i]]
		}
		pf := &pFolder{c: c, state: st}
		env := map[ssa.Value]*aval{cal.Params[0]: {tag: "recv"}}
		for pv, v := range argVals {
			env[pv] = v
		}
		for pv, path := range argDims {
			sv := &aval{k: st[path]}
			if strings.HasSuffix(path, ".Type") {
				sv.tag = "toktype"
			}
			env[pv] = sv
		}
		rv, ok := pf.run(cal, env, 0)
		if !ok || rv == nil || rv.k == nil || rv.k.Kind() != constant.Bool {
			return nil
		}
		if constant.BoolVal(rv.k) == want {
			hits = append(hits, append([]int(nil), idx...))
		}
		// next state
		i := len(dims) - 1
		for ; i >= 0; i-- {
			idx[i]++
			if idx[i] < len(dims[i].values) {
				break
			}
			idx[i] = 0
		}
		if i < 0 {
			break
		}
	}
	// a dimension whose every value gives the same answer (the others fixed) does not matter there: drop it, so that
	// the facts say only what the predicate's answer depends on
	for d := len(dims) - 1; d >= 0; d-- {
		groups := map[string][][]int{}
		var order []string
		for _, h := range hits {
			key := ""
			for i, v := range h {
				if i != d {
					key += string(rune('A'+v+1)) + ","
				}
			}
			if _, ok := groups[key]; !ok {
				order = append(order, key)
			}
			groups[key] = append(groups[key], h)
		}
		var merged [][]int
		for _, k := range order {
			g := groups[k]
			vals := map[int]bool{}
			for _, h := range g {
				vals[h[d]] = true
			}
			if len(vals) == len(dims[d].values) && !vals[-1] {
				m := append([]int(nil), g[0]...)
				m[d] = -1
				merged = append(merged, m)
			} else {
				merged = append(merged, g...)
			}
		}
		hits = merged
	}
	alts := [][]pathFact{}
	for _, h := range hits {
		var facts []pathFact
		for i, v := range h {
			if v >= 0 {
				facts = append(facts, dims[i].fact(dims[i].values[v])...)
			}
		}
		alts = append(alts, facts)
	}
	return alts
}
