package main

import (
	"fmt"
	"go/ast"
	"go/constant"
	"go/token"
	"go/types"
	"sort"
	"strings"

	"golang.org/x/tools/go/ssa"
)

// ---------------------------------------------------------------------------------------------
// SSA constant folder: evaluates a pure function on constant arguments by propagating constants through
// comparisons, integer arithmetic, branches, phis and returns. Anything else makes the fold fail (nil, false).
// This is constant propagation over the function's IR, used to read tables out of switch/if bodies.

func foldFn(fn *ssa.Function, args []constant.Value) (constant.Value, bool) {
	if fn == nil || fn.Blocks == nil || len(args) != len(fn.Params) {
		return nil, false
	}
	env := map[ssa.Value]constant.Value{}
	tupleVals := map[ssa.Value][2]constant.Value{}
	addrVals := map[ssa.Value]constant.Value{}
	for i, p := range fn.Params {
		env[p] = args[i]
	}
	var get func(v ssa.Value) (constant.Value, bool)
	get = func(v ssa.Value) (constant.Value, bool) {
		if k, ok := v.(*ssa.Const); ok {
			if k.Value == nil {
				return nil, false
			}
			return k.Value, true
		}
		x, ok := env[v]
		return x, ok
	}
	blk := fn.Blocks[0]
	var prev *ssa.BasicBlock
	for steps := 0; steps < 10000; steps++ {
		var next *ssa.BasicBlock
		for _, in := range blk.Instrs {
			switch x := in.(type) {
			case *ssa.DebugRef:
			case *ssa.Phi:
				for i, p := range blk.Preds {
					if p == prev {
						v, ok := get(x.Edges[i])
						if !ok {
							return nil, false
						}
						env[x] = v
					}
				}
			case *ssa.BinOp:
				a, ok1 := get(x.X)
				b, ok2 := get(x.Y)
				if !ok1 || !ok2 {
					return nil, false
				}
				switch x.Op {
				case token.EQL, token.NEQ, token.LSS, token.LEQ, token.GTR, token.GEQ:
					env[x] = constant.MakeBool(constant.Compare(a, x.Op, b))
				case token.ADD, token.SUB, token.MUL, token.AND, token.OR, token.XOR:
					env[x] = constant.BinaryOp(a, x.Op, b)
				case token.QUO:
					if constant.Sign(b) == 0 {
						return nil, false
					}
					env[x] = constant.BinaryOp(a, token.QUO_ASSIGN, b)
				case token.SHL, token.SHR:
					s, ok := constant.Uint64Val(b)
					if !ok || s > 62 {
						return nil, false
					}
					env[x] = constant.Shift(a, x.Op, uint(s))
				default:
					return nil, false
				}
			case *ssa.UnOp:
				if x.Op == token.MUL {
					if v, ok := addrVals[x.X]; ok {
						env[x] = v
						continue
					}
					// the table itself (map / slice / array global): looked up by the consumer
					if _, isG := x.X.(*ssa.Global); isG {
						continue
					}
					return nil, false
				}
				a, ok := get(x.X)
				if !ok {
					return nil, false
				}
				switch x.Op {
				case token.NOT:
					env[x] = constant.MakeBool(!constant.BoolVal(a))
				case token.SUB:
					env[x] = constant.UnaryOp(token.SUB, a, 0)
				default:
					return nil, false
				}
			case *ssa.Convert:
				a, ok := get(x.X)
				if !ok {
					return nil, false
				}
				env[x] = a
			case *ssa.ChangeType:
				a, ok := get(x.X)
				if !ok {
					return nil, false
				}
				env[x] = a
			case *ssa.If:
				cv, ok := get(x.Cond)
				if !ok {
					return nil, false
				}
				if constant.BoolVal(cv) {
					next = blk.Succs[0]
				} else {
					next = blk.Succs[1]
				}
			case *ssa.Jump:
				next = blk.Succs[0]
			case *ssa.Return:
				if len(x.Results) != 1 {
					return nil, false
				}
				return get(x.Results[0])
			case *ssa.Lookup:
				// string constant index, or a package-level map table (built by a literal in the package initialiser)
				k, ok := get(x.Index)
				if !ok {
					return nil, false
				}
				if base, ok := get(x.X); ok && base.Kind() == constant.String {
					str := constant.StringVal(base)
					i, ok := constant.Int64Val(k)
					if !ok || i < 0 || int(i) >= len(str) {
						return nil, false
					}
					env[x] = constant.MakeInt64(int64(str[i]))
					continue
				}
				tbl := globalMapTable(x.X)
				if tbl == nil {
					return nil, false
				}
				v, hit := tbl[k.ExactString()]
				if x.CommaOk {
					tupleVals[x] = [2]constant.Value{v, constant.MakeBool(hit)}
					if !hit {
						tupleVals[x] = [2]constant.Value{zeroOf(x.Type().(*types.Tuple).At(0).Type()), constant.MakeBool(false)}
					}
					continue
				}
				if !hit {
					v = zeroOf(x.Type())
				}
				if v == nil {
					return nil, false
				}
				env[x] = v
			case *ssa.Extract:
				tv, ok := tupleVals[x.Tuple]
				if !ok || tv[x.Index] == nil {
					return nil, false
				}
				env[x] = tv[x.Index]
			case *ssa.Index:
				k, ok := get(x.Index)
				if !ok {
					return nil, false
				}
				i, ok := constant.Int64Val(k)
				if !ok {
					return nil, false
				}
				if base, ok := get(x.X); ok && base.Kind() == constant.String {
					str := constant.StringVal(base)
					if i < 0 || int(i) >= len(str) {
						return nil, false
					}
					env[x] = constant.MakeInt64(int64(str[i]))
					continue
				}
				return nil, false
			case *ssa.IndexAddr:
				// element of a package-level array / slice table: resolved at the load
				k, ok := get(x.Index)
				if !ok {
					return nil, false
				}
				i, ok := constant.Int64Val(k)
				if !ok {
					return nil, false
				}
				el := globalSeqTable(x.X)
				if el == nil {
					return nil, false
				}
				if i < 0 || int(i) >= len(el) {
					return nil, false
				}
				if el[i] == nil {
					return nil, false
				}
				addrVals[x] = el[i]
			case *ssa.Call:
				// pure standard-library predicates on constants
				if v, ok := foldStdCall(x, get); ok {
					env[x] = v
					continue
				}
				if b, isB := x.Call.Value.(*ssa.Builtin); isB && b.Name() == "len" {
					if a, ok := get(x.Call.Args[0]); ok && a.Kind() == constant.String {
						env[x] = constant.MakeInt64(int64(len(constant.StringVal(a))))
						continue
					}
					if el := globalSeqTable(x.Call.Args[0]); el != nil {
						env[x] = constant.MakeInt64(int64(len(el)))
						continue
					}
					return nil, false
				}
				// calls to other foldable functions of the same package (predicates built from predicates)
				cal := x.Call.StaticCallee()
				if cal == nil || cal.Pkg != fn.Pkg {
					return nil, false
				}
				var as []constant.Value
				for _, a := range x.Call.Args {
					av, ok := get(a)
					if !ok {
						return nil, false
					}
					as = append(as, av)
				}
				rv, ok := foldFn(cal, as)
				if !ok {
					return nil, false
				}
				env[x] = rv
			default:
				return nil, false
			}
		}
		if next == nil {
			return nil, false
		}
		prev, blk = blk, next
	}
	return nil, false
}

// ---------------------------------------------------------------------------------------------
// E1 token constants

type tokConsts struct {
	byName   map[string]int64
	byVal    map[int64]string
	names    []string // in value order
	dynStart int64
}

func (c *Ctx) tokenConsts() *tokConsts {
	tc := &tokConsts{byName: map[string]int64{}, byVal: map[int64]string{}}
	p := c.Pkgs["token"]
	tt := c.lookupType("token", "Type")
	sc := p.Types.Scope()
	for _, n := range sc.Names() {
		k, ok := sc.Lookup(n).(*types.Const)
		if !ok {
			continue
		}
		v, isInt := constant.Int64Val(k.Val())
		if !isInt {
			continue
		}
		if n == "DYNAMIC_TOKENS_START" {
			tc.dynStart = v
			continue
		}
		if !types.Identical(k.Type(), tt) {
			continue
		}
		tc.byName[n] = v
		if old, dup := tc.byVal[v]; !dup || n < old {
			tc.byVal[v] = n
		}
	}
	for n := range tc.byName {
		tc.names = append(tc.names, n)
	}
	sort.Slice(tc.names, func(i, j int) bool { return tc.byName[tc.names[i]] < tc.byName[tc.names[j]] })
	return tc
}

func (tc *tokConsts) name(v int64) string {
	if n, ok := tc.byVal[v]; ok {
		return n
	}
	return fmt.Sprintf("Type(%d)", v)
}

// tokConstOf returns the token constant value of an expression of type token.Type.
func (c *Ctx) tokConstOf(info *types.Info, e ast.Expr) (int64, bool) {
	tv, ok := info.Types[e]
	if !ok || tv.Value == nil || !namedIs(tv.Type, "token", "Type") {
		return 0, false
	}
	return constant.Int64Val(tv.Value)
}

// ---------------------------------------------------------------------------------------------
// E2 lexeme table

type lexemeTable struct {
	fixed      map[string]int64 // fixed lexeme -> token type
	keywords   map[string]int64 // keyword spelling -> token type
	illegal    []string         // lexemes mapped to ILLEGAL
	strDelims  map[byte]int64   // opening delimiter -> token type of the open class (STRING / RAW_STRING)
	identType  bool             // identifier-start class present
	numTypes   map[int64]bool   // token types produced by the number scanner
	sites      int              // token construction sites in the dispatcher
	dispatcher *ast.FuncDecl
	problems   []string
	source     string
}

// initialFieldFunc resolves the function used as the initial value of struct field fld in a composite literal of
// pkg.typ inside package pkg (e.g. Lexer.nextToken -> baseNextToken).
func (c *Ctx) initialFieldFunc(pkgShort, typ string, pred func(*types.Var) bool) (*types.Func, *types.Var) {
	p := c.Pkgs[pkgShort]
	var fn *types.Func
	var fld *types.Var
	for _, f := range p.Syntax {
		ast.Inspect(f, func(n ast.Node) bool {
			cl, ok := n.(*ast.CompositeLit)
			if !ok {
				return true
			}
			tv, ok := p.TypesInfo.Types[cl]
			if !ok || !namedIs(tv.Type, pkgShort, typ) {
				return true
			}
			for _, el := range cl.Elts {
				kv, ok := el.(*ast.KeyValueExpr)
				if !ok {
					continue
				}
				id, ok := kv.Key.(*ast.Ident)
				if !ok {
					continue
				}
				v, ok := p.TypesInfo.Uses[id].(*types.Var)
				if !ok || !pred(v) {
					continue
				}
				if vid, ok := kv.Value.(*ast.Ident); ok {
					if fo, ok := p.TypesInfo.Uses[vid].(*types.Func); ok {
						fn, fld = fo, v
					}
				}
			}
			return true
		})
	}
	return fn, fld
}

func isFuncReturning(t types.Type, nparams int, resPkg, resName string) bool {
	sig, ok := t.Underlying().(*types.Signature)
	if !ok || sig.Params().Len() != nparams || sig.Results().Len() != 1 {
		return false
	}
	return namedIs(sig.Results().At(0).Type(), resPkg, resName)
}

func (c *Ctx) lexemes() *lexemeTable {
	lt := &lexemeTable{fixed: map[string]int64{}, keywords: map[string]int64{}, strDelims: map[byte]int64{}, numTypes: map[int64]bool{}}
	tc := c.tokenConsts()
	// keywords: composite literal of token.Keywords
	p := c.Pkgs["token"]
	for _, f := range p.Syntax {
		for _, d := range f.Decls {
			gd, ok := d.(*ast.GenDecl)
			if !ok || gd.Tok != token.VAR {
				continue
			}
			for _, sp := range gd.Specs {
				vs := sp.(*ast.ValueSpec)
				for i, nm := range vs.Names {
					if nm.Name != "Keywords" || i >= len(vs.Values) {
						continue
					}
					cl, ok := vs.Values[i].(*ast.CompositeLit)
					if !ok {
						// assembled at initialisation from literal data (a parameterless builder function, map stores with
						// constant keys): folded like a constant expression
						ce := &constEval{c: c, pkg: "token", info: p.TypesInfo}
						if cv, okf := ce.expr(map[types.Object]*cval{}, vs.Values[i]); okf && cv != nil && cv.isMap {
							for _, kc := range cv.mkeys {
								if kc.Kind() != constant.String {
									lt.problems = append(lt.problems, "non-constant entry in token.Keywords")
									continue
								}
								ev := cv.mp[keyString(kc)]
								if ev == nil || ev.k == nil {
									lt.problems = append(lt.problems, "non-constant entry in token.Keywords")
									continue
								}
								tv, okv := constant.Int64Val(constant.ToInt(ev.k))
								if !okv {
									lt.problems = append(lt.problems, "non-constant entry in token.Keywords")
									continue
								}
								lt.keywords[constant.StringVal(kc)] = tv
							}
							continue
						}
						lt.problems = append(lt.problems, "token.Keywords is not initialised by a composite literal (and does not fold: "+ce.fail+")")
						continue
					}
					for _, el := range cl.Elts {
						kv, ok := el.(*ast.KeyValueExpr)
						if !ok {
							continue
						}
						kval, ok1 := constOfExpr(p.TypesInfo, kv.Key)
						tval, ok2 := c.tokConstOf(p.TypesInfo, kv.Value)
						if !ok1 || !ok2 || kval.Kind() != constant.String {
							lt.problems = append(lt.problems, "non-constant entry in token.Keywords")
							continue
						}
						ks := constant.StringVal(kval)
						if _, dup := lt.keywords[ks]; dup {
							lt.problems = append(lt.problems, "duplicate keyword spelling "+ks)
						}
						lt.keywords[ks] = tval
					}
				}
			}
		}
	}
	// dispatcher: the initial value of the Lexer field of type func(*Lexer) token.Token
	fo, _ := c.initialFieldFunc("lexer", "Lexer", func(v *types.Var) bool { return isFuncReturning(v.Type(), 1, "token", "Token") })
	if fo == nil {
		lt.problems = append(lt.problems, "initial token function of the lexer not found")
		return lt
	}
	fd := c.declIdx[fo]
	lt.dispatcher = fd
	info := c.Pkgs["lexer"].TypesInfo
	illegal, _ := tc.byName["ILLEGAL"]
	eof := tc.byName["EOF"]
	// find the switch on the current byte
	var sw *ast.SwitchStmt
	for _, st := range fd.Body.List {
		if s, ok := st.(*ast.SwitchStmt); ok && s.Tag != nil {
			sw = s
		}
	}
	if sw == nil {
		lt.problems = append(lt.problems, "dispatcher has no switch on the current byte (accepted idiom: switch l.CurrentChar { case 'c': … })")
		return lt
	}
	isPeekCall := func(e ast.Expr) bool {
		call, ok := e.(*ast.CallExpr)
		if !ok {
			return false
		}
		sel, ok := call.Fun.(*ast.SelectorExpr)
		if !ok {
			return false
		}
		f, ok := info.Uses[sel.Sel].(*types.Func)
		return ok && f.Name() == "PeekChar" && len(call.Args) == 0
	}
	// peekEq: cond is `l.PeekChar() == 'c'`
	peekEq := func(e ast.Expr) (byte, bool) {
		be, ok := e.(*ast.BinaryExpr)
		if !ok || be.Op != token.EQL {
			return 0, false
		}
		x, y := be.X, be.Y
		if !isPeekCall(x) {
			x, y = y, x
		}
		if !isPeekCall(x) {
			return 0, false
		}
		v, ok := constOfExpr(info, y)
		if !ok {
			return 0, false
		}
		i, ok := constant.Int64Val(constant.ToInt(v))
		return byte(i), ok
	}
	record := func(lex string, call *ast.CallExpr) {
		tv, ok := c.tokConstOf(info, call.Args[0])
		if !ok {
			return
		}
		lt.sites++
		if tv == illegal {
			lt.illegal = append(lt.illegal, lex)
			return
		}
		if tv == eof {
			return
		}
		if old, dup := lt.fixed[lex]; dup && old != tv {
			lt.problems = append(lt.problems, fmt.Sprintf("lexeme %q produced with two token types", lex))
		}
		lt.fixed[lex] = tv
	}
	isTokenCtor := func(call *ast.CallExpr) bool {
		tv, ok := info.Types[call]
		if !ok || !namedIs(tv.Type, "token", "Token") || len(call.Args) < 2 {
			return false
		}
		_, isTok := c.tokConstOf(info, call.Args[0])
		return isTok
	}
	var walk func(stmts []ast.Stmt, lex string)
	walk = func(stmts []ast.Stmt, lex string) {
		for _, st := range stmts {
			switch s := st.(type) {
			case *ast.IfStmt:
				if ch, ok := peekEq(s.Cond); ok {
					walk(s.Body.List, lex+string(ch))
				} else {
					walk(s.Body.List, lex)
				}
				switch e := s.Else.(type) {
				case *ast.BlockStmt:
					walk(e.List, lex)
				case *ast.IfStmt:
					walk([]ast.Stmt{e}, lex)
				}
			case *ast.BlockStmt:
				walk(s.List, lex)
			default:
				ast.Inspect(st, func(n ast.Node) bool {
					call, ok := n.(*ast.CallExpr)
					if !ok || !isTokenCtor(call) {
						return true
					}
					record(lex, call)
					return false
				})
			}
		}
	}
	for _, cc := range sw.Body.List {
		cl := cc.(*ast.CaseClause)
		if cl.List == nil {
			// default: identifier / number classes and ILLEGAL
			ast.Inspect(cl, func(n ast.Node) bool {
				call, ok := n.(*ast.CallExpr)
				if !ok {
					return true
				}
				if f, ok := calleeFunc(info, call); ok {
					switch {
					case f.Pkg() != nil && f.Pkg().Path() == modPath+"/token" && f.Name() == "LookupIdent":
						lt.identType = true
					}
				}
				if isTokenCtor(call) {
					lt.sites++
				}
				return true
			})
			continue
		}
		for _, e := range cl.List {
			v, ok := constOfExpr(info, e)
			if !ok {
				lt.problems = append(lt.problems, "non-constant case in the dispatcher switch")
				continue
			}
			i, _ := constant.Int64Val(constant.ToInt(v))
			if i == 0 {
				// end of input
				ast.Inspect(cl, func(n ast.Node) bool {
					if call, ok := n.(*ast.CallExpr); ok && isTokenCtor(call) {
						lt.sites++
					}
					return true
				})
				continue
			}
			// open class: the clause calls a scanner (a lexer method that returns the literal)
			var scannerType int64 = -1
			hasScanner := false
			ast.Inspect(cl, func(n ast.Node) bool {
				call, ok := n.(*ast.CallExpr)
				if !ok {
					return true
				}
				if f, ok := calleeFunc(info, call); ok && f.Pkg() == c.Pkg("lexer") {
					if sig, ok := f.Type().(*types.Signature); ok && sig.Recv() != nil && sig.Results().Len() >= 1 {
						if b, ok := sig.Results().At(0).Type().Underlying().(*types.Basic); ok && b.Kind() == types.String {
							hasScanner = true
						}
					}
				}
				if isTokenCtor(call) {
					if tv, ok := c.tokConstOf(info, call.Args[0]); ok && tv != illegal {
						scannerType = tv
					}
				}
				return true
			})
			if hasScanner {
				ast.Inspect(cl, func(n ast.Node) bool {
					if call, ok := n.(*ast.CallExpr); ok && isTokenCtor(call) {
						lt.sites++
					}
					return true
				})
				if scannerType >= 0 {
					lt.strDelims[byte(i)] = scannerType
				} else {
					lt.problems = append(lt.problems, fmt.Sprintf("scanner case %q builds no non-ILLEGAL token", string(byte(i))))
				}
				continue
			}
			walk(cl.Body, string(byte(i)))
		}
	}
	// the table read off the dispatcher's paths (lexpaths.go) is the authority; the syntactic reading above is kept as a
	// fallback for a dispatcher the walk does not understand
	alt := &lexemeTable{}
	if probs := c.lexemesFromOutcomes(alt); len(probs) == 0 {
		lt.fixed, lt.illegal, lt.strDelims, lt.identType, lt.sites = alt.fixed, alt.illegal, alt.strDelims, alt.identType, alt.sites
		lt.problems = nil
		lt.source = "walk of the dispatcher per first byte"
	} else {
		lt.source = "syntactic reading of the dispatcher switch (the path walk reported: " + strings.Join(probs, "; ") + ")"
		if len(lt.problems) > 0 {
			lt.problems = append(lt.problems, probs...)
		}
	}
	// number scanner result types: constants of token.Type returned by functions of package lexer returning (string, token.Type)
	for _, f := range c.allFuncDecls("lexer") {
		if f.Type.Results == nil || len(f.Type.Results.List) != 2 || f.Body == nil {
			continue
		}
		// exactly (string, token.Type): the literal text and the type of the number that was read
		r0, ok0 := info.Types[f.Type.Results.List[0].Type]
		r1, ok1 := info.Types[f.Type.Results.List[1].Type]
		if !ok0 || !ok1 || !types.Identical(r0.Type, types.Typ[types.String]) || !namedIs(r1.Type, "token", "Type") {
			continue
		}
		ast.Inspect(f.Body, func(n ast.Node) bool {
			if e, ok := n.(ast.Expr); ok {
				if v, ok := c.tokConstOf(info, e); ok {
					lt.numTypes[v] = true
				}
			}
			return true
		})
	}
	return lt
}

func (c *Ctx) Pkg(short string) *types.Package { return c.Pkgs[short].Types }

func calleeFunc(info *types.Info, call *ast.CallExpr) (*types.Func, bool) {
	var id *ast.Ident
	switch f := call.Fun.(type) {
	case *ast.Ident:
		id = f
	case *ast.SelectorExpr:
		id = f.Sel
	default:
		return nil, false
	}
	fo, ok := info.Uses[id].(*types.Func)
	return fo, ok
}

// lexemeOfType returns the fixed lexemes (and keyword spellings) that produce token type t.
func (lt *lexemeTable) lexemesOf(t int64) []string {
	var out []string
	for l, v := range lt.fixed {
		if v == t {
			out = append(out, l)
		}
	}
	for l, v := range lt.keywords {
		if v == t {
			out = append(out, l)
		}
	}
	sort.Strings(out)
	return out
}

// lexType: the token type a fixed text lexes to as a single token (fixed lexeme or keyword).
func (lt *lexemeTable) lexType(text string) (int64, bool) {
	if v, ok := lt.fixed[text]; ok {
		return v, true
	}
	if v, ok := lt.keywords[text]; ok {
		return v, true
	}
	return 0, false
}

func (lt *lexemeTable) dump(tc *tokConsts) map[string]any {
	fx := map[string]string{}
	for l, v := range lt.fixed {
		fx[l] = tc.name(v)
	}
	kw := map[string]string{}
	for l, v := range lt.keywords {
		kw[l] = tc.name(v)
	}
	dl := map[string]string{}
	for d, v := range lt.strDelims {
		dl[string(d)] = tc.name(v)
	}
	sort.Strings(lt.illegal)
	return map[string]any{"fixed_lexemes": fx, "keywords": kw, "string_delimiters": dl, "illegal": lt.illegal, "identifier_class": lt.identType, "construction_sites": lt.sites, "read_by": lt.source}
}

// ---------------------------------------------------------------------------------------------
// E3 parser tables

type parserTables struct {
	prec            map[int64]int64 // token -> level (package-level table)
	precPos         map[int64]token.Pos
	prefix          map[int64]*types.Func
	infix           map[int64]*types.Func
	entryPos        map[string]token.Pos
	dispatch        map[int64]*types.Func // statement dispatch
	dispatchDefault *types.Func
	ctor            *ast.FuncDecl
	baseStmt        *ast.FuncDecl
	baseExpr        *ast.FuncDecl
	stmtFld         *types.Var
	exprFld         *types.Var
	prefixFld       *types.Var
	infixFld        *types.Var
	precFld         *types.Var
	precVar         types.Object // the package-level binding-power table
	problems        []string
}

func (c *Ctx) parserTables() *parserTables {
	pt := &parserTables{prec: map[int64]int64{}, precPos: map[int64]token.Pos{}, prefix: map[int64]*types.Func{}, infix: map[int64]*types.Func{}, dispatch: map[int64]*types.Func{}, entryPos: map[string]token.Pos{}}
	p := c.Pkgs["parser"]
	info := p.TypesInfo
	// (a) package-level map[token.Type]int literal
	for _, f := range p.Syntax {
		for _, d := range f.Decls {
			gd, ok := d.(*ast.GenDecl)
			if !ok || gd.Tok != token.VAR {
				continue
			}
			for _, sp := range gd.Specs {
				vs := sp.(*ast.ValueSpec)
				for i := range vs.Names {
					if i >= len(vs.Values) {
						continue
					}
					cl, ok := vs.Values[i].(*ast.CompositeLit)
					if !ok {
						// a map[token.Type]int that is computed rather than written out: not read (fail closed)
						if tv, has := info.Types[vs.Values[i]]; has {
							if m, isMap := tv.Type.Underlying().(*types.Map); isMap && namedIs(m.Key(), "token", "Type") {
								if b, ok := m.Elem().Underlying().(*types.Basic); ok && b.Kind() == types.Int {
									// assembled from literal data at initialisation: folded (consteval.go)
									tbl, why := c.foldIntTable("parser", vs.Values[i])
									if tbl == nil {
										pt.problems = append(pt.problems, "the package-level binding-power table "+vs.Names[i].Name+" is computed by code that does not fold to a constant table ("+why+"): its entries are not read")
										continue
									}
									if g, _ := c.ssaGlobal("parser", vs.Names[i].Name); g == nil || !globalWrittenOnlyInInit(g) {
										pt.problems = append(pt.problems, "the package-level binding-power table "+vs.Names[i].Name+" is written after its initialisation")
										continue
									}
									for k, lv := range tbl {
										pt.prec[k] = lv
										pt.precPos[k] = vs.Values[i].Pos()
									}
									pt.precVar = info.Defs[vs.Names[i]]
								}
							}
						}
						continue
					}
					tv := info.Types[cl]
					m, ok := tv.Type.Underlying().(*types.Map)
					if !ok || !namedIs(m.Key(), "token", "Type") {
						continue
					}
					if b, ok := m.Elem().Underlying().(*types.Basic); !ok || b.Kind() != types.Int {
						continue
					}
					pt.precVar = info.Defs[vs.Names[i]]
					for _, el := range cl.Elts {
						kv := el.(*ast.KeyValueExpr)
						k, ok1 := c.tokConstOf(info, kv.Key)
						v, ok2 := constOfExpr(info, kv.Value)
						if !ok1 || !ok2 {
							pt.problems = append(pt.problems, "non-constant entry in the binding-power table")
							continue
						}
						lv, _ := constant.Int64Val(v)
						if _, dup := pt.prec[k]; dup {
							pt.problems = append(pt.problems, "duplicate key in the binding-power table")
						}
						pt.prec[k] = lv
						pt.precPos[k] = kv.Pos()
					}
				}
			}
		}
	}
	// fields by role
	pt.stmtFld = c.fieldByType("parser", "Parser", func(t types.Type) bool { return isFuncReturning(t, 1, "ast", "Statement") })
	pt.exprFld = c.fieldByType("parser", "Parser", func(t types.Type) bool { return isFuncReturning(t, 2, "ast", "Expression") })
	pt.prefixFld = c.fieldByType("parser", "Parser", func(t types.Type) bool {
		m, ok := t.Underlying().(*types.Map)
		return ok && namedIs(m.Key(), "token", "Type") && isFuncReturning(m.Elem(), 0, "ast", "Expression")
	})
	pt.infixFld = c.fieldByType("parser", "Parser", func(t types.Type) bool {
		m, ok := t.Underlying().(*types.Map)
		return ok && namedIs(m.Key(), "token", "Type") && isFuncReturning(m.Elem(), 1, "ast", "Expression")
	})
	pt.precFld = c.fieldByTypeUsedIn("parser", "Parser", func(t types.Type) bool {
		m, ok := t.Underlying().(*types.Map)
		if !ok || !namedIs(m.Key(), "token", "Type") {
			return false
		}
		b, ok := m.Elem().Underlying().(*types.Basic)
		return ok && b.Kind() == types.Int
	}, "(*parser.Parser).peekPrecedence", "(*parser.Parser).currentPrecedence")
	if pt.stmtFld == nil || pt.exprFld == nil || pt.prefixFld == nil || pt.infixFld == nil || pt.precFld == nil {
		pt.problems = append(pt.problems, "parser function/table fields not found by type")
		return pt
	}
	// (b) table entries: assignments p.<table>[K] = p.M anywhere in the constructor
	bs, _ := c.initialFieldFunc("parser", "Parser", func(v *types.Var) bool { return v == pt.stmtFld })
	be, _ := c.initialFieldFunc("parser", "Parser", func(v *types.Var) bool { return v == pt.exprFld })
	if bs == nil || be == nil {
		pt.problems = append(pt.problems, "initial statement/expression parse functions not found in the Parser literal")
		return pt
	}
	pt.baseStmt, pt.baseExpr = c.declIdx[bs], c.declIdx[be]
	for _, fd := range c.allFuncDecls("parser") {
		ast.Inspect(fd.Body, func(n ast.Node) bool {
			if cl, ok := n.(*ast.CompositeLit); ok {
				if tv, ok := info.Types[cl]; ok && namedIs(tv.Type, "parser", "Parser") && namedOf(tv.Type) != nil && namedOf(tv.Type).Obj().Name() == "Parser" {
					pt.ctor = fd
				}
			}
			return true
		})
	}
	if pt.ctor == nil {
		pt.problems = append(pt.problems, "constructor (function with a Parser composite literal) not found")
		return pt
	}
	// loop variables ranging over a package-level list of token constants: `for _, t := range list { table[t] = m }`
	// stands for one entry per element
	rangeKeys := map[types.Object][]int64{}
	ast.Inspect(pt.ctor.Body, func(n ast.Node) bool {
		rs, ok := n.(*ast.RangeStmt)
		if !ok || rs.Value == nil {
			return true
		}
		// a literal list written in the range clause itself: `for _, t := range []token.Type{token.A, token.B} {…}`
		if cl, isLit := ast.Unparen(rs.X).(*ast.CompositeLit); isLit {
			if vid, ok := rs.Value.(*ast.Ident); ok {
				var ks []int64
				okAll := len(cl.Elts) > 0
				for _, el := range cl.Elts {
					k, ok := c.tokConstOf(info, el)
					if !ok {
						okAll = false
						break
					}
					ks = append(ks, k)
				}
				reassigned := false
				ast.Inspect(rs.Body, func(m ast.Node) bool {
					if as, ok := m.(*ast.AssignStmt); ok {
						for _, l := range as.Lhs {
							if id, ok := l.(*ast.Ident); ok && info.ObjectOf(id) == info.ObjectOf(vid) {
								reassigned = true
							}
						}
					}
					return true
				})
				if okAll && !reassigned {
					rangeKeys[info.ObjectOf(vid)] = ks
				}
			}
			return true
		}
		src, ok := ast.Unparen(rs.X).(*ast.Ident)
		vid, ok2 := rs.Value.(*ast.Ident)
		if !ok || !ok2 {
			return true
		}
		gv, isVar := info.ObjectOf(src).(*types.Var)
		if !isVar || gv.Parent() != p.Types.Scope() {
			return true
		}
		c.buildSSA()
		g, _ := c.SSA["parser"].Members[src.Name].(*ssa.Global)
		if g == nil {
			return true
		}
		seq := globalSeqTable(g)
		if seq == nil {
			return true
		}
		var ks []int64
		for _, kv := range seq {
			if kv == nil {
				return true
			}
			n, ok := constant.Int64Val(kv)
			if !ok {
				return true
			}
			ks = append(ks, n)
		}
		// the loop variable must not be reassigned in the body
		reassigned := false
		ast.Inspect(rs.Body, func(m ast.Node) bool {
			if as, ok := m.(*ast.AssignStmt); ok {
				for _, l := range as.Lhs {
					if id, ok := l.(*ast.Ident); ok && info.ObjectOf(id) == info.ObjectOf(vid) {
						reassigned = true
					}
				}
			}
			return true
		})
		if !reassigned {
			rangeKeys[info.ObjectOf(vid)] = ks
		}
		return true
	})
	ast.Inspect(pt.ctor.Body, func(n ast.Node) bool {
		as, ok := n.(*ast.AssignStmt)
		if !ok || len(as.Lhs) != 1 || len(as.Rhs) != 1 {
			return true
		}
		ix, ok := as.Lhs[0].(*ast.IndexExpr)
		if !ok {
			return true
		}
		sel, ok := ix.X.(*ast.SelectorExpr)
		if !ok {
			return true
		}
		fld, _ := info.Uses[sel.Sel].(*types.Var)
		if fld != pt.prefixFld && fld != pt.infixFld {
			return true
		}
		var keys []int64
		if k, ok := c.tokConstOf(info, ix.Index); ok {
			keys = []int64{k}
		} else if kid, ok := ast.Unparen(ix.Index).(*ast.Ident); ok && rangeKeys[info.ObjectOf(kid)] != nil {
			keys = rangeKeys[info.ObjectOf(kid)]
		} else {
			pt.problems = append(pt.problems, "table entry with a non-constant key in the constructor")
			return true
		}
		msel, ok := as.Rhs[0].(*ast.SelectorExpr)
		var m *types.Func
		if ok {
			m, _ = info.Uses[msel.Sel].(*types.Func)
		}
		if m == nil {
			pt.problems = append(pt.problems, "table entry whose value is not a method value")
			return true
		}
		tbl := pt.prefix
		nm := "prefix"
		if fld == pt.infixFld {
			tbl, nm = pt.infix, "infix"
		}
		for _, k := range keys {
			if _, dup := tbl[k]; dup {
				pt.problems = append(pt.problems, fmt.Sprintf("%s table key assigned twice", nm))
			}
			tbl[k] = m
			pt.entryPos[fmt.Sprintf("%s/%d", nm, k)] = as.Pos()
		}
		return true
	})
	// (c) statement dispatch
	if pt.baseStmt != nil {
		for _, st := range pt.baseStmt.Body.List {
			sw, ok := st.(*ast.SwitchStmt)
			if !ok || sw.Tag == nil {
				continue
			}
			for _, cc := range sw.Body.List {
				cl := cc.(*ast.CaseClause)
				var m *types.Func
				ast.Inspect(cl, func(n ast.Node) bool {
					if call, ok := n.(*ast.CallExpr); ok && m == nil {
						if f, ok := calleeFunc(info, call); ok && f.Pkg() == p.Types {
							// a plain function wrapped around the parse call (a result converter): look inside
							if sig, ok := f.Type().(*types.Signature); ok && sig.Recv() == nil && len(call.Args) == 1 {
								if _, inner := ast.Unparen(call.Args[0]).(*ast.CallExpr); inner {
									return true
								}
							}
							m = f
						}
					}
					return true
				})
				if cl.List == nil {
					pt.dispatchDefault = m
					continue
				}
				for _, e := range cl.List {
					if k, ok := c.tokConstOf(info, e); ok {
						pt.dispatch[k] = m
					} else {
						pt.problems = append(pt.problems, "non-constant case in the statement dispatch")
					}
				}
			}
		}
		if len(pt.dispatch) == 0 {
			pt.problems = append(pt.problems, "statement dispatch: no switch on the current token type found (accepted idiom: switch p.CurrentToken.Type { case token.K: return p.ParseK() … })")
		}
	}
	return pt
}

func (pt *parserTables) dump(tc *tokConsts) map[string]any {
	pr := map[string]int64{}
	for k, v := range pt.prec {
		pr[tc.name(k)] = v
	}
	pf := map[string]string{}
	for k, v := range pt.prefix {
		pf[tc.name(k)] = v.Name()
	}
	inf := map[string]string{}
	for k, v := range pt.infix {
		inf[tc.name(k)] = v.Name()
	}
	ds := map[string]string{}
	for k, v := range pt.dispatch {
		if v != nil {
			ds[tc.name(k)] = v.Name()
		}
	}
	if pt.dispatchDefault != nil {
		ds["<default>"] = pt.dispatchDefault.Name()
	}
	return map[string]any{"binding_power": pr, "prefix": pf, "infix": inf, "statement_dispatch": ds}
}

// ---------------------------------------------------------------------------------------------
// E4 printer tables

type printerTables struct {
	nodes    []*types.Named
	exprs    map[string]*types.Named
	level    map[string]int64 // constant Precedence() per expression type
	tokLevel map[string]bool  // Precedence() = operatorPrecedence(x.Token.Type)
	opPrec   map[int64]int64  // operatorPrecedence folded per token constant
	opPrecFn *ssa.Function
	lowest   int64
	problems []string
}

func (c *Ctx) printerTables() *printerTables {
	c.buildSSA()
	pr := &printerTables{exprs: map[string]*types.Named{}, level: map[string]int64{}, tokLevel: map[string]bool{}, opPrec: map[int64]int64{}}
	pr.nodes = nodeTypes(c)
	tc := c.tokenConsts()
	// the function of package ast with signature func(token.Type) int
	for _, f := range c.libFunctions("ast") {
		if f.Signature.Recv() == nil && f.Parent() == nil && len(f.Params) == 1 && namedIs(f.Params[0].Type(), "token", "Type") && f.Signature.Results().Len() == 1 {
			if b, ok := f.Signature.Results().At(0).Type().Underlying().(*types.Basic); ok && b.Kind() == types.Int {
				if pr.opPrecFn != nil {
					pr.problems = append(pr.problems, "more than one func(token.Type) int in package ast")
				}
				pr.opPrecFn = f
			}
		}
	}
	if pr.opPrecFn == nil {
		pr.problems = append(pr.problems, "printer-side precedence function func(token.Type) int not found in package ast")
	} else {
		for _, n := range tc.names {
			v, ok := foldFn(pr.opPrecFn, []constant.Value{constant.MakeInt64(tc.byName[n])})
			if !ok {
				pr.problems = append(pr.problems, "printer precedence function does not fold to a constant for token "+n+" (accepted: comparisons of the parameter with constants, constant returns)")
				continue
			}
			iv, _ := constant.Int64Val(v)
			pr.opPrec[tc.byName[n]] = iv
		}
		// value for a token outside every case: a dynamic token id
		if v, ok := foldFn(pr.opPrecFn, []constant.Value{constant.MakeInt64(tc.dynStart + 7)}); ok {
			pr.lowest, _ = constant.Int64Val(v)
		}
	}
	for _, nt := range pr.nodes {
		f := methodFn(c, nt, "Precedence")
		if f == nil {
			continue
		}
		name := nt.Obj().Name()
		pr.exprs[name] = nt
		// constant return, or operatorPrecedence(recv.<tokenfield>.Type)
		var rets []ssa.Value
		allInstrs(f, func(_ *ssa.BasicBlock, _ int, in ssa.Instruction) {
			if r, ok := in.(*ssa.Return); ok && len(r.Results) == 1 {
				rets = append(rets, r.Results[0])
			}
		})
		if len(rets) != 1 {
			pr.problems = append(pr.problems, name+".Precedence has several returns")
			continue
		}
		if k, ok := constInt64(rets[0]); ok {
			pr.level[name] = k
			continue
		}
		if call, ok := rets[0].(*ssa.Call); ok && call.Call.StaticCallee() == pr.opPrecFn && pr.opPrecFn != nil {
			// argument: load of recv.Token.Type
			if u, ok := call.Call.Args[0].(*ssa.UnOp); ok {
				if fa, ok := u.X.(*ssa.FieldAddr); ok {
					if fa2, ok := fa.X.(*ssa.FieldAddr); ok && fa2.X == f.Params[0] && namedIs(deref(fa2.Type()), "token", "Token") {
						pr.tokLevel[name] = true
						continue
					}
				}
			}
		}
		pr.problems = append(pr.problems, name+".Precedence is neither a constant nor the precedence of the node's own token")
	}
	return pr
}

func (pr *printerTables) dump(tc *tokConsts) map[string]any {
	op := map[string]int64{}
	for k, v := range pr.opPrec {
		if v != pr.lowest {
			op[tc.name(k)] = v
		}
	}
	var tl []string
	for n := range pr.tokLevel {
		tl = append(tl, n)
	}
	sort.Strings(tl)
	var ns []string
	for _, n := range pr.nodes {
		ns = append(ns, n.Obj().Name())
	}
	return map[string]any{"node_types": ns, "printer_precedence_nonlowest": op, "printer_lowest": pr.lowest, "constant_levels": pr.level, "token_derived_levels": tl}
}

func tokSetNames(tc *tokConsts, m map[int64]bool) string {
	var s []string
	for k := range m {
		s = append(s, tc.name(k))
	}
	sort.Strings(s)
	return strings.Join(s, " ")
}

// ---- tables behind package-level variables (read from the package initialiser) ----------------------------------------

func zeroOf(t types.Type) constant.Value {
	switch b := t.Underlying().(type) {
	case *types.Basic:
		switch {
		case b.Info()&types.IsBoolean != 0:
			return constant.MakeBool(false)
		case b.Info()&types.IsString != 0:
			return constant.MakeString("")
		case b.Info()&types.IsNumeric != 0:
			return constant.MakeInt64(0)
		}
	}
	return nil
}

// globalOf: v is a load of a package-level variable (or the variable's address itself).
func globalOf(v ssa.Value) *ssa.Global {
	switch x := v.(type) {
	case *ssa.Global:
		return x
	case *ssa.UnOp:
		if x.Op == token.MUL {
			if g, ok := x.X.(*ssa.Global); ok {
				return g
			}
		}
	}
	return nil
}

// globalWrittenOnlyInInit: nothing outside the initialiser stores to the variable or updates the table behind it.
func globalWrittenOnlyInInit(g *ssa.Global) bool {
	ok := true
	for _, m := range g.Pkg.Members {
		f, isF := m.(*ssa.Function)
		if !isF {
			continue
		}
		for _, fn := range withClosures(f) {
			if fn.Name() == "init" || fn.Synthetic != "" && strings.HasPrefix(fn.Name(), "init") {
				continue
			}
			allInstrs(fn, func(_ *ssa.BasicBlock, _ int, in ssa.Instruction) {
				switch x := in.(type) {
				case *ssa.Store:
					if x.Addr == ssa.Value(g) {
						ok = false
					}
					if ia, isIA := x.Addr.(*ssa.IndexAddr); isIA && globalOf(ia.X) == g {
						ok = false
					}
				case *ssa.MapUpdate:
					if globalOf(x.Map) == g {
						ok = false
					}
				}
			})
		}
	}
	return ok
}

var globalMapCache = map[*ssa.Global]map[string]constant.Value{}

// globalMapTable: constant key -> constant value of a package-level map built by a literal; nil when not understood.
func globalMapTable(v ssa.Value) map[string]constant.Value {
	g := globalOf(v)
	if g == nil {
		return nil
	}
	if t, ok := globalMapCache[g]; ok {
		return t
	}
	globalMapCache[g] = nil
	init := g.Pkg.Func("init")
	if init == nil || !globalWrittenOnlyInInit(g) {
		return nil
	}
	var mk ssa.Value
	allInstrs(init, func(_ *ssa.BasicBlock, _ int, in ssa.Instruction) {
		if st, ok := in.(*ssa.Store); ok && st.Addr == ssa.Value(g) {
			mk = st.Val
		}
	})
	mm, ok := mk.(*ssa.MakeMap)
	if !ok {
		return nil
	}
	tbl := map[string]constant.Value{}
	good := true
	for _, r := range *mm.Referrers() {
		switch x := r.(type) {
		case *ssa.MapUpdate:
			k, ok1 := x.Key.(*ssa.Const)
			val, ok2 := unwrap(x.Value).(*ssa.Const)
			if !ok1 || !ok2 || k.Value == nil || val.Value == nil {
				good = false
				continue
			}
			tbl[k.Value.ExactString()] = val.Value
		case *ssa.Store, *ssa.DebugRef:
		default:
			good = false
		}
	}
	if !good {
		return nil
	}
	globalMapCache[g] = tbl
	return tbl
}

var globalSeqCache = map[*ssa.Global][]constant.Value{}

// globalSeqTable: the constant elements of a package-level array or slice built by a literal; nil when not understood.
func globalSeqTable(v ssa.Value) []constant.Value {
	g := globalOf(v)
	if g == nil {
		return nil
	}
	if t, ok := globalSeqCache[g]; ok {
		return t
	}
	globalSeqCache[g] = nil
	init := g.Pkg.Func("init")
	if init == nil || !globalWrittenOnlyInInit(g) {
		return nil
	}
	var out []constant.Value
	switch tt := deref(g.Type()).Underlying().(type) {
	case *types.Array:
		out = make([]constant.Value, tt.Len())
		zero := zeroOf(tt.Elem())
		for i := range out {
			out[i] = zero
		}
		good := true
		allInstrs(init, func(_ *ssa.BasicBlock, _ int, in ssa.Instruction) {
			st, ok := in.(*ssa.Store)
			if !ok {
				return
			}
			ia, ok := st.Addr.(*ssa.IndexAddr)
			if !ok || ia.X != ssa.Value(g) {
				if st.Addr == ssa.Value(g) {
					good = false // whole-array store (computed table)
				}
				return
			}
			i, ok1 := constInt64(ia.Index)
			k, ok2 := unwrap(st.Val).(*ssa.Const)
			if !ok1 || !ok2 || k.Value == nil || i < 0 || i >= int64(len(out)) {
				good = false
				return
			}
			out[i] = k.Value
		})
		if !good {
			return nil
		}
	case *types.Slice:
		var lit ssa.Value
		allInstrs(init, func(_ *ssa.BasicBlock, _ int, in ssa.Instruction) {
			if st, ok := in.(*ssa.Store); ok && st.Addr == ssa.Value(g) {
				lit = st.Val
			}
		})
		el, ok := sliceLitElems(lit)
		if !ok {
			return nil
		}
		for _, e := range el {
			k, ok := unwrap(e).(*ssa.Const)
			if !ok || k.Value == nil {
				return nil
			}
			out = append(out, k.Value)
		}
	default:
		return nil
	}
	globalSeqCache[g] = out
	return out
}

// foldStdCall evaluates the pure standard-library predicates the library uses on constants.
func foldStdCall(call *ssa.Call, get func(ssa.Value) (constant.Value, bool)) (constant.Value, bool) {
	cal := call.Call.StaticCallee()
	if cal == nil || cal.Pkg == nil {
		return nil, false
	}
	path := cal.Pkg.Pkg.Path()
	name := cal.Name()
	if o := cal.Origin(); o != nil {
		name = o.Name()
	}
	arg := func(i int) (constant.Value, bool) {
		if i >= len(call.Call.Args) {
			return nil, false
		}
		return get(call.Call.Args[i])
	}
	switch {
	case path == "strings" && (name == "IndexByte" || name == "IndexRune"):
		s, ok1 := arg(0)
		b, ok2 := arg(1)
		if !ok1 || !ok2 || s.Kind() != constant.String {
			return nil, false
		}
		bv, ok := constant.Int64Val(b)
		if !ok {
			return nil, false
		}
		if name == "IndexByte" {
			return constant.MakeInt64(int64(strings.IndexByte(constant.StringVal(s), byte(bv)))), true
		}
		return constant.MakeInt64(int64(strings.IndexRune(constant.StringVal(s), rune(bv)))), true
	case path == "strings" && name == "ContainsRune":
		s, ok1 := arg(0)
		b, ok2 := arg(1)
		if !ok1 || !ok2 || s.Kind() != constant.String {
			return nil, false
		}
		bv, ok := constant.Int64Val(b)
		if !ok {
			return nil, false
		}
		return constant.MakeBool(strings.ContainsRune(constant.StringVal(s), rune(bv))), true
	case path == "slices" && (name == "Contains" || name == "Index"):
		el := globalSeqTable(call.Call.Args[0])
		k, ok := arg(1)
		if el == nil || !ok {
			return nil, false
		}
		idx := -1
		for i, e := range el {
			if constant.Compare(e, token.EQL, k) {
				idx = i
				break
			}
		}
		if name == "Contains" {
			return constant.MakeBool(idx >= 0), true
		}
		return constant.MakeInt64(int64(idx)), true
	}
	return nil, false
}

func (c *Ctx) ssaGlobal(pkg, name string) (*ssa.Global, bool) {
	c.buildSSA()
	sp := c.SSA[pkg]
	if sp == nil {
		return nil, false
	}
	g, ok := sp.Members[name].(*ssa.Global)
	return g, ok
}
