package main

import (
	"fmt"
	"go/constant"
	"go/token"
	"go/types"

	"golang.org/x/tools/go/ssa"
)

// parserAnchors: role-derived anchors of package parser shared by the parser rule sets.
type parserAnchors struct {
	ctx          *Ctx
	cur, peek    *types.Var // Parser.CurrentToken / Parser.PeekToken (exported API)
	errorsFld    *types.Var // the []ParserError field
	nextTok      *ssa.Function
	expect       *ssa.Function // ExpectToken
	expectSemi   *ssa.Function // ExpectSemicolonASI
	addErrAt     *ssa.Function // the function that appends to the error list
	errRecorders map[*ssa.Function]bool
	ctor         *ssa.Function
	tolerant     *types.Var                  // Parser field reached from WithTolerantMode
	smart        *types.Var                  // Parser field reached from WithSmartSemicolon
	flow         map[string][]string         // recorded option flows
	flagPath     map[*types.Var][]*types.Var // mode flag -> its field path inside Parser
	problems     []string
}

func (c *Ctx) parserAnchors() *parserAnchors {
	c.buildSSA()
	a := &parserAnchors{ctx: c, errRecorders: map[*ssa.Function]bool{}, flow: map[string][]string{}}
	a.cur = c.fieldByName("parser", "Parser", "CurrentToken")
	a.peek = c.fieldByName("parser", "Parser", "PeekToken")
	a.errorsFld = c.fieldByType("parser", "Parser", func(t types.Type) bool {
		s, ok := t.Underlying().(*types.Slice)
		return ok && namedIs(s.Elem(), "parser", "ParserError")
	})
	a.nextTok = c.fn("(*parser.Parser).NextToken")
	a.expect = c.fn("(*parser.Parser).ExpectToken")
	a.expectSemi = c.fn("(*parser.Parser).ExpectSemicolonASI")
	if a.cur == nil || a.peek == nil || a.errorsFld == nil || a.nextTok == nil || a.expect == nil || a.expectSemi == nil {
		a.problems = append(a.problems, "Parser.CurrentToken/PeekToken, the []ParserError field, NextToken, ExpectToken or ExpectSemicolonASI not found")
		return a
	}
	for _, f := range c.libFunctions("parser") {
		allInstrs(f, func(_ *ssa.BasicBlock, _ int, in ssa.Instruction) {
			if al, ok := in.(*ssa.Alloc); ok && a.ctor == nil {
				if namedIs(al.Type(), "parser", "Parser") {
					a.ctor = f
				}
			}
			if st, ok := in.(*ssa.Store); ok {
				if _, ok := isFieldAddr(st.Addr, a.errorsFld); ok {
					if _, isApp := isBuiltinCall(st.Val, "append"); isApp {
						// several appenders: the exported API method is the constructor, the others are reported by R11.4
						if a.addErrAt == nil || f.Name() == "AddErrorAtToken" {
							a.addErrAt = f
						}
					}
				}
			}
		})
	}
	if a.addErrAt == nil || a.ctor == nil {
		a.problems = append(a.problems, "error constructor (function appending to the error list) or parser constructor not found")
		return a
	}
	a.errRecorders[a.addErrAt] = true
	// functions whose single block unconditionally calls a recorder are recorders too (AddError)
	for changed := true; changed; {
		changed = false
		for _, f := range c.libFunctions("parser") {
			if a.errRecorders[f] || len(f.Blocks) != 1 {
				continue
			}
			allInstrs(f, func(_ *ssa.BasicBlock, _ int, in ssa.Instruction) {
				if call, ok := in.(*ssa.Call); ok && a.errRecorders[call.Call.StaticCallee()] && !a.errRecorders[f] {
					a.errRecorders[f] = true
					changed = true
				}
			})
		}
	}
	a.tolerant = c.optionFlow(a, "WithTolerantMode")
	a.smart = c.optionFlow(a, "WithSmartSemicolon")
	return a
}

// fieldPath: addr = &(&(&root.f1).f2).f3 -> (root, [f1 f2 f3]); a plain value gives (v, nil).
func fieldPath(addr ssa.Value) (ssa.Value, []*types.Var) {
	var path []*types.Var
	for {
		fa, ok := addr.(*ssa.FieldAddr)
		if !ok {
			break
		}
		path = append([]*types.Var{fieldOfAddr(fa)}, path...)
		addr = fa.X
	}
	return addr, path
}

// loadedPath: v = *addr (or a Field extraction chain of a loaded struct) -> root and field path of what is read.
func loadedPath(v ssa.Value) (ssa.Value, []*types.Var) {
	var suffix []*types.Var
	for {
		fv, ok := v.(*ssa.Field)
		if !ok {
			break
		}
		suffix = append([]*types.Var{fieldOfField(fv)}, suffix...)
		v = fv.X
	}
	u, ok := v.(*ssa.UnOp)
	if !ok || u.Op != token.MUL {
		return nil, nil
	}
	root, path := fieldPath(u.X)
	if len(path) == 0 && len(suffix) == 0 {
		return nil, nil
	}
	return root, append(path, suffix...)
}

func isPathPrefix(pre, full []*types.Var) bool {
	if len(pre) == 0 || len(pre) > len(full) {
		return false
	}
	for i := range pre {
		if pre[i] != full[i] {
			return false
		}
	}
	return true
}

func pathString(owner string, path []*types.Var) string {
	out := owner
	for _, v := range path {
		out += "." + v.Name()
	}
	return out
}

// optionFlow follows builder setter parameter -> builder field -> options field -> parser field. A field may sit
// inside a struct that is copied as a whole (Builder.modes.tolerant -> options.modes -> Parser.modes): the flow is
// tracked as a field path, a copy of any prefix of the path carries the rest of it along.
func (c *Ctx) optionFlow(a *parserAnchors, setter string) *types.Var {
	f := c.fn("(*parser.Builder)." + setter)
	if f == nil || len(f.Params) != 2 {
		a.problems = append(a.problems, setter+" not found")
		return nil
	}
	var bpath []*types.Var
	n := 0
	allInstrs(f, func(_ *ssa.BasicBlock, _ int, in ssa.Instruction) {
		if st, ok := in.(*ssa.Store); ok {
			if root, path := fieldPath(st.Addr); root == ssa.Value(f.Params[0]) && len(path) > 0 {
				n++
				if st.Val == ssa.Value(f.Params[1]) {
					bpath = path
				}
			}
		}
	})
	if bpath == nil || n != 1 {
		a.problems = append(a.problems, setter+": does not store exactly its parameter into one builder field")
		return nil
	}
	// step: in function fn, exactly one store copies a prefix of src (read from a value of type fromType) somewhere;
	// the destination path plus the uncopied rest of src is the new path
	// wholeValue: v is the complete value of the named struct type (a by-value parameter, or the load of the local
	// copy go/ssa makes of such a parameter)
	wholeValue := func(v ssa.Value, pkg, typ string) bool {
		if _, isPtr := v.Type().Underlying().(*types.Pointer); isPtr || !namedIs(v.Type(), pkg, typ) {
			return false
		}
		switch x := v.(type) {
		case *ssa.Parameter:
			return true
		case *ssa.UnOp:
			if al, ok := x.X.(*ssa.Alloc); ok && x.Op == token.MUL {
				// the local is filled by exactly one store, of the parameter
				n, fromParam := 0, false
				for _, r := range *al.Referrers() {
					if st, ok := r.(*ssa.Store); ok && st.Addr == ssa.Value(al) {
						n++
						_, fromParam = st.Val.(*ssa.Parameter)
					}
				}
				return n == 1 && fromParam
			}
		}
		return false
	}
	step := func(fn *ssa.Function, src []*types.Var, fromPkg, fromType string) ([]*types.Var, ssa.Value, int) {
		var dst []*types.Var
		var dstRoot ssa.Value
		cnt := 0
		if fn == nil {
			return nil, nil, 0
		}
		allInstrs(fn, func(_ *ssa.BasicBlock, _ int, in ssa.Instruction) {
			// the whole struct handed to the constructor by value: `newWithOptions(l, pb.options)` — the parameter is the
			// new root, the rest of the path stays
			if call, ok := in.(*ssa.Call); ok {
				cal := call.Call.StaticCallee()
				if cal == nil || cal != a.ctor {
					return
				}
				for i, av := range call.Call.Args {
					root, path := loadedPath(av)
					if root == nil || !namedIs(root.Type(), fromPkg, fromType) || !isPathPrefix(path, src) || len(path) == len(src) || i >= len(cal.Params) {
						continue
					}
					cnt++
					dst = append([]*types.Var(nil), src[len(path):]...)
					dstRoot = cal.Params[i]
				}
				return
			}
			st, ok := in.(*ssa.Store)
			if !ok {
				return
			}
			if wholeValue(st.Val, fromPkg, fromType) {
				// the whole options value stored into a field: the path continues below that field
				droot, dpath := fieldPath(st.Addr)
				if len(dpath) > 0 {
					cnt++
					dst = append(append([]*types.Var(nil), dpath...), src...)
					dstRoot = droot
				}
				return
			}
			root, path := loadedPath(st.Val)
			if root == nil || !namedIs(root.Type(), fromPkg, fromType) || !isPathPrefix(path, src) {
				return
			}
			cnt++
			droot, dpath := fieldPath(st.Addr)
			if len(dpath) == 0 {
				return
			}
			dst = append(append([]*types.Var(nil), dpath...), src[len(path):]...)
			dstRoot = droot
		})
		return dst, dstRoot, cnt
	}
	build := c.fn("(*parser.Builder).Build")
	opath, oroot, nb := step(build, bpath, "parser", "Builder")
	if opath == nil || nb != 1 || namedIs(oroot.Type(), "parser", "Builder") {
		a.problems = append(a.problems, fmt.Sprintf("%s: builder field %s is not copied into exactly one options field by Build (found %d reads)", setter, pathString("Builder", bpath), nb))
		return nil
	}
	otype := namedOf(deref(oroot.Type()))
	if otype == nil {
		a.problems = append(a.problems, setter+": the options value Build fills has no named type")
		return nil
	}
	ppath, proot, np := step(a.ctor, opath, "parser", otype.Obj().Name())
	if ppath == nil || np != 1 || !namedIs(proot.Type(), "parser", "Parser") {
		a.problems = append(a.problems, fmt.Sprintf("%s: options field %s is not stored into exactly one Parser field by the constructor (found %d)", setter, pathString(otype.Obj().Name(), opath), np))
		return nil
	}
	a.flow[setter] = []string{pathString("Builder", bpath), pathString(otype.Obj().Name(), opath), pathString("Parser", ppath)}
	if a.flagPath == nil {
		a.flagPath = map[*types.Var][]*types.Var{}
	}
	leaf := ppath[len(ppath)-1]
	a.flagPath[leaf] = ppath
	return leaf
}

// writesFlag: st stores to the parser's copy of the mode flag fld (the field itself or a struct that contains it).
func (a *parserAnchors) writesFlag(st *ssa.Store, fld *types.Var) bool {
	root, path := fieldPath(st.Addr)
	if len(path) == 0 || !namedIs(root.Type(), "parser", "Parser") {
		return false
	}
	return isPathPrefix(path, a.flagPath[fld])
}

// ---- condition atoms -------------------------------------------------------------------------

type atomKind int

const (
	atOpaque      atomKind = iota
	atPeekType             // PeekToken.Type == k
	atCurType              // CurrentToken.Type == k
	atPeekNewline          // PeekToken.AfterNewline
	atFlag                 // bool field of Parser
	atCall                 // bool call
	atNil                  // value == nil
	atCmp                  // other comparison
)

type atom struct {
	kind atomKind
	neg  bool // the atom holds when the condition is FALSE
	k    int64
	fld  *types.Var
	call *ssa.Call
	val  ssa.Value
	bin  *ssa.BinOp
}

// tokenFieldLoad: v = *(&(&p.<tokfld>).<sub>)
func tokenFieldLoad(v ssa.Value, tokfld *types.Var, sub string) bool {
	u, ok := v.(*ssa.UnOp)
	if !ok || u.Op != token.MUL {
		return false
	}
	fa, ok := u.X.(*ssa.FieldAddr)
	if !ok || fieldOfAddr(fa) == nil || fieldOfAddr(fa).Name() != sub {
		return false
	}
	if fa2, ok := fa.X.(*ssa.FieldAddr); ok {
		return fieldOfAddr(fa2) == tokfld
	}
	// a local copy of the token (`next := p.PeekToken`): one store, of the loaded token field; the copy is read in the
	// same function (a predicate does not advance between the copy and the test)
	if al, ok := fa.X.(*ssa.Alloc); ok && !al.Heap {
		var src ssa.Value
		n := 0
		for _, r := range *al.Referrers() {
			if st, ok := r.(*ssa.Store); ok && st.Addr == ssa.Value(al) {
				n++
				src = st.Val
			}
		}
		if n == 1 {
			if ld, ok := src.(*ssa.UnOp); ok && ld.Op == token.MUL {
				if fa3, ok := ld.X.(*ssa.FieldAddr); ok && fieldOfAddr(fa3) == tokfld {
					return true
				}
			}
		}
	}
	return false
}

func (a *parserAnchors) parseCond(v ssa.Value) atom {
	neg := false
	for {
		if u, ok := v.(*ssa.UnOp); ok && u.Op == token.NOT {
			neg = !neg
			v = u.X
			continue
		}
		break
	}
	switch x := v.(type) {
	case *ssa.BinOp:
		if x.Op == token.EQL || x.Op == token.NEQ {
			n := neg != (x.Op == token.NEQ)
			for _, pair := range [][2]ssa.Value{{x.X, x.Y}, {x.Y, x.X}} {
				if k, ok := constInt64(unwrap(pair[1])); ok {
					if tokenFieldLoad(pair[0], a.peek, "Type") {
						return atom{kind: atPeekType, neg: n, k: k, bin: x}
					}
					if tokenFieldLoad(pair[0], a.cur, "Type") {
						return atom{kind: atCurType, neg: n, k: k, bin: x}
					}
				}
				if kk, ok := pair[1].(*ssa.Const); ok && kk.IsNil() {
					return atom{kind: atNil, neg: n, val: pair[0], bin: x}
				}
			}
		}
		return atom{kind: atCmp, neg: neg, bin: x}
	case *ssa.UnOp:
		if tokenFieldLoad(x, a.peek, "AfterNewline") {
			return atom{kind: atPeekNewline, neg: neg}
		}
		if x.Op == token.MUL {
			// a bool field of the parser, possibly inside a struct field (p.modes.tolerant)
			if root, path := fieldPath(x.X); len(path) > 0 && namedIs(root.Type(), "parser", "Parser") {
				leaf := path[len(path)-1]
				if b, ok := leaf.Type().Underlying().(*types.Basic); ok && b.Kind() == types.Bool {
					return atom{kind: atFlag, neg: neg, fld: leaf}
				}
			}
		}
	case *ssa.Call:
		return atom{kind: atCall, neg: neg, call: x}
	}
	return atom{kind: atOpaque, neg: neg, val: v}
}

// edgeAtom: the atom that holds on the edge b -> b.Succs[i] (b ends in If).
func (a *parserAnchors) edgeAtom(b *ssa.BasicBlock, i int) (atom, bool) {
	iff := blockIf(b)
	if iff == nil {
		return atom{}, false
	}
	at := a.parseCond(iff.Cond)
	if i == 1 {
		at.neg = !at.neg
	}
	return at, true
}

// pathFact: one conditional edge taken on a path.
type pathFact struct {
	at   atom
	from *ssa.BasicBlock
}

// enumPaths enumerates acyclic paths from block start to every Return (or block satisfying stop), calling visit with
// the facts collected along the path and the instructions seen. It bounds the number of paths.
//
// The enumeration is sensitive to values carried through phis: a branch on a bool variable assigned on the way
// (`terminated := …; if terminated …`, a short-circuit join) is resolved along the path to the value it has there —
// a constant selects the branch, a condition value contributes its facts; a value already branched on earlier on the
// path is not split again, and an alternative whose configuration-flag fact contradicts an earlier one is dropped
// (those flags are written by the constructor only: R13.3).
func (a *parserAnchors) enumPaths(start *ssa.BasicBlock, visit func(facts []pathFact, blocks []*ssa.BasicBlock, last *ssa.BasicBlock)) bool {
	return a.enumCore(start, false, func(facts []pathFact, blocks []*ssa.BasicBlock, last *ssa.BasicBlock, back bool) {
		visit(facts, blocks, last)
	})
}

// enumPathsAll is enumPaths that also reports the paths that end at a back edge (back == true): one loop iteration
// that goes round again.
func (a *parserAnchors) enumPathsAll(start *ssa.BasicBlock, visit func(facts []pathFact, blocks []*ssa.BasicBlock, last *ssa.BasicBlock, back bool)) bool {
	return a.enumCore(start, true, visit)
}

// flagContradiction: the new facts say the opposite of an earlier fact about the same configuration flag.
func (a *parserAnchors) flagContradiction(facts, more []pathFact) bool {
	for _, n := range more {
		if n.at.kind != atFlag || n.at.fld == nil || a.flagPath[n.at.fld] == nil {
			continue // only the mode flags: they are written by the constructor alone (R13.3)
		}
		for _, o := range facts {
			if o.at.kind == atFlag && o.at.fld == n.at.fld && o.at.neg != n.at.neg {
				return true
			}
		}
	}
	return false
}

func stripNot(v ssa.Value, want bool) (ssa.Value, bool) {
	for {
		if u, ok := v.(*ssa.UnOp); ok && u.Op == token.NOT {
			v, want = u.X, !want
			continue
		}
		return v, want
	}
}

func (a *parserAnchors) enumCore(start *ssa.BasicBlock, all bool, visit func(facts []pathFact, blocks []*ssa.BasicBlock, last *ssa.BasicBlock, back bool)) bool {
	count := 0
	const limit = 20000
	type decision struct {
		v   ssa.Value
		out bool
	}
	var rec func(b *ssa.BasicBlock, facts []pathFact, blocks []*ssa.BasicBlock, on map[*ssa.BasicBlock]bool, decided []decision) bool
	rec = func(b *ssa.BasicBlock, facts []pathFact, blocks []*ssa.BasicBlock, on map[*ssa.BasicBlock]bool, decided []decision) bool {
		if on[b] {
			if all {
				count++
				if count > limit {
					return false
				}
				visit(facts, blocks, b, true)
			}
			return true // back edge: the loop iteration ends here
		}
		on[b] = true
		defer delete(on, b)
		blocks = append(blocks, b)
		if len(b.Succs) == 0 {
			count++
			if count > limit {
				return false
			}
			visit(facts, blocks, b, false)
			return true
		}
		iff := blockIf(b)
		if iff == nil {
			for _, s := range b.Succs {
				if !rec(s, facts, blocks, on, decided) {
					return false
				}
			}
			return true
		}
		// the value branched on, as it is on this path
		cond, flip := stripNot(iff.Cond, true)
		resolved := cond
		if _, isPhi := cond.(*ssa.Phi); isPhi {
			resolved = phiOnPath(cond, blocks)
			var f2 bool
			resolved, f2 = stripNot(resolved, true)
			if !f2 {
				flip = !flip
			}
		}
		for i, s := range b.Succs {
			want := (i == 0) == flip // the outcome of `resolved` on this edge
			if k, ok := resolved.(*ssa.Const); ok && k.Value != nil && k.Value.Kind() == constant.Bool {
				if constant.BoolVal(k.Value) != want {
					continue // not taken on this path
				}
				if !rec(s, facts, blocks, on, decided) {
					return false
				}
				continue
			}
			known, prior := false, false
			for _, d := range decided {
				if d.v == resolved {
					known, prior = true, d.out
				}
			}
			if known {
				if prior != want {
					continue // the same value was found otherwise earlier on this path
				}
				if !rec(s, facts, blocks, on, decided) {
					return false
				}
				continue
			}
			d2 := append(append([]decision(nil), decided...), decision{resolved, want})
			from := b
			if resolved != cond {
				if in, ok := resolved.(ssa.Instruction); ok && in.Block() != nil {
					from = in.Block() // the condition was evaluated there
				}
			}
			// conditions that are calls of pure predicates of the package, or membership tests in a package-level
			// token list, are expanded into the alternatives under which they hold
			if alts := a.expandCond(resolved, want, from, 0); alts != nil {
				for _, alt := range alts {
					if a.flagContradiction(facts, alt) {
						continue
					}
					f2 := append(append([]pathFact(nil), facts...), alt...)
					if !rec(s, f2, blocks, on, d2) {
						return false
					}
				}
				continue
			}
			at := a.parseCond(resolved)
			if !want {
				at.neg = !at.neg
			}
			one := []pathFact{{at, from}}
			if a.flagContradiction(facts, one) {
				continue
			}
			f2 := append(append([]pathFact(nil), facts...), one...)
			if !rec(s, f2, blocks, on, d2) {
				return false
			}
		}
		return true
	}
	return rec(start, nil, nil, map[*ssa.BasicBlock]bool{}, nil)
}

// retAlt: one way a bool-returning path can end: the returned value and the facts that make it so.
type retAlt struct {
	val   bool
	facts []pathFact
}

// returnAlternatives resolves the bool value a path returns: a constant as it is, a variable through the phis of
// the path, and a condition value (a flag, a comparison, a pure predicate) split into the alternative in which it is
// true and the one in which it is false, each with its facts added.
func (a *parserAnchors) returnAlternatives(v ssa.Value, facts []pathFact, blocks []*ssa.BasicBlock, last *ssa.BasicBlock) []retAlt {
	v = phiOnPath(v, blocks)
	v, pos := stripNot(v, true)
	if k, ok := v.(*ssa.Const); ok && k.Value != nil && k.Value.Kind() == constant.Bool {
		return []retAlt{{constant.BoolVal(k.Value) == pos, facts}}
	}
	// a value the path has branched on already
	var out []retAlt
	for _, want := range []bool{true, false} {
		from := last
		if in, ok := v.(ssa.Instruction); ok && in.Block() != nil {
			from = in.Block()
		}
		if alts := a.expandCond(v, want, from, 0); alts != nil {
			for _, alt := range alts {
				if a.flagContradiction(facts, alt) || a.factContradiction(facts, alt) {
					continue
				}
				out = append(out, retAlt{want == pos, append(append([]pathFact(nil), facts...), alt...)})
			}
			continue
		}
		at := a.parseCond(v)
		if !want {
			at.neg = !at.neg
		}
		one := []pathFact{{at, from}}
		if a.flagContradiction(facts, one) || a.factContradiction(facts, one) {
			continue
		}
		out = append(out, retAlt{want == pos, append(append([]pathFact(nil), facts...), one...)})
	}
	return out
}

// factContradiction: the new facts repeat a condition of the path (same SSA condition: same comparison or call
// instruction) with the opposite outcome.
func (a *parserAnchors) factContradiction(facts, more []pathFact) bool {
	for _, n := range more {
		for _, o := range facts {
			if n.at.kind != o.at.kind || n.at.neg == o.at.neg {
				continue
			}
			switch n.at.kind {
			case atCmp:
				if n.at.bin != nil && n.at.bin == o.at.bin {
					return true
				}
			case atCall:
				if n.at.call != nil && n.at.call == o.at.call {
					return true
				}
			}
		}
	}
	return false
}

// purePredicate: a function of package parser returning one bool that neither consumes tokens, records errors nor
// stores anything (a named condition).
func (a *parserAnchors) purePredicate(f *ssa.Function) bool {
	if f == nil || f.Blocks == nil || f.Signature.Results().Len() != 1 {
		return false
	}
	if b, ok := f.Signature.Results().At(0).Type().Underlying().(*types.Basic); !ok || b.Kind() != types.Bool {
		return false
	}
	if a.nextTok == nil || f.Pkg != a.nextTok.Pkg {
		return false
	}
	pure := true
	allInstrs(f, func(_ *ssa.BasicBlock, _ int, in ssa.Instruction) {
		switch x := in.(type) {
		case *ssa.Store:
			if !storesIntoOwnLocal(x) {
				pure = false
			}
		case *ssa.MapUpdate, *ssa.Send, *ssa.Go, *ssa.Defer, *ssa.Panic:
			pure = false
		case *ssa.Call:
			cal := x.Call.StaticCallee()
			if cal == nil {
				if _, isB := x.Call.Value.(*ssa.Builtin); !isB {
					pure = false
				}
				return
			}
			if cal.Pkg == f.Pkg && !a.purePredicate(cal) && !a.pureReader(cal) {
				pure = false
			}
		}
	})
	return pure
}

// storesIntoOwnLocal: the store fills a local variable that does not escape (the copy of a table row a range loop
// makes); nothing outside the function can observe it.
func storesIntoOwnLocal(st *ssa.Store) bool {
	al, ok := st.Addr.(*ssa.Alloc)
	return ok && !al.Heap
}

// pureReader: a function of the package without stores and without calls other than to pure functions (level readers).
func (a *parserAnchors) pureReader(f *ssa.Function) bool {
	return a.pureReaderDepth(f, 0)
}

func (a *parserAnchors) pureReaderDepth(f *ssa.Function, depth int) bool {
	if f == nil || f.Blocks == nil || depth > 3 {
		return false
	}
	ok := true
	allInstrs(f, func(_ *ssa.BasicBlock, _ int, in ssa.Instruction) {
		switch x := in.(type) {
		case *ssa.Store:
			if !storesIntoOwnLocal(x) {
				ok = false
			}
		case *ssa.MapUpdate, *ssa.Send, *ssa.Go, *ssa.Defer, *ssa.Panic:
			ok = false
		case *ssa.Call:
			if _, isB := x.Call.Value.(*ssa.Builtin); isB {
				return
			}
			// a call to another store-free function of the same package
			if cal := x.Call.StaticCallee(); cal != nil && cal.Pkg == f.Pkg && cal != f && a.pureReaderDepth(cal, depth+1) {
				return
			}
			ok = false
		}
	})
	return ok
}

// expandCond returns the alternative fact lists under which cond evaluates to want, or nil when cond is an ordinary
// atom (the caller then records the atom itself).
func (a *parserAnchors) expandCond(cond ssa.Value, want bool, from *ssa.BasicBlock, depth int) [][]pathFact {
	for {
		if u, ok := cond.(*ssa.UnOp); ok && u.Op == token.NOT {
			cond, want = u.X, !want
			continue
		}
		break
	}
	call, ok := cond.(*ssa.Call)
	if !ok || depth > 3 {
		return nil
	}
	cal := call.Call.StaticCallee()
	if cal == nil {
		return nil
	}
	// slices.Contains(<package-level token list>, <peek or current token type>)
	if extFuncIs(cal, "slices", "Contains") && len(call.Call.Args) == 2 {
		el := globalSeqTable(call.Call.Args[0])
		kind := atomKind(-1)
		switch {
		case tokenFieldLoad(call.Call.Args[1], a.peek, "Type"):
			kind = atPeekType
		case tokenFieldLoad(call.Call.Args[1], a.cur, "Type"):
			kind = atCurType
		}
		if el == nil || kind < 0 {
			return nil
		}
		var alts [][]pathFact
		if want {
			for _, e := range el {
				k, _ := constant.Int64Val(e)
				alts = append(alts, []pathFact{{atom{kind: kind, k: k}, from}})
			}
			return alts
		}
		var all []pathFact
		for _, e := range el {
			k, _ := constant.Int64Val(e)
			all = append(all, pathFact{atom{kind: kind, neg: true, k: k}, from})
		}
		return [][]pathFact{all}
	}
	if !a.purePredicate(cal) {
		if a.ctx != nil {
			return a.foldPredicate(a.ctx, call, want, from)
		}
		return nil
	}
	// a predicate with a loop (a walk over a table) is folded per state: its paths say nothing the rules can use
	if a.ctx != nil && (loopHeader(cal) != nil || len(call.Call.Args) > 1) {
		if alts := a.foldPredicate(a.ctx, call, want, from); alts != nil {
			return alts
		}
	}
	var alts [][]pathFact
	understood := true
	complete := a.enumPathsBlocks(cal.Blocks[0], func(facts []pathFact, blocks []*ssa.BasicBlock, last *ssa.BasicBlock) {
		ret, ok := last.Instrs[len(last.Instrs)-1].(*ssa.Return)
		if !ok || len(ret.Results) != 1 {
			understood = false
			return
		}
		v := ret.Results[0]
		if phi, ok := v.(*ssa.Phi); ok && phi.Block() == last && len(blocks) >= 2 {
			prev := blocks[len(blocks)-2]
			for i, p := range last.Preds {
				if p == prev {
					v = phi.Edges[i]
				}
			}
		}
		if k, ok := v.(*ssa.Const); ok && k.Value != nil && k.Value.Kind() == constant.Bool {
			if constant.BoolVal(k.Value) == want {
				alts = append(alts, append([]pathFact(nil), facts...))
			}
			return
		}
		// the result is itself a condition value
		if sub := a.expandCond(v, want, last, depth+1); sub != nil {
			for _, sa := range sub {
				alts = append(alts, append(append([]pathFact(nil), facts...), sa...))
			}
			return
		}
		at := a.parseCond(v)
		if !want {
			at.neg = !at.neg
		}
		alts = append(alts, append(append([]pathFact(nil), facts...), pathFact{at, last}))
	})
	if !complete || !understood {
		if a.ctx != nil {
			return a.foldPredicate(a.ctx, call, want, from)
		}
		return nil
	}
	if alts == nil {
		alts = [][]pathFact{} // never holds
	}
	return alts
}

// enumPathsBlocks is enumPaths for a callee (same enumeration; kept separate so that the recursion is explicit).
func (a *parserAnchors) enumPathsBlocks(start *ssa.BasicBlock, visit func(facts []pathFact, blocks []*ssa.BasicBlock, last *ssa.BasicBlock)) bool {
	return a.enumPaths(start, visit)
}

func callsIn(b *ssa.BasicBlock) []*ssa.Call {
	var out []*ssa.Call
	for _, in := range b.Instrs {
		if c, ok := in.(*ssa.Call); ok {
			out = append(out, c)
		}
	}
	return out
}

// ctorScope: the parser constructor, its closures (range-over-func bodies included) and the unexported functions of the
// package that are called only from inside that scope (a constructor split into helpers), to depth 3.
func (c *Ctx) ctorScope(a *parserAnchors) []*ssa.Function {
	if a == nil || a.ctor == nil {
		return nil
	}
	in := map[*ssa.Function]bool{}
	var order []*ssa.Function
	add := func(f *ssa.Function) {
		for _, g := range withClosures(f) {
			if !in[g] {
				in[g] = true
				order = append(order, g)
			}
		}
	}
	add(a.ctor)
	for depth := 0; depth < 3; depth++ {
		grew := false
		for _, f := range append([]*ssa.Function(nil), order...) {
			allInstrs(f, func(_ *ssa.BasicBlock, _ int, ins ssa.Instruction) {
				ci, ok := ins.(ssa.CallInstruction)
				if !ok {
					return
				}
				cal := ci.Common().StaticCallee()
				if cal == nil || in[cal] || cal.Pkg != a.ctor.Pkg || cal.Object() == nil || cal.Object().Exported() {
					return
				}
				// all call sites inside the scope
				only := true
				for _, g := range c.libFunctions() {
					allInstrs(g, func(_ *ssa.BasicBlock, _ int, in2 ssa.Instruction) {
						if c2, ok := in2.(ssa.CallInstruction); ok && c2.Common().StaticCallee() == cal && !in[g] {
							only = false
						}
					})
				}
				if only {
					add(cal)
					grew = true
				}
			})
		}
		if !grew {
			break
		}
	}
	return order
}
