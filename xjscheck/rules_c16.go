package main

import (
	"fmt"
	"go/token"
	"go/types"

	"golang.org/x/tools/go/ssa"
)

func init() {
	register("C16", &propSpec{
		run: runC16,
		explanation: "Stack-discipline argument for the parsing-context stack, decided on every path of the current source (SSA, defer/rundefers): " +
			"R16.1 only the constructor, PushContext and PopContext store the stack field and no other code can alias or write its elements; " +
			"R16.2 push appends exactly its argument, pop removes exactly the last element; " +
			"R16.3 every function of package parser that pushes or pops returns, on every path, with as many pops (executed or deferred) as pushes, so every parse function returns with the stack it was entered with and ParseProgram returns with the constructor's one-element [Global] stack for valid and malformed input alike; behind an executed (not deferred) pop no parse through the interceptor chain is reachable in the same function, so the body is never parsed with its context already removed; " +
			"R16.4 the function context is pushed by exactly the two function-body parsers, after '{' was checked and before the body is parsed (name and parameters before the push), the block context by the block parser before any statement is parsed, and nothing else pushes; " +
			"R16.5 CurrentContext returns the last element and IsInFunction inspects the whole stack. " +
			"A pass means every enumerated obligation was discharged; it does NOT show the behavioural property (equality of the answers with the syntactic nesting at every interceptor invocation) — that identification leans on where the parse methods are called, and plugins that push/pop themselves are outside the analysed program.",
		notDecided: []string{"equality of query answers with syntactic nesting as a runtime comparison", "plugins that call PushContext/PopContext themselves", "balance when a parse function panics (C11 decides absence of panics)"},
	})
}

type c16anchors struct {
	stack         *types.Var
	push, pop     *ssa.Function
	ctor          *ssa.Function
	global, fnCtx int64
	blockCtx      int64
	stmtFn        *types.Var
	ok            bool
}

func c16Anchors(c *Ctx) *c16anchors {
	a := &c16anchors{}
	c.buildSSA()
	a.stack = c.fieldByType("parser", "Parser", func(t types.Type) bool {
		s, ok := t.Underlying().(*types.Slice)
		return ok && namedIs(s.Elem(), "parser", "ContextType")
	})
	a.push = c.fn("(*parser.Parser).PushContext")
	a.pop = c.fn("(*parser.Parser).PopContext")
	a.stmtFn = c.fieldByType("parser", "Parser", func(t types.Type) bool {
		sig, ok := t.Underlying().(*types.Signature)
		return ok && sig.Params().Len() == 1 && sig.Results().Len() == 1 && namedIs(sig.Results().At(0).Type(), "ast", "Statement")
	})
	var ok1, ok2, ok3 bool
	a.global, ok1 = c.constInt("parser", "GlobalContext")
	a.fnCtx, ok2 = c.constInt("parser", "FunctionContext")
	a.blockCtx, ok3 = c.constInt("parser", "BlockContext")
	// constructor: the function of package parser that allocates a Parser
	for _, f := range c.libFunctions("parser") {
		allInstrs(f, func(_ *ssa.BasicBlock, _ int, in ssa.Instruction) {
			if al, ok := in.(*ssa.Alloc); ok && namedIs(al.Type(), "parser", "Parser") {
				if _, isPtr := al.Type().Underlying().(*types.Pointer); isPtr && namedOf(al.Type()) != nil && a.ctor == nil {
					a.ctor = f
				}
			}
		})
	}
	a.ok = a.stack != nil && a.push != nil && a.pop != nil && a.ctor != nil && a.stmtFn != nil && ok1 && ok2 && ok3
	return a
}

func runC16(c *Ctx) {
	a := c16Anchors(c)
	c.rule("R16.0", "anchors: the []ContextType field of Parser, PushContext, PopContext, the constructor, the three context constants")
	if !a.ok {
		c.unres("anchors", token.NoPos, "could not resolve anchors: stack=%v push=%v pop=%v ctor=%v stmtFn=%v", a.stack != nil, a.push != nil, a.pop != nil, a.ctor != nil, a.stmtFn != nil)
		return
	}
	c.ok("anchors", a.stack.Pos(), "stack field %s; constructor %s", a.stack.Name(), fnName(a.ctor))
	c.Tables["context_stack_field"] = a.stack.Name()

	r16_1(c, a)
	r16_2(c, a)
	r16_3(c, a)
	r16_4(c, a)
	r16_5(c, a)
}

// R16.1 who-may-write
func r16_1(c *Ctx, a *c16anchors) {
	c.rule("R16.1", "who-may-write the context stack: constructor ([Global] literal, or one unconditional push of Global on the empty stack), push, pop; no alias, no element write")
	c.floor(3)
	if ip := ctorInitialPush(a); ip != nil {
		c.ok(fnName(a.ctor)+": initial stack", ip.Pos(), "one unconditional PushContext(GlobalContext) on the freshly built parser")
	}
	n := map[*ssa.Function]int{}
	for _, f := range c.libFunctions() {
		allInstrs(f, func(_ *ssa.BasicBlock, _ int, in ssa.Instruction) {
			fa, ok := in.(*ssa.FieldAddr)
			if !ok || fieldOfAddr(fa) != a.stack {
				return
			}
			for _, r := range *fa.Referrers() {
				switch r := r.(type) {
				case *ssa.Store:
					if r.Addr != fa {
						c.bad(fmt.Sprintf("%s: address of stack field stored away", fnName(f)), r.Pos(), "the address of the stack field escapes")
						continue
					}
					n[f]++
					key := fmt.Sprintf("%s: store #%d to stack field", fnName(f), n[f])
					switch f {
					case a.push, a.pop:
						c.ok(key, r.Pos(), "writer is the push/pop method (its value is checked by R16.2)")
					case a.ctor:
						el, ok := sliceLitElems(r.Val)
						if ok && len(el) == 1 {
							if k, isK := constInt64(unwrap(el[0])); isK && k == a.global {
								c.ok(key, r.Pos(), "constructor initialises the stack to the one-element literal [GlobalContext]")
								continue
							}
						}
						c.bad(key, r.Pos(), "constructor must initialise the stack to exactly [GlobalContext]")
					default:
						c.bad(key, r.Pos(), "only the constructor, PushContext and PopContext may store the context stack")
					}
				case *ssa.UnOp:
					// a load: the loaded slice must only be read
					checkStackLoadUses(c, a, f, r)
				default:
					c.bad(fmt.Sprintf("%s: address of stack field used by %T", fnName(f), r), r.Pos(), "the address of the stack field must only be loaded from or stored to")
				}
			}
		})
	}
}

func checkStackLoadUses(c *Ctx, a *c16anchors, f *ssa.Function, ld *ssa.UnOp) {
	for _, r := range *ld.Referrers() {
		switch r := r.(type) {
		case *ssa.IndexAddr:
			for _, r2 := range *r.Referrers() {
				if st, ok := r2.(*ssa.Store); ok && st.Addr == r {
					c.bad(fmt.Sprintf("%s: element write into the context stack", fnName(f)), st.Pos(), "an element of the stack is overwritten in place")
				}
			}
		case *ssa.Store:
			if fa, ok := r.Addr.(*ssa.FieldAddr); ok && fieldOfAddr(fa) == a.stack {
				continue
			}
			c.bad(fmt.Sprintf("%s: context stack stored elsewhere", fnName(f)), r.Pos(), "the stack slice is aliased into another location")
		case *ssa.Call:
			if b, ok := r.Call.Value.(*ssa.Builtin); ok && (b.Name() == "len" || b.Name() == "cap") {
				continue
			}
			if b, ok := r.Call.Value.(*ssa.Builtin); ok && b.Name() == "append" {
				if f == a.push && r.Call.Args[0] == ld {
					continue
				}
				c.bad(fmt.Sprintf("%s: append on the context stack", fnName(f)), r.Pos(), "append on the stack outside PushContext")
				continue
			}
			if cal := r.Call.StaticCallee(); cal != nil && cal.Pkg != nil && cal.Pkg.Pkg.Path() == "slices" && (cal.Name() == "Contains" || cal.Name() == "Index") {
				continue
			}
			if cal := r.Call.StaticCallee(); cal != nil && extFuncIs(cal, "slices", "Clone") {
				continue // a copy handed out: the stack itself is only read
			}
			if cal := r.Call.StaticCallee(); cal != nil && cal.Origin() != nil && cal.Origin().Pkg != nil && cal.Origin().Pkg.Pkg.Path() == "slices" && (cal.Origin().Name() == "Contains" || cal.Origin().Name() == "Index") {
				continue
			}
			c.unres(fmt.Sprintf("%s: context stack passed to %s", fnName(f), r.Call.Value.Name()), r.Pos(), "the stack slice is passed to a callee not on the read-only list (len, cap, slices.Contains, slices.Index)")
		case *ssa.Slice, *ssa.Range, *ssa.DebugRef:
			// reslicing for the pop, ranging: reads
		case *ssa.Return:
			c.bad(fmt.Sprintf("%s: context stack returned", fnName(f)), r.Pos(), "the stack slice escapes through a return value")
		default:
			c.unres(fmt.Sprintf("%s: context stack used by %T", fnName(f), r), r.Pos(), "unrecognised use of the loaded stack slice")
		}
	}
}

// R16.2 push and pop are exact
func r16_2(c *Ctx, a *c16anchors) {
	c.rule("R16.2", "push stores append(stack, param); pop stores stack[:len(stack)-1] (optionally under a non-empty guard)")
	c.floor(2)
	// push
	{
		var stores []*ssa.Store
		allInstrs(a.push, func(_ *ssa.BasicBlock, _ int, in ssa.Instruction) {
			if st, ok := in.(*ssa.Store); ok {
				if _, ok := isFieldAddr(st.Addr, a.stack); ok {
					stores = append(stores, st)
				}
			}
		})
		key := "PushContext: stored value"
		if len(stores) != 1 || len(a.push.Blocks) != 1 {
			c.unres(key, a.push.Pos(), "expected a single unconditional store of the stack in PushContext (found %d stores, %d blocks); accepted idiom: p.stack = append(p.stack, ctx)", len(stores), len(a.push.Blocks))
		} else {
			st := stores[0]
			okk := false
			if call, ok := isBuiltinCall(st.Val, "append"); ok && len(call.Call.Args) == 2 {
				_, base := isFieldLoad(call.Call.Args[0], a.stack)
				el, isLit := sliceLitElems(call.Call.Args[1])
				if base && isLit && len(el) == 1 && len(a.push.Params) == 2 && unwrap(el[0]) == a.push.Params[1] {
					okk = true
				}
			}
			c.check(okk, key, st.Pos(), "stack = append(stack, <the parameter>)", "PushContext must store append(stack, ctx) with its own parameter, unchanged, as the single appended element")
		}
	}
	// pop
	{
		var stores []*ssa.Store
		allInstrs(a.pop, func(_ *ssa.BasicBlock, _ int, in ssa.Instruction) {
			if st, ok := in.(*ssa.Store); ok {
				if _, ok := isFieldAddr(st.Addr, a.stack); ok {
					stores = append(stores, st)
				}
			}
		})
		key := "PopContext: stored value"
		if len(stores) != 1 {
			c.unres(key, a.pop.Pos(), "expected exactly one store of the stack in PopContext, found %d; accepted idiom: if len(s) > 0 { s = s[:len(s)-1] }", len(stores))
			return
		}
		st := stores[0]
		shortened := false
		if sl, ok := st.Val.(*ssa.Slice); ok && sl.Low == nil && sl.Max == nil && sl.High != nil {
			if _, ok := isFieldLoad(sl.X, a.stack); ok {
				if b, ok := sl.High.(*ssa.BinOp); ok && b.Op == token.SUB {
					if k, ok := constInt64(b.Y); ok && k == 1 && isLenOfStack(b.X, a) {
						shortened = true
					}
				}
			}
		}
		c.check(shortened, key, st.Pos(), "stack = stack[:len(stack)-1]", "PopContext must shorten the stack by exactly one element (accepted idiom: s[:len(s)-1])")
		// the guard, when present, must be exactly "stack non-empty"
		key = "PopContext: guard"
		blk := st.Block()
		if blk == a.pop.Blocks[0] {
			c.ok(key, st.Pos(), "unguarded pop (balanced use keeps the stack non-empty)")
		} else {
			entry := a.pop.Blocks[0]
			iff := blockIf(entry)
			good := false
			if iff != nil {
				if b, ok := iff.Cond.(*ssa.BinOp); ok {
					if ne, ok := stackTest(b, a); ok && condEdgeDominates(entry, ne, blk) {
						good = true
					}
				}
			}
			if good {
				c.ok(key, iff.Pos(), "pop is skipped only when the stack is empty")
			} else {
				c.unres(key, st.Pos(), "the condition guarding the pop is not a recognised non-empty test (accepted: len(s) > 0, len(s) != 0, len(s) >= 1 around the pop, or len(s) == 0, len(s) < 1 returning early); a different guard would skip pops on a non-empty stack")
			}
		}
	}
}

func isLenOfStack(v ssa.Value, a *c16anchors) bool {
	call, ok := isBuiltinCall(v, "len")
	if !ok {
		return false
	}
	_, ok = isFieldLoad(call.Call.Args[0], a.stack)
	return ok
}

// stackTest classifies a comparison of len(stack) with a constant: ok when it is an emptiness test, and then
// nonEmptyOnTrue tells which edge is taken for a non-empty stack.
func stackTest(b *ssa.BinOp, a *c16anchors) (nonEmptyOnTrue, ok bool) {
	op := b.Op
	var k int64
	switch {
	case isLenOfStack(b.X, a):
		kk, isK := constInt64(b.Y)
		if !isK {
			return false, false
		}
		k = kk
	case isLenOfStack(b.Y, a):
		kk, isK := constInt64(b.X)
		if !isK {
			return false, false
		}
		k = kk
		switch op {
		case token.LSS:
			op = token.GTR
		case token.GTR:
			op = token.LSS
		case token.LEQ:
			op = token.GEQ
		case token.GEQ:
			op = token.LEQ
		}
	default:
		return false, false
	}
	switch {
	case op == token.GTR && k == 0, op == token.NEQ && k == 0, op == token.GEQ && k == 1:
		return true, true
	case op == token.EQL && k == 0, op == token.LSS && k == 1, op == token.LEQ && k == 0:
		return false, true
	}
	return false, false
}

func nonEmptyTest(b *ssa.BinOp, a *c16anchors) bool {
	ne, ok := stackTest(b, a)
	return ok && ne
}

// ctorInitialPush: the constructor establishes the one-element [Global] stack by a single unconditional
// PushContext(GlobalContext) on the freshly built parser, instead of a literal: no store to the stack field in the
// constructor, exactly one push call, in the entry-dominating part, with the Global constant.
func ctorInitialPush(a *c16anchors) *ssa.Call {
	if a.ctor == nil {
		return nil
	}
	var pushes []*ssa.Call
	stores := 0
	allInstrs(a.ctor, func(_ *ssa.BasicBlock, _ int, in ssa.Instruction) {
		if call, ok := in.(*ssa.Call); ok && staticCallee(call) == a.push {
			pushes = append(pushes, call)
		}
		if st, ok := in.(*ssa.Store); ok {
			if _, ok := isFieldAddr(st.Addr, a.stack); ok {
				stores++
			}
		}
	})
	if len(pushes) != 1 || stores != 0 {
		return nil
	}
	p := pushes[0]
	if k, ok := constInt64(unwrap(p.Call.Args[1])); !ok || k != a.global {
		return nil
	}
	for _, r := range nonRecoverReturns(a.ctor) {
		if !instrDominates(p, r) {
			return nil
		}
	}
	return p
}

// R16.3 balance on every path
type balState struct {
	net, deferred int
	set           bool
}

func r16_3(c *Ctx, a *c16anchors) {
	c.rule("R16.3", "balance: in every function that pushes or pops, pushes = pops (executed + deferred) on every path to every return; no unbalanced join")
	c.floor(2)
	for _, f := range c.libFunctions("parser") {
		if f == a.push || f == a.pop {
			continue
		}
		if f == a.ctor && ctorInitialPush(a) != nil {
			c.ok(fnName(f)+": initial push", ctorInitialPush(a).Pos(), "the constructor's one unconditional push of GlobalContext on the empty stack is the initial [Global] stack")
			continue
		}
		uses := false
		allInstrs(f, func(_ *ssa.BasicBlock, _ int, in ssa.Instruction) {
			if ci, ok := in.(ssa.CallInstruction); ok {
				if cal := staticCallee(ci); cal == a.push || cal == a.pop {
					uses = true
				}
			}
			// method values / closures escaping push or pop cannot be counted
			if mc, ok := in.(*ssa.MakeClosure); ok {
				if fn, ok := mc.Fn.(*ssa.Function); ok && (fn.Name() == "PushContext$bound" || fn.Name() == "PopContext$bound") {
					c.unres(fnName(f)+": push/pop taken as a method value", in.Pos(), "push/pop used as a function value cannot be counted")
				}
			}
		})
		if !uses {
			continue
		}
		balanceFn(c, a, f)
	}
}

func balanceFn(c *Ctx, a *c16anchors, f *ssa.Function) {
	in := make([]balState, len(f.Blocks))
	in[0] = balState{set: true}
	work := []*ssa.BasicBlock{f.Blocks[0]}
	bad := false
	nret := 0
	visited := map[int]bool{}
	for len(work) > 0 {
		b := work[0]
		work = work[1:]
		if visited[b.Index] {
			continue
		}
		visited[b.Index] = true
		st := in[b.Index]
		for _, ins := range b.Instrs {
			switch x := ins.(type) {
			case *ssa.Call:
				switch staticCallee(x) {
				case a.push:
					st.net++
				case a.pop:
					st.net--
				}
			case *ssa.Defer:
				switch staticCallee(x) {
				case a.pop:
					st.deferred++
				case a.push:
					c.bad(fnName(f)+": deferred push", x.Pos(), "a deferred push cannot be balanced")
					bad = true
				}
			case *ssa.Go:
				if cal := staticCallee(x); cal == a.push || cal == a.pop {
					c.bad(fnName(f)+": push/pop in a goroutine", x.Pos(), "not countable")
					bad = true
				}
			case *ssa.RunDefers:
				st.net -= st.deferred
				st.deferred = 0
			case *ssa.Return:
				nret++
				key := fmt.Sprintf("%s: return #%d", fnName(f), nret)
				if st.net != 0 || st.deferred != 0 {
					c.bad(key, x.Pos(), "returns with pushes-pops = %d (deferred pops not run: %d): the context stack is left unbalanced on this path", st.net, st.deferred)
					bad = true
				} else {
					c.ok(key, x.Pos(), "pushes = pops on every path to this return")
				}
			}
		}
		for _, s := range b.Succs {
			if !in[s.Index].set {
				in[s.Index] = balState{net: st.net, deferred: st.deferred, set: true}
				work = append(work, s)
			} else if in[s.Index].net != st.net || in[s.Index].deferred != st.deferred {
				c.bad(fmt.Sprintf("%s: join at block %d", fnName(f), s.Index), firstPos(s), "paths meet with different push/pop counts (%d/%d vs %d/%d): a push or pop is conditional or inside a loop", in[s.Index].net, in[s.Index].deferred, st.net, st.deferred)
				bad = true
			}
		}
	}
	// an executed (not deferred) pop ends the construct: nothing that can run an interceptor — a parse through the
	// statement / expression chain, directly or in a callee — may be reachable behind it in this function, otherwise
	// that code is parsed with the context already gone although the counts balance
	t := c.tables()
	var runsChain func(g *ssa.Function, depth int) bool
	chainMemo := map[*ssa.Function]int{}
	runsChain = func(g *ssa.Function, depth int) bool {
		if g == nil || g.Blocks == nil || depth > 3 || g.Pkg != f.Pkg {
			return false
		}
		if v := chainMemo[g]; v != 0 {
			return v == 1
		}
		chainMemo[g] = 2
		found := false
		allInstrs(g, func(_ *ssa.BasicBlock, _ int, in ssa.Instruction) {
			call, ok := in.(*ssa.Call)
			if !ok || found {
				return
			}
			if call.Call.StaticCallee() == nil && !call.Call.IsInvoke() {
				if _, ok := isFieldLoad(call.Call.Value, t.pt.stmtFld); ok {
					found = true
				}
				if _, ok := isFieldLoad(call.Call.Value, t.pt.exprFld); ok {
					found = true
				}
				return
			}
			if runsChain(call.Call.StaticCallee(), depth+1) {
				found = true
			}
		})
		if found {
			chainMemo[g] = 1
		}
		return found
	}
	allInstrs(f, func(b *ssa.BasicBlock, i int, ins ssa.Instruction) {
		pc, ok := ins.(*ssa.Call)
		if !ok || staticCallee(pc) != a.pop {
			return
		}
		var hit *ssa.Call
		seen := map[*ssa.BasicBlock]bool{}
		var walk func(blk *ssa.BasicBlock, from int)
		walk = func(blk *ssa.BasicBlock, from int) {
			for _, nx := range blk.Instrs[from:] {
				call, ok := nx.(*ssa.Call)
				if !ok || hit != nil {
					continue
				}
				direct := false
				if call.Call.StaticCallee() == nil && !call.Call.IsInvoke() {
					_, s1 := isFieldLoad(call.Call.Value, t.pt.stmtFld)
					_, s2 := isFieldLoad(call.Call.Value, t.pt.exprFld)
					direct = s1 || s2
				}
				if direct || runsChain(call.Call.StaticCallee(), 0) {
					hit = call
				}
			}
			for _, sc := range blk.Succs {
				if !seen[sc] && hit == nil {
					seen[sc] = true
					walk(sc, 0)
				}
			}
		}
		walk(b, i+1)
		key := fmt.Sprintf("%s: nothing is parsed behind the pop at block %d", fnName(f), b.Index)
		if hit != nil {
			c.bad(key, pc.Pos(), "behind this executed pop the function still parses through the interceptor chain (%s): that part of the construct is parsed with its context already removed — pushes and pops balance, but interceptors inside it see the enclosing context", c.pos(hit.Pos()))
		} else {
			c.ok(key, pc.Pos(), "no parse through the chain is reachable behind it")
		}
	})
	// a deferred pop should be registered right after its push (panic safety): informational
	allInstrs(f, func(b *ssa.BasicBlock, i int, ins ssa.Instruction) {
		call, ok := ins.(*ssa.Call)
		if !ok || staticCallee(call) != a.push {
			return
		}
		for _, nx := range b.Instrs[i+1:] {
			if d, ok := nx.(*ssa.Defer); ok && staticCallee(d) == a.pop {
				return
			}
			if _, ok := nx.(ssa.CallInstruction); ok {
				break
			}
		}
		c.info(fnName(f)+": push not immediately followed by defer pop", call.Pos(), "balance on normal paths is checked by R16.3; this form is not panic-safe")
	})
	_ = bad
}

func firstPos(b *ssa.BasicBlock) token.Pos {
	for _, in := range b.Instrs {
		if in.Pos().IsValid() {
			return in.Pos()
		}
	}
	return token.NoPos
}

// allocOfNode returns the Alloc instructions in f of a pointer to ast.<name>.
func allocsOf(f *ssa.Function, pkgShort, name string) []*ssa.Alloc {
	var out []*ssa.Alloc
	allInstrs(f, func(_ *ssa.BasicBlock, _ int, in ssa.Instruction) {
		if al, ok := in.(*ssa.Alloc); ok && namedIs(al.Type(), pkgShort, name) {
			if n := namedOf(deref(al.Type())); n != nil && n.Obj().Name() == name {
				out = append(out, al)
			}
		}
	})
	return out
}

// R16.4 pushes sit where the nesting changes
func r16_4(c *Ctx, a *c16anchors) {
	c.rule("R16.4", "function context pushed by exactly the two function-body parsers after '{' is checked and before the body parse (name/parameters before); block context by the block parser before any statement parse; nobody else pushes")
	c.floor(3)
	lbrace, _ := c.constInt("token", "LBRACE")
	expect := c.fn("(*parser.Parser).ExpectToken")
	type role struct {
		node string
		ctx  int64
	}
	roles := []role{{"FunctionDeclaration", a.fnCtx}, {"FunctionExpression", a.fnCtx}, {"BlockStatement", a.blockCtx}}
	roleFns := map[*ssa.Function]role{}
	for _, f := range c.libFunctions("parser") {
		for _, r := range roles {
			if len(allocsOf(f, "ast", r.node)) > 0 {
				if _, dup := roleFns[f]; dup {
					c.unres(fnName(f)+": builds several nesting nodes", f.Pos(), "one function builds more than one of FunctionDeclaration/FunctionExpression/BlockStatement")
				}
				roleFns[f] = r
			}
		}
	}
	found := map[string]bool{}
	// function-body helpers: an unexported function, called only by the two function parsers, that pushes the function
	// context once and then parses the block; a call to it stands for the push in its callers.
	bodyHelpers := map[*ssa.Function]bool{}
	helperGuards := map[*ssa.Function]bool{} // the helper itself checks '{' before its push
	for _, f := range c.libFunctions("parser") {
		if _, isRole := roleFns[f]; isRole || f.Signature.Recv() == nil {
			continue
		}
		var pushes, blocks []*ssa.Call
		allInstrs(f, func(_ *ssa.BasicBlock, _ int, in ssa.Instruction) {
			if call, ok := in.(*ssa.Call); ok {
				cal := staticCallee(call)
				if cal == a.push {
					pushes = append(pushes, call)
				} else if r, ok := roleFns[cal]; ok && r.node == "BlockStatement" {
					blocks = append(blocks, call)
				}
			}
		})
		if len(pushes) != 1 || len(blocks) != 1 || !instrDominates(pushes[0], blocks[0]) {
			continue
		}
		if k, isK := constInt64(unwrap(pushes[0].Call.Args[1])); !isK || k != a.fnCtx {
			continue
		}
		// the block it returns is the one parsed under the push (its other results, if any, were parsed before the
		// push: no other parse call is reachable after it)
		retOK := true
		allInstrs(f, func(_ *ssa.BasicBlock, _ int, in ssa.Instruction) {
			if ret, ok := in.(*ssa.Return); ok {
				for _, r := range ret.Results {
					if !namedIs(r.Type(), "ast", "BlockStatement") {
						continue
					}
					for _, v := range resultValues(r) {
						if v != ssa.Value(blocks[0]) && !isNilConst(v) {
							retOK = false
						}
					}
				}
			}
			if call, ok := in.(*ssa.Call); ok && call != blocks[0] && call != pushes[0] {
				cal := staticCallee(call)
				if cal != nil && cal != a.pop && cal.Pkg == f.Pkg && cal.Signature.Results().Len() > 0 && instrReachableAfter(pushes[0], call) {
					if rt := cal.Signature.Results().At(0).Type(); nodeLike(rt) {
						retOK = false // something else is parsed inside the function context
					}
				}
			}
		})
		if !retOK {
			continue
		}
		if _, closed := c.argsAtCallers(f, 0); !closed {
			continue
		}
		onlyRoles := true
		for _, g := range c.libFunctions("parser") {
			allInstrs(g, func(_ *ssa.BasicBlock, _ int, in ssa.Instruction) {
				if ci, ok := in.(ssa.CallInstruction); ok && staticCallee(ci) == f {
					if r, ok := roleFns[g]; !ok || r.ctx != a.fnCtx {
						onlyRoles = false
					}
				}
			})
		}
		if onlyRoles {
			for _, b := range f.Blocks {
				iff := blockIf(b)
				if iff == nil {
					continue
				}
				cond, edge := iff.Cond, true
				if u, ok := cond.(*ssa.UnOp); ok && u.Op == token.NOT {
					cond, edge = u.X, false
				}
				if call, ok := cond.(*ssa.Call); ok && staticCallee(call) == expect {
					if k, ok := constInt64(unwrap(call.Call.Args[1])); ok && k == lbrace && condEdgeDominates(b, edge, pushes[0].Block()) {
						helperGuards[f] = true
					}
				}
			}
			bodyHelpers[f] = true
			c.ok(fnName(f)+": function-body helper", pushes[0].Pos(), "pushes FunctionContext once, then parses and returns the block; called only by the function parsers")
		}
	}
	for _, f := range c.libFunctions("parser") {
		if bodyHelpers[f] {
			continue
		}
		var pushes []*ssa.Call
		viaHelper := false
		allInstrs(f, func(_ *ssa.BasicBlock, _ int, in ssa.Instruction) {
			if call, ok := in.(*ssa.Call); ok && staticCallee(call) == a.push {
				pushes = append(pushes, call)
			}
		})
		if _, isRole := roleFns[f]; isRole && len(pushes) == 0 {
			allInstrs(f, func(_ *ssa.BasicBlock, _ int, in ssa.Instruction) {
				if call, ok := in.(*ssa.Call); ok && bodyHelpers[staticCallee(call)] {
					pushes = append(pushes, call)
					viaHelper = true
				}
			})
		}
		r, isRole := roleFns[f]
		if !isRole && f == a.ctor && ctorInitialPush(a) != nil {
			continue // the initial [Global] stack (R16.1 / R16.3)
		}
		if !isRole && len(pushes) > 0 && f.Object() != nil && f.Object().Exported() && !usedInLibrary(c, f) {
			// an API entry point the library itself never calls, pushing what its caller hands in: a plugin announcing
			// a nesting construct of its own (balance is R16.3's business, which judges this function like any other)
			allParam := true
			for _, p := range pushes {
				if len(p.Call.Args) < 2 {
					allParam = false
					continue
				}
				if _, isPar := p.Call.Args[len(p.Call.Args)-1].(*ssa.Parameter); !isPar {
					allParam = false
				}
			}
			if allParam {
				c.ok(fnName(f)+": push of a caller-supplied context in an API entry point the library never calls", pushes[0].Pos(), "plugin API; the library's own nesting constructs are unaffected")
				continue
			}
		}
		if !isRole {
			for i, p := range pushes {
				c.bad(fmt.Sprintf("%s: push #%d outside a nesting construct", fnName(f), i+1), p.Pos(), "a context is pushed in a function that builds neither a function body nor a block: queries would no longer equal the syntactic nesting")
			}
			continue
		}
		found[r.node] = true
		key := fmt.Sprintf("%s (%s)", fnName(f), r.node)
		if len(pushes) != 1 {
			c.bad(key+": push count", f.Pos(), "the parser of %s must push its context exactly once, found %d pushes", r.node, len(pushes))
			continue
		}
		push := pushes[0]
		want := "FunctionContext"
		if r.ctx == a.blockCtx {
			want = "BlockContext"
		}
		if viaHelper {
			c.check(r.ctx == a.fnCtx, key+": pushed kind", push.Pos(), "pushes FunctionContext through the function-body helper", "a block parser must push BlockContext, not use the function-body helper")
		} else {
			k, isK := constInt64(unwrap(push.Call.Args[1]))
			c.check(isK && k == r.ctx, key+": pushed kind", push.Pos(), "pushes "+want, "must push the constant "+want)
		}
		al := allocsOf(f, "ast", r.node)[0]
		if r.ctx == a.fnCtx {
			// after the '{' check
			guarded := false
			for _, b := range f.Blocks {
				iff := blockIf(b)
				if iff == nil {
					continue
				}
				if call, ok := iff.Cond.(*ssa.Call); ok && staticCallee(call) == expect {
					if k, ok := constInt64(unwrap(call.Call.Args[1])); ok && k == lbrace && condEdgeDominates(b, true, push.Block()) {
						guarded = true
					}
				}
				// !ExpectToken(...) form
				if u, ok := iff.Cond.(*ssa.UnOp); ok && u.Op == token.NOT {
					if call, ok := u.X.(*ssa.Call); ok && staticCallee(call) == expect {
						if k, ok := constInt64(unwrap(call.Call.Args[1])); ok && k == lbrace && condEdgeDominates(b, false, push.Block()) {
							guarded = true
						}
					}
				}
			}
			if viaHelper && helperGuards[staticCallee(push)] {
				guarded = true // checked inside the helper, on the only way to its push
			}
			c.check(guarded, key+": push after '{' check", push.Pos(), "the push is reached only through the success edge of ExpectToken(LBRACE)", "the function context must be pushed only after '{' has been checked (ExpectToken(LBRACE) success edge)")
			// body parse after the push; name / parameters before it
			for _, fld := range []string{"Body", "Parameters", "Name"} {
				st := storeToNodeField(f, al, fld)
				if st == nil {
					if fld == "Body" {
						c.bad(key+": Body assignment", f.Pos(), "no assignment of the Body field found")
					}
					continue
				}
				src, ok := st.Val.(ssa.Instruction)
				if ext, isExt := st.Val.(*ssa.Extract); isExt {
					src, ok = ext.Tuple.(ssa.Instruction)
				}
				if !ok {
					continue
				}
				if fld == "Body" {
					c.check(instrDominates(push, src), key+": push dominates body parse", src.Pos(), "the body is parsed after the push on every path", "the body parse is not dominated by the push of the function context")
				} else {
					c.check(!instrReachableAfter(push, src), key+": "+fld+" parsed before the push", src.Pos(), fld+" is parsed outside the function context", fld+" must be parsed before the function context is pushed (it is outside the body)")
				}
			}
		} else {
			// block: push dominates every call through the statement function
			n := 0
			allInstrs(f, func(_ *ssa.BasicBlock, _ int, in ssa.Instruction) {
				call, ok := in.(*ssa.Call)
				if !ok || call.Call.IsInvoke() || staticCallee(call) == f {
					return
				}
				_, direct := isFieldLoad(call.Call.Value, a.stmtFn)
				if direct || reachesStmtFn(staticCallee(call), a, 0) {
					n++
					c.check(instrDominates(push, call), fmt.Sprintf("%s: push dominates statement parse #%d", key, n), call.Pos(), "statement parsed inside the block context", "a statement of the block is parsed before the block context is pushed")
				}
			})
			if n == 0 {
				c.unres(key+": statement parse", f.Pos(), "no call through the statement function field found in the block parser")
			}
		}
	}
	for _, r := range roles {
		if !found[r.node] {
			c.unres("parser of "+r.node, token.NoPos, "no function of package parser allocates ast.%s", r.node)
		}
	}
}

// storeToNodeField finds the store into field fld of the node allocated by al.
func storeToNodeField(f *ssa.Function, al *ssa.Alloc, fld string) *ssa.Store {
	var out *ssa.Store
	allInstrs(f, func(_ *ssa.BasicBlock, _ int, in ssa.Instruction) {
		st, ok := in.(*ssa.Store)
		if !ok {
			return
		}
		fa, ok := st.Addr.(*ssa.FieldAddr)
		if !ok || fa.X != al {
			return
		}
		if v := fieldOfAddr(fa); v != nil && v.Name() == fld {
			out = st
		}
	})
	return out
}

// R16.5 queries
func r16_5(c *Ctx, a *c16anchors) {
	c.rule("R16.5", "CurrentContext returns the last element (Global when empty); IsInFunction inspects the whole stack for FunctionContext")
	c.floor(2)
	// CurrentContext
	cur := c.fn("(*parser.Parser).CurrentContext")
	if cur == nil {
		c.unres("CurrentContext", token.NoPos, "method not found")
	} else {
		nret := 0
		allInstrs(cur, func(_ *ssa.BasicBlock, _ int, in ssa.Instruction) {
			ret, ok := in.(*ssa.Return)
			if !ok || len(ret.Results) != 1 {
				return
			}
			nret++
			key := fmt.Sprintf("CurrentContext: return #%d", nret)
			v := ret.Results[0]
			if k, ok := constInt64(unwrap(v)); ok {
				// constant return: only on the empty path, and only Global
				emptyPath := false
				for _, b := range cur.Blocks {
					if iff := blockIf(b); iff != nil {
						if bo, ok := iff.Cond.(*ssa.BinOp); ok {
							if ne, ok := stackTest(bo, a); ok && condEdgeDominates(b, !ne, ret.Block()) {
								emptyPath = true
							}
						}
					}
				}
				c.check(k == a.global && emptyPath, key, ret.Pos(), "Global on the empty-stack path", "a constant context may only be returned for the empty stack, and it must be GlobalContext")
				return
			}
			last := false
			if u, ok := v.(*ssa.UnOp); ok && u.Op == token.MUL {
				if ia, ok := u.X.(*ssa.IndexAddr); ok {
					if _, ok := isFieldLoad(ia.X, a.stack); ok {
						if b, ok := ia.Index.(*ssa.BinOp); ok && b.Op == token.SUB && isLenOfStack(b.X, a) {
							if k, ok := constInt64(b.Y); ok && k == 1 {
								last = true
							}
						}
					}
				}
			}
			c.check(last, key, ret.Pos(), "returns stack[len(stack)-1]", "CurrentContext must return the last element of the stack")
		})
	}
	// IsInFunction
	isin := c.fn("(*parser.Parser).IsInFunction")
	if isin == nil {
		c.unres("IsInFunction", token.NoPos, "method not found")
		return
	}
	key := "IsInFunction: whole-stack search"
	var contains *ssa.Call
	topOnly := false
	allInstrs(isin, func(_ *ssa.BasicBlock, _ int, in ssa.Instruction) {
		call, ok := in.(*ssa.Call)
		if !ok {
			return
		}
		if cal := call.Call.StaticCallee(); cal != nil {
			o := cal
			if cal.Origin() != nil {
				o = cal.Origin()
			}
			if o.Pkg != nil && o.Pkg.Pkg.Path() == "slices" && o.Name() == "Contains" {
				contains = call
			}
			if cal == c.fn("(*parser.Parser).CurrentContext") {
				topOnly = true
			}
		}
	})
	if contains != nil {
		_, whole := isFieldLoad(contains.Call.Args[0], a.stack)
		k, isK := constInt64(unwrap(contains.Call.Args[1]))
		returned := false
		allInstrs(isin, func(_ *ssa.BasicBlock, _ int, in ssa.Instruction) {
			if ret, ok := in.(*ssa.Return); ok && len(ret.Results) == 1 && ret.Results[0] == contains {
				returned = true
			}
		})
		c.check(whole && isK && k == a.fnCtx && returned && len(isin.Blocks) == 1, key, contains.Pos(), "returns slices.Contains(<whole stack>, FunctionContext)", "IsInFunction must search the whole stack for FunctionContext and return that result")
		return
	}
	if ok, why := fullRangeSearch(isin, a); ok {
		c.ok(key, isin.Pos(), "explicit loop over the whole stack comparing each element with FunctionContext")
		return
	} else if topOnly || why == "top-only" {
		c.bad(key, isin.Pos(), "IsInFunction looks only at the innermost context: wrong inside any block nested in a function")
		return
	}
	c.unres(key, isin.Pos(), "IsInFunction is neither slices.Contains(stack, FunctionContext) nor a recognised full-range loop")
}

// fullRangeSearch recognises: for i/range over the whole stack { if s[i] == FunctionContext { return true } } return false
func fullRangeSearch(f *ssa.Function, a *c16anchors) (bool, string) {
	// find the comparison elem == FunctionContext where elem = *(&stack[idx]) and idx is an induction phi
	var cmpBlock *ssa.BasicBlock
	var idxPhi *ssa.Phi
	topOnly := false
	allInstrs(f, func(b *ssa.BasicBlock, _ int, in ssa.Instruction) {
		bo, ok := in.(*ssa.BinOp)
		if !ok || bo.Op != token.EQL {
			return
		}
		k, isK := constInt64(unwrap(bo.Y))
		if !isK || k != a.fnCtx {
			return
		}
		u, ok := bo.X.(*ssa.UnOp)
		if !ok || u.Op != token.MUL {
			return
		}
		ia, ok := u.X.(*ssa.IndexAddr)
		if !ok {
			return
		}
		if _, ok := isFieldLoad(ia.X, a.stack); !ok {
			return
		}
		switch ix := ia.Index.(type) {
		case *ssa.Phi:
			idxPhi, cmpBlock = ix, b
		case *ssa.BinOp:
			if p, ok := ix.X.(*ssa.Phi); ok && ix.Op == token.ADD {
				idxPhi, cmpBlock = p, b
			} else {
				topOnly = true
			}
		}
	})
	if idxPhi == nil {
		if topOnly {
			return false, "top-only"
		}
		return false, ""
	}
	// induction: one incoming constant (-1 or 0), the other phi+1; loop condition compares against len(stack)
	okInit, okStep := false, false
	for _, e := range idxPhi.Edges {
		if k, ok := constInt64(e); ok && (k == 0 || k == -1) {
			okInit = true
		}
		if bo, ok := e.(*ssa.BinOp); ok && bo.Op == token.ADD && bo.X == idxPhi {
			if k, ok := constInt64(bo.Y); ok && k == 1 {
				okStep = true
			}
		}
	}
	bound := false
	allInstrs(f, func(_ *ssa.BasicBlock, _ int, in ssa.Instruction) {
		if bo, ok := in.(*ssa.BinOp); ok && bo.Op == token.LSS && isLenOfStack(bo.Y, a) {
			bound = true
		}
	})
	if !(okInit && okStep && bound) {
		return false, ""
	}
	// returns: true only under the comparison's true edge; false otherwise
	good := true
	allInstrs(f, func(_ *ssa.BasicBlock, _ int, in ssa.Instruction) {
		ret, ok := in.(*ssa.Return)
		if !ok || len(ret.Results) != 1 {
			return
		}
		k, ok := ret.Results[0].(*ssa.Const)
		if !ok {
			good = false
			return
		}
		isTrue := k.Value != nil && k.Value.String() == "true"
		under := condEdgeDominates(cmpBlock, true, ret.Block())
		if isTrue != under {
			good = false
		}
	})
	return good, ""
}

// unwrapDeferResult: the value a function with deferred calls returns — go/ssa spills results of such functions into a
// cell that is reloaded after the deferred calls ran; resolve the reload to the single stored value.
func unwrapDeferResult(v ssa.Value) ssa.Value {
	if u, ok := v.(*ssa.UnOp); ok && u.Op == token.MUL {
		if al, ok := u.X.(*ssa.Alloc); ok {
			var stored ssa.Value
			n := 0
			for _, r := range *al.Referrers() {
				if st, ok := r.(*ssa.Store); ok && st.Addr == ssa.Value(al) {
					stored = st.Val
					n++
				}
			}
			if n == 1 {
				return stored
			}
		}
	}
	return v
}

// reachesStmtFn: g (a function of package parser other than the block parser's own recursion) calls through the
// statement function field, directly or through static calls inside the package.
func reachesStmtFn(g *ssa.Function, a *c16anchors, depth int) bool {
	if g == nil || g.Blocks == nil || depth > 2 || g.Pkg == nil || g.Pkg.Pkg.Path() != modPath+"/parser" {
		return false
	}
	found := false
	allInstrs(g, func(_ *ssa.BasicBlock, _ int, in ssa.Instruction) {
		call, ok := in.(*ssa.Call)
		if !ok || call.Call.IsInvoke() || found {
			return
		}
		if _, ok := isFieldLoad(call.Call.Value, a.stmtFn); ok {
			found = true
			return
		}
		if cal := staticCallee(call); cal != nil && cal != g && len(cal.Params) > 0 && cal.Signature.Recv() != nil && cal.Signature.Results().Len() <= 1 && depth < 2 {
			// only small private helpers are followed
			if obj := cal.Object(); obj != nil && !obj.Exported() && reachesStmtFn(cal, a, depth+1) {
				found = true
			}
		}
	})
	return found
}

// resultValues: the values a returned result can have — the value itself, or, for a function with deferred calls
// (go/ssa spills its results into cells), every value stored into the result's cell.
func resultValues(v ssa.Value) []ssa.Value {
	if u, ok := v.(*ssa.UnOp); ok && u.Op == token.MUL {
		if al, ok := u.X.(*ssa.Alloc); ok {
			var out []ssa.Value
			for _, r := range *al.Referrers() {
				if st, ok := r.(*ssa.Store); ok && st.Addr == ssa.Value(al) {
					out = append(out, st.Val)
				}
			}
			if len(out) > 0 {
				return out
			}
		}
	}
	return []ssa.Value{v}
}

// usedInLibrary: some library function calls f or takes it as a value.
func usedInLibrary(c *Ctx, f *ssa.Function) bool {
	used := false
	for _, g := range c.libFunctions() {
		if g == f {
			continue
		}
		allInstrs(g, func(_ *ssa.BasicBlock, _ int, in ssa.Instruction) {
			for _, op := range in.Operands(nil) {
				if op != nil && *op == ssa.Value(f) {
					used = true
				}
			}
			if ci, ok := in.(ssa.CallInstruction); ok && staticCallee(ci) == f {
				used = true
			}
		})
	}
	return used
}
