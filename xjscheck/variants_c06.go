package main

func init() {
	a := "ast/ast.go"
	w := "ast/code_writer.go"
	wf := "ast/code_writer_format.go"
	cc := "compiler/compiler.go"
	addVariants(
		variant{Prop: "C06", Name: "flush-keeps-layout-pending-on-empty-output", File: wf, Old: "\t\t}\n\t}\n\tcw.clearPending()\n}", New: "\t\t}\n\t\tcw.clearPending()\n\t}\n}", Rule: "R6.5", Construct: "flushPending"},
		// R6.1
		variant{Prop: "C06", Name: "printer-branches-on-pretty-switch", File: a, Old: "\tls.Name.WriteTo(cw)\n\tif ls.Value != nil {", New: "\tls.Name.WriteTo(cw)\n\tif ls.Value != nil && !cw.PrettyPrint {", Rule: "R6.1", Construct: "(*ast.LetStatement).WriteTo: access"},
		variant{Prop: "C06", Name: "pending-queue-gets-a-semicolon", File: wf, Old: "cw.pendings = append(cw.pendings, '\\n')", New: "cw.pendings = append(cw.pendings, ';', '\\n')", Rule: "R6.1", Construct: "store #"},
		variant{Prop: "C06", Name: "comma-dropped-when-pretty", File: w, Old: "\tcw.recordMapping()\n\tcw.emitRune(r)", New: "\tcw.recordMapping()\n\tif cw.PrettyPrint && r == ',' {\n\t\treturn\n\t}\n\tcw.emitRune(r)", Rule: "R6.1", Construct: "WriteRune: output append"},
		variant{Prop: "C06", Name: "tab-indent-with-guide-character", File: cc, Old: "opts.IndentString = \"\\t\"", New: "opts.IndentString = \"\\t|\"", Rule: "R6.1", Construct: "indent string producer"},
		variant{Prop: "C06", Name: "default-indent-visible", File: wf, Old: "indent = \"  \" // default: 2 spaces", New: "indent = \"··\"", Rule: "R6.1", Construct: "writeIndent: output append"},
		// R6.2
		variant{Prop: "C06", Name: "continuation-predicate-forgets-bracket", File: w, Old: "case '(', '[', '`', '+', '-':", New: "case '(', '`', '+', '-':", Rule: "R6.2", Construct: "starts with ["},
		variant{Prop: "C06", Name: "closer-consulted-before-flush", File: w, Old: "func (cw *CodeWriter) WriteString(s string) {\n\tcw.flushPending()\n\tif len(s) > 0 {\n\t\tcw.closeStatement(s[0])\n", New: "func (cw *CodeWriter) WriteString(s string) {\n\tif len(s) > 0 {\n\t\tcw.closeStatement(s[0])\n\t}\n\tcw.flushPending()\n\tif len(s) > 0 {\n", Rule: "R6.2", Construct: "a statement after the first starts with"},
		variant{Prop: "C06", Name: "omitted-flag-never-cleared", File: w, Old: "\tcw.semiOmitted = false\n\tif continuesStatement(next) {", New: "\tif continuesStatement(next) {", Rule: "R6.2", Construct: "a statement after the first starts with"},
		variant{Prop: "C06", Name: "else-without-terminator-request", File: a, Old: "\t\tcw.TerminateStatement()\n", New: "", Rule: "R6.2", Construct: "IfStatement: \"else\""},
		variant{Prop: "C06", Name: "omission-not-recorded", File: w, Old: "\tcw.semiOmitted = true\n}", New: "}", Rule: "R6.2", Construct: "a statement after the first starts with"},
		variant{Prop: "C06", Name: "omission-recorded-only-at-top-level", File: w, Old: "\tcw.semiOmitted = true\n}", New: "\tif cw.IndentLevel == 0 {\n\t\tcw.semiOmitted = true\n\t}\n}", Rule: "R6.2", Construct: "a statement after the first starts with"},
		// R6.3
		variant{Prop: "C06", Name: "line-trim-takes-tabs-too", File: cc, Old: "strings.TrimRight(line, \" \")", New: "strings.TrimRight(line, \" \\t\")", Rule: "R6.3", Construct: "\" \\t\""},
		variant{Prop: "C06", Name: "post-pass-collapses-blank-lines", File: cc, Old: "\treturn strings.Join(lines, \"\\n\")", New: "\treturn strings.ReplaceAll(strings.Join(lines, \"\\n\"), \"\\n\\n\\n\", \"\\n\\n\")", Rule: "R6.3", Construct: "ReplaceAll"},
		// R6.4
		variant{Prop: "C06", Name: "separator-guard-off-in-pretty-mode", File: w, Old: "\tout := cw.Builder.String()\n", New: "\tif cw.PrettyPrint {\n\t\treturn\n\t}\n\tout := cw.Builder.String()\n", Rule: "R6.4", Construct: "UnaryExpression: text(Operator)"},
		// benign
		variant{Prop: "C06", Name: "benign-post-pass-trims-only-the-ends", File: cc, Old: "\tlines := strings.Split(strings.TrimSpace(code), \"\\n\")\n\tfor i, line := range lines {\n\t\tlines[i] = strings.TrimRight(line, \" \")\n\t}\n\treturn strings.Join(lines, \"\\n\")", New: "\treturn strings.TrimSpace(code)", Benign: true},
		variant{Prop: "C06", Name: "benign-continuation-includes-slash", File: w, Old: "case '(', '[', '`', '+', '-':", New: "case '(', '[', '`', '+', '-', '/':", Benign: true},
		variant{Prop: "C06", Name: "benign-semicolon-writer-restructured", File: w, Old: "\tif !cw.PrettyPrint {\n\t\tcw.WriteRune(';')\n\t\treturn\n\t}\n\tif cw.WriteSemicolons {\n\t\tcw.WriteRune(';')\n\t\treturn\n\t}", New: "\tif !cw.PrettyPrint || cw.WriteSemicolons {\n\t\tcw.WriteRune(';')\n\t\treturn\n\t}", Benign: true},
		variant{Prop: "C06", Name: "benign-four-space-default", File: cc, Old: "IndentString:    \"  \", // 2 spaces by default", New: "IndentString:    \"    \",", Benign: true},
	)
}
