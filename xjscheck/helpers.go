package main

import (
	"fmt"
	"go/ast"
	"go/constant"
	"go/token"
	"go/types"
	"sort"
	"strings"

	"golang.org/x/tools/go/ssa"
)

// ---- type helpers ---------------------------------------------------------------------------

func deref(t types.Type) types.Type {
	if p, ok := t.Underlying().(*types.Pointer); ok {
		return p.Elem()
	}
	return t
}

// namedIs reports whether t (possibly behind pointers) is the named type pkgShort.name of the module.
func namedIs(t types.Type, pkgShort, name string) bool {
	t = deref(t)
	n, ok := t.(*types.Named)
	if !ok {
		if a, ok2 := t.(*types.Alias); ok2 {
			return namedIs(types.Unalias(a), pkgShort, name)
		}
		return false
	}
	o := n.Obj()
	return o != nil && o.Pkg() != nil && o.Pkg().Path() == modPath+"/"+pkgShort && o.Name() == name
}

func namedOf(t types.Type) *types.Named {
	t = deref(t)
	n, _ := types.Unalias(t).(*types.Named)
	return n
}

// lookupType returns the named type pkgShort.name.
func (c *Ctx) lookupType(pkgShort, name string) *types.Named {
	p := c.Pkgs[pkgShort]
	if p == nil {
		return nil
	}
	o := p.Types.Scope().Lookup(name)
	if o == nil {
		return nil
	}
	n, _ := o.Type().(*types.Named)
	return n
}

func (c *Ctx) structOf(pkgShort, name string) *types.Struct {
	n := c.lookupType(pkgShort, name)
	if n == nil {
		return nil
	}
	s, _ := n.Underlying().(*types.Struct)
	return s
}

// fieldByName returns the field object of struct pkg.typ named field.
func (c *Ctx) fieldByName(pkgShort, typ, field string) *types.Var {
	s := c.structOf(pkgShort, typ)
	if s == nil {
		return nil
	}
	for i := 0; i < s.NumFields(); i++ {
		if s.Field(i).Name() == field {
			return s.Field(i)
		}
	}
	return nil
}

// fieldByType returns the unique field of pkg.typ for which pred(fieldType) holds (anchor by role/type).
func (c *Ctx) fieldByType(pkgShort, typ string, pred func(types.Type) bool) *types.Var {
	s := c.structOf(pkgShort, typ)
	if s == nil {
		return nil
	}
	var found *types.Var
	for i := 0; i < s.NumFields(); i++ {
		if pred(s.Field(i).Type()) {
			if found != nil {
				return nil // ambiguous
			}
			found = s.Field(i)
		}
	}
	return found
}

// fieldByTypeUsedIn: like fieldByType, but when several fields have the type (a PR added a file name next to the
// input, a list of sources next to the names) the one that the named function touches is taken — the anchor is the
// field by its role, not by being the only one of its type.
func (c *Ctx) fieldByTypeUsedIn(pkgShort, typ string, pred func(types.Type) bool, fnNames ...string) *types.Var {
	if f := c.fieldByType(pkgShort, typ, pred); f != nil {
		return f
	}
	s := c.structOf(pkgShort, typ)
	if s == nil {
		return nil
	}
	c.buildSSA()
	cands := map[*types.Var]bool{}
	for i := 0; i < s.NumFields(); i++ {
		if pred(s.Field(i).Type()) {
			cands[s.Field(i)] = true
		}
	}
	used := map[*types.Var]bool{}
	for _, n := range fnNames {
		f := c.fn(n)
		if f == nil {
			continue
		}
		allInstrs(f, func(_ *ssa.BasicBlock, _ int, in ssa.Instruction) {
			if fa, ok := in.(*ssa.FieldAddr); ok && cands[fieldOfAddr(fa)] {
				used[fieldOfAddr(fa)] = true
			}
		})
	}
	if len(used) != 1 {
		return nil
	}
	for k := range used {
		return k
	}
	return nil
}

func (c *Ctx) constVal(pkgShort, name string) (constant.Value, bool) {
	p := c.Pkgs[pkgShort]
	if p == nil {
		return nil, false
	}
	o, ok := p.Types.Scope().Lookup(name).(*types.Const)
	if !ok {
		return nil, false
	}
	return o.Val(), true
}

func (c *Ctx) constInt(pkgShort, name string) (int64, bool) {
	v, ok := c.constVal(pkgShort, name)
	if !ok {
		return 0, false
	}
	i, ok := constant.Int64Val(v)
	return i, ok
}

// ---- SSA helpers ----------------------------------------------------------------------------

// fieldOfAddr returns the struct field addressed by a FieldAddr.
func fieldOfAddr(fa *ssa.FieldAddr) *types.Var {
	st, ok := deref(fa.X.Type()).Underlying().(*types.Struct)
	if !ok {
		return nil
	}
	return st.Field(fa.Field)
}

func fieldOfField(f *ssa.Field) *types.Var {
	st, ok := f.X.Type().Underlying().(*types.Struct)
	if !ok {
		return nil
	}
	return st.Field(f.Field)
}

// isFieldAddr reports whether v is the address of field fld.
func isFieldAddr(v ssa.Value, fld *types.Var) (*ssa.FieldAddr, bool) {
	fa, ok := v.(*ssa.FieldAddr)
	if !ok {
		return nil, false
	}
	return fa, fieldOfAddr(fa) == fld
}

// isFieldLoad reports whether v is a load (*addr) of field fld; returns the FieldAddr.
func isFieldLoad(v ssa.Value, fld *types.Var) (*ssa.FieldAddr, bool) {
	u, ok := v.(*ssa.UnOp)
	if !ok || u.Op != token.MUL {
		return nil, false
	}
	return isFieldAddr(u.X, fld)
}

func staticCallee(ci ssa.CallInstruction) *ssa.Function {
	return ci.Common().StaticCallee()
}

// calleeIs reports whether the call statically calls the function with the given stable name.
func calleeIs(ci ssa.CallInstruction, name string) bool {
	f := staticCallee(ci)
	return f != nil && fnName(f) == name
}

func isBuiltinCall(v ssa.Value, name string) (*ssa.Call, bool) {
	call, ok := v.(*ssa.Call)
	if !ok {
		return nil, false
	}
	b, ok := call.Call.Value.(*ssa.Builtin)
	if !ok || b.Name() != name {
		return nil, false
	}
	return call, true
}

func constInt64(v ssa.Value) (int64, bool) {
	k, ok := v.(*ssa.Const)
	if !ok || k.Value == nil {
		return 0, false
	}
	if k.Value.Kind() != constant.Int {
		return 0, false
	}
	return constant.Int64Val(k.Value)
}

// unwrap strips conversions that do not change the value identity.
func unwrap(v ssa.Value) ssa.Value {
	for {
		switch x := v.(type) {
		case *ssa.ChangeType:
			v = x.X
		case *ssa.Convert:
			v = x.X
		default:
			return v
		}
	}
}

// cellValue resolves a load from a heap cell / local alloc / free variable that has exactly one store
// in its defining function to the stored value (closures capture variables as cells).
func cellValue(v ssa.Value) (ssa.Value, bool) {
	u, ok := v.(*ssa.UnOp)
	if !ok || u.Op != token.MUL {
		return nil, false
	}
	return cellStored(u.X)
}

// cellStored finds the single value stored into the cell addr (an Alloc, or a FreeVar bound to one).
func cellStored(addr ssa.Value) (ssa.Value, bool) {
	switch a := addr.(type) {
	case *ssa.Alloc:
		var stored ssa.Value
		n := 0
		for _, r := range *a.Referrers() {
			if st, ok := r.(*ssa.Store); ok && st.Addr == a {
				stored = st.Val
				n++
			}
		}
		// stores performed by closures that captured the cell
		for _, r := range *a.Referrers() {
			if mc, ok := r.(*ssa.MakeClosure); ok {
				fn := mc.Fn.(*ssa.Function)
				for i, b := range mc.Bindings {
					if b == a {
						n += countStores(fn, fn.FreeVars[i])
					}
				}
			}
		}
		if n == 1 && stored != nil {
			return stored, true
		}
		return nil, false
	case *ssa.FreeVar:
		b := freeVarBinding(a)
		if b == nil {
			return nil, false
		}
		return cellStored(b)
	}
	return nil, false
}

func countStores(fn *ssa.Function, fv *ssa.FreeVar) int {
	n := 0
	for _, r := range *fv.Referrers() {
		if st, ok := r.(*ssa.Store); ok && st.Addr == fv {
			n++
		}
		if mc, ok := r.(*ssa.MakeClosure); ok {
			inner := mc.Fn.(*ssa.Function)
			for i, b := range mc.Bindings {
				if b == fv {
					n += countStores(inner, inner.FreeVars[i])
				}
			}
		}
	}
	return n
}

// freeVarBinding returns the value bound to the free variable at the (unique) MakeClosure of its function.
func freeVarBinding(fv *ssa.FreeVar) ssa.Value {
	fn := fv.Parent()
	parent := fn.Parent()
	if parent == nil {
		return nil
	}
	idx := -1
	for i, f := range fn.FreeVars {
		if f == fv {
			idx = i
		}
	}
	if idx < 0 {
		return nil
	}
	var found ssa.Value
	for _, b := range parent.Blocks {
		for _, in := range b.Instrs {
			if mc, ok := in.(*ssa.MakeClosure); ok && mc.Fn == fn {
				if found != nil {
					return nil
				}
				found = mc.Bindings[idx]
			}
		}
	}
	return found
}

// resolve follows single-store cells and value-preserving conversions.
func resolve(v ssa.Value) ssa.Value {
	for i := 0; i < 16; i++ {
		v = unwrap(v)
		if s, ok := cellValue(v); ok {
			v = s
			continue
		}
		return v
	}
	return v
}

// allInstrs iterates over the instructions of fn in block order.
func allInstrs(fn *ssa.Function, f func(b *ssa.BasicBlock, i int, in ssa.Instruction)) {
	for _, b := range fn.Blocks {
		for i, in := range b.Instrs {
			f(b, i, in)
		}
	}
}

// withClosures returns fn and all functions nested in it.
func withClosures(fn *ssa.Function) []*ssa.Function {
	out := []*ssa.Function{fn}
	for _, a := range fn.AnonFuncs {
		out = append(out, withClosures(a)...)
	}
	return out
}

// instrDominates reports whether instruction a is executed before b on every path that reaches b.
func instrDominates(a, b ssa.Instruction) bool {
	ba, bb := a.Block(), b.Block()
	if ba == bb {
		for _, in := range ba.Instrs {
			if in == a {
				return true
			}
			if in == b {
				return false
			}
		}
		return false
	}
	return ba.Dominates(bb)
}

// instrReachableAfter reports whether instruction b can execute after instruction a on some path.
func instrReachableAfter(a, b ssa.Instruction) bool {
	ba, bb := a.Block(), b.Block()
	if ba == bb {
		seenA := false
		for _, in := range ba.Instrs {
			if in == a {
				seenA = true
			} else if in == b && seenA {
				return true
			}
		}
	}
	// reachable through at least one edge
	seen := map[*ssa.BasicBlock]bool{}
	work := append([]*ssa.BasicBlock(nil), ba.Succs...)
	for len(work) > 0 {
		x := work[len(work)-1]
		work = work[:len(work)-1]
		if seen[x] {
			continue
		}
		seen[x] = true
		if x == bb {
			return true
		}
		work = append(work, x.Succs...)
	}
	return false
}

// edgeDominates reports whether the CFG edge from->to (to must be a successor of from) dominates block b:
// every path from entry to b passes through that edge.
func edgeDominates(from, to, b *ssa.BasicBlock) bool {
	if !to.Dominates(b) {
		return false
	}
	// 'to' must be entered only through 'from' (or through blocks it dominates itself, i.e. back edges)
	for _, p := range to.Preds {
		if p != from && !to.Dominates(p) {
			return false
		}
	}
	return true
}

// condTrueDominates reports whether block b is only reachable through the true (or false) edge of the If in block ifb.
func condEdgeDominates(ifb *ssa.BasicBlock, trueEdge bool, b *ssa.BasicBlock) bool {
	if len(ifb.Succs) != 2 {
		return false
	}
	idx := 0
	if !trueEdge {
		idx = 1
	}
	return edgeDominates(ifb, ifb.Succs[idx], b)
}

func blockIf(b *ssa.BasicBlock) *ssa.If {
	if len(b.Instrs) == 0 {
		return nil
	}
	i, _ := b.Instrs[len(b.Instrs)-1].(*ssa.If)
	return i
}

// sliceLitElems: v = Slice(Alloc [n]T) built by element stores; returns the stored elements in index order.
func sliceLitElems(v ssa.Value) ([]ssa.Value, bool) {
	sl, ok := v.(*ssa.Slice)
	if !ok || sl.Low != nil || sl.High != nil {
		return nil, false
	}
	al, ok := sl.X.(*ssa.Alloc)
	if !ok {
		return nil, false
	}
	arr, ok := deref(al.Type()).Underlying().(*types.Array)
	if !ok {
		return nil, false
	}
	elems := make([]ssa.Value, arr.Len())
	for _, r := range *al.Referrers() {
		ia, ok := r.(*ssa.IndexAddr)
		if !ok {
			continue
		}
		idx, ok := constInt64(ia.Index)
		if !ok || idx < 0 || idx >= arr.Len() {
			return nil, false
		}
		for _, r2 := range *ia.Referrers() {
			if st, ok := r2.(*ssa.Store); ok && st.Addr == ia {
				elems[idx] = st.Val
			}
		}
	}
	return elems, true
}

// truncatedToEmpty: v is fld[:0] of the same object's field fld — the buffer emptied in place (its backing array is kept).
func truncatedToEmpty(v ssa.Value, fld *types.Var) bool {
	sl, ok := v.(*ssa.Slice)
	if !ok || sl.High == nil || sl.Max != nil {
		return false
	}
	if h, ok := constInt64(sl.High); !ok || h != 0 {
		return false
	}
	if sl.Low != nil {
		if l, ok := constInt64(sl.Low); !ok || l != 0 {
			return false
		}
	}
	_, ok = isFieldLoad(sl.X, fld)
	return ok
}

// copyConstructStore: st initialises field F of an object allocated in this very function (a composite literal or
// new(T)) with a copy of field F of ANOTHER object of the same type — a scalar loaded from it, or
// slices.Clone / slices.Clip(slices.Clone) / maps.Clone of it. The new object then satisfies every invariant over F
// that the source object satisfies; who-may-write rules treat such a store as construction, not as mutation.
func copyConstructStore(st *ssa.Store) bool {
	fa, ok := st.Addr.(*ssa.FieldAddr)
	if !ok {
		return false
	}
	al, ok := fa.X.(*ssa.Alloc)
	if !ok {
		return false
	}
	fld := fieldOfAddr(fa)
	v := st.Val
	copied := false
	for i := 0; i < 3; i++ {
		call, ok := v.(*ssa.Call)
		if !ok {
			break
		}
		cal := call.Call.StaticCallee()
		if cal == nil || len(call.Call.Args) != 1 {
			return false
		}
		switch {
		case extFuncIs(cal, "slices", "Clone"), extFuncIs(cal, "maps", "Clone"):
			copied = true
		case extFuncIs(cal, "slices", "Clip"):
		default:
			return false
		}
		v = call.Call.Args[0]
	}
	src, ok := isFieldLoad(v, fld)
	if !ok || src.X == ssa.Value(al) {
		return false
	}
	switch fld.Type().Underlying().(type) {
	case *types.Slice, *types.Map:
		return copied // a reference type must be cloned, not shared
	case *types.Pointer, *types.Chan, *types.Signature, *types.Interface:
		return false
	}
	return true
}

// ---- AST helpers ----------------------------------------------------------------------------

// funcDecl finds a function declaration: recv "" for package-level functions, else the receiver type name.
func (c *Ctx) funcDecl(pkgShort, recv, name string) *ast.FuncDecl {
	p := c.Pkgs[pkgShort]
	if p == nil {
		return nil
	}
	for _, f := range p.Syntax {
		for _, d := range f.Decls {
			fd, ok := d.(*ast.FuncDecl)
			if !ok || fd.Name.Name != name {
				continue
			}
			if recvTypeName(fd) == recv {
				return fd
			}
		}
	}
	return nil
}

func recvTypeName(fd *ast.FuncDecl) string {
	if fd.Recv == nil || len(fd.Recv.List) == 0 {
		return ""
	}
	t := fd.Recv.List[0].Type
	if s, ok := t.(*ast.StarExpr); ok {
		t = s.X
	}
	if ix, ok := t.(*ast.IndexExpr); ok {
		t = ix.X
	}
	if id, ok := t.(*ast.Ident); ok {
		return id.Name
	}
	return ""
}

func declName(fd *ast.FuncDecl) string {
	if r := recvTypeName(fd); r != "" {
		return "(" + r + ")." + fd.Name.Name
	}
	return fd.Name.Name
}

// allFuncDecls lists the function declarations of a library package in a stable order.
func (c *Ctx) allFuncDecls(pkgShort string) []*ast.FuncDecl {
	p := c.Pkgs[pkgShort]
	var out []*ast.FuncDecl
	for _, f := range p.Syntax {
		for _, d := range f.Decls {
			if fd, ok := d.(*ast.FuncDecl); ok && fd.Body != nil {
				out = append(out, fd)
			}
		}
	}
	sort.Slice(out, func(i, j int) bool { return declName(out[i]) < declName(out[j]) })
	return out
}

func (c *Ctx) tinfo(pkgShort string) *types.Info { return c.Pkgs[pkgShort].TypesInfo }

// constOf returns the constant value of an expression, if it has one.
func constOfExpr(info *types.Info, e ast.Expr) (constant.Value, bool) {
	tv, ok := info.Types[e]
	if !ok || tv.Value == nil {
		return nil, false
	}
	return tv.Value, true
}

// tokenConstName maps a constant token.Type value back to its name using the constants of package token.
func (c *Ctx) tokenNames() map[int64]string {
	out := map[int64]string{}
	p := c.Pkgs["token"]
	tt := c.lookupType("token", "Type")
	sc := p.Types.Scope()
	for _, n := range sc.Names() {
		k, ok := sc.Lookup(n).(*types.Const)
		if !ok || !types.Identical(k.Type(), tt) {
			continue
		}
		v, _ := constant.Int64Val(k.Val())
		if _, dup := out[v]; !dup || n < out[v] {
			out[v] = n
		}
	}
	return out
}

func sortedKeys[M ~map[string]V, V any](m M) []string {
	ks := make([]string, 0, len(m))
	for k := range m {
		ks = append(ks, k)
	}
	sort.Strings(ks)
	return ks
}

func joinInts(m map[int64]bool, names map[int64]string) string {
	var s []string
	for k := range m {
		if n, ok := names[k]; ok {
			s = append(s, n)
		} else {
			s = append(s, fmt.Sprint(k))
		}
	}
	sort.Strings(s)
	return strings.Join(s, ",")
}

func constantInt(v constant.Value) (int64, bool) {
	if v == nil {
		return 0, false
	}
	return constant.Int64Val(constant.ToInt(v))
}

// argsAtCallers: the values handed to parameter idx of f at every call site, provided the set of call sites is closed:
// f is unexported (or a method of an unexported type), is called only statically from library code and is never used as
// a value (no method value, closure binding, interface dispatch through an exported interface is not excluded — hence
// methods must not satisfy it by being invoked dynamically: any invoke-mode call with the same method name defeats it).
func (c *Ctx) argsAtCallers(f *ssa.Function, idx int) ([]ssa.Value, bool) {
	if f == nil || idx < 0 || idx >= len(f.Params) {
		return nil, false
	}
	if obj := f.Object(); obj == nil || obj.Exported() {
		return nil, false
	}
	var args []ssa.Value
	closed := true
	for _, h := range c.libFunctions() {
		{
			allInstrs(h, func(_ *ssa.BasicBlock, _ int, in ssa.Instruction) {
				if ci, ok := in.(ssa.CallInstruction); ok {
					com := ci.Common()
					if com.StaticCallee() == f {
						args = append(args, com.Args[idx])
						for i, a := range com.Args {
							if i != idx && a == ssa.Value(f) {
								closed = false
							}
						}
						return
					}
					if com.IsInvoke() && com.Method.Name() == f.Name() {
						closed = false
					}
				}
				for _, op := range in.Operands(nil) {
					if op == nil || *op == nil {
						continue
					}
					if fn, ok := (*op).(*ssa.Function); ok && (fn == f || (fn.Synthetic != "" && fn.Object() == f.Object())) {
						if ci, isCall := in.(ssa.CallInstruction); isCall && ci.Common().Value == *op {
							continue
						}
						closed = false
					}
				}
			})
		}
	}
	return args, closed && len(args) > 0
}

// phiOnPath: the value a phi takes on the given block path (the edge from the block that precedes the phi's block on
// the path), resolved repeatedly; v itself when it is not a phi or its block is not entered from a path block.
func phiOnPath(v ssa.Value, blocks []*ssa.BasicBlock) ssa.Value {
	for n := 0; n < 16; n++ {
		phi, ok := v.(*ssa.Phi)
		if !ok {
			return v
		}
		at := -1
		for i := len(blocks) - 1; i > 0; i-- {
			if blocks[i] == phi.Block() {
				at = i
				break
			}
		}
		if at < 1 {
			return v
		}
		edge := -1
		for i, p := range phi.Block().Preds {
			if p == blocks[at-1] {
				edge = i
			}
		}
		if edge < 0 {
			return v
		}
		v = phi.Edges[edge]
		blocks = blocks[:at]
	}
	return v
}

// reachesBlock: some path of at least one edge leads from `from` to `to` (from == to asks whether the block lies on a cycle).
func reachesBlock(from, to *ssa.BasicBlock) bool {
	seen := map[*ssa.BasicBlock]bool{}
	var rec func(b *ssa.BasicBlock) bool
	rec = func(b *ssa.BasicBlock) bool {
		if b == to {
			return true
		}
		if seen[b] {
			return false
		}
		seen[b] = true
		for _, s := range b.Succs {
			if rec(s) {
				return true
			}
		}
		return false
	}
	for _, s := range from.Succs {
		if rec(s) {
			return true
		}
	}
	return false
}
