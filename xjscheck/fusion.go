package main

import (
	"fmt"
	"go/constant"
	"go/token"
	"go/types"
	"sort"
	"strings"

	"golang.org/x/tools/go/ssa"
)

// A3 — FIRST/LAST lexeme sets of the printers and the adjacency obligations derived from them.
//
// Every node printer (E5 event tree) is read as a grammar over lexemes: constant texts are lexed with the lexeme
// table E2, token texts stand for the lexemes of the token types the parser stores there, an interface-typed child
// stands for every node type that can fill it (programmatic trees included; an over-approximation, which can only add
// obligations), layout writes are separators in pretty mode and nothing in compact mode. FIRST/LAST/nullable are
// the usual least fixpoints. For every pair of leaves that can be written one right after the other, every
// (last lexeme, first lexeme) pair must re-lex to itself; a pair that would fuse is discharged only when the writer's
// separator guard — found by its shape in the text-writing methods and folded on that very byte pair — inserts a
// space between them.

type lexd struct {
	key   string // unique: the text for fixed lexemes, "<CLASS>" for classes, "␣" for a guaranteed separator
	text  string
	class string // "", IDENT, NUM, STR, RAW
	first bset
	last  bset
	sep   bool
	via   string // the writer method that writes the lexeme's first byte
}

func (l *lexd) id() string { return l.key + "@" + l.via }

// withVia returns the lexeme as written through writer method via.
func (fm *fusionModel) withVia(l *lexd, via string) *lexd {
	if l.sep || l.via == via {
		return l
	}
	k := l.key + "@" + via
	if x, ok := fm.viaLex[k]; ok {
		return x
	}
	c := *l
	c.via = via
	fm.viaLex[k] = &c
	return &c
}

var sepLex = &lexd{key: "␣", sep: true}

// litSepLex: whitespace that is part of a constant text a printer writes (" else "), as opposed to layout
var litSepLex = &lexd{key: "␣(literal)", sep: true}

type fkind int

const (
	fLeaf fkind = iota
	fChild
	fOpt
	fLoop
	fStop
)

type fev struct {
	kind   fkind
	alts   []*lexd // leaf: alternative lexeme sequences collapse to (first,last) per alternative
	firsts []*lexd
	lasts  []*lexd
	null   bool     // leaf that may write nothing
	types  []string // child: candidate node types
	kids   []*fev
	alt    []*fev
	label  string
	pos    token.Pos
}

type fsum struct {
	nullable bool
	first    map[string]*lexd
	last     map[string]*lexd
}

type fmode struct {
	name   string
	pretty bool
	semis  bool
}

var fmodes = []fmode{{"compact", false, true}, {"pretty", true, true}, {"pretty-nosemi", true, false}}

type fusionModel struct {
	c                                  *Ctx
	t                                  *tables
	g                                  *grammarModel
	idStart, idPart                    bset
	lex                                map[string]*lexd
	viaLex                             map[string]*lexd
	trees                              map[string]map[string][]*fev // mode -> node -> tree
	sums                               map[string]map[string]*fsum  // mode -> node -> summary
	issues                             map[string][]string          // node -> extraction problems
	exprTypes, nodeTypesAll, stmtTypes []string
	hazards                            []string // lexemes that are not tokens of the subset but open something in JavaScript (comments)
}

func (c *Ctx) fusionModel(t *tables, g *grammarModel) *fusionModel {
	if c.fmodel != nil {
		return c.fmodel
	}
	fm := &fusionModel{c: c, t: t, g: g, lex: map[string]*lexd{}, viaLex: map[string]*lexd{}, trees: map[string]map[string][]*fev{}, sums: map[string]map[string]*fsum{}, issues: map[string][]string{}}
	c.fmodel = fm
	for b := 0; b < 256; b++ {
		ch := byte(b)
		if ch == '_' || ch == '$' || (ch >= 'a' && ch <= 'z') || (ch >= 'A' && ch <= 'Z') {
			fm.idStart.add(ch)
			fm.idPart.add(ch)
		}
		if ch >= '0' && ch <= '9' {
			fm.idPart.add(ch)
		}
	}
	fm.hazards = []string{"//", "/*"}
	for _, nt := range t.pr.nodes {
		fm.nodeTypesAll = append(fm.nodeTypesAll, nt.Obj().Name())
	}
	for n := range t.pr.exprs {
		fm.exprTypes = append(fm.exprTypes, n)
	}
	sort.Strings(fm.nodeTypesAll)
	sort.Strings(fm.exprTypes)
	// statement slots: the node types the statement dispatch returns (an expression is wrapped by the default arm);
	// a plugin that stores a bare expression in a statement slot is outside the analysed program
	stm := map[string]bool{}
	ms := []*types.Func{t.pt.dispatchDefault}
	for _, m := range t.pt.dispatch {
		ms = append(ms, m)
	}
	for _, m := range ms {
		if m == nil {
			continue
		}
		for _, gm := range g.methods {
			if gm.method == m && len(gm.paths) > 0 {
				stm[gm.node] = true
			}
		}
	}
	for n := range stm {
		fm.stmtTypes = append(fm.stmtTypes, n)
	}
	sort.Strings(fm.stmtTypes)
	for _, m := range fmodes {
		fm.trees[m.name] = map[string][]*fev{}
		for _, n := range fm.nodeTypesAll {
			pe := g.printers[n]
			if pe == nil {
				continue
			}
			x := &fbuild{fm: fm, mode: m, node: n, nt: c.lookupType("ast", n)}
			fm.trees[m.name][n] = x.seq(pe.root)
			if m.name == "compact" {
				fm.issues[n] = x.issues
			}
		}
		fm.solve(m.name)
	}
	return fm
}

func (fm *fusionModel) fixed(text string) *lexd {
	if l, ok := fm.lex[text]; ok {
		return l
	}
	l := &lexd{key: text, text: text}
	l.first.add(text[0])
	l.last.add(text[len(text)-1])
	fm.lex[text] = l
	return l
}

func (fm *fusionModel) class(name string) *lexd {
	key := "<" + name + ">"
	if l, ok := fm.lex[key]; ok {
		return l
	}
	l := &lexd{key: key, class: name}
	switch name {
	case "IDENT":
		l.first, l.last = fm.idStart, fm.idPart
	case "NUM":
		for ch := byte('0'); ch <= '9'; ch++ {
			l.first.add(ch)
		}
		l.last = fm.idPart // digits, hex letters, exponent markers: all word characters
	}
	fm.lex[key] = l
	return l
}

func (fm *fusionModel) delimited(d byte) *lexd {
	key := "<" + string(d) + "…" + string(d) + ">"
	if l, ok := fm.lex[key]; ok {
		return l
	}
	l := &lexd{key: key, class: "STR"}
	l.first.add(d)
	l.last.add(d)
	fm.lex[key] = l
	return l
}

// lexemesOfType: the lexeme descriptors of a token type.
func (fm *fusionModel) lexemesOfType(k int64) ([]*lexd, bool) {
	t := fm.t
	if t.lt.numTypes[k] {
		return []*lexd{fm.class("NUM")}, true
	}
	if k == t.tc.byName["IDENT"] {
		return []*lexd{fm.class("IDENT")}, true
	}
	for d, tt := range t.lt.strDelims {
		if tt == k {
			return []*lexd{fm.delimited(d)}, true
		}
	}
	var out []*lexd
	for _, s := range t.lt.lexemesOf(k) {
		out = append(out, fm.fixed(s))
	}
	return out, len(out) > 0
}

// lexText splits a constant text into lexemes (maximal munch over E2); spaces separate.
func (fm *fusionModel) lexText(text string) (lex []*lexd, leadSp, trailSp bool, ok bool) {
	ok = true
	leadSp = strings.HasPrefix(text, " ") || strings.HasPrefix(text, "\n") || strings.HasPrefix(text, "\t")
	trailSp = strings.HasSuffix(text, " ") || strings.HasSuffix(text, "\n") || strings.HasSuffix(text, "\t")
	run := text
	for len(run) > 0 {
		ch := run[0]
		if ch == ' ' || ch == '\n' || ch == '\t' {
			run = run[1:]
			continue
		}
		if fm.idStart.has(ch) {
			j := 1
			for j < len(run) && fm.idPart.has(run[j]) {
				j++
			}
			lex = append(lex, fm.fixed(run[:j]))
			run = run[j:]
			continue
		}
		best := ""
		for l := range fm.t.lt.fixed {
			if strings.HasPrefix(run, l) && len(l) > len(best) {
				best = l
			}
		}
		if best == "" {
			if _, isDelim := fm.t.lt.strDelims[ch]; isDelim {
				lex = append(lex, fm.fixed(run[:1]))
				run = run[1:]
				continue
			}
			return nil, false, false, false
		}
		lex = append(lex, fm.fixed(best))
		run = run[len(best):]
	}
	return
}

type fbuild struct {
	fm     *fusionModel
	mode   fmode
	node   string
	nt     *types.Named
	issues []string
}

func (x *fbuild) issue(format string, args ...any) {
	x.issues = append(x.issues, fmt.Sprintf(format, args...))
}

// textLexemes: the lexemes a token-text event of this node can write.
func (x *fbuild) textLexemes(field string) ([]*lexd, []string, bool) {
	fm := x.fm
	types_ := map[int64]bool{}
	var consts []string
	found := false
	for _, gm := range fm.g.byNode[x.node] {
		for _, gp := range gm.paths {
			if strings.HasSuffix(field, ".Literal") {
				tf := strings.TrimSuffix(field, ".Literal")
				for _, e := range gp.events {
					for _, f := range e.tokFields {
						if f == tf {
							found = true
							for k := range e.types {
								types_[k] = true
							}
							if e.types == nil {
								return nil, nil, false
							}
						}
					}
				}
				continue
			}
			if v, ok := gp.fields[field]; ok {
				switch v.kind {
				case vLit:
					e := gp.events[v.idx]
					found = true
					if e.types == nil {
						return nil, nil, false
					}
					for k := range e.types {
						types_[k] = true
					}
				case vConst:
					if v.k.Kind() == constant.String {
						found = true
						consts = appendUniq(consts, constant.StringVal(v.k))
					}
				}
			}
		}
	}
	if !found {
		return nil, nil, false
	}
	var out []*lexd
	var ks []int64
	for k := range types_ {
		ks = append(ks, k)
	}
	sort.Slice(ks, func(i, j int) bool { return ks[i] < ks[j] })
	for _, k := range ks {
		ls, ok := fm.lexemesOfType(k)
		if !ok {
			return nil, nil, false
		}
		out = append(out, ls...)
	}
	return out, consts, true
}

func (x *fbuild) childTypes(field string) []string {
	// resolve the static type of the field path
	var cur types.Type = x.nt
	for _, part := range strings.Split(field, ".") {
		elem := strings.HasSuffix(part, "[]")
		name := strings.TrimSuffix(part, "[]")
		st, ok := deref(cur).Underlying().(*types.Struct)
		if !ok {
			return nil
		}
		var ft types.Type
		for i := 0; i < st.NumFields(); i++ {
			if st.Field(i).Name() == name {
				ft = st.Field(i).Type()
			}
		}
		if ft == nil {
			return nil
		}
		if elem {
			sl, ok := ft.Underlying().(*types.Slice)
			if !ok {
				return nil
			}
			ft = sl.Elem()
		}
		cur = ft
	}
	switch {
	case namedIs(cur, "ast", "Expression"):
		return x.fm.exprTypes
	case namedIs(cur, "ast", "Statement"), namedIs(cur, "ast", "Node"):
		if len(x.fm.stmtTypes) > 0 {
			return x.fm.stmtTypes
		}
		return x.fm.nodeTypesAll
	}
	if nt := namedOf(deref(cur)); nt != nil && hasMethod(nt, "WriteTo") {
		return []string{nt.Obj().Name()}
	}
	return nil
}

func (x *fbuild) seq(evs []*pev) []*fev {
	fm := x.fm
	var out []*fev
	leaf := func(label string, pos token.Pos, firsts, lasts []*lexd, null bool) *fev {
		return &fev{kind: fLeaf, firsts: firsts, lasts: lasts, null: null, label: label, pos: pos}
	}
	for i := 0; i < len(evs); i++ {
		e := evs[i]
		switch e.kind {
		case evMap:
		case evComments:
			if x.mode.pretty {
				out = append(out, leaf("comments("+e.field+")", e.pos, []*lexd{sepLex}, []*lexd{sepLex}, true))
			}
		case evLayout:
			if x.mode.pretty && (e.text == "WriteSpace" || e.text == "WriteNewline") {
				out = append(out, leaf(e.text, e.pos, []*lexd{sepLex}, []*lexd{sepLex}, false))
			}
		case evTerm:
			if x.mode.pretty && !x.mode.semis {
				l := fm.withVia(fm.fixed(";"), "WriteRune")
				out = append(out, leaf("';'!", e.pos, []*lexd{l}, []*lexd{l}, true))
			}
		case evSemi:
			if !x.mode.pretty || x.mode.semis {
				l := fm.withVia(fm.fixed(";"), "WriteRune")
				out = append(out, leaf("';'", e.pos, []*lexd{l}, []*lexd{l}, false))
			}
		case evLit:
			// a delimiter, a token text and the same delimiter: one delimited lexeme
			if len(e.text) == 1 && i+2 < len(evs) && evs[i+1].kind == evText && evs[i+2].kind == evLit && strings.HasPrefix(evs[i+2].text, e.text) {
				if _, isDelim := fm.t.lt.strDelims[e.text[0]]; isDelim {
					d := fm.withVia(fm.delimited(e.text[0]), e.via)
					rest := evs[i+2].text[1:]
					out = append(out, leaf(fmt.Sprintf("%s%s%s", e.text, evs[i+1].field, e.text), e.pos, []*lexd{d}, []*lexd{d}, false))
					i += 2
					if rest != "" {
						evs = append(append(append([]*pev(nil), evs[:i+1]...), &pev{kind: evLit, text: rest, pos: evs[i].pos}), evs[i+1:]...)
					}
					continue
				}
			}
			out = append(out, x.litLeaf([]string{e.text}, fmt.Sprintf("%q", e.text), e.pos, e.via)...)
		case evText:
			ls, consts, ok := x.textLexemes(e.field)
			if !ok {
				x.issue("the lexemes of text(%s) are not known: no parse path fills it from a tested token or a constant", e.field)
				continue
			}
			if len(consts) > 0 && len(ls) == 0 {
				// constant operator text, possibly completed by the literal that follows directly
				suffix := ""
				if i+1 < len(evs) && evs[i+1].kind == evLit {
					suffix = evs[i+1].text
					i++
				}
				var texts []string
				for _, cs := range consts {
					texts = append(texts, cs+suffix)
				}
				out = append(out, x.litLeaf(texts, "text("+e.field+")"+fmt.Sprintf("%q", suffix), e.pos, e.via)...)
				continue
			}
			if len(consts) > 0 {
				x.issue("text(%s) is filled both from token literals and from constants", e.field)
			}
			var vls []*lexd
			for _, l := range ls {
				vls = append(vls, fm.withVia(l, e.via))
			}
			out = append(out, leaf("text("+e.field+")", e.pos, vls, vls, false))
		case evChild:
			ts := x.childTypes(e.field)
			if ts == nil {
				x.issue("static type of child %s not resolved", e.field)
				continue
			}
			out = append(out, &fev{kind: fChild, types: ts, label: "<" + e.field + ">", pos: e.pos})
		case evOpt:
			out = append(out, &fev{kind: fOpt, kids: x.seq(e.kids), alt: x.seq(e.alt), label: "[" + e.cond + "]", pos: e.pos})
		case evLoop:
			// the first iteration skips the `i > 0` parts, later iterations take them
			out = append(out, &fev{kind: fLoop, kids: x.seq(resolveNotFirst(e.kids, false)), alt: x.seq(resolveNotFirst(e.kids, true)), label: "{" + e.field + "}", pos: e.pos})
		case evRet:
			out = append(out, &fev{kind: fStop, pos: e.pos})
			return out
		default:
			x.issue("printer statement not understood: %s", e.text)
		}
	}
	return out
}

// litLeaf: a constant text (or alternatives) as a leaf; interior lexemes of one text are adjacent by construction
// and re-lex to themselves because that is how they were obtained.
func (x *fbuild) litLeaf(texts []string, label string, pos token.Pos, via string) []*fev {
	var firsts, lasts []*lexd
	allSpace := true
	for _, tx := range texts {
		lex, lead, trail, ok := x.fm.lexText(tx)
		if !ok {
			x.issue("constant text %q does not lex with the lexeme table", tx)
			return nil
		}
		if len(lex) == 0 {
			if tx != "" {
				firsts = append(firsts, litSepLex)
				lasts = append(lasts, litSepLex)
			}
			continue
		}
		allSpace = false
		if lead {
			firsts = append(firsts, litSepLex)
		} else {
			firsts = append(firsts, x.fm.withVia(lex[0], via))
		}
		if trail {
			lasts = append(lasts, litSepLex)
		} else {
			lasts = append(lasts, x.fm.withVia(lex[len(lex)-1], via))
		}
	}
	if len(firsts) == 0 {
		return nil
	}
	_ = allSpace
	return []*fev{{kind: fLeaf, firsts: firsts, lasts: lasts, label: label, pos: pos}}
}

// ---- fixpoint -------------------------------------------------------------------------------------

func (fm *fusionModel) solve(mode string) {
	sums := map[string]*fsum{}
	for n := range fm.trees[mode] {
		sums[n] = &fsum{first: map[string]*lexd{}, last: map[string]*lexd{}}
	}
	fm.sums[mode] = sums
	for changed := true; changed; {
		changed = false
		for n, tree := range fm.trees[mode] {
			nul, first, last := fm.summ(mode, tree)
			s := sums[n]
			if nul && !s.nullable {
				s.nullable = true
				changed = true
			}
			for k, v := range first {
				if s.first[k] == nil {
					s.first[k] = v
					changed = true
				}
			}
			for k, v := range last {
				if s.last[k] == nil {
					s.last[k] = v
					changed = true
				}
			}
		}
	}
}

func (fm *fusionModel) evSumm(mode string, e *fev) (bool, map[string]*lexd, map[string]*lexd) {
	first, last := map[string]*lexd{}, map[string]*lexd{}
	switch e.kind {
	case fLeaf:
		for _, l := range e.firsts {
			first[l.id()] = l
		}
		for _, l := range e.lasts {
			last[l.id()] = l
		}
		return e.null, first, last
	case fChild:
		nul := false
		for _, tn := range e.types {
			s := fm.sums[mode][tn]
			if s == nil {
				continue
			}
			nul = nul || s.nullable
			for k, v := range s.first {
				first[k] = v
			}
			for k, v := range s.last {
				last[k] = v
			}
		}
		return nul, first, last
	case fOpt:
		n1, f1, l1 := fm.summ(mode, e.kids)
		n2, f2, l2 := fm.summ(mode, e.alt)
		for k, v := range f2 {
			f1[k] = v
		}
		for k, v := range l2 {
			l1[k] = v
		}
		return n1 || n2, f1, l1
	case fLoop:
		_, f, l := fm.summ(mode, e.kids)
		_, _, l2 := fm.summ(mode, e.alt)
		for k, v := range l2 {
			l[k] = v
		}
		return true, f, l
	}
	return true, first, last
}

// resolveNotFirst specialises a loop body for its first (later=false) or a later (later=true) iteration.
func resolveNotFirst(evs []*pev, later bool) []*pev {
	var out []*pev
	for _, e := range evs {
		if e.kind == evOpt && e.cond == "notfirst" {
			take := later != e.neg
			if take {
				out = append(out, resolveNotFirst(e.kids, later)...)
			} else {
				out = append(out, resolveNotFirst(e.alt, later)...)
			}
			continue
		}
		if e.kind == evOpt {
			c := *e
			c.kids = resolveNotFirst(e.kids, later)
			c.alt = resolveNotFirst(e.alt, later)
			out = append(out, &c)
			continue
		}
		out = append(out, e)
	}
	return out
}

func (fm *fusionModel) summ(mode string, seq []*fev) (bool, map[string]*lexd, map[string]*lexd) {
	first, last := map[string]*lexd{}, map[string]*lexd{}
	nullable := true
	for _, e := range seq {
		if e.kind == fStop {
			break
		}
		n, f, _ := fm.evSumm(mode, e)
		if nullable {
			for k, v := range f {
				first[k] = v
			}
		}
		nullable = nullable && n
	}
	tailNull := true
	for i := len(seq) - 1; i >= 0; i-- {
		e := seq[i]
		if e.kind == fStop {
			last = map[string]*lexd{}
			tailNull = true
			continue
		}
		n, _, l := fm.evSumm(mode, e)
		if tailNull {
			for k, v := range l {
				last[k] = v
			}
		}
		tailNull = tailNull && n
	}
	return nullable, first, last
}

// ---- adjacency ------------------------------------------------------------------------------------

type adjPair struct {
	x, y *lexd
	from string // label of the leaf that wrote x
	to   string // label of the leaf that writes y
	pos  token.Pos
}

type openLast map[string]struct {
	l     *lexd
	label string
}

// adjacencies enumerates, for one node printer in one mode, every (last, first) lexeme pair that can be written
// back to back.
func (fm *fusionModel) adjacencies(mode, node string) []adjPair {
	var out []adjPair
	seen := map[string]bool{}
	rec := func(in openLast, firsts map[string]*lexd, label string, pos token.Pos) {
		for _, o := range in {
			for _, y := range firsts {
				k := o.label + "\x00" + label + "\x00" + o.l.id() + "\x00" + y.id()
				if seen[k] {
					continue
				}
				seen[k] = true
				out = append(out, adjPair{x: o.l, y: y, from: o.label, to: label, pos: pos})
			}
		}
	}
	var walk func(seq []*fev, in openLast) openLast
	walk = func(seq []*fev, in openLast) openLast {
		for _, e := range seq {
			switch e.kind {
			case fStop:
				return openLast{}
			case fLeaf, fChild:
				n, f, l := fm.evSumm(mode, e)
				rec(in, f, e.label, e.pos)
				nin := openLast{}
				if n {
					for k, v := range in {
						nin[k] = v
					}
				}
				for k, v := range l {
					nin[e.label+"\x00"+k] = struct {
						l     *lexd
						label string
					}{v, e.label}
				}
				in = nin
			case fOpt:
				o1 := walk(e.kids, in)
				o2 := walk(e.alt, in)
				nin := openLast{}
				for k, v := range o1 {
					nin[k] = v
				}
				for k, v := range o2 {
					nin[k] = v
				}
				in = nin
			case fLoop:
				o1 := walk(e.kids, in)
				o2 := walk(e.alt, o1)
				o3 := walk(e.alt, o2)
				nin := openLast{}
				for _, m := range []openLast{in, o1, o2, o3} {
					for k, v := range m {
						nin[k] = v
					}
				}
				in = nin
			}
		}
		return in
	}
	walk(fm.trees[mode][node], openLast{})
	return out
}

// fuses: writing y directly after x does not re-lex to [x, y].
func (fm *fusionModel) fuses(x, y *lexd) (bool, string) {
	if x.sep || y.sep {
		return false, ""
	}
	// word characters on both sides run together (identifier / keyword / number)
	if !x.last.inter(fm.idPart).empty() && !y.first.inter(fm.idPart).empty() && x.class != "STR" && y.class != "STR" {
		return true, "the two run together into one identifier/number"
	}
	if x.class != "" {
		return false, ""
	}
	cands := []string{}
	for l := range fm.t.lt.fixed {
		cands = append(cands, l)
	}
	cands = append(cands, fm.hazards...)
	sort.Strings(cands)
	for _, L := range cands {
		if len(L) <= len(x.text) || !strings.HasPrefix(L, x.text) {
			continue
		}
		rest := L[len(x.text):]
		if y.class == "" {
			if strings.HasPrefix(y.text, rest) {
				return true, fmt.Sprintf("%q followed by %q lexes as %q…", x.text, y.text, L)
			}
		} else if len(rest) == 1 && y.first.has(rest[0]) {
			return true, fmt.Sprintf("%q followed by %s lexes as %q…", x.text, y.key, L)
		}
	}
	return false, ""
}

// ---- the writer's separator guard ---------------------------------------------------------------------

type sepGuard struct {
	c        *Ctx
	folded   bool            // some pair was credited by folding the writer's prologue rather than by the guard's shape
	pred     *ssa.Function   // func(last, next byte) bool
	method   *ssa.Function   // the *CodeWriter method that consults pred and writes the space
	writers  []string        // text-writing methods that call it before emitting
	modes    map[string]bool // output modes in which the guard is active ("compact", "pretty")
	problems []string        // the guard method itself is not in the recognised shape: never credited
	notes    []string        // text writers that do not consult it: lexemes written through them are not credited
	pos      token.Pos
}

// findSepGuard recognises the idiom
//
//	func (cw *CodeWriter) M(next byte) { out := cw.Builder.String(); if len(out) > 0 && P(out[len(out)-1], next) { <emit ' '> } }
//
// called with the first byte of the text by every text-writing method before it emits, and returns P so that it
// can be folded per byte pair. A guard that is consulted only under another condition is credited only where that
// condition is a test of the PrettyPrint switch (then: only in the corresponding modes).
func (c *Ctx) findSepGuard() *sepGuard {
	c.buildSSA()
	g := &sepGuard{modes: map[string]bool{}, c: c}
	isByte2Pred := func(f *ssa.Function) bool {
		if f == nil || f.Signature.Recv() != nil || len(f.Params) != 2 || f.Signature.Results().Len() != 1 {
			return false
		}
		if !isByte(f.Params[0].Type()) || !isByte(f.Params[1].Type()) {
			return false
		}
		b, ok := f.Signature.Results().At(0).Type().Underlying().(*types.Basic)
		return ok && b.Kind() == types.Bool
	}
	pretty := c.fieldByName("ast", "CodeWriter", "PrettyPrint")
	for _, f := range c.libFunctions("ast") {
		if f.Signature.Recv() == nil || !namedIs(f.Signature.Recv().Type(), "ast", "CodeWriter") || len(f.Params) != 2 || !isByte(f.Params[1].Type()) {
			continue
		}
		var predCall *ssa.Call
		allInstrs(f, func(_ *ssa.BasicBlock, _ int, in ssa.Instruction) {
			if call, ok := in.(*ssa.Call); ok && isByte2Pred(call.Call.StaticCallee()) {
				predCall = call
			}
		})
		if predCall == nil {
			continue
		}
		g.method, g.pred, g.pos = f, predCall.Call.StaticCallee(), predCall.Pos()
		// second argument: the method's parameter; first: last byte of the buffer's contents
		if predCall.Call.Args[1] != ssa.Value(f.Params[1]) {
			g.problems = append(g.problems, "the predicate's second argument is not the method's parameter")
		}
		if !isLastByteOfBuffer(predCall.Call.Args[0]) {
			g.problems = append(g.problems, "the predicate's first argument is not the last byte of the output buffer (out[len(out)-1] of Builder.String())")
		}
		// the predicate's true edge reaches a write of ' '
		wroteSpace := false
		for _, ref := range *predCall.Referrers() {
			ifi, ok := ref.(*ssa.If)
			if !ok {
				continue
			}
			tb := ifi.Block().Succs[0]
			for _, b := range f.Blocks {
				if b != tb && !tb.Dominates(b) {
					continue
				}
				for _, in := range b.Instrs {
					if call, ok := in.(*ssa.Call); ok && len(call.Call.Args) >= 2 {
						if k, ok := constInt64(call.Call.Args[len(call.Call.Args)-1]); ok && k == ' ' {
							wroteSpace = true
						}
						if k, ok := call.Call.Args[len(call.Call.Args)-1].(*ssa.Const); ok && k.Value != nil && k.Value.Kind() == constant.String && constant.StringVal(k.Value) == " " {
							wroteSpace = true
						}
					}
				}
			}
		}
		if !wroteSpace {
			g.problems = append(g.problems, "no write of a space on the predicate's true edge")
		}
		// conditions on the way to the predicate call: buffer non-empty is fine; PrettyPrint tests restrict the modes
		g.modes["compact"], g.modes["pretty"] = true, true
		for _, b := range f.Blocks {
			ifi := blockIf(b)
			if ifi == nil || b == predCall.Block() {
				continue
			}
			for pol, succ := range b.Succs {
				other := b.Succs[1-pol]
				// the call is reachable only through this edge?
				if !(succ == predCall.Block() || succ.Dominates(predCall.Block())) || other == predCall.Block() || other.Dominates(predCall.Block()) {
					continue
				}
				cond := ifi.Cond
				neg := pol == 1
				if u, ok := cond.(*ssa.UnOp); ok && u.Op == token.NOT {
					cond, neg = u.X, !neg
				}
				if pretty != nil {
					if _, ok := isFieldLoad(cond, pretty); ok {
						if neg {
							g.modes["pretty"] = false
						} else {
							g.modes["compact"] = false
						}
						continue
					}
				}
				if isLenPositive(cond, neg) {
					continue
				}
				g.problems = append(g.problems, fmt.Sprintf("the predicate is consulted only under a condition that is not understood (%s)", c.pos(ifi.Pos())))
			}
		}
		break
	}
	if g.method == nil {
		return g
	}
	// every text-writing method (one that passes its own string/rune parameter to a buffer-appending helper) calls
	// the guard method with the first byte of that parameter, on every path to the emit that can start with an
	// ASCII byte
	for _, f := range c.libFunctions("ast") {
		if f.Signature.Recv() == nil || !namedIs(f.Signature.Recv().Type(), "ast", "CodeWriter") || len(f.Params) != 2 || f == g.method {
			continue
		}
		if f.Object() == nil || !f.Object().Exported() {
			continue
		}
		par := f.Params[1]
		var emit *ssa.Call
		var guardCall *ssa.Call
		allInstrs(f, func(_ *ssa.BasicBlock, _ int, in ssa.Instruction) {
			call, ok := in.(*ssa.Call)
			if !ok {
				return
			}
			cal := call.Call.StaticCallee()
			if cal == g.method || forwardsByteTo(cal, g.method) {
				guardCall = call
				return
			}
			for _, a := range call.Call.Args[1:] {
				if a == ssa.Value(par) && cal != nil && cal.Pkg == f.Pkg && len(call.Call.Args) == 2 {
					emit = call
				}
			}
		})
		if emit == nil {
			continue
		}
		name := f.Name()
		if guardCall == nil {
			g.notes = append(g.notes, name+" writes its text without consulting the separator guard")
			continue
		}
		if !isFirstByteOf(guardCall.Call.Args[1], par) {
			g.notes = append(g.notes, name+" does not hand the first byte of its text to the separator guard")
			continue
		}
		// paths to the emit that avoid the guard call may only leave through `len(s) > 0` false / `r < 0x80` false
		if reachesAvoiding(f, emit.Block(), guardCall.Block(), func(b *ssa.BasicBlock, succIdx int) bool {
			ifi := blockIf(b)
			if ifi == nil {
				return false
			}
			cond := ifi.Cond
			neg := succIdx == 1
			if u, ok := cond.(*ssa.UnOp); ok && u.Op == token.NOT {
				cond, neg = u.X, !neg
			}
			// taking the edge on which the text is empty or starts with a non-ASCII byte
			return isEmptyOrNonASCIIEdge(cond, neg, par)
		}) {
			g.notes = append(g.notes, name+" can emit its text on a path that does not consult the separator guard")
			continue
		}
		if !instrDominatesOrPrecedes(guardCall, emit) {
			g.notes = append(g.notes, name+" consults the separator guard after emitting")
			continue
		}
		g.writers = append(g.writers, name)
	}
	sort.Strings(g.writers)
	return g
}

func isLastByteOfBuffer(v ssa.Value) bool {
	// Lookup/IndexAddr of (call (*strings.Builder).String) at len(out)-1
	var base, idx ssa.Value
	switch x := v.(type) {
	case *ssa.Lookup:
		base, idx = x.X, x.Index
	case *ssa.Index:
		base, idx = x.X, x.Index
	case *ssa.UnOp:
		if ia, ok := x.X.(*ssa.IndexAddr); ok {
			base, idx = ia.X, ia.Index
		}
	}
	if base == nil {
		return false
	}
	call, ok := base.(*ssa.Call)
	if !ok {
		return false
	}
	cal := call.Call.StaticCallee()
	if cal == nil || cal.Name() != "String" || cal.Pkg == nil || cal.Pkg.Pkg.Path() != "strings" {
		return false
	}
	bo, ok := idx.(*ssa.BinOp)
	if !ok || bo.Op != token.SUB {
		return false
	}
	if k, ok := constInt64(bo.Y); !ok || k != 1 {
		return false
	}
	lc, ok := isBuiltinCall(bo.X, "len")
	return ok && lc.Call.Args[0] == base
}

func isLenPositive(cond ssa.Value, neg bool) bool {
	bo, ok := cond.(*ssa.BinOp)
	if !ok {
		return false
	}
	if _, isLen := isBuiltinCall(bo.X, "len"); !isLen {
		return false
	}
	k, ok := constInt64(bo.Y)
	if !ok {
		return false
	}
	switch {
	case !neg && bo.Op == token.GTR && k == 0, !neg && bo.Op == token.NEQ && k == 0, !neg && bo.Op == token.GEQ && k == 1:
		return true
	case neg && bo.Op == token.EQL && k == 0, neg && bo.Op == token.LEQ && k == 0, neg && bo.Op == token.LSS && k == 1:
		return true
	}
	return false
}

func isFirstByteOf(v ssa.Value, par *ssa.Parameter) bool {
	switch x := v.(type) {
	case *ssa.Lookup:
		k, ok := constInt64(x.Index)
		return ok && k == 0 && x.X == ssa.Value(par)
	case *ssa.Index:
		k, ok := constInt64(x.Index)
		return ok && k == 0 && x.X == ssa.Value(par)
	case *ssa.Convert:
		return x.X == ssa.Value(par)
	}
	return false
}

// isEmptyOrNonASCIIEdge: the edge (cond, neg) is taken only when the text parameter is empty or starts ≥ 0x80.
func isEmptyOrNonASCIIEdge(cond ssa.Value, neg bool, par *ssa.Parameter) bool {
	bo, ok := cond.(*ssa.BinOp)
	if !ok {
		return false
	}
	k, isK := constInt64(bo.Y)
	if !isK {
		return false
	}
	if lc, isLen := isBuiltinCall(bo.X, "len"); isLen && lc.Call.Args[0] == ssa.Value(par) {
		// len(s) > 0 false, len(s) == 0 true, …
		return isLenPositive(cond, !neg)
	}
	if bo.X == ssa.Value(par) {
		// r < 0x80 false, r >= 0x80 true (any bound ≥ 0x80 keeps every ASCII byte on the guarded side)
		switch {
		case neg && bo.Op == token.LSS && k >= 0x80, neg && bo.Op == token.LEQ && k >= 0x7f:
			return true
		case !neg && bo.Op == token.GEQ && k >= 0x80, !neg && bo.Op == token.GTR && k >= 0x7f:
			return true
		}
	}
	return false
}

// reachesAvoiding: target is reachable from the entry without passing through block `avoid`, not counting edges
// for which skipEdge holds.
func reachesAvoiding(f *ssa.Function, target, avoid *ssa.BasicBlock, skipEdge func(b *ssa.BasicBlock, succIdx int) bool) bool {
	if target == avoid && target != nil {
		return false
	}
	seen := map[*ssa.BasicBlock]bool{}
	var dfs func(b *ssa.BasicBlock) bool
	dfs = func(b *ssa.BasicBlock) bool {
		if b == avoid || seen[b] {
			return false
		}
		seen[b] = true
		if b == target || (target == nil && len(b.Succs) == 0) { // nil target: any function exit
			return true
		}
		for i, s := range b.Succs {
			if skipEdge(b, i) {
				continue
			}
			if dfs(s) {
				return true
			}
		}
		return false
	}
	return dfs(f.Blocks[0])
}

func instrDominatesOrPrecedes(a, b ssa.Instruction) bool {
	if a.Block() == b.Block() {
		for _, in := range a.Block().Instrs {
			if in == a {
				return true
			}
			if in == b {
				return false
			}
		}
	}
	return instrReachableAfter(a, b)
}

// covers: the guard puts a space between a text ending in x's last byte and one starting with y's first byte.
func (g *sepGuard) covers(mode string, x, y *lexd) bool {
	if g.coversByShape(mode, x, y) {
		return true
	}
	// the guard is not in the recognised shape, or the writer of y does not consult it in the recognised way: fold
	// the writer's prologue itself for every (last byte, first byte) pair (wfold.go)
	if g == nil || g.c == nil || y.via == "" || x.last.count() == 0 || y.first.count() == 0 || x.last.count() > 4 || y.first.count() > 4 {
		return false
	}
	for a := 0; a < 256; a++ {
		if !x.last.has(byte(a)) {
			continue
		}
		for b := 0; b < 256; b++ {
			if !y.first.has(byte(b)) {
				continue
			}
			if b >= 0x80 {
				return false
			}
			sep, ok := g.c.writerSeparates(y.via, mode, byte(a), byte(b))
			if !ok || !sep {
				return false
			}
		}
	}
	g.folded = true
	return true
}

func (g *sepGuard) coversByShape(mode string, x, y *lexd) bool {
	if g == nil || g.pred == nil || len(g.problems) > 0 {
		return false
	}
	_ = 0
	m := "compact"
	if strings.HasPrefix(mode, "pretty") {
		m = "pretty"
	}
	if !g.modes[m] {
		return false
	}
	consults := false
	for _, w := range g.writers {
		if w == y.via {
			consults = true
		}
	}
	if !consults {
		return false // the method that writes y does not consult the guard
	}
	if x.last.count() == 0 || y.first.count() == 0 || x.last.count() > 4 || y.first.count() > 4 {
		return false
	}
	for a := 0; a < 256; a++ {
		if !x.last.has(byte(a)) {
			continue
		}
		for b := 0; b < 256; b++ {
			if !y.first.has(byte(b)) {
				continue
			}
			v, ok := foldFn(g.pred, []constant.Value{constant.MakeInt64(int64(a)), constant.MakeInt64(int64(b))})
			if !ok || v.Kind() != constant.Bool || !constant.BoolVal(v) {
				return false
			}
		}
	}
	return true
}

// forwardsByteTo: f is an unexported method of the writer with a single byte parameter that, on every path and before
// anything else is emitted, hands that very parameter to target (`func (cw) before(next byte) { cw.a(next); cw.b(next) }`).
func forwardsByteTo(f, target *ssa.Function) bool {
	if f == nil || target == nil || f == target || f.Blocks == nil || f.Signature.Recv() == nil || len(f.Params) != 2 || !isByte(f.Params[1].Type()) {
		return false
	}
	if obj := f.Object(); obj == nil || obj.Exported() {
		return false
	}
	var tc *ssa.Call
	allInstrs(f, func(_ *ssa.BasicBlock, _ int, in ssa.Instruction) {
		if call, ok := in.(*ssa.Call); ok && call.Call.StaticCallee() == target && len(call.Call.Args) == 2 && call.Call.Args[0] == ssa.Value(f.Params[0]) && call.Call.Args[1] == ssa.Value(f.Params[1]) {
			tc = call
		}
	})
	if tc == nil {
		return false
	}
	// unconditional: the call sits in the entry block, and every return is reached through it
	if tc.Block() != f.Blocks[0] {
		return false
	}
	return true
}
