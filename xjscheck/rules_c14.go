package main

import (
	"fmt"
	"go/ast"
	"go/token"
	"go/types"
	"sort"
	"strconv"
	"strings"

	"golang.org/x/tools/go/ssa"
)

func init() {
	register("C14", &propSpec{
		run: runC14,
		explanation: "Share-nothing argument (SSA + VTA call graph + interprocedural may-alias propagation), decided for every function of the seven packages: " +
			"R14.1 no function outside the initialisers writes a package-level variable, and a reference loaded from one flows only to read-only uses (lookup, range, len, source of maps.Copy); " +
			"R14.2 nothing reachable from Compile/ToString/WriteTo writes through a reference into the syntax tree (nodes, tokens, their slices); " +
			"R14.3 Compile does not write the Compiler, and writer and mapper are fresh per compilation; " +
			"R14.4 neither Build writes its builder, and no builder-owned slice/map is retained by a built object that could later write it; " +
			"R14.5 comment slices placed in tokens are fresh copies (or the lexer-side buffer is replaced before reuse); " +
			"R14.6 the source-map switch (generateSourceMap / CodeWriter.Mapper) controls nothing but calls into package sourcemap, and no sourcemap value flows into the code; " +
			"R14.7 debug.ToString prints with a zero-valued writer and the compact Compile path differs from it only in pretty-only fields (every read of the indentation/semicolon fields and every non-empty store of the pending buffer is reachable only with PrettyPrint true; the post-pass runs only under prettyPrint); " +
			"R14.8 no map range with an order-sensitive body, no nondeterminism/unsafe/reflect imports, no goroutines/channels inside the library; " +
			"R14.9 the compiler's fluent configuration methods never load a field of their receiver: what they establish does not depend on the order of earlier configurations. " +
			"Together these imply that jobs on distinct instances — and compilations of a shared tree/compiler — touch disjoint mutable memory, so every interleaving is race-free and each job computes what it computes alone. " +
			"A pass means every enumerated obligation was discharged; it does not observe any execution or schedule.",
		notDecided: []string{"races inside user-supplied interceptors / operator constructors", "sharing one Parser or one Lexer between goroutines (not promised)", "equality of results as a runtime comparison", "debug.Print (spew, writes to stdout)"},
	})
}

func runC14(c *Ctx) {
	c.buildSSA()
	r14_1(c)
	r14_2(c)
	r14_3(c)
	r14_4(c)
	r14_5(c)
	r14_6(c)
	r14_7(c)
	r14_8(c)
	r14_9(c)
}

// R14.9: what a configuration method of the compiler establishes does not depend on what was configured before.
// "In any order of configurations" includes reconfiguring one shared Compiler: `WithPrettyPrint(tabs)` followed by
// `WithPrettyPrint()` must give the default pretty configuration, as on a fresh compiler. Decided structurally: a
// method of *Compiler that returns the receiver (the fluent configuration methods) never loads a field of the
// receiver — it only stores, or hands out the address of a field it has just reset.
func r14_9(c *Ctx) {
	c.rule("R14.9", "the compiler's fluent configuration methods establish their configuration without reading the previous one (no load of a receiver field)")
	c.floor(2)
	n := 0
	for _, f := range c.libFunctions("compiler") {
		if f.Parent() != nil || f.Signature.Recv() == nil || !namedIs(f.Signature.Recv().Type(), "compiler", "Compiler") || f.Signature.Results().Len() != 1 {
			continue
		}
		if !namedIs(f.Signature.Results().At(0).Type(), "compiler", "Compiler") {
			continue
		}
		if _, isPtr := f.Signature.Results().At(0).Type().(*types.Pointer); !isPtr {
			continue
		}
		n++
		var loads []*ssa.UnOp
		allInstrs(f, func(_ *ssa.BasicBlock, _ int, in ssa.Instruction) {
			u, ok := in.(*ssa.UnOp)
			if !ok || u.Op != token.MUL {
				return
			}
			if root, path := fieldPath(u.X); len(path) > 0 && len(f.Params) > 0 && root == ssa.Value(f.Params[0]) {
				loads = append(loads, u)
			}
		})
		key := fnName(f) + ": does not read the previous configuration"
		if len(loads) == 0 {
			c.ok(key, f.Pos(), "stores only")
			continue
		}
		_, path := fieldPath(loads[0].X)
		c.bad(key, loads[0].Pos(), "the configuration method reads the receiver's field %s: what it establishes depends on what was configured before, so one shared compiler configured twice differs from a fresh one configured once (results depend on the order of configurations)", pathString("Compiler", path))
	}
	if n == 0 {
		c.unres("configuration methods", token.NoPos, "no method of *compiler.Compiler returns the receiver type")
	}
}

// ---------------------------------------------------------------------------------------------
// R14.1 package-level state is read-only

func isInitFn(f *ssa.Function) bool {
	for f.Parent() != nil {
		f = f.Parent()
	}
	return f.Name() == "init" && f.Signature.Recv() == nil
}

func originOf(f *ssa.Function) *ssa.Function {
	if f != nil && f.Origin() != nil {
		return f.Origin()
	}
	return f
}

func extFuncIs(f *ssa.Function, pkgPath, name string) bool {
	f = originOf(f)
	if f == nil {
		return false
	}
	if f.Pkg != nil {
		return f.Pkg.Pkg.Path() == pkgPath && f.Name() == name
	}
	if f.Object() != nil && f.Object().Pkg() != nil {
		return f.Object().Pkg().Path() == pkgPath && f.Name() == name
	}
	return false
}

func r14_1(c *Ctx) {
	c.rule("R14.1", "package-level variables: no store outside initialisers; loaded references flow only to read-only uses")
	c.floor(5)
	var globals []*ssa.Global
	for _, n := range libPkgs {
		sp := c.SSA[n]
		for _, m := range sp.Members {
			if g, ok := m.(*ssa.Global); ok && !strings.HasPrefix(g.Name(), "init$") {
				globals = append(globals, g)
			}
		}
	}
	sort.Slice(globals, func(i, j int) bool { return globals[i].String() < globals[j].String() })
	var names []string
	for _, g := range globals {
		names = append(names, shortPkg(g.Pkg.Pkg.Path())+"."+g.Name())
	}
	c.Tables["package_level_variables"] = names
	if len(globals) == 0 {
		c.ok("no package-level variables", token.NoPos, "the seven packages declare no package-level variable")
	}
	for _, g := range globals {
		gname := shortPkg(g.Pkg.Pkg.Path()) + "." + g.Name()
		nuse := map[string]int{}
		for _, f := range c.libFunctions() {
			allInstrs(f, func(_ *ssa.BasicBlock, _ int, in ssa.Instruction) {
				uses := false
				for _, op := range in.Operands(nil) {
					if *op == ssa.Value(g) {
						uses = true
					}
				}
				if !uses {
					return
				}
				nuse[fnName(f)]++
				key := fmt.Sprintf("%s in %s #%d", gname, fnName(f), nuse[fnName(f)])
				switch x := in.(type) {
				case *ssa.Store:
					if x.Addr == ssa.Value(g) && isInitFn(f) {
						c.ok(key, x.Pos(), "initialiser store")
					} else {
						c.bad(key, x.Pos(), "package-level variable %s is written outside its initialiser: every instance and goroutine shares it", gname)
					}
				case *ssa.UnOp:
					if x.Op == token.MUL {
						bad, unres := roUses(c, x, 0, map[ssa.Value]bool{})
						switch {
						case bad != "":
							c.bad(key, x.Pos(), "reference loaded from %s %s", gname, bad)
						case unres != "":
							c.unres(key, x.Pos(), "reference loaded from %s %s", gname, unres)
						default:
							c.ok(key, x.Pos(), "loaded reference is only read (lookup/range/len/copy source)")
						}
					} else {
						c.unres(key, x.Pos(), "unrecognised use of %s", gname)
					}
				case *ssa.DebugRef:
				case *ssa.IndexAddr:
					// element of a package-level array: the element address must only be loaded from
					if isInitFn(f) {
						c.ok(key, in.Pos(), "initialiser")
						break
					}
					verdict, unr := "", ""
					for _, ref := range *x.Referrers() {
						switch r := ref.(type) {
						case *ssa.DebugRef:
						case *ssa.UnOp:
							if r.Op != token.MUL {
								unr = "element address used by " + r.String()
								break
							}
							if !hasReference(r.Type()) {
								break
							}
							b2, u2 := roUses(c, r, 0, map[ssa.Value]bool{})
							if b2 != "" {
								verdict = b2
							}
							if u2 != "" {
								unr = u2
							}
						case *ssa.Store:
							if r.Addr == ssa.Value(x) {
								verdict = "an element is stored to"
							} else {
								unr = "element address stored elsewhere"
							}
						default:
							unr = fmt.Sprintf("element address used by %T", ref)
						}
					}
					switch {
					case x.X != ssa.Value(g):
						c.unres(key, in.Pos(), "the address of %s is an index operand", gname)
					case verdict != "":
						c.bad(key, in.Pos(), "package-level array %s: %s outside its initialiser: every instance and goroutine shares it", gname, verdict)
					case unr != "":
						c.unres(key, in.Pos(), "element of %s: %s", gname, unr)
					default:
						c.ok(key, in.Pos(), "array element is only loaded")
					}
				default:
					if isInitFn(f) {
						c.ok(key, in.Pos(), "initialiser")
					} else {
						c.unres(key, in.Pos(), "the address of %s is used by %T: cannot show it is not written", gname, in)
					}
				}
			})
		}
	}
}

// roUses checks that every use of reference v is read-only; returns (violation, unresolved) descriptions.
func roUses(c *Ctx, v ssa.Value, depth int, seen map[ssa.Value]bool) (string, string) {
	if seen[v] {
		return "", ""
	}
	seen[v] = true
	if !refLike(v.Type()) {
		return "", ""
	}
	refs := v.Referrers()
	if refs == nil {
		return "", ""
	}
	for _, r := range *refs {
		pos := c.pos(r.Pos())
		switch x := r.(type) {
		case *ssa.Lookup, *ssa.DebugRef, *ssa.BinOp, *ssa.If:
			if lk, ok := r.(*ssa.Lookup); ok && refLike(lk.Type()) && !lk.CommaOk {
				if b, u := roUses(c, lk, depth, seen); b != "" || u != "" {
					return b, u
				}
			}
		case *ssa.Range:
			if m, ok := v.Type().Underlying().(*types.Map); ok && (refLike(m.Elem()) || refLike(m.Key())) {
				return "", "is ranged over and its elements are references (" + pos + ")"
			}
		case *ssa.MapUpdate:
			if x.Map == v {
				return "is the target of a map update (" + pos + ")", ""
			}
			return "is stored into another map (" + pos + ")", ""
		case *ssa.Store:
			if x.Addr == v {
				return "is written through (" + pos + ")", ""
			}
			// copied into a local variable of the same function (a range variable, a temporary): follow the local's uses
			if al, ok := x.Addr.(*ssa.Alloc); ok && !al.Heap {
				if seen[al] {
					continue
				}
				seen[al] = true
				for _, ar := range *al.Referrers() {
					switch y := ar.(type) {
					case *ssa.DebugRef:
					case *ssa.Store:
						if y.Addr != ssa.Value(al) {
							return "", "has the address of a local copy stored (" + c.pos(y.Pos()) + ")"
						}
					case *ssa.UnOp:
						if b, u := roUses(c, y, depth, seen); b != "" || u != "" {
							return b, u
						}
					case *ssa.FieldAddr, *ssa.IndexAddr:
						for _, r2 := range *y.(ssa.Value).Referrers() {
							switch z := r2.(type) {
							case *ssa.DebugRef:
							case *ssa.UnOp:
								if b, u := roUses(c, z, depth, seen); b != "" || u != "" {
									return b, u
								}
							case *ssa.Store:
								if z.Addr != y.(ssa.Value) {
									return "", "has the address of a part of a local copy stored (" + c.pos(z.Pos()) + ")"
								}
							default:
								return "", "has a part of a local copy used by " + fmt.Sprintf("%T", r2) + " (" + c.pos(r2.Pos()) + ")"
							}
						}
					default:
						return "", "has a local copy used by " + fmt.Sprintf("%T", ar) + " (" + c.pos(ar.Pos()) + ")"
					}
				}
				continue
			}
			return "is aliased: stored into " + x.Addr.Name() + " (" + pos + "); a later write through the alias writes the shared variable", ""
		case *ssa.Return:
			return "escapes through a return value (" + pos + ")", ""
		case *ssa.FieldAddr, *ssa.IndexAddr:
			// address of a part: must only be loaded
			for _, r2 := range *x.(ssa.Value).Referrers() {
				switch y := r2.(type) {
				case *ssa.Store:
					if y.Addr == x.(ssa.Value) {
						return "has a field/element written (" + c.pos(y.Pos()) + ")", ""
					}
				case *ssa.UnOp:
					if b, u := roUses(c, y, depth, seen); b != "" || u != "" {
						return b, u
					}
				default:
					return "", "has the address of a part used by " + fmt.Sprintf("%T", r2) + " (" + c.pos(r2.Pos()) + ")"
				}
			}
		case *ssa.Phi, *ssa.ChangeType, *ssa.MakeInterface, *ssa.Field, *ssa.Index, *ssa.Slice, *ssa.Extract, *ssa.TypeAssert, *ssa.UnOp:
			if b, u := roUses(c, x.(ssa.Value), depth, seen); b != "" || u != "" {
				return b, u
			}
		case *ssa.MakeClosure:
			return "", "is captured by a closure (" + pos + ")"
		case ssa.CallInstruction:
			com := x.Common()
			if b, ok := com.Value.(*ssa.Builtin); ok {
				switch b.Name() {
				case "len", "cap":
					continue
				case "delete", "clear", "copy", "append":
					if com.Args[0] == v {
						return "is modified by " + b.Name() + " (" + pos + ")", ""
					}
					if b.Name() == "append" {
						continue // appended from: read
					}
					continue
				}
				return "", "is passed to builtin " + b.Name() + " (" + pos + ")"
			}
			cal := com.StaticCallee()
			if cal == nil {
				return "", "is passed to a dynamically dispatched call (" + pos + ")"
			}
			for i, a := range com.Args {
				if a != v {
					continue
				}
				switch {
				case extFuncIs(cal, "maps", "Copy"):
					if i == 0 {
						return "is the destination of maps.Copy (" + pos + ")", ""
					}
				case extFuncIs(cal, "maps", "Clone"), extFuncIs(cal, "slices", "Clone"), extFuncIs(cal, "slices", "Contains"), extFuncIs(cal, "slices", "Index"):
				case isSpewReadOnly(cal) && i == 0:
				case isLibPath(pkgPathOf(cal)) && cal.Blocks != nil:
					if depth >= 3 {
						return "", "flows through more than 3 calls (" + pos + ")"
					}
					if i < len(cal.Params) {
						if b, u := roUses(c, cal.Params[i], depth+1, seen); b != "" || u != "" {
							return b, u
						}
					}
				default:
					return "", "is passed to " + fnName(cal) + ", which is not on the read-only list (" + pos + ")"
				}
			}
		default:
			return "", fmt.Sprintf("is used by %T (%s)", r, pos)
		}
	}
	return "", ""
}

func pkgPathOf(f *ssa.Function) string {
	f = originOf(f)
	if f == nil {
		return ""
	}
	if f.Pkg != nil {
		return f.Pkg.Pkg.Path()
	}
	if f.Object() != nil && f.Object().Pkg() != nil {
		return f.Object().Pkg().Path()
	}
	if f.Parent() != nil {
		return pkgPathOf(f.Parent())
	}
	return ""
}

func isSpewReadOnly(f *ssa.Function) bool {
	if pkgPathOf(f) != "github.com/davecgh/go-spew/spew" {
		return false
	}
	for _, p := range []string{"Dump", "Sdump", "Fdump", "Print", "Sprint", "Fprint", "Errorf"} {
		if strings.HasPrefix(f.Name(), p) {
			return true
		}
	}
	return false
}

// ---------------------------------------------------------------------------------------------
// shared: judging the events of a propagation

type retainPolicy int

func judgeTaint(c *Ctx, t *taint, what string, minSites int) {
	// every instruction of every function touched by the propagation was examined
	sites := 0
	for f := range t.fns {
		_ = f
		sites++
	}
	n := map[string]int{}
	key := func(in ssa.Instruction, kind string) string {
		f := fnName(in.Parent())
		n[f+kind]++
		return fmt.Sprintf("%s: %s #%d", f, kind, n[f+kind])
	}
	evs := append([]taintEvent(nil), t.events...)
	sort.SliceStable(evs, func(i, j int) bool { return evs[i].instr.Pos() < evs[j].instr.Pos() })
	for _, e := range evs {
		switch e.kind {
		case evWrite:
			c.bad(key(e.instr, "write into "+what), e.instr.Pos(), "%s", e.what)
		case evRetain:
			// retained in a field: every write through any load of that field anywhere in the library would be a write into the object
			st, isStore := e.instr.(*ssa.Store)
			var fld *types.Var
			if isStore {
				if fa, ok := st.Addr.(*ssa.FieldAddr); ok {
					fld = fieldOfAddr(fa)
				}
			}
			if fld == nil {
				c.unres(key(e.instr, "reference into "+what+" retained"), e.instr.Pos(), "%s: writes through the retained reference cannot be tracked", e.what)
				continue
			}
			t2 := newTaint(c)
			for _, f := range c.libFunctions() {
				allInstrs(f, func(_ *ssa.BasicBlock, _ int, in ssa.Instruction) {
					if u, ok := in.(*ssa.UnOp); ok && u.Op == token.MUL {
						if _, ok := isFieldAddr(u.X, fld); ok {
							t2.mark(u)
						}
					}
				})
			}
			t2.run()
			w := 0
			for _, e2 := range t2.events {
				if e2.kind == evWrite || e2.kind == evExternal {
					w++
					c.bad(key(e.instr, "reference into "+what+" retained in field "+fld.Name()+" and written"), e2.instr.Pos(), "a reference into %s is kept in field %s (%s) and that field's content is written here: %s", what, fld.Name(), c.pos(e.instr.Pos()), e2.what)
				}
			}
			if w == 0 {
				c.ok(key(e.instr, "reference into "+what+" retained in field "+fld.Name()), e.instr.Pos(), "kept in field %s, whose content is only read anywhere in the library", fld.Name())
			}
		case evExternal:
			if extOK(e) {
				continue
			}
			if why := extWrites(e); why != "" {
				c.bad(key(e.instr, "write into "+what), e.instr.Pos(), "a reference into %s is handed to %s, which %s: the shared object is modified in place (with a reused builder / a tree compiled twice, the second use sees the modified order or content)", what, e.callee, why)
				continue
			}
			c.unres(key(e.instr, "reference into "+what+" leaves the library"), e.instr.Pos(), "%s (%s)", e.what, e.callee)
		}
	}
	_ = minSites
}

// extOK lists external callees that only read their arguments.
func extOK(e taintEvent) bool {
	ci, ok := e.instr.(ssa.CallInstruction)
	if !ok {
		return false
	}
	cal := ci.Common().StaticCallee()
	if cal == nil {
		return false
	}
	for _, ro := range [][2]string{{"slices", "Contains"}, {"slices", "Index"}, {"slices", "Clone"}, {"maps", "Clone"}, {"slices", "Backward"}, {"slices", "All"}, {"slices", "Values"}, {"maps", "Keys"}, {"maps", "Values"}, {"maps", "All"}, {"fmt", "Sprintf"}, {"fmt", "Sprint"}, {"fmt", "Errorf"}, {"strings", "Join"}} {
		if extFuncIs(cal, ro[0], ro[1]) {
			return true
		}
	}
	if extFuncIs(cal, "maps", "Copy") && e.argIdx == 1 {
		return true
	}
	return false
}

// extWrites: standard-library callees known to modify their (first) slice/map argument in place.
func extWrites(e taintEvent) string {
	ci, ok := e.instr.(ssa.CallInstruction)
	if !ok {
		return ""
	}
	cal := ci.Common().StaticCallee()
	if cal == nil {
		return ""
	}
	for _, w := range [][3]string{
		{"slices", "Reverse", "reverses the slice in place"}, {"slices", "Sort", "sorts the slice in place"}, {"slices", "SortFunc", "sorts the slice in place"},
		{"slices", "SortStableFunc", "sorts the slice in place"}, {"slices", "Delete", "shifts the slice's elements in place"}, {"slices", "DeleteFunc", "shifts the slice's elements in place"},
		{"slices", "Insert", "can write into the slice's backing array"}, {"slices", "Compact", "rewrites the slice in place"}, {"slices", "CompactFunc", "rewrites the slice in place"},
		{"slices", "Replace", "rewrites the slice in place"}, {"sort", "Slice", "sorts the slice in place"}, {"sort", "SliceStable", "sorts the slice in place"},
		{"sort", "Strings", "sorts the slice in place"}, {"sort", "Ints", "sorts the slice in place"}, {"maps", "DeleteFunc", "deletes entries of the map"},
	} {
		if extFuncIs(cal, w[0], w[1]) && e.argIdx == 0 {
			return w[2]
		}
	}
	if extFuncIs(cal, "maps", "Copy") && e.argIdx == 0 {
		return "writes the destination map"
	}
	return ""
}

// nodeTypes: named types of package ast with a WriteTo(*CodeWriter) method (the tree), by role.
func nodeTypes(c *Ctx) []*types.Named {
	var out []*types.Named
	sc := c.Pkgs["ast"].Types.Scope()
	for _, n := range sc.Names() {
		tn, ok := sc.Lookup(n).(*types.TypeName)
		if !ok {
			continue
		}
		named, ok := tn.Type().(*types.Named)
		if !ok {
			continue
		}
		if _, isIface := named.Underlying().(*types.Interface); isIface {
			continue
		}
		ms := types.NewMethodSet(types.NewPointer(named))
		if sel := ms.Lookup(c.Pkgs["ast"].Types, "WriteTo"); sel != nil {
			sig := sel.Type().(*types.Signature)
			if sig.Params().Len() == 1 && namedIs(sig.Params().At(0).Type(), "ast", "CodeWriter") {
				out = append(out, named)
			}
		}
	}
	return out
}

func methodFn(c *Ctx, named *types.Named, name string) *ssa.Function {
	for _, t := range []types.Type{types.NewPointer(named), named} {
		ms := c.Prog.MethodSets.MethodSet(t)
		for i := 0; i < ms.Len(); i++ {
			if ms.At(i).Obj().Name() == name {
				if f := c.Prog.MethodValue(ms.At(i)); f != nil && f.Synthetic == "" {
					return f
				}
			}
		}
	}
	return nil
}

// ---------------------------------------------------------------------------------------------
// R14.2 compiling does not write the tree

func r14_2(c *Ctx) {
	c.rule("R14.2", "nothing reachable from Compile / debug.ToString / any WriteTo or Precedence writes through a reference into the tree")
	c.floor(20)
	t := newTaint(c)
	nseed := 0
	for _, nt := range nodeTypes(c) {
		for _, m := range []string{"WriteTo", "Precedence"} {
			if f := methodFn(c, nt, m); f != nil && len(f.Params) > 0 {
				t.mark(f.Params[0])
				t.fns[f] = true
				nseed++
			}
		}
	}
	if f := c.fn("(*compiler.Compiler).Compile"); f != nil && len(f.Params) == 2 {
		t.mark(f.Params[1])
		nseed++
	} else {
		c.unres("Compile", token.NoPos, "(*compiler.Compiler).Compile(program) not found")
	}
	if f := c.fn("debug.ToString"); f != nil && len(f.Params) == 1 {
		t.mark(f.Params[0])
		nseed++
	} else {
		c.unres("ToString", token.NoPos, "debug.ToString(node) not found")
	}
	t.run()
	before := len(c.Obl)
	judgeTaint(c, t, "the tree", 0)
	// one discharged obligation per function in which tree references were followed and no write was found
	badFn := map[string]bool{}
	for _, o := range c.Obl[before:] {
		if o.Status != Discharged {
			badFn[strings.SplitN(o.Construct, ":", 2)[0]] = true
		}
	}
	var fns []string
	for f := range t.fns {
		fns = append(fns, fnName(f))
	}
	sort.Strings(fns)
	for _, f := range fns {
		if !badFn[f] {
			c.ok(f+": tree references only read", token.NoPos, "every store, map update, append/copy/delete and external call in this function was examined; none goes through a reference into the tree")
		}
	}
	c.Tables["R14.2_seeds"] = nseed
	c.Tables["R14.2_functions_followed"] = len(fns)
}

// ---------------------------------------------------------------------------------------------
// R14.3 compiling does not write the compiler; fresh writer and mapper

func r14_3(c *Ctx) {
	c.rule("R14.3", "Compile does not write its Compiler; the writer is a local allocation and the mapper a fresh result of the sourcemap constructor")
	c.floor(3)
	f := c.fn("(*compiler.Compiler).Compile")
	if f == nil {
		c.unres("Compile", token.NoPos, "not found")
		return
	}
	t := newTaint(c)
	t.mark(f.Params[0])
	t.run()
	before := len(c.Obl)
	judgeTaint(c, t, "the compiler", 0)
	if len(c.Obl) == before {
		c.ok("Compile: receiver only read", f.Pos(), "no store through the receiver in Compile or anything it reaches with a reference to the compiler")
	}
	// the writer handed to the tree is a local allocation — of Compile itself, or of a private factory only Compile
	// calls, which returns it fresh
	var writer *ssa.Alloc
	wfn := f
	_, scope := compileScope(c)
	for _, g := range scope {
		allInstrs(g, func(_ *ssa.BasicBlock, _ int, in ssa.Instruction) {
			if al, ok := in.(*ssa.Alloc); ok && namedIs(al.Type(), "ast", "CodeWriter") && writer == nil {
				if g == f || g == compileBody(c) || returnsFreshAlloc(g) {
					writer, wfn = al, g
				}
			}
		})
	}
	if writer == nil {
		c.bad("Compile: writer", f.Pos(), "Compile does not allocate its own ast.CodeWriter: the writer is shared between compilations")
	} else {
		c.ok("Compile: writer", writer.Pos(), "the CodeWriter is allocated per call")
		// mapper: stored value must be a fresh result of a sourcemap function that returns a new allocation
		mapperFld := c.fieldByName("ast", "CodeWriter", "Mapper")
		n := 0
		allInstrs(wfn, func(_ *ssa.BasicBlock, _ int, in ssa.Instruction) {
			st, ok := in.(*ssa.Store)
			if !ok {
				return
			}
			fa, ok := isFieldAddr(st.Addr, mapperFld)
			if !ok {
				return
			}
			n++
			key := fmt.Sprintf("Compile: mapper store #%d", n)
			call, ok := st.Val.(*ssa.Call)
			fresh := false
			if ok && fa.X == writer {
				if cal := call.Call.StaticCallee(); cal != nil && pkgPathOf(cal) == modPath+"/sourcemap" {
					fresh = returnsFreshAlloc(cal)
				}
			}
			c.check(fresh, key, st.Pos(), "mapper is a fresh allocation returned by the sourcemap constructor", "the mapper stored into the writer must be a fresh result of the sourcemap constructor (a shared mapper would mix the positions of concurrent compilations)")
		})
		for _, g := range scope {
			if g == wfn {
				continue
			}
			allInstrs(g, func(_ *ssa.BasicBlock, _ int, in ssa.Instruction) {
				if st, ok := in.(*ssa.Store); ok {
					if _, ok := isFieldAddr(st.Addr, mapperFld); ok {
						n++
						c.bad(fmt.Sprintf("Compile: mapper store #%d", n), st.Pos(), "the writer's mapper is replaced outside the function that allocates the writer")
					}
				}
			})
		}
		if n == 0 {
			c.unres("Compile: mapper store", f.Pos(), "no store to the writer's Mapper field found in Compile")
		}
	}
}

func returnsFreshAlloc(f *ssa.Function) bool {
	ok := true
	any := false
	allInstrs(f, func(_ *ssa.BasicBlock, _ int, in ssa.Instruction) {
		if r, isR := in.(*ssa.Return); isR {
			any = true
			for _, v := range r.Results {
				if al, isA := v.(*ssa.Alloc); !isA || !al.Heap {
					ok = false
				}
			}
		}
	})
	return ok && any
}

// ---------------------------------------------------------------------------------------------
// R14.4 building does not write the builders

func r14_4(c *Ctx) {
	c.rule("R14.4", "neither Build writes its builder; builder-owned slices/maps are not retained where they could later be written")
	c.floor(2)
	for _, name := range []string{"(*parser.Builder).Build", "(*lexer.Builder).Build"} {
		f := c.fn(name)
		if f == nil {
			c.unres(name, token.NoPos, "not found")
			continue
		}
		t := newTaint(c)
		t.mark(f.Params[0])
		t.run()
		before := len(c.Obl)
		judgeTaint(c, t, "the builder", 0)
		clean := true
		for _, o := range c.Obl[before:] {
			if o.Status != Discharged {
				clean = false
			}
		}
		if clean {
			var fns []string
			for g := range t.fns {
				fns = append(fns, fnName(g))
			}
			sort.Strings(fns)
			c.ok(name+": builder only read", f.Pos(), "builder references followed through %s: no write, no writable retention", strings.Join(fns, ", "))
		}
	}
	wholeStructCopies(c)
}

// wholeStructCopies: `clone := *b` copies a builder / compiler / lexer / parser value field by field — its slices and
// maps then share their backing store with the original's until they are replaced. Every slice- or map-typed field of
// such a copy must be given a clone of the same field of the source (slices.Clone, slices.Clip(slices.Clone),
// maps.Clone) or a fresh value (make, literal, nil) in the same function; a field left as copied is reported: an append
// through one object can overwrite what the other one appended.
func wholeStructCopies(c *Ctx) {
	owned := map[string]bool{"parser.Builder": true, "lexer.Builder": true, "compiler.Compiler": true, "parser.Parser": true, "lexer.Lexer": true, "ast.CodeWriter": true, "sourcemap.SourceMapper": true}
	for _, f := range c.libFunctions() {
		allInstrs(f, func(_ *ssa.BasicBlock, _ int, in ssa.Instruction) {
			st, ok := in.(*ssa.Store)
			if !ok {
				return
			}
			al, ok := st.Addr.(*ssa.Alloc)
			if !ok {
				return
			}
			nt := namedOf(deref(al.Type()))
			if nt == nil || nt.Obj().Pkg() == nil || !owned[shortPkg(nt.Obj().Pkg().Path())+"."+nt.Obj().Name()] {
				return
			}
			ld, ok := st.Val.(*ssa.UnOp)
			if !ok || ld.Op != token.MUL {
				return
			}
			stt, ok := nt.Underlying().(*types.Struct)
			if !ok {
				return
			}
			for i := 0; i < stt.NumFields(); i++ {
				fld := stt.Field(i)
				switch fld.Type().Underlying().(type) {
				case *types.Slice, *types.Map:
				default:
					continue
				}
				key := fmt.Sprintf("%s: copy of a %s value, field %s", fnName(f), nt.Obj().Name(), fld.Name())
				replaced := false
				allInstrs(f, func(_ *ssa.BasicBlock, _ int, in2 ssa.Instruction) {
					st2, ok := in2.(*ssa.Store)
					if !ok || !instrReachableAfter(st, st2) {
						return
					}
					fa, ok := st2.Addr.(*ssa.FieldAddr)
					if !ok || fa.X != ssa.Value(al) || fieldOfAddr(fa) != fld {
						return
					}
					if copyConstructStore(st2) || freshSlice(st2.Val) || isNilConst(st2.Val) {
						replaced = true
					}
					if _, isMake := st2.Val.(*ssa.MakeMap); isMake {
						replaced = true
					}
					if el, ok := sliceLitElems(st2.Val); ok && len(el) == 0 {
						replaced = true
					}
				})
				c.check(replaced, key, st.Pos(), "replaced by a clone of the source's field (or a fresh value) in the same function",
					fmt.Sprintf("the copied %s shares the backing store of %s with the value it was copied from: an append or map write through one of the two objects can overwrite what the other one holds", nt.Obj().Name(), fld.Name()))
			}
		})
	}
}

// ---------------------------------------------------------------------------------------------
// R14.5 token ownership of comment slices

func r14_5(c *Ctx) {
	c.rule("R14.5", "every slice stored into a token.Token by the lexer is a fresh copy, or the lexer-side buffer is replaced before it is appended to again")
	c.floor(1)
	tokSlices := []*types.Var{}
	ts := c.structOf("token", "Token")
	for i := 0; i < ts.NumFields(); i++ {
		if _, ok := ts.Field(i).Type().Underlying().(*types.Slice); ok {
			tokSlices = append(tokSlices, ts.Field(i))
		}
	}
	for _, f := range c.libFunctions("lexer") {
		n := 0
		allInstrs(f, func(_ *ssa.BasicBlock, _ int, in ssa.Instruction) {
			st, ok := in.(*ssa.Store)
			if !ok {
				return
			}
			fa, ok := st.Addr.(*ssa.FieldAddr)
			if !ok {
				return
			}
			fld := fieldOfAddr(fa)
			isTokSlice := false
			for _, s := range tokSlices {
				if s == fld {
					isTokSlice = true
				}
			}
			if !isTokSlice {
				return
			}
			n++
			key := fmt.Sprintf("%s: token.%s #%d", fnName(f), fld.Name(), n)
			if freshSlice(st.Val) {
				c.ok(key, st.Pos(), "fresh copy (append onto a nil slice / slices.Clone)")
				return
			}
			// otherwise the source must be a lexer field that is replaced (nil/fresh) at the start of the function that appends to it
			if src, ok := st.Val.(*ssa.UnOp); ok && src.Op == token.MUL {
				if sfa, ok := src.X.(*ssa.FieldAddr); ok && namedIs(sfa.X.Type(), "lexer", "Lexer") {
					if bufferReplacedBeforeAppend(c, fieldOfAddr(sfa)) {
						c.ok(key, st.Pos(), "shares the lexer buffer, which is replaced before any later append")
						return
					}
				}
			}
			c.bad(key, st.Pos(), "the token shares a growable slice with the lexer: a later append can overwrite the comments of a token already handed out")
		})
	}
}

func freshSlice(v ssa.Value) bool {
	if call, ok := isBuiltinCall(v, "append"); ok {
		if k, ok := call.Call.Args[0].(*ssa.Const); ok && k.IsNil() {
			return true
		}
		return false
	}
	if call, ok := v.(*ssa.Call); ok {
		if cal := call.Call.StaticCallee(); cal != nil && (extFuncIs(cal, "slices", "Clone")) {
			return true
		}
	}
	if _, ok := v.(*ssa.MakeSlice); ok {
		return true
	}
	return false
}

func bufferReplacedBeforeAppend(c *Ctx, fld *types.Var) bool {
	okAll := true
	any := false
	for _, f := range c.libFunctions("lexer") {
		var appends []ssa.Instruction
		var resets []ssa.Instruction
		allInstrs(f, func(_ *ssa.BasicBlock, _ int, in ssa.Instruction) {
			st, ok := in.(*ssa.Store)
			if !ok {
				return
			}
			if _, ok := isFieldAddr(st.Addr, fld); !ok {
				return
			}
			if k, ok := st.Val.(*ssa.Const); ok && k.IsNil() {
				resets = append(resets, st)
			} else if freshSlice(st.Val) {
				resets = append(resets, st)
			} else {
				appends = append(appends, st)
			}
		})
		for _, a := range appends {
			any = true
			dom := false
			for _, r := range resets {
				if instrDominates(r, a) {
					dom = true
				}
			}
			if !dom {
				okAll = false
			}
		}
	}
	return any && okAll
}

// ---------------------------------------------------------------------------------------------
// R14.6 the source-map switch does not influence the code

// bookkeepingTypes: struct types of package ast that hold nothing but a request for the source mapper (found and
// verified by bookkeepingRequestTypes); they count as source-map locations.
var bookkeepingTypes = map[*types.TypeName]bool{}

func isSourcemapType(t types.Type) bool {
	n := namedOf(t)
	if n == nil {
		if p, ok := t.Underlying().(*types.Pointer); ok {
			n = namedOf(p.Elem())
		}
	}
	if n != nil && bookkeepingTypes[n.Obj()] {
		return true
	}
	return n != nil && n.Obj().Pkg() != nil && n.Obj().Pkg().Path() == modPath+"/sourcemap"
}

// bookkeepingRequestTypes finds the unexported struct types T of package ast reachable from a CodeWriter field of
// type *T whose values are used for nothing but source-map bookkeeping: allocated, filled, stored into that writer
// field, compared with nil, and read only into arguments of calls into package sourcemap or into branch conditions
// (those branches are then checked like branches on the switch itself).
func bookkeepingRequestTypes(c *Ctx) (map[*types.TypeName]bool, map[*types.Var]bool) {
	out := map[*types.TypeName]bool{}
	flds := map[*types.Var]bool{}
	st := c.structOf("ast", "CodeWriter")
	if st == nil {
		return out, flds
	}
	for i := 0; i < st.NumFields(); i++ {
		f := st.Field(i)
		p, ok := f.Type().Underlying().(*types.Pointer)
		if !ok {
			continue
		}
		n := namedOf(p.Elem())
		if n == nil || n.Obj().Exported() || n.Obj().Pkg() == nil || n.Obj().Pkg().Path() != modPath+"/ast" {
			continue
		}
		if _, isStruct := n.Underlying().(*types.Struct); !isStruct {
			continue
		}
		pure := true
		isT := func(t types.Type) bool {
			if nn := namedOf(t); nn != nil && nn.Obj() == n.Obj() {
				return true
			}
			if pp, ok := t.Underlying().(*types.Pointer); ok {
				if nn := namedOf(pp.Elem()); nn != nil && nn.Obj() == n.Obj() {
					return true
				}
			}
			return false
		}
		var okUse func(v ssa.Value, depth int) bool
		okUse = func(v ssa.Value, depth int) bool {
			if v.Referrers() == nil || depth > 6 {
				return true
			}
			for _, r := range *v.Referrers() {
				switch x := r.(type) {
				case *ssa.DebugRef, *ssa.If:
				case *ssa.BinOp, *ssa.UnOp, *ssa.FieldAddr, *ssa.Phi, *ssa.Convert, *ssa.ChangeType:
					if !okUse(x.(ssa.Value), depth+1) {
						return false
					}
				case *ssa.Store:
					if x.Val == v {
						// only into the writer field (a *T) or into a field of a T
						fa, ok := x.Addr.(*ssa.FieldAddr)
						if !ok || !(fieldOfAddr(fa) == f || isT(fa.X.Type())) {
							return false
						}
					}
				case *ssa.Call:
					cal := x.Call.StaticCallee()
					if cal == nil || pkgPathOf(cal) != modPath+"/sourcemap" {
						return false
					}
				default:
					return false
				}
			}
			return true
		}
		for _, fn := range c.libFunctions() {
			allInstrs(fn, func(_ *ssa.BasicBlock, _ int, in ssa.Instruction) {
				v, ok := in.(ssa.Value)
				if !ok {
					return
				}
				// values of type T / *T / pointers to T's fields, and what is loaded from them
				switch x := in.(type) {
				case *ssa.Alloc:
					if isT(x.Type()) && !okUse(x, 0) {
						pure = false
					}
				case *ssa.FieldAddr:
					if fieldOfAddr(x) == f && !okUse(x, 0) {
						pure = false
					}
				default:
					_ = v
				}
			})
		}
		if pure {
			out[n.Obj()] = true
			flds[f] = true
		}
	}
	return out, flds
}

func isSourcemapPkgType(t types.Type) bool {
	n := namedOf(t)
	if n == nil {
		if p, ok := t.Underlying().(*types.Pointer); ok {
			n = namedOf(p.Elem())
		}
	}
	return n != nil && n.Obj().Pkg() != nil && n.Obj().Pkg().Path() == modPath+"/sourcemap"
}

// dependsOn reports whether v's backward slice (operands, within the function) contains a value satisfying pred.
func dependsOn(v ssa.Value, pred func(ssa.Value) bool) bool {
	seen := map[ssa.Value]bool{}
	var walk func(v ssa.Value) bool
	walk = func(v ssa.Value) bool {
		if v == nil || seen[v] {
			return false
		}
		seen[v] = true
		if pred(v) {
			return true
		}
		in, ok := v.(ssa.Instruction)
		if !ok {
			return false
		}
		for _, op := range in.Operands(nil) {
			if *op != nil && walk(*op) {
				return true
			}
		}
		return false
	}
	return walk(v)
}

func edgeRegion(f *ssa.Function, from *ssa.BasicBlock, succ int) map[*ssa.BasicBlock]bool {
	out := map[*ssa.BasicBlock]bool{}
	for _, b := range f.Blocks {
		if edgeDominates(from, from.Succs[succ], b) {
			out[b] = true
		}
	}
	return out
}

func r14_6(c *Ctx) {
	c.rule("R14.6", "branches on the source-map switch control only calls into package sourcemap; no sourcemap value reaches the code")
	c.floor(4)
	mapperFld := c.fieldByName("ast", "CodeWriter", "Mapper")
	var genFld *types.Var
	// the compiler's switch: the bool field that guards the store of the writer's Mapper — anchored by role
	compile := c.fn("(*compiler.Compiler).Compile")
	if mapperFld == nil || compile == nil {
		c.unres("anchors", token.NoPos, "CodeWriter.Mapper or Compile not found")
		return
	}
	_, cscope := compileScope(c)
	for _, sf := range cscope {
		sf := sf
		allInstrs(sf, func(b *ssa.BasicBlock, _ int, in ssa.Instruction) {
			st, ok := in.(*ssa.Store)
			if !ok {
				return
			}
			if _, ok := isFieldAddr(st.Addr, mapperFld); !ok {
				return
			}
			for _, blk := range sf.Blocks {
				iff := blockIf(blk)
				if iff == nil || !condEdgeDominates(blk, true, b) {
					continue
				}
				if u, ok := iff.Cond.(*ssa.UnOp); ok && u.Op == token.MUL {
					if fa, ok := u.X.(*ssa.FieldAddr); ok && namedIs(fa.X.Type(), "compiler", "Compiler") {
						genFld = fieldOfAddr(fa)
					}
				}
			}
		})
	}
	if genFld == nil {
		c.unres("anchors: compiler switch", compile.Pos(), "could not identify the Compiler field that guards the creation of the mapper (accepted idiom: if c.<flag> { w.Mapper = sourcemap.New() })")
		return
	}
	bt, bflds := bookkeepingRequestTypes(c)
	for k := range bookkeepingTypes {
		delete(bookkeepingTypes, k)
	}
	var btNames []string
	for k := range bt {
		bookkeepingTypes[k] = true
		btNames = append(btNames, k.Name())
	}
	sort.Strings(btNames)
	c.Tables["R14.6_bookkeeping_request_types"] = btNames
	isSwitch := func(v ssa.Value) bool {
		if _, ok := isFieldLoad(v, mapperFld); ok {
			return true
		}
		// the pending request and what is read from it
		if u, ok := v.(*ssa.UnOp); ok && u.Op == token.MUL {
			if fa, ok := u.X.(*ssa.FieldAddr); ok && (bflds[fieldOfAddr(fa)] || isSourcemapType(fa.X.Type()) && !isSourcemapPkgType(fa.X.Type())) {
				return true
			}
		}
		if _, ok := isFieldLoad(v, genFld); ok {
			return true
		}
		return false
	}
	nguards := 0
	for _, f := range c.libFunctions("ast", "compiler", "debug") {
		ng := 0
		for _, b := range f.Blocks {
			iff := blockIf(b)
			if iff == nil || !dependsOn(iff.Cond, isSwitch) {
				continue
			}
			ng++
			nguards++
			key := fmt.Sprintf("%s: guard #%d", fnName(f), ng)
			regions := map[*ssa.BasicBlock]bool{}
			for s := 0; s < 2; s++ {
				for blk := range edgeRegion(f, b, s) {
					regions[blk] = true
				}
			}
			var offending []string
			for blk := range regions {
				for _, in := range blk.Instrs {
					if why := notSourcemapOnly(in, mapperFld); why != "" {
						offending = append(offending, c.pos(in.Pos())+": "+why)
					}
				}
			}
			// values merged after the guarded region must be sourcemap values
			for _, blk := range f.Blocks {
				for _, in := range blk.Instrs {
					phi, ok := in.(*ssa.Phi)
					if !ok {
						break
					}
					for i, p := range blk.Preds {
						if (regions[p] || p == b) && !regions[blk] && !isSourcemapType(phi.Type()) && !allSame(phi.Edges) {
							_ = i
							offending = append(offending, c.pos(phi.Pos())+": variable "+phi.Comment+" takes a value that depends on the switch")
							break
						}
					}
				}
			}
			sort.Strings(offending)
			if len(offending) == 0 {
				c.ok(key, iff.Pos(), "controls only source-map bookkeeping")
			} else if why := mirroredBranches(c, f, b); why != "" {
				c.ok(key, iff.Pos(), "%s", why)
			} else {
				c.bad(key, iff.Pos(), "code other than source-map bookkeeping is conditional on the source-map switch: %s", strings.Join(offending, "; "))
			}
		}
		// sourcemap values must not flow anywhere but sourcemap calls / mapper fields / nil tests
		allInstrs(f, func(_ *ssa.BasicBlock, _ int, in ssa.Instruction) {
			v, ok := in.(ssa.Value)
			if !ok {
				return
			}
			fromSM := isSourcemapType(v.Type())
			if call, ok := in.(*ssa.Call); ok {
				if cal := call.Call.StaticCallee(); cal != nil && pkgPathOf(cal) == modPath+"/sourcemap" {
					fromSM = true
				}
			}
			if !fromSM || v.Referrers() == nil {
				return
			}
			for _, r := range *v.Referrers() {
				if why := badSourcemapUse(v, r); why != "" {
					c.bad(fmt.Sprintf("%s: sourcemap value used outside source-map bookkeeping", fnName(f)), r.Pos(), "%s", why)
				}
			}
		})
	}
	c.Tables["R14.6_switch_guards"] = nguards
	// the generated code does not depend on the switch
	codeFld := c.fieldByName("compiler", "CompileResult", "Code")
	n := 0
	allInstrs(compileBody(c), func(_ *ssa.BasicBlock, _ int, in ssa.Instruction) {
		st, ok := in.(*ssa.Store)
		if !ok {
			return
		}
		if _, ok := isFieldAddr(st.Addr, codeFld); !ok {
			return
		}
		n++
		dep := dependsOn(st.Val, func(v ssa.Value) bool { return isSwitch(v) || isSourcemapType(v.Type()) })
		c.check(!dep, fmt.Sprintf("Compile: Code #%d", n), st.Pos(), "the Code result is computed without reading the switch or any sourcemap value", "the Code result depends on the source-map switch or a sourcemap value")
	})
	if n == 0 {
		c.unres("Compile: Code", compile.Pos(), "no store to CompileResult.Code found")
	}
}

func allSame(vs []ssa.Value) bool {
	for _, v := range vs[1:] {
		if v != vs[0] {
			return false
		}
	}
	return true
}

func notSourcemapOnly(in ssa.Instruction, mapperFld *types.Var) string {
	switch x := in.(type) {
	case *ssa.UnOp, *ssa.FieldAddr, *ssa.Field, *ssa.BinOp, *ssa.If, *ssa.Jump, *ssa.Phi, *ssa.Extract, *ssa.DebugRef, *ssa.ChangeType, *ssa.Convert, *ssa.IndexAddr, *ssa.Index:
		return ""
	case *ssa.Return:
		if len(x.Results) == 0 {
			return ""
		}
		for _, r := range x.Results {
			if !isSourcemapType(r.Type()) {
				// fine only if the other edge returns the same (mirroredBranches)
				return "returns " + r.Name() + " under the switch"
			}
		}
		return ""
	case *ssa.Alloc:
		if isSourcemapType(x.Type()) && !isSourcemapPkgType(x.Type()) {
			return "" // a mapping request (verified bookkeeping type)
		}
		if feedsOnlySourcemap(x, 0) {
			return "" // backing array of a slice literal that is only stored into a sourcemap value
		}
		return fmt.Sprintf("%T", in)
	case *ssa.Slice:
		if feedsOnlySourcemap(x, 0) {
			return ""
		}
		return fmt.Sprintf("%T", in)
	case *ssa.Store:
		if fa, ok := x.Addr.(*ssa.FieldAddr); ok && isSourcemapPkgType(fa.X.Type()) {
			return "" // filling a field of a sourcemap value: information flows into the map, not out of it
		}
		if ia, ok := x.Addr.(*ssa.IndexAddr); ok {
			if al, ok := ia.X.(*ssa.Alloc); ok && feedsOnlySourcemap(al, 0) {
				return "" // element of a slice literal that is only stored into a sourcemap value
			}
		}
		if fa, ok := x.Addr.(*ssa.FieldAddr); ok && isSourcemapType(deref(fa.Type())) {
			return ""
		}
		if fa, ok := x.Addr.(*ssa.FieldAddr); ok && isSourcemapType(fa.X.Type()) && !isSourcemapPkgType(fa.X.Type()) {
			return "" // filling a mapping request
		}
		if al, ok := x.Addr.(*ssa.Alloc); ok && isSourcemapType(deref(al.Type())) {
			return ""
		}
		return "store to " + x.Addr.Name() + " (not a source-map location)"
	case *ssa.Call:
		if cal := x.Call.StaticCallee(); cal != nil && pkgPathOf(cal) == modPath+"/sourcemap" {
			return ""
		}
		if cal := x.Call.StaticCallee(); cal != nil && sourcemapOnlyFn(cal, mapperFld, 0) {
			return "" // a helper that does nothing but fill sourcemap values
		}
		return "call of " + x.Call.Value.Name() + " (not in package sourcemap)"
	}
	return fmt.Sprintf("%T", in)
}

// sourcemapOnlyFn: a library function without results whose every instruction is source-map bookkeeping (it fills
// fields of sourcemap values from its other parameters and does nothing else), and which uses its sourcemap-typed
// parameters only that way. Calling it under the source-map switch cannot influence the code.
var smOnlyMemo = map[*ssa.Function]int{} // 1 = yes, 2 = no, 3 = in progress

func sourcemapOnlyFn(f *ssa.Function, mapperFld *types.Var, depth int) bool {
	if f == nil || len(f.Blocks) == 0 || !isLibPath(pkgPathOf(f)) || depth > 3 {
		return false
	}
	if f.Signature.Results().Len() != 0 {
		return false
	}
	switch smOnlyMemo[f] {
	case 1:
		return true
	case 2, 3:
		return false
	}
	smOnlyMemo[f] = 3
	ok := true
	for _, b := range f.Blocks {
		for _, in := range b.Instrs {
			// locals of a function without results cannot carry anything out of it
			if al, isAl := in.(*ssa.Alloc); isAl && !al.Heap {
				continue
			}
			if st, isSt := in.(*ssa.Store); isSt {
				if al, isAl := st.Addr.(*ssa.Alloc); isAl && !al.Heap {
					continue
				}
			}
			if notSourcemapOnly(in, mapperFld) != "" {
				ok = false
			}
		}
	}
	for _, p := range f.Params {
		if !isSourcemapType(p.Type()) || p.Referrers() == nil {
			continue
		}
		for _, r := range *p.Referrers() {
			if badSourcemapUse(p, r) != "" {
				ok = false
			}
		}
	}
	if ok {
		smOnlyMemo[f] = 1
	} else {
		smOnlyMemo[f] = 2
	}
	return ok
}

// feedsOnlySourcemap: v (the backing array of a slice literal, its element addresses, the slice made of it) is used
// for nothing but being stored into a field of a sourcemap value.
func feedsOnlySourcemap(v ssa.Value, depth int) bool {
	if depth > 4 || v.Referrers() == nil || len(*v.Referrers()) == 0 {
		return false
	}
	for _, r := range *v.Referrers() {
		switch x := r.(type) {
		case *ssa.DebugRef:
		case *ssa.Store:
			if x.Addr == v {
				continue // initialising an element
			}
			fa, ok := x.Addr.(*ssa.FieldAddr)
			if !ok || !isSourcemapPkgType(fa.X.Type()) {
				return false
			}
		case *ssa.IndexAddr:
			if x.X != v || !feedsOnlySourcemap(x, depth+1) {
				return false
			}
		case *ssa.Slice:
			if x.X != v || !feedsOnlySourcemap(x, depth+1) {
				return false
			}
		default:
			return false
		}
	}
	return true
}

func badSourcemapUse(v ssa.Value, r ssa.Instruction) string {
	switch x := r.(type) {
	case *ssa.Call:
		if cal := x.Call.StaticCallee(); cal != nil && pkgPathOf(cal) == modPath+"/sourcemap" {
			return ""
		}
		if cal := x.Call.StaticCallee(); cal != nil && sourcemapOnlyFn(cal, nil, 0) {
			return "" // a helper that does nothing but fill sourcemap values
		}
		return "passed to " + x.Call.Value.Name()
	case *ssa.Store:
		if x.Val == v {
			if isSourcemapType(deref(x.Addr.Type())) {
				return ""
			}
			return "stored into a non-sourcemap location"
		}
		return ""
	case *ssa.BinOp, *ssa.If, *ssa.DebugRef:
		return ""
	case *ssa.Phi:
		if isSourcemapType(x.Type()) {
			return ""
		}
		return "merged into a non-sourcemap variable"
	case *ssa.UnOp:
		if isSourcemapType(x.Type()) || isSourcemapType(deref(x.X.Type())) && x.Op == token.MUL {
			// loading a sourcemap pointer from a sourcemap-typed cell
			if isSourcemapType(x.Type()) {
				return ""
			}
		}
		return "dereferenced outside package sourcemap"
	case *ssa.FieldAddr, *ssa.Field:
		if !isSourcemapPkgType(v.Type()) {
			return "" // a mapping request of package ast: its uses are verified by bookkeepingRequestTypes
		}
		if fa, ok := x.(*ssa.FieldAddr); ok && fa.Referrers() != nil {
			onlyWritten := len(*fa.Referrers()) > 0
			for _, r2 := range *fa.Referrers() {
				if st, ok := r2.(*ssa.Store); !ok || st.Addr != ssa.Value(fa) {
					if _, dbg := r2.(*ssa.DebugRef); !dbg {
						onlyWritten = false
					}
				}
			}
			if onlyWritten {
				return "" // the field is written, never read: information flows into the map
			}
		}
		return "a field of a sourcemap value is read outside package sourcemap"
	case *ssa.Return:
		return ""
	case *ssa.MakeInterface, *ssa.ChangeType:
		return "converted"
	}
	return fmt.Sprintf("used by %T", r)
}

// ---------------------------------------------------------------------------------------------
// R14.7 debug string = compact compilation (pretty-only state)

type prettyInfo struct {
	pp       *types.Var
	pendings *types.Var
	poBlocks map[*ssa.BasicBlock]bool
	poFns    map[*ssa.Function]bool
}

// ppEdge returns, for an If whose condition is the PrettyPrint flag (possibly negated), the successor index taken when PrettyPrint is true.
func ppEdge(iff *ssa.If, pp *types.Var) (int, bool) {
	cond := iff.Cond
	neg := false
	for {
		if u, ok := cond.(*ssa.UnOp); ok && u.Op == token.NOT {
			neg = !neg
			cond = u.X
			continue
		}
		break
	}
	if _, ok := isFieldLoad(cond, pp); !ok {
		return 0, false
	}
	if neg {
		return 1, true
	}
	return 0, true
}

func prettyOnly(c *Ctx) *prettyInfo {
	pi := &prettyInfo{poBlocks: map[*ssa.BasicBlock]bool{}, poFns: map[*ssa.Function]bool{}}
	pi.pp = c.fieldByName("ast", "CodeWriter", "PrettyPrint")
	pi.pendings = c.fieldByType("ast", "CodeWriter", func(t types.Type) bool {
		s, ok := t.Underlying().(*types.Slice)
		if !ok {
			return false
		}
		b, ok := s.Elem().Underlying().(*types.Basic)
		return ok && b.Kind() == types.Int32
	})
	if pi.pp == nil || pi.pendings == nil {
		return nil
	}
	fns := c.libFunctions("ast")
	for _, f := range fns {
		for _, b := range f.Blocks {
			iff := blockIf(b)
			if iff == nil {
				continue
			}
			if s, ok := ppEdge(iff, pi.pp); ok {
				for blk := range edgeRegion(f, b, s) {
					pi.poBlocks[blk] = true
				}
			}
			// draining the pending buffer: the body of "for … range cw.pendings"
			if bo, ok := iff.Cond.(*ssa.BinOp); ok && bo.Op == token.LSS {
				if call, ok := isBuiltinCall(bo.Y, "len"); ok {
					if _, ok := isFieldLoad(call.Call.Args[0], pi.pendings); ok {
						for blk := range edgeRegion(f, b, 0) {
							pi.poBlocks[blk] = true
						}
					}
				}
			}
		}
	}
	// unexported functions all of whose call sites are pretty-only are pretty-only (least fixpoint from "none")
	for changed := true; changed; {
		changed = false
		for _, f := range fns {
			if pi.poFns[f] || f.Object() == nil || f.Object().Exported() {
				continue
			}
			sites, all := 0, true
			for _, g := range c.libFunctions() {
				allInstrs(g, func(b *ssa.BasicBlock, _ int, in ssa.Instruction) {
					ci, ok := in.(ssa.CallInstruction)
					if ok && ci.Common().StaticCallee() == f {
						sites++
						if !pi.poBlocks[b] && !pi.poFns[g] {
							all = false
						}
					}
					// taken as a value: unknown callers
					for _, op := range in.Operands(nil) {
						if *op == ssa.Value(f) && !(ok && ci.Common().Value == ssa.Value(f)) {
							all = false
						}
					}
				})
			}
			if sites > 0 && all {
				pi.poFns[f] = true
				changed = true
			}
		}
	}
	return pi
}

func (pi *prettyInfo) only(in ssa.Instruction) bool {
	return pi.poBlocks[in.Block()] || pi.poFns[in.Parent()]
}

func r14_7(c *Ctx) {
	c.rule("R14.7", "debug.ToString uses a zero-valued writer; Compile's compact writer differs only in pretty-only fields; the post-pass runs only under prettyPrint")
	c.floor(8)
	pi := prettyOnly(c)
	if pi == nil {
		c.unres("anchors", token.NoPos, "CodeWriter.PrettyPrint / pending buffer field not found")
		return
	}
	var po []string
	for f := range pi.poFns {
		po = append(po, fnName(f))
	}
	sort.Strings(po)
	c.Tables["pretty_only_functions"] = po
	// (a) pending buffer: non-empty stores only when pretty; (b) indentation/semicolon fields read only when pretty
	prettyFields := map[*types.Var]bool{}
	for _, n := range []string{"IndentLevel", "IndentString", "WriteSemicolons"} {
		if v := c.fieldByName("ast", "CodeWriter", n); v != nil {
			prettyFields[v] = true
		} else {
			c.unres("CodeWriter."+n, token.NoPos, "field not found")
		}
	}
	for _, f := range c.libFunctions("ast") {
		n := map[string]int{}
		allInstrs(f, func(_ *ssa.BasicBlock, _ int, in ssa.Instruction) {
			switch x := in.(type) {
			case *ssa.Store:
				if _, ok := isFieldAddr(x.Addr, pi.pendings); ok {
					n["p"]++
					key := fmt.Sprintf("%s: store #%d of the pending buffer", fnName(f), n["p"])
					if el, ok := sliceLitElems(x.Val); ok && len(el) == 0 {
						c.ok(key, x.Pos(), "stores an empty buffer")
					} else if truncatedToEmpty(x.Val, pi.pendings) {
						c.ok(key, x.Pos(), "empties the buffer in place (pending[:0])")
					} else if k, ok := x.Val.(*ssa.Const); ok && k.IsNil() {
						c.ok(key, x.Pos(), "stores nil")
					} else if pi.only(x) {
						c.ok(key, x.Pos(), "reachable only with PrettyPrint true")
					} else {
						c.bad(key, x.Pos(), "the pending-layout buffer can become non-empty with PrettyPrint false: compact output would contain layout")
					}
					return
				}
				if fa, ok := x.Addr.(*ssa.FieldAddr); ok && prettyFields[fieldOfAddr(fa)] && namedIs(fa.X.Type(), "ast", "CodeWriter") {
					n["w"]++
					key := fmt.Sprintf("%s: write #%d of %s", fnName(f), n["w"], fieldOfAddr(fa).Name())
					c.check(pi.only(x), key, x.Pos(), "pretty-only", "a pretty-printing field is written with PrettyPrint false")
				}
			case *ssa.UnOp:
				if x.Op != token.MUL {
					return
				}
				if fa, ok := x.X.(*ssa.FieldAddr); ok && prettyFields[fieldOfAddr(fa)] && namedIs(fa.X.Type(), "ast", "CodeWriter") {
					n["r"]++
					key := fmt.Sprintf("%s: read #%d of %s", fnName(f), n["r"], fieldOfAddr(fa).Name())
					c.check(pi.only(x), key, x.Pos(), "reachable only with PrettyPrint true (or while draining the pending buffer)", "field "+fieldOfAddr(fa).Name()+" influences output with PrettyPrint false: compact compilation with pretty options set would differ from debug.ToString")
				}
			}
		})
	}
	// (c) debug.ToString: zero-valued writer
	if ts := c.fn("debug.ToString"); ts == nil {
		c.unres("debug.ToString", token.NoPos, "not found")
	} else {
		var w *ssa.Alloc
		allInstrs(ts, func(_ *ssa.BasicBlock, _ int, in ssa.Instruction) {
			if al, ok := in.(*ssa.Alloc); ok && namedIs(al.Type(), "ast", "CodeWriter") {
				w = al
			}
		})
		if w == nil {
			c.unres("debug.ToString: writer", ts.Pos(), "no local ast.CodeWriter")
		} else {
			zero := true
			for _, r := range *w.Referrers() {
				if fa, ok := r.(*ssa.FieldAddr); ok {
					for _, r2 := range *fa.Referrers() {
						if st, ok := r2.(*ssa.Store); ok && st.Addr == fa {
							if k, isK := st.Val.(*ssa.Const); !isK || !(k.Value == nil || k.Value.String() == "false" || k.Value.String() == "0" || k.Value.String() == `""`) {
								zero = false
							}
						}
					}
				}
			}
			c.check(zero, "debug.ToString: writer", w.Pos(), "zero-valued CodeWriter (compact, no mapper)", "debug.ToString must print with a zero-valued writer")
		}
	}
	// (d)+(e) Compile: PrettyPrint comes from the same flag that guards the post-pass; Code is w.String() unless under that flag
	compile := c.fn("(*compiler.Compiler).Compile")
	if compile == nil {
		c.unres("Compile", token.NoPos, "not found")
		return
	}
	var ppFlag *types.Var
	allowed := map[string]bool{"Builder": true, "PrettyPrint": true, "IndentString": true, "WriteSemicolons": true, "Mapper": true, "IndentLevel": true}
	_, scope7 := compileScope(c)
	for _, sf := range scope7 {
		allInstrs(sf, func(_ *ssa.BasicBlock, _ int, in ssa.Instruction) {
			st, ok := in.(*ssa.Store)
			if !ok {
				return
			}
			fa, ok := st.Addr.(*ssa.FieldAddr)
			if !ok || !namedIs(fa.X.Type(), "ast", "CodeWriter") {
				return
			}
			fld := fieldOfAddr(fa)
			key := "Compile: writer field " + fld.Name()
			switch {
			case fld == pi.pp:
				if u, ok := st.Val.(*ssa.UnOp); ok && u.Op == token.MUL {
					if cfa, ok := u.X.(*ssa.FieldAddr); ok && namedIs(cfa.X.Type(), "compiler", "Compiler") {
						ppFlag = fieldOfAddr(cfa)
					}
				}
				c.check(ppFlag != nil, key, st.Pos(), "PrettyPrint is the compiler's pretty flag", "PrettyPrint must be loaded from the compiler's pretty flag")
			case allowed[fld.Name()]:
				c.ok(key, st.Pos(), "pretty-only field (or mapper, R14.6)")
			default:
				c.unres(key, st.Pos(), "Compile sets writer field %s, which R14.7 does not know to be pretty-only", fld.Name())
			}
		})
	}
	if ppFlag == nil {
		c.unres("Compile: pretty flag", compile.Pos(), "the writer's PrettyPrint is not initialised from a Compiler field")
		return
	}
	ppRegion := map[*ssa.BasicBlock]bool{}
	inScope := map[*ssa.Function]bool{}
	for _, sf := range scope7 {
		inScope[sf] = true
		for _, b := range sf.Blocks {
			if iff := blockIf(b); iff != nil {
				if _, ok := isFieldLoad(iff.Cond, ppFlag); ok {
					for blk := range edgeRegion(sf, b, 0) {
						ppRegion[blk] = true
					}
				}
			}
		}
	}
	// regions that run only under an opt-in option: a bool field of the Compiler (other than the pretty flag) that the
	// constructor leaves false — a compiler as New() makes it never enters them, so its compact output is the buffer
	optRegion := map[*ssa.BasicBlock]bool{}
	newFn := c.fn("compiler.New")
	for _, sf := range scope7 {
		for _, b := range sf.Blocks {
			iff := blockIf(b)
			if iff == nil {
				continue
			}
			u, ok := iff.Cond.(*ssa.UnOp)
			if !ok || u.Op != token.MUL {
				continue
			}
			fa, ok := u.X.(*ssa.FieldAddr)
			if !ok || !namedIs(fa.X.Type(), "compiler", "Compiler") {
				continue
			}
			fld := fieldOfAddr(fa)
			if fld == ppFlag || !types.Identical(fld.Type(), types.Typ[types.Bool]) || newFn == nil {
				continue
			}
			setInNew := false
			allInstrs(newFn, func(_ *ssa.BasicBlock, _ int, in2 ssa.Instruction) {
				if st2, ok := in2.(*ssa.Store); ok {
					if _, ok := isFieldAddr(st2.Addr, fld); ok {
						if k, ok := st2.Val.(*ssa.Const); !ok || k.Value == nil || k.Value.String() != "false" {
							setInNew = true
						}
					}
				}
			})
			if setInNew {
				continue
			}
			for blk := range edgeRegion(sf, b, 0) {
				optRegion[blk] = true
			}
		}
	}
	codeFld := c.fieldByName("compiler", "CompileResult", "Code")
	allInstrs(compileBody(c), func(_ *ssa.BasicBlock, _ int, in ssa.Instruction) {
		st, ok := in.(*ssa.Store)
		if !ok {
			return
		}
		if _, ok := isFieldAddr(st.Addr, codeFld); !ok {
			return
		}
		var leaves []ssa.Value
		var walk func(v ssa.Value, seen map[ssa.Value]bool)
		walk = func(v ssa.Value, seen map[ssa.Value]bool) {
			if seen[v] {
				return
			}
			seen[v] = true
			if phi, ok := v.(*ssa.Phi); ok {
				for _, e := range phi.Edges {
					walk(e, seen)
				}
				return
			}
			// the text comes out of a private helper of Compile: its returned values are the leaves
			if call, ok := v.(*ssa.Call); ok && inScope[call.Call.StaticCallee()] && call.Call.StaticCallee() != compile && !ppRegion[call.Block()] {
				allInstrs(call.Call.StaticCallee(), func(_ *ssa.BasicBlock, _ int, hi ssa.Instruction) {
					if r, ok := hi.(*ssa.Return); ok && len(r.Results) == 1 {
						walk(r.Results[0], seen)
					}
				})
				return
			}
			leaves = append(leaves, v)
		}
		walk(st.Val, map[ssa.Value]bool{})
		for i, l := range leaves {
			key := fmt.Sprintf("Compile: Code source #%d", i+1)
			call, isCall := l.(*ssa.Call)
			if isCall && call.Call.StaticCallee() != nil && fnName(call.Call.StaticCallee()) == "(*ast.CodeWriter).String" {
				c.ok(key, l.Pos(), "the writer's buffer, unprocessed")
				continue
			}
			if in, ok := l.(ssa.Instruction); ok && ppRegion[in.Block()] {
				c.ok(key, l.Pos(), "post-processing happens only under the pretty flag")
				continue
			}
			if in, ok := l.(ssa.Instruction); ok && optRegion[in.Block()] {
				c.ok(key, l.Pos(), "post-processing happens only under an opt-in option that New() leaves off: a default compact compilation is the buffer as printed")
				continue
			}
			c.bad(key, l.Pos(), "the compact Code is not the writer's buffer as printed: compact compilation would differ from debug.ToString")
		}
	})
}

// ---------------------------------------------------------------------------------------------
// R14.8 determinism

var deniedImports = map[string]string{
	"time": "wall clock", "math/rand": "randomness", "math/rand/v2": "randomness", "crypto/rand": "randomness",
	"os": "environment", "os/exec": "environment", "runtime": "scheduler/goroutine state", "syscall": "environment",
	"unsafe": "breaks the call graph's soundness", "reflect": "breaks the call graph's soundness", "net": "environment", "net/http": "environment",
	"sync/atomic": "shared mutable state", "plugin": "environment",
}

func r14_8(c *Ctx) {
	c.rule("R14.8", "determinism: map ranges have order-insensitive bodies; no clock/random/os/unsafe/reflect imports; no goroutines, channels or select in the library")
	c.floor(8)
	for _, pn := range libPkgs {
		p := c.Pkgs[pn]
		var imps []string
		for _, f := range p.Syntax {
			for _, im := range f.Imports {
				path, _ := strconv.Unquote(im.Path.Value)
				imps = append(imps, path)
				if why, bad := deniedImports[path]; bad {
					if pn == "debug" {
						continue
					}
					c.bad(fmt.Sprintf("%s imports %s", pn, path), im.Pos(), "package %s imports %s (%s): results may differ between runs or the share-nothing argument loses its trusted base", pn, path, why)
				}
			}
			// map ranges
			info := p.TypesInfo
			n := 0
			ast.Inspect(f, func(nd ast.Node) bool {
				rs, ok := nd.(*ast.RangeStmt)
				if !ok {
					return true
				}
				tv, ok := info.Types[rs.X]
				if !ok {
					return true
				}
				if _, isMap := tv.Type.Underlying().(*types.Map); !isMap {
					return true
				}
				n++
				key := fmt.Sprintf("%s: map range over %s", pn, types.ExprString(rs.X))
				if why := orderSensitive(info, rs); why != "" {
					c.unres(key, rs.Pos(), "body is not recognised as order-insensitive (%s); accepted: only assignments m[k] = <constant or range variable>", why)
				} else {
					c.ok(key, rs.Pos(), "body only builds a set/map: insensitive to iteration order")
				}
				return true
			})
		}
		sort.Strings(imps)
		c.ok(pn+": imports", token.NoPos, "no denied import among: %s", strings.Join(dedup(imps), ", "))
	}
	for _, f := range c.libFunctions() {
		allInstrs(f, func(_ *ssa.BasicBlock, _ int, in ssa.Instruction) {
			switch in.(type) {
			case *ssa.Go, *ssa.Send, *ssa.Select, *ssa.MakeChan:
				c.unres(fmt.Sprintf("%s: concurrency construct %T", fnName(f), in), in.Pos(), "goroutines/channels inside the library need a separate race argument")
			}
			if call, ok := in.(*ssa.Call); ok {
				if cal := call.Call.StaticCallee(); cal != nil && pkgPathOf(cal) == "maps" && (originOf(cal).Name() == "Keys" || originOf(cal).Name() == "Values" || originOf(cal).Name() == "All") {
					c.unres(fmt.Sprintf("%s: maps.%s", fnName(f), originOf(cal).Name()), in.Pos(), "iteration order of a map escapes through an iterator")
				}
			}
		})
	}
}

func dedup(s []string) []string {
	var out []string
	for i, x := range s {
		if i == 0 || x != s[i-1] {
			out = append(out, x)
		}
	}
	return out
}

func orderSensitive(info *types.Info, rs *ast.RangeStmt) string {
	for _, st := range rs.Body.List {
		as, ok := st.(*ast.AssignStmt)
		if !ok || len(as.Lhs) != 1 || len(as.Rhs) != 1 || as.Tok != token.ASSIGN {
			return "statement other than a plain assignment"
		}
		ix, ok := as.Lhs[0].(*ast.IndexExpr)
		if !ok {
			return "assignment to something other than a map element"
		}
		if tv, ok := info.Types[ix.X]; !ok {
			return "untyped target"
		} else if _, isMap := tv.Type.Underlying().(*types.Map); !isMap {
			return "indexed target is not a map"
		}
		if tv, ok := info.Types[as.Rhs[0]]; ok && tv.Value != nil {
			continue
		}
		if id, ok := as.Rhs[0].(*ast.Ident); ok {
			if (rs.Key != nil && types.ExprString(rs.Key) == id.Name) || (rs.Value != nil && types.ExprString(rs.Value) == id.Name) {
				continue
			}
		}
		return "assigned value is neither constant nor a range variable"
	}
	return ""
}

// hasReference: values of type t can alias shared storage (pointer, slice, map, chan, func, interface, or an
// aggregate containing one).
func hasReference(t types.Type) bool {
	switch u := t.Underlying().(type) {
	case *types.Basic:
		return u.Kind() == types.UnsafePointer
	case *types.Array:
		return hasReference(u.Elem())
	case *types.Struct:
		for i := 0; i < u.NumFields(); i++ {
			if hasReference(u.Field(i).Type()) {
				return true
			}
		}
		return false
	}
	return true
}

// mirroredBranches: both edges of the guard at block b lead to straight-line regions that end in a return and perform
// the same effects on everything that is not a source-map location: the same values (computed before the guard, or
// constants) stored into the same fields of a fresh result, and the same results returned. The switch then decides
// only what the source-map fields hold.
func mirroredBranches(c *Ctx, f *ssa.Function, b *ssa.BasicBlock) string {
	r0, r1 := edgeRegion(f, b, 0), edgeRegion(f, b, 1)
	if len(r0) == 0 || len(r1) == 0 {
		return ""
	}
	inEither := func(blk *ssa.BasicBlock) bool { return r0[blk] || r1[blk] }
	summ := func(region map[*ssa.BasicBlock]bool) ([]string, bool) {
		var blocks []*ssa.BasicBlock
		for blk := range region {
			blocks = append(blocks, blk)
		}
		sort.Slice(blocks, func(i, j int) bool { return blocks[i].Index < blocks[j].Index })
		allocs := map[ssa.Value]bool{}
		var out []string
		returns := false
		depthKey := 0
		var valkey func(v ssa.Value) string
		valkey = func(v ssa.Value) string {
			switch x := v.(type) {
			case *ssa.Const:
				return "const " + x.String()
			case *ssa.Parameter, *ssa.Global, *ssa.Function:
				return fmt.Sprintf("outer %p", v)
			case *ssa.UnOp:
				if x.Op == token.MUL && allocs[x.X] {
					return "the fresh " + deref(x.X.Type()).String()
				}
			}
			if isSourcemapType(v.Type()) {
				return "sourcemap value"
			}
			if in, ok := v.(ssa.Instruction); ok && in.Block() != nil && !inEither(in.Block()) {
				return fmt.Sprintf("outer %p", v)
			}
			// the same pure function applied to the same outer values gives the same value on both edges
			if call, ok := v.(*ssa.Call); ok && !call.Call.IsInvoke() && depthKey < 3 {
				if cal := call.Call.StaticCallee(); cal != nil && pureLibCall(cal, 0) {
					depthKey++
					k := "pure " + fnName(cal) + "("
					for _, a := range call.Call.Args {
						k += valkey(a) + ","
					}
					depthKey--
					if !strings.Contains(k, "local ") {
						return k + ")"
					}
				}
			}
			return fmt.Sprintf("local %p", v)
		}
		for _, blk := range blocks {
			if blockIf(blk) != nil {
				return nil, false
			}
			for _, in := range blk.Instrs {
				switch x := in.(type) {
				case *ssa.Return:
					returns = true
					for _, r := range x.Results {
						out = append(out, "return "+valkey(r))
					}
					continue
				case *ssa.Alloc:
					if !x.Heap || true {
						allocs[x] = true
					}
					continue
				case *ssa.Store:
					if fa, ok := x.Addr.(*ssa.FieldAddr); ok && allocs[fa.X] {
						if isSourcemapType(deref(fa.Type())) {
							continue
						}
						out = append(out, "store "+deref(fa.X.Type()).String()+"."+fieldOfAddr(fa).Name()+" = "+valkey(x.Val))
						continue
					}
					if allocs[x.Addr] {
						if isSourcemapType(deref(x.Addr.Type())) {
							continue
						}
						out = append(out, "store "+deref(x.Addr.Type()).String()+" = "+valkey(x.Val))
						continue
					}
				}
				if call, ok := in.(*ssa.Call); ok && !call.Call.IsInvoke() {
					if cal := call.Call.StaticCallee(); cal != nil && pureLibCall(cal, 0) {
						continue // no effect of its own; its value is compared where it is stored or returned
					}
				}
				if notSourcemapOnly(in, nil) != "" {
					out = append(out, fmt.Sprintf("other %p", in))
				}
			}
		}
		sort.Strings(out)
		return out, returns
	}
	s0, ok0 := summ(r0)
	s1, ok1 := summ(r1)
	if !ok0 || !ok1 || len(s0) != len(s1) {
		return ""
	}
	for i := range s0 {
		if s0[i] != s1[i] || strings.HasPrefix(s0[i], "other ") || strings.Contains(s0[i], "local ") {
			return ""
		}
	}
	return fmt.Sprintf("both edges return after the same %d effect(s) on non-source-map state; only source-map fields differ", len(s0))
}

// compileScope: Compile and the private functions of package compiler that only it (or another of them) calls — the
// pieces a maintainer may split Compile into. What holds for "Compile" is checked over this scope.
// compileBody: the entry point that holds the compilation code — Compile itself, or the exported sibling with the same
// result type it delegates to (Compile(p) = CompileNode(p)); recognised by the store to CompileResult.Code.
func compileBody(c *Ctx) *ssa.Function {
	compile, scope := compileScope(c)
	if compile == nil {
		return nil
	}
	codeFld := c.fieldByName("compiler", "CompileResult", "Code")
	has := func(f *ssa.Function) bool {
		found := false
		allInstrs(f, func(_ *ssa.BasicBlock, _ int, in ssa.Instruction) {
			if st, ok := in.(*ssa.Store); ok && codeFld != nil {
				if _, ok := isFieldAddr(st.Addr, codeFld); ok {
					found = true
				}
			}
		})
		return found
	}
	if has(compile) {
		return compile
	}
	for _, f := range scope {
		if f != compile && f.Object() != nil && f.Object().Exported() && has(f) {
			return f
		}
	}
	return compile
}

func compileScope(c *Ctx) (*ssa.Function, []*ssa.Function) {
	compile := c.fn("(*compiler.Compiler).Compile")
	if compile == nil {
		return nil, nil
	}
	in := map[*ssa.Function]bool{compile: true}
	callers := map[*ssa.Function][]*ssa.Function{}
	for _, g := range c.libFunctions() {
		allInstrs(g, func(_ *ssa.BasicBlock, _ int, ins ssa.Instruction) {
			if ci, ok := ins.(ssa.CallInstruction); ok {
				if cal := staticCallee(ci); cal != nil && cal.Pkg == compile.Pkg {
					callers[cal] = append(callers[cal], g)
				}
			}
		})
	}
	for changed := true; changed; {
		changed = false
		for f, cs := range callers {
			if in[f] || f.Object() == nil {
				continue
			}
			if f.Object().Exported() {
				// another entry point on the same receiver that Compile delegates to (Compile(p) = CompileNode(p)): its
				// body is compilation code whoever calls it
				if f.Signature.Recv() != nil && compile.Signature.Recv() != nil && types.Identical(f.Signature.Recv().Type(), compile.Signature.Recv().Type()) && types.Identical(f.Signature.Results(), compile.Signature.Results()) {
					for _, g := range cs {
						if in[g] {
							in[f] = true
							changed = true
						}
					}
				}
				continue
			}
			all := true
			for _, g := range cs {
				if !in[g] {
					all = false
				}
			}
			if !all {
				continue
			}
			if _, closed := c.argsAtCallers(f, 0); !closed && len(f.Params) > 0 {
				continue
			}
			in[f] = true
			changed = true
		}
	}
	out := []*ssa.Function{compile}
	var rest []*ssa.Function
	for f := range in {
		if f != compile {
			rest = append(rest, f)
		}
	}
	sort.Slice(rest, func(i, j int) bool { return fnName(rest[i]) < fnName(rest[j]) })
	return compile, append(out, rest...)
}

// pureLibCall: a call whose result depends on its arguments only and that writes nothing but its own locals: library
// functions without stores/updates/deferred calls whose callees are pure in turn, read-only methods of strings.Builder
// and the functions of package strings.
func pureLibCall(f *ssa.Function, depth int) bool {
	if f == nil || depth > 4 {
		return false
	}
	if f.Blocks == nil || !isLibPath(pkgPathOf(f)) {
		switch pkgPathOf(f) {
		case "strings":
			if f.Signature.Recv() == nil {
				return true
			}
			return f.Name() == "String" || f.Name() == "Len"
		case "strconv", "unicode", "unicode/utf8":
			return true
		}
		return false
	}
	pure := true
	allInstrs(f, func(_ *ssa.BasicBlock, _ int, in ssa.Instruction) {
		switch x := in.(type) {
		case *ssa.Store:
			if _, local := x.Addr.(*ssa.Alloc); !local {
				if ia, ok := x.Addr.(*ssa.IndexAddr); ok {
					if _, local := ia.X.(*ssa.Alloc); local {
						return
					}
					// an element of a slice this very function obtained from a pure call (strings.Split …): its own
					if src, ok := ia.X.(*ssa.Call); ok && !src.Call.IsInvoke() && src.Call.StaticCallee() != nil && pureLibCall(src.Call.StaticCallee(), depth+1) {
						return
					}
				}
				pure = false
			}
		case *ssa.MapUpdate, *ssa.Send, *ssa.Go, *ssa.Defer, *ssa.Panic:
			pure = false
		case *ssa.Call:
			if _, isB := x.Call.Value.(*ssa.Builtin); isB {
				return
			}
			cal := x.Call.StaticCallee()
			if cal == nil || cal == f || !pureLibCall(cal, depth+1) {
				pure = false
			}
		}
	})
	return pure
}
