package main

import (
	"go/token"

	"golang.org/x/tools/go/ssa"
)

// Iteration paths of a scanner. A delimited scanner (string / backtick) is one loop: each round examines the byte
// under the cursor and consumes and writes some bytes. The block-by-block reading of its sinks (collectSinks)
// cannot tell which sinks belong to the same round once the code shares a trailing write between several cases,
// so the loop body is also walked path by path with the byte-set state: every path from the loop header back to it
// (or out of the loop) yields the sequence of advances and sinks of one round, each with the byte sets that hold on
// that very path.

type iterEvent struct {
	adv     bool
	cur     bset // advances: the byte advanced over
	after   bset // advances: the byte that came under the cursor
	unknown bool // a call that may advance an unknown number of times
	start   bool // not an advance: the byte under the cursor when the round begins (refined by the round's own tests)
	sink    *sinkInfo
}

type iterPath struct {
	events []iterEvent
	exits  bool // the path leaves the loop (or returns) instead of coming back to the header
}

type sinkPathFacts struct {
	paths       int
	pairedAll   bool // on every path the previous sink of the round is an unpaired lone backslash
	hasNextAll  bool // on every path another sink follows in the same round
	setUnpaired bset // the bytes it can write on the paths where it is not the second half of a pair
	anyUnpaired bool
}

func loopHeader(f *ssa.Function) *ssa.BasicBlock {
	var h *ssa.BasicBlock
	for _, b := range f.Blocks {
		for _, p := range b.Preds {
			if b.Dominates(p) {
				if h == nil || b.Dominates(h) || (!h.Dominates(b) && b.Index < h.Index) {
					h = b
				}
			}
		}
	}
	return h
}

// scannerIterPaths walks the rounds of the scanner analysed in context cx. ok is false when the walk was cut short.
func scannerIterPaths(lf *lexFacts, cx *lexCtx) ([]iterPath, bool) {
	f := cx.fn
	buf := resultBuilder(f)
	h := loopHeader(f)
	if buf == nil || h == nil || cx.in == nil || cx.in[h] == nil || !cx.in[h].live {
		return nil, false
	}
	saved := cx.before
	cx.before = map[ssa.Instruction]*lexState{}
	defer func() { cx.before = saved }()
	var out []iterPath
	complete := true
	steps := 0
	// the byte that came under the cursor with the last advance is known better and better as the path tests it
	settle := func(evs []iterEvent, s *lexState) {
		if n := len(evs); n > 0 && evs[n-1].adv && !evs[n-1].unknown {
			evs[n-1].after = s.cur
		}
	}
	var explore func(b, pred *ssa.BasicBlock, s *lexState, evs []iterEvent, visits map[*ssa.BasicBlock]int, first bool)
	explore = func(b, pred *ssa.BasicBlock, s *lexState, evs []iterEvent, visits map[*ssa.BasicBlock]int, first bool) {
		steps++
		if steps > 200000 || len(out) > 4000 {
			complete = false
			return
		}
		if b == h && !first {
			settle(evs, s)
			out = append(out, iterPath{events: append([]iterEvent(nil), evs...)})
			return
		}
		if visits[b] >= 2 {
			complete = complete && false
			return
		}
		visits[b]++
		defer func() { visits[b]-- }()
		// byte-valued phis take the value of the edge the path came in on
		if pred != nil {
			edge := -1
			for i, q := range b.Preds {
				if q == pred {
					edge = i
				}
			}
			if edge >= 0 {
				type upd struct {
					set bset
					al  int
					has bool
				}
				ups := map[*ssa.Phi]upd{}
				for _, in := range b.Instrs {
					phi, ok := in.(*ssa.Phi)
					if !ok {
						break
					}
					if isByte(phi.Type()) {
						a, has := s.alias[unwrap(phi.Edges[edge])]
						ups[phi] = upd{lf.valSet(s, cx, phi.Edges[edge]), a, has}
					}
				}
				for phi, u := range ups {
					s.vals[phi] = u.set
					if u.has {
						s.alias[phi] = u.al
					} else {
						delete(s.alias, phi)
					}
				}
			}
		}
		for _, in := range b.Instrs {
			if call, ok := in.(*ssa.Call); ok {
				cal := call.Call.StaticCallee()
				if isSinkCall(call, buf) || cal == lf.advance || (cal != nil && cal != lf.peekFn && cal.Pkg == f.Pkg && lf.mayAdvance(cal)) {
					settle(evs, s)
				}
				switch {
				case isSinkCall(call, buf):
					prevLone := false
					for i := len(evs) - 1; i >= 0; i-- {
						if evs[i].sink != nil {
							prevLone = evs[i].sink.isBsl && !evs[i].sink.paired
							break
						}
					}
					si := classifySink(lf, cx, s, call, prevLone)
					if prevLone && !si.multi {
						si.paired = true
					}
					evs = append(evs, iterEvent{sink: &si})
				case cal == lf.advance:
					evs = append(evs, iterEvent{adv: true, cur: s.cur})
				case cal != nil && cal != lf.peekFn && cal.Pkg == f.Pkg && lf.mayAdvance(cal):
					evs = append(evs, iterEvent{adv: true, unknown: true})
				}
			}
			lf.transfer(cx, s, in)
			if !s.live {
				return
			}
			if call, ok := in.(*ssa.Call); ok && call.Call.StaticCallee() == lf.advance && len(evs) > 0 && evs[len(evs)-1].adv {
				evs[len(evs)-1].after = s.cur
			}
		}
		switch x := b.Instrs[len(b.Instrs)-1].(type) {
		case *ssa.If:
			for i, succ := range b.Succs {
				es := s.clone()
				if !lf.refine(es, cx, x.Cond, i == 0) {
					continue
				}
				if !h.Dominates(succ) {
					ev2 := append([]iterEvent(nil), evs...)
					settle(ev2, es)
					out = append(out, iterPath{events: ev2, exits: true})
					continue
				}
				explore(succ, b, es, append([]iterEvent(nil), evs...), visits, false)
			}
		case *ssa.Return:
			settle(evs, s)
			out = append(out, iterPath{events: append([]iterEvent(nil), evs...), exits: true})
		default:
			for _, succ := range b.Succs {
				// leaving the loop: the header no longer dominates
				if !h.Dominates(succ) {
					out = append(out, iterPath{events: append([]iterEvent(nil), evs...), exits: true})
					continue
				}
				explore(succ, b, s.clone(), append([]iterEvent(nil), evs...), visits, false)
			}
		}
	}
	explore(h, nil, cx.in[h].clone(), []iterEvent{{adv: true, start: true, after: cx.in[h].cur}}, map[*ssa.BasicBlock]int{}, true)
	return out, complete
}

// sinkFactsFromPaths aggregates, per sink call, what holds on every round that contains it.
func sinkFactsFromPaths(paths []iterPath) map[*ssa.Call]*sinkPathFacts {
	facts := map[*ssa.Call]*sinkPathFacts{}
	for _, p := range paths {
		var sinks []*sinkInfo
		for i := range p.events {
			if p.events[i].sink != nil {
				sinks = append(sinks, p.events[i].sink)
			}
		}
		for i, si := range sinks {
			sf := facts[si.call]
			if sf == nil {
				sf = &sinkPathFacts{pairedAll: true, hasNextAll: true}
				facts[si.call] = sf
			}
			sf.paths++
			if !si.paired {
				sf.pairedAll = false
				sf.anyUnpaired = true
				sf.setUnpaired = sf.setUnpaired.union(si.set)
			}
			if i+1 >= len(sinks) {
				sf.hasNextAll = false
			}
		}
	}
	return facts
}

var _ = token.NoPos
