package main

import (
	"encoding/json"
	"fmt"
	"io/fs"
	"os"
	"os/exec"
	"path/filepath"
	"strings"
)

// Checker self-validation (thorough tier): seeded variants of the CURRENT tree. Each variant is one textual edit of a
// scratch copy (outside /repo and /verif); the analyser is run on the copy in a fresh process and must report the
// expected rule at the expected construct (or, for benign variants, must stay silent). A variant whose anchor text is
// no longer present is skipped, never a failure of the property. Nothing here executes xjs code.

type variant struct {
	Prop      string // property whose check is run
	Name      string
	File      string // path relative to the repository root
	Old, New  string // exactly one occurrence of Old is replaced by New (Nth occurrence if Nth > 0)
	Nth       int
	Rule      string // rule expected to fire ("" for benign variants)
	Construct string // substring expected in the failing construct
	Benign    bool   // the check must exit 0
	More      []edit // further edits of the same variant
	Patch     string // a unified diff (path relative to the verif directory) applied before the edits: a kept refactoring
}

type edit struct {
	File, Old, New string
	Nth            int
}

var variants []variant

func addVariants(v ...variant) { variants = append(variants, v...) }

type svFailure struct{ Name, Why string }
type svResult struct {
	Summary  map[string]any
	Failures []svFailure
}

func copyTree(src, dst string) error {
	return filepath.WalkDir(src, func(path string, d fs.DirEntry, err error) error {
		if err != nil {
			return err
		}
		rel, _ := filepath.Rel(src, path)
		if d.IsDir() {
			if d.Name() == ".git" || rel == "testdata" {
				return filepath.SkipDir
			}
			return os.MkdirAll(filepath.Join(dst, rel), 0o755)
		}
		if !d.Type().IsRegular() {
			return nil
		}
		b, err := os.ReadFile(path)
		if err != nil {
			return err
		}
		return os.WriteFile(filepath.Join(dst, rel), b, 0o644)
	})
}

func applyEdit(root string, e edit) (bool, error) {
	p := filepath.Join(root, e.File)
	b, err := os.ReadFile(p)
	if err != nil {
		return false, nil
	}
	s := string(b)
	n := e.Nth
	if n <= 0 {
		n = 1
	}
	idx := -1
	from := 0
	for i := 0; i < n; i++ {
		j := strings.Index(s[from:], e.Old)
		if j < 0 {
			return false, nil
		}
		idx = from + j
		from = idx + len(e.Old)
	}
	s = s[:idx] + e.New + s[idx+len(e.Old):]
	return true, os.WriteFile(p, []byte(s), 0o644)
}

type variantOutcome struct {
	Name     string `json:"variant"`
	Expect   string `json:"expect"`
	Outcome  string `json:"outcome"` // killed | silent-as-required | skipped | MISSED | FALSE-ALARM | INVALID
	Reported string `json:"reported,omitempty"`
}

func runVariant(v variant, repo string) variantOutcome {
	out := variantOutcome{Name: v.Name, Expect: v.Rule + " " + v.Construct}
	if v.Benign {
		out.Expect = "silent"
	}
	tmp, err := os.MkdirTemp("", "xjs-sv-")
	if err != nil {
		out.Outcome = "skipped"
		out.Reported = err.Error()
		return out
	}
	defer os.RemoveAll(tmp)
	scratch := filepath.Join(tmp, "repo")
	sverif := filepath.Join(tmp, "verif")
	os.MkdirAll(filepath.Join(sverif, "bin"), 0o755)
	if err := copyTree(repo, scratch); err != nil {
		out.Outcome = "skipped"
		out.Reported = err.Error()
		return out
	}
	if v.Patch != "" {
		exe, _ := os.Executable()
		pf := filepath.Join(filepath.Dir(filepath.Dir(exe)), v.Patch)
		ga := exec.Command("git", "apply", "--unsafe-paths", pf)
		ga.Dir = scratch
		if ob, err := ga.CombinedOutput(); err != nil {
			out.Outcome = "skipped"
			out.Reported = "the kept refactoring " + v.Patch + " does not apply to the current tree: " + strings.TrimSpace(string(ob))
			return out
		}
	}
	edits := append([]edit{{v.File, v.Old, v.New, v.Nth}}, v.More...)
	if v.File == "" {
		edits = v.More
	}
	for _, e := range edits {
		ok, err := applyEdit(scratch, e)
		if err != nil || !ok {
			out.Outcome = "skipped"
			out.Reported = "anchor text of the variant not present in the current tree: " + e.File
			return out
		}
	}
	exe, _ := os.Executable()
	// the scratch verif dir has no known-findings file unless we copy it: copy, so known findings stay known
	if b, err := os.ReadFile(filepath.Join(filepath.Dir(filepath.Dir(exe)), "known_findings.json")); err == nil {
		os.WriteFile(filepath.Join(sverif, "known_findings.json"), b, 0o644)
	}
	cmd := exec.Command(exe, "-property", v.Prop, "-tier", "quick", "-repo", scratch, "-verif", sverif)
	ob, _ := cmd.CombinedOutput()
	code := cmd.ProcessState.ExitCode()
	text := string(ob)
	if strings.Contains(text, "ANALYSER FAILURE") {
		out.Outcome = "INVALID"
		out.Reported = firstLineWith(text, "ANALYSER FAILURE")
		return out
	}
	if v.Benign {
		if code == 0 {
			out.Outcome = "silent-as-required"
		} else {
			out.Outcome = "FALSE-ALARM"
			out.Reported = failingLines(text)
		}
		return out
	}
	if code == 0 {
		out.Outcome = "MISSED"
		return out
	}
	// the report must name the expected rule and construct
	var rep struct {
		Failing []Obligation `json:"failing_obligations"`
	}
	rb, _ := os.ReadFile(filepath.Join(sverif, "reports", v.Prop+".quick.json"))
	json.Unmarshal(rb, &rep)
	for _, o := range rep.Failing {
		if o.Rule == v.Rule && strings.Contains(o.Construct, v.Construct) {
			out.Outcome = "killed"
			out.Reported = fmt.Sprintf("%s %s @ %s", o.Rule, o.Construct, o.Pos)
			return out
		}
	}
	out.Outcome = "MISSED"
	out.Reported = "fired, but not at the expected construct: " + failingLines(text)
	return out
}

func firstLineWith(text, sub string) string {
	for _, l := range strings.Split(text, "\n") {
		if strings.Contains(l, sub) {
			return l
		}
	}
	return ""
}

func failingLines(text string) string {
	var ls []string
	for _, l := range strings.Split(text, "\n") {
		t := strings.TrimSpace(l)
		if strings.HasPrefix(t, "VIOLATED") || strings.HasPrefix(t, "UNRESOLVED") {
			ls = append(ls, t)
		}
	}
	if len(ls) > 4 {
		ls = append(ls[:4], fmt.Sprintf("… (%d more)", len(ls)-4))
	}
	return strings.Join(ls, " | ")
}

func selfValidate(id, repo, verif string) svResult {
	res := svResult{Summary: map[string]any{}}
	var outs []variantOutcome
	counts := map[string]int{}
	for _, v := range variants {
		if v.Prop != id {
			continue
		}
		o := runVariant(v, repo)
		outs = append(outs, o)
		counts[o.Outcome]++
		switch o.Outcome {
		case "MISSED", "FALSE-ALARM", "INVALID":
			res.Failures = append(res.Failures, svFailure{Name: "variant " + v.Name, Why: fmt.Sprintf("self-validation: expected %s, outcome %s %s", o.Expect, o.Outcome, o.Reported)})
		}
	}
	res.Summary["variants"] = len(outs)
	res.Summary["outcomes"] = counts
	res.Summary["kill_matrix"] = outs
	res.Summary["note"] = "each variant is one edit of a scratch copy of the current tree; the analyser (not xjs) is run on it; skipped = anchor text no longer present"
	return res
}
