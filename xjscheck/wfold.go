package main

import (
	"go/constant"
	"go/token"
	"go/types"
	"strings"

	"golang.org/x/tools/go/ssa"
)

// Folding of the text writers' prologue. What a text-writing method of the CodeWriter puts in front of its text — the
// separating space, the omitted ';' — depends on a finite state only: the last byte of the output (or that it is
// empty), the first byte of the text, and a few bool fields of the writer. For one such state every test in the
// prologue is a constant, so the prologue folds to one straight path whose constant writes are read off, whatever
// helpers the maintainer has split it into. This is the same folding that credits the separator predicate per byte
// pair, extended from a pure predicate to the writer method itself; it is used when the shape-based recognition of
// the two mechanisms (fusion.go, semiguard.go) does not recognise the code.
//
// The output buffer is modelled by the one-byte string holding its last byte (empty when nothing was written): sound
// for code that asks the buffer only for its emptiness and its last byte; any other use stops the folding.

type wScenario struct {
	last      int  // last byte of the output, -1: nothing written yet
	next      byte // first byte of the text (ASCII)
	fields    map[*types.Var]constant.Value
	nonEmpty  bool // the text is non-empty (always true here)
	writeRune bool
	mapping   bool   // a source mapper is attached and a mapping has been requested for the next text
	pending   []rune // layout pending when the writer is called
}

type wval struct {
	k      constant.Value
	kind   string           // "", "recv", "fieldaddr", "buf" (the buffer's content string), "text", "nil", "zero"
	fld    *types.Var       // fieldaddr
	slice  bool             // nil slice
	list   []constant.Value // a list of constants (pending layout)
	isList bool
	arr    *wval // kind "arrelem": the local array the address points into
	idx    int
}

type wFolder struct {
	c       *Ctx
	w       *writerCfg
	fields  map[*types.Var]*wval
	buf     string // modelled content: "" or one byte
	emitted []byte
	sawText bool
	steps   int
	fail    string
	records []int // for every call that records a mapping: how many constant bytes had been written before it
}

func (wf *wFolder) stop(why string) bool {
	if wf.fail == "" {
		wf.fail = why
	}
	return false
}

// foldWriterPrologue folds writer method f (receiver, text) for one scenario and returns the constant bytes written
// before the text itself is emitted. ok is false when something was met that does not fold.
func (c *Ctx) foldWriterPrologue(f *ssa.Function, sc wScenario) ([]byte, bool, string) {
	w := c.writerCfg()
	if w == nil || f == nil || f.Blocks == nil || len(f.Params) != 2 {
		return nil, false, "not a text writer"
	}
	wf := &wFolder{c: c, w: w, fields: map[*types.Var]*wval{}}
	if sc.last >= 0 {
		wf.buf = string([]byte{byte(sc.last)})
	}
	for fld, v := range sc.fields {
		wf.fields[fld] = &wval{k: v}
	}
	if len(sc.pending) > 0 && w.pendings != nil {
		lv := &wval{isList: true}
		for _, r := range sc.pending {
			lv.list = append(lv.list, constant.MakeInt64(int64(r)))
		}
		wf.fields[w.pendings] = lv
	}
	if sc.mapping {
		if st := c.structOf("ast", "CodeWriter"); st != nil {
			for i := 0; i < st.NumFields(); i++ {
				fld := st.Field(i)
				if p, ok := fld.Type().Underlying().(*types.Pointer); ok && isSourcemapType(p) || isSourcemapType(fld.Type()) {
					wf.fields[fld] = &wval{kind: "obj"}
				}
			}
		}
	}
	var text *wval
	if isByte(f.Params[1].Type()) || func() bool {
		b, ok := f.Params[1].Type().Underlying().(*types.Basic)
		return ok && b.Kind() == types.Int32
	}() {
		text = &wval{k: constant.MakeInt64(int64(sc.next)), kind: "text"}
	} else {
		text = &wval{k: constant.MakeString(string([]byte{sc.next})), kind: "text"}
	}
	env := map[ssa.Value]*wval{f.Params[0]: {kind: "recv"}, f.Params[1]: text}
	if !wf.run(f, env, 0, nil) {
		return nil, false, wf.fail
	}
	if !wf.sawText {
		return nil, false, "the text is not emitted on the folded path"
	}
	c.lastFoldRecords = wf.records
	c.lastFoldFields = wf.fields
	return wf.emitted, true, ""
}

// foldLayoutMethod folds a writer method that takes no text (WriteNewline, WriteSpace, the flush …) for one state of
// the pending layout and the writer's fields; it returns the pending layout afterwards and the bytes written.
func (c *Ctx) foldLayoutMethod(f *ssa.Function, pending []rune, fields map[*types.Var]constant.Value, last int) (after []rune, emitted []byte, ok bool, why string) {
	w := c.writerCfg()
	if w == nil || f == nil || f.Blocks == nil || len(f.Params) != 1 {
		return nil, nil, false, "not a layout method"
	}
	wf := &wFolder{c: c, w: w, fields: map[*types.Var]*wval{}}
	if last >= 0 {
		wf.buf = string([]byte{byte(last)})
	}
	for fld, v := range fields {
		wf.fields[fld] = &wval{k: v}
	}
	lv := &wval{kind: "nil", slice: true}
	if len(pending) > 0 {
		lv = &wval{isList: true}
		for _, r := range pending {
			lv.list = append(lv.list, constant.MakeInt64(int64(r)))
		}
	}
	wf.fields[w.pendings] = lv
	env := map[ssa.Value]*wval{f.Params[0]: {kind: "recv"}}
	if !wf.run(f, env, 0, nil) {
		return nil, nil, false, wf.fail
	}
	fin := wf.fields[w.pendings]
	if fin == nil || !(fin.slice || fin.isList) {
		return nil, nil, false, "the pending layout does not fold"
	}
	for _, k := range fin.list {
		n, _ := constant.Int64Val(constant.ToInt(k))
		after = append(after, rune(n))
	}
	return after, wf.emitted, true, ""
}

func (wf *wFolder) get(env map[ssa.Value]*wval, v ssa.Value) *wval {
	if k, ok := v.(*ssa.Const); ok {
		if k.Value == nil {
			if _, isSlice := k.Type().Underlying().(*types.Slice); isSlice {
				return &wval{kind: "nil", slice: true}
			}
			if b, isB := k.Type().Underlying().(*types.Basic); isB && b.Info()&types.IsString != 0 {
				return &wval{k: constant.MakeString("")}
			}
			return &wval{kind: "nil"}
		}
		return &wval{k: k.Value}
	}
	return env[v]
}

func zeroWval(t types.Type) *wval {
	switch u := t.Underlying().(type) {
	case *types.Basic:
		return &wval{k: zeroOf(u)}
	case *types.Slice:
		return &wval{kind: "nil", slice: true}
	case *types.Pointer, *types.Map, *types.Interface, *types.Signature:
		return &wval{kind: "nil"}
	}
	return &wval{kind: "zero"}
}

// run folds one function; ret receives the returned value (nil for none). It returns false when folding stopped.
func (wf *wFolder) run(f *ssa.Function, env map[ssa.Value]*wval, depth int, ret **wval) bool {
	if depth > 6 {
		return wf.stop("helpers nested too deeply")
	}
	blk := f.Blocks[0]
	var prev *ssa.BasicBlock
	for {
		var next *ssa.BasicBlock
		for _, in := range blk.Instrs {
			wf.steps++
			if wf.steps > 20000 {
				return wf.stop("folding budget exhausted")
			}
			if wf.sawText {
				return true // everything in front of the text has been seen
			}
			switch x := in.(type) {
			case *ssa.DebugRef:
			case *ssa.Phi:
				for i, p := range blk.Preds {
					if p == prev {
						v := wf.get(env, x.Edges[i])
						if v == nil {
							return wf.stop("a merged value does not fold")
						}
						env[x] = v
					}
				}
			case *ssa.FieldAddr:
				base := wf.get(env, x.X)
				if base != nil && base.kind == "obj" {
					env[x] = &wval{kind: "objfield"} // a field of the mapping request / the mapper: read as its zero value
					continue
				}
				if base == nil || base.kind != "recv" {
					return wf.stop("field of something other than the writer")
				}
				env[x] = &wval{kind: "fieldaddr", fld: fieldOfAddr(x)}
			case *ssa.UnOp:
				switch x.Op {
				case token.MUL:
					a := wf.get(env, x.X)
					if a != nil && a.kind == "objfield" {
						env[x] = zeroWval(x.Type())
						continue
					}
					if a != nil && a.kind == "elem" {
						env[x] = &wval{k: a.k}
						continue
					}
					if a == nil || a.kind != "fieldaddr" {
						return wf.stop("load through something other than a writer field")
					}
					if v, ok := wf.fields[a.fld]; ok {
						env[x] = v
					} else {
						env[x] = zeroWval(a.fld.Type())
					}
				case token.NOT:
					a := wf.get(env, x.X)
					if a == nil || a.k == nil || a.k.Kind() != constant.Bool {
						return wf.stop("negation of a value that does not fold")
					}
					env[x] = &wval{k: constant.MakeBool(!constant.BoolVal(a.k))}
				default:
					return wf.stop("unary operation")
				}
			case *ssa.Store:
				a := wf.get(env, x.Addr)
				v := wf.get(env, x.Val)
				if a != nil && a.kind == "objfield" {
					continue
				}
				if a != nil && a.kind == "arrelem" && v != nil && v.k != nil {
					a.arr.list[a.idx] = v.k // filling a slice literal
					continue
				}
				if a == nil || a.kind != "fieldaddr" || v == nil {
					return wf.stop("store that is not into a writer field")
				}
				wf.fields[a.fld] = v
			case *ssa.BinOp:
				a, b := wf.get(env, x.X), wf.get(env, x.Y)
				if a == nil || b == nil {
					return wf.stop("operand does not fold")
				}
				// comparisons with nil
				if (a.kind == "nil" || b.kind == "nil") && (x.Op == token.EQL || x.Op == token.NEQ) && (a.kind == "nil" || a.kind == "obj") && (b.kind == "nil" || b.kind == "obj") {
					eq := a.kind == "nil" && b.kind == "nil"
					env[x] = &wval{k: constant.MakeBool(eq == (x.Op == token.EQL))}
					continue
				}
				if a.k == nil || b.k == nil {
					return wf.stop("operand does not fold")
				}
				ak, bk := a.k, b.k
				if ak.Kind() == constant.Int || bk.Kind() == constant.Int {
					ak, bk = constant.ToInt(ak), constant.ToInt(bk)
				}
				switch x.Op {
				case token.EQL, token.NEQ, token.LSS, token.LEQ, token.GTR, token.GEQ:
					if ak.Kind() != bk.Kind() {
						return wf.stop("comparison of different kinds")
					}
					env[x] = &wval{k: constant.MakeBool(constant.Compare(ak, x.Op, bk))}
				case token.ADD, token.SUB:
					env[x] = &wval{k: constant.BinaryOp(ak, x.Op, bk)}
				default:
					return wf.stop("binary operation")
				}
			case *ssa.Convert:
				a := wf.get(env, x.X)
				if a == nil || a.k == nil {
					return wf.stop("conversion of a value that does not fold")
				}
				if dst, ok := x.Type().Underlying().(*types.Basic); ok && dst.Info()&types.IsString != 0 && a.k.Kind() == constant.Int {
					n, _ := constant.Int64Val(a.k)
					if n < 0 || n >= 0x80 {
						return wf.stop("conversion of a non-ASCII value to a string")
					}
					env[x] = &wval{k: constant.MakeString(string(rune(n))), kind: a.kind}
				} else {
					env[x] = &wval{k: a.k, kind: a.kind}
				}
			case *ssa.ChangeType:
				a := wf.get(env, x.X)
				if a == nil {
					return wf.stop("value does not fold")
				}
				env[x] = a
			case *ssa.Index, *ssa.Lookup:
				var bx, ix ssa.Value
				if i, ok := x.(*ssa.Index); ok {
					bx, ix = i.X, i.Index
				} else {
					l := x.(*ssa.Lookup)
					bx, ix = l.X, l.Index
				}
				s, i := wf.get(env, bx), wf.get(env, ix)
				if s == nil || i == nil || s.k == nil || i.k == nil || s.k.Kind() != constant.String {
					return wf.stop("index does not fold")
				}
				str := constant.StringVal(s.k)
				n, _ := constant.Int64Val(constant.ToInt(i.k))
				if s.kind == "buf" || s.kind == "text" {
					// only the modelled byte may be looked at: the last byte of the buffer / the first byte of the text
					if !(n == int64(len(str))-1 && s.kind == "buf") && !(n == 0 && s.kind == "text") {
						return wf.stop("the code looks at more than the last byte of the output / the first byte of the text")
					}
				}
				if n < 0 || n >= int64(len(str)) {
					return wf.stop("index out of range on the folded path")
				}
				env[x.(ssa.Value)] = &wval{k: constant.MakeInt64(int64(str[n]))}
			case *ssa.Slice:
				// []T{} — an empty list built from a fresh array
				if b := wf.get(env, x.X); b != nil && b.kind == "zero" && x.Low == nil {
					env[x] = &wval{kind: "nil", slice: true}
					continue
				}
				if b := wf.get(env, x.X); b != nil && b.kind == "arr" && x.Low == nil && x.High == nil {
					if len(b.list) == 0 {
						env[x] = &wval{kind: "nil", slice: true}
					} else {
						env[x] = &wval{isList: true, list: append([]constant.Value(nil), b.list...)}
					}
					continue
				}
				return wf.stop("slicing")
			case *ssa.Call:
				if !wf.call(f, env, x, depth) {
					return false
				}
			case *ssa.If:
				cv := wf.get(env, x.Cond)
				if cv == nil || cv.k == nil || cv.k.Kind() != constant.Bool {
					return wf.stop("a branch condition does not fold for this state (" + wf.c.pos(x.Cond.Pos()) + ")")
				}
				if constant.BoolVal(cv.k) {
					next = blk.Succs[0]
				} else {
					next = blk.Succs[1]
				}
			case *ssa.Jump:
				next = blk.Succs[0]
			case *ssa.Return:
				if ret != nil && len(x.Results) == 1 {
					v := wf.get(env, x.Results[0])
					if v == nil {
						return wf.stop("returned value does not fold")
					}
					*ret = v
				}
				return true
			case *ssa.RunDefers, *ssa.Defer:
				return wf.stop("deferred call")
			case *ssa.IndexAddr:
				if lv := wf.get(env, x.X); lv != nil && lv.isList {
					iv := wf.get(env, x.Index)
					if iv == nil || iv.k == nil {
						return wf.stop("index into the pending layout does not fold")
					}
					n, _ := constant.Int64Val(constant.ToInt(iv.k))
					if n < 0 || n >= int64(len(lv.list)) {
						return wf.stop("index out of range on the folded path")
					}
					env[x] = &wval{kind: "elem", k: lv.list[n]}
					continue
				}
				if lv := wf.get(env, x.X); lv != nil && lv.kind == "arr" {
					iv := wf.get(env, x.Index)
					if iv == nil || iv.k == nil {
						return wf.stop("index into a literal does not fold")
					}
					n, _ := constant.Int64Val(constant.ToInt(iv.k))
					if n < 0 || n >= int64(len(lv.list)) {
						return wf.stop("index out of range on the folded path")
					}
					env[x] = &wval{kind: "arrelem", arr: lv, idx: int(n)}
					continue
				}
				env[x] = &wval{kind: "zero"}
			case *ssa.Alloc:
				// the backing array of a slice literal of bytes / runes
				if at, ok := deref(x.Type()).Underlying().(*types.Array); ok && at.Len() <= 16 {
					if b, ok := at.Elem().Underlying().(*types.Basic); ok && b.Info()&types.IsInteger != 0 {
						av := &wval{kind: "arr"}
						for i := int64(0); i < at.Len(); i++ {
							av.list = append(av.list, constant.MakeInt64(0))
						}
						env[x] = av
						continue
					}
				}
				env[x] = &wval{kind: "zero"}
			case *ssa.MakeInterface, *ssa.MakeSlice:
				// bookkeeping for the source mapper (a mapping request): its value is never branched on here
				env[x.(ssa.Value)] = &wval{kind: "zero"}
			default:
				return wf.stop("instruction form not folded")
			}
		}
		if next == nil {
			return wf.stop("block without a successor")
		}
		prev, blk = blk, next
	}
}

func (wf *wFolder) call(f *ssa.Function, env map[ssa.Value]*wval, x *ssa.Call, depth int) bool {
	if b, ok := x.Call.Value.(*ssa.Builtin); ok {
		switch b.Name() {
		case "len":
			a := wf.get(env, x.Call.Args[0])
			switch {
			case a == nil:
				return wf.stop("len of a value that does not fold")
			case a.slice:
				env[x] = &wval{k: constant.MakeInt64(0)}
			case a.isList:
				env[x] = &wval{k: constant.MakeInt64(int64(len(a.list)))}
			case a.k != nil && a.k.Kind() == constant.String:
				// the modelled strings stand for "empty" / "non-empty": only comparisons with 0 are meaningful, which holds
				// for lengths 0 and 1 alike
				env[x] = &wval{k: constant.MakeInt64(int64(len(constant.StringVal(a.k))))}
			default:
				return wf.stop("len of an unsupported value")
			}
			return true
		}
		if b.Name() == "append" && len(x.Call.Args) == 2 {
			a, e := wf.get(env, x.Call.Args[0]), wf.get(env, x.Call.Args[1])
			if a == nil || e == nil || !(a.slice || a.isList) || !(e.slice || e.isList) {
				return wf.stop("append of values that do not fold")
			}
			nv := &wval{isList: true, list: append(append([]constant.Value(nil), a.list...), e.list...)}
			if len(nv.list) == 0 {
				nv = &wval{kind: "nil", slice: true}
			}
			env[x] = nv
			return true
		}
		return wf.stop("builtin " + b.Name())
	}
	if x.Call.IsInvoke() {
		return wf.stop("dynamic call")
	}
	cal := x.Call.StaticCallee()
	if cal == nil {
		return wf.stop("call through a function value")
	}
	// the output buffer
	if pkgPathOf(cal) == "strings" && cal.Signature.Recv() != nil {
		recv := wf.get(env, x.Call.Args[0])
		if recv == nil || recv.kind != "fieldaddr" || recv.fld != wf.w.buf {
			return wf.stop("a strings.Builder other than the output buffer")
		}
		switch cal.Name() {
		case "String":
			env[x] = &wval{k: constant.MakeString(wf.buf), kind: "buf"}
		case "Len":
			env[x] = &wval{k: constant.MakeInt64(int64(len(wf.buf)))}
		case "WriteByte", "WriteRune", "WriteString":
			a := wf.get(env, x.Call.Args[1])
			if a == nil || a.k == nil {
				return wf.stop("write of a value that does not fold")
			}
			if a.kind == "text" {
				wf.sawText = true
				return true
			}
			var bs []byte
			if a.k.Kind() == constant.String {
				bs = []byte(constant.StringVal(a.k))
			} else {
				n, _ := constant.Int64Val(constant.ToInt(a.k))
				if n < 0 || n >= 0x80 {
					return wf.stop("write of a non-ASCII constant")
				}
				bs = []byte{byte(n)}
			}
			wf.emitted = append(wf.emitted, bs...)
			if len(bs) > 0 {
				wf.buf = string(bs[len(bs)-1:])
			}
		default:
			return wf.stop("buffer method " + cal.Name())
		}
		return true
	}
	if pkgPathOf(cal) == "strings" {
		get := func(v ssa.Value) (constant.Value, bool) {
			a := wf.get(env, v)
			if a == nil || a.k == nil {
				return nil, false
			}
			return a.k, true
		}
		switch cal.Name() {
		case "HasSuffix":
			s, ok1 := get(x.Call.Args[0])
			t, ok2 := get(x.Call.Args[1])
			if !ok1 || !ok2 || s.Kind() != constant.String || t.Kind() != constant.String || len(constant.StringVal(t)) != 1 {
				return wf.stop("HasSuffix with more than one byte")
			}
			env[x] = &wval{k: constant.MakeBool(strings.HasSuffix(constant.StringVal(s), constant.StringVal(t)))}
			return true
		}
		if v, ok := foldStdCall(x, get); ok {
			// only calls that look at a constant table (IndexByte(table, next) …), never at the modelled strings
			for _, a := range x.Call.Args {
				if av := wf.get(env, a); av != nil && (av.kind == "buf") {
					return wf.stop("a strings function applied to the output buffer")
				}
			}
			env[x] = &wval{k: v}
			return true
		}
		return wf.stop("strings." + cal.Name())
	}
	if !isLibPath(pkgPathOf(cal)) || cal.Blocks == nil {
		return wf.stop("call out of the library: " + fnName(cal))
	}
	// calls into package sourcemap (recording a mapping, advancing the mapper) do not write the output
	if pkgPathOf(cal) == modPath+"/sourcemap" {
		if strings.HasPrefix(cal.Name(), "Add") {
			wf.records = append(wf.records, len(wf.emitted))
		}
		env[x] = &wval{kind: "zero"}
		return true
	}
	// a pure byte predicate of the package: folded
	if cal.Signature.Recv() == nil {
		var args []constant.Value
		okArgs := true
		for _, a := range x.Call.Args {
			av := wf.get(env, a)
			if av == nil || av.k == nil {
				okArgs = false
				break
			}
			args = append(args, constant.ToInt(av.k))
		}
		if okArgs {
			if v, ok := foldFn(cal, args); ok {
				env[x] = &wval{k: v}
				return true
			}
		}
	}
	// a helper of the writer: folded in place with the same state
	sub := map[ssa.Value]*wval{}
	for i, p := range cal.Params {
		if i < len(x.Call.Args) {
			v := wf.get(env, x.Call.Args[i])
			if v == nil {
				return wf.stop("argument does not fold")
			}
			sub[p] = v
		}
	}
	var rv *wval
	if !wf.run(cal, sub, depth+1, &rv) {
		return false
	}
	if rv != nil {
		env[x] = rv
	} else if cal.Signature.Results().Len() > 0 && !wf.sawText {
		return wf.stop("helper result does not fold")
	}
	return true
}

// writerSeparates: in output mode `mode`, does text writer `via` put a separating byte in front of a text starting
// with next when the output ends in last? (folded; ok=false when the prologue does not fold)
func (c *Ctx) writerSeparates(via string, mode string, last, next byte) (bool, bool) {
	f := c.fn("(*ast.CodeWriter)." + via)
	w := c.writerCfg()
	if f == nil || w == nil {
		return false, false
	}
	pretty := c.fieldByName("ast", "CodeWriter", "PrettyPrint")
	semis := c.fieldByName("ast", "CodeWriter", "WriteSemicolons")
	flds := map[*types.Var]constant.Value{}
	if pretty != nil {
		flds[pretty] = constant.MakeBool(strings.HasPrefix(mode, "pretty"))
	}
	if semis != nil {
		flds[semis] = constant.MakeBool(mode != "pretty-nosemi")
	}
	em, ok, _ := c.foldWriterPrologue(f, wScenario{last: int(last), next: next, fields: flds})
	if !ok {
		return false, false
	}
	for _, b := range em {
		if b == ' ' || b == '\n' || b == '\t' || b == ';' {
			return true, true
		}
	}
	return false, true
}

// writerClosesStatement: with the omitted-semicolon flag set (pretty printing without semicolons), does the text
// writer put the ';' in front of a text starting with next?
func (c *Ctx) writerClosesStatement(via string, flag *types.Var, next byte) (bool, bool) {
	f := c.fn("(*ast.CodeWriter)." + via)
	if f == nil || flag == nil {
		return false, false
	}
	pretty := c.fieldByName("ast", "CodeWriter", "PrettyPrint")
	semis := c.fieldByName("ast", "CodeWriter", "WriteSemicolons")
	mk := func() map[*types.Var]constant.Value {
		flds := map[*types.Var]constant.Value{flag: constant.MakeBool(true)}
		if pretty != nil {
			flds[pretty] = constant.MakeBool(true)
		}
		if semis != nil {
			flds[semis] = constant.MakeBool(false)
		}
		return flds
	}
	cleared := func() bool {
		v := c.lastFoldFields[flag]
		return v != nil && v.k != nil && v.k.Kind() == constant.Bool && !constant.BoolVal(v.k)
	}
	// (1) with a line break pending (the usual state between two statements): the pending layout comes out first, the
	// ';' directly in front of the text, and the flag is used up
	em, ok, _ := c.foldWriterPrologue(f, wScenario{last: 'x', next: next, fields: mk(), pending: []rune{'\n'}})
	if !ok {
		return false, false
	}
	if len(em) < 2 || em[len(em)-1] != ';' || em[0] != '\n' || !cleared() {
		return false, true
	}
	// (2) a text that does not continue the statement gets no ';' — and uses the flag up all the same, so that it is
	// not applied to an unrelated later token
	em, ok, _ = c.foldWriterPrologue(f, wScenario{last: 'x', next: 'a', fields: mk(), pending: []rune{'\n'}})
	if !ok {
		return false, false
	}
	for _, b := range em {
		if b == ';' {
			return false, true
		}
	}
	if !cleared() {
		return false, true
	}
	return true, true
}

func (c *Ctx) debugWfold() {
	sg := c.semiGuard()
	for _, via := range []string{"WriteString", "WriteRune"} {
		for _, pr := range [][2]byte{{'-', '-'}, {'+', '-'}, {'+', '+'}, {'a', 'b'}, {'-', '+'}} {
			for _, mode := range []string{"compact", "pretty", "pretty-nosemi"} {
				sep, ok := c.writerSeparates(via, mode, pr[0], pr[1])
				println(via, mode, string(pr[0]), string(pr[1]), "separates=", sep, "ok=", ok)
			}
		}
		for _, n := range []byte{'(', '[', '`', '+', '-', 'a', '{'} {
			cl, ok := c.writerClosesStatement(via, sg.flag, n)
			println(via, "closes before", string(n), cl, "ok=", ok)
		}
		f := c.fn("(*ast.CodeWriter)." + via)
		_, _, why := c.foldWriterPrologue(f, wScenario{last: '-', next: '-', fields: nil})
		println("why:", why)
	}
}
