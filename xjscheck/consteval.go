package main

import (
	"go/ast"
	"go/constant"
	"go/token"
	"go/types"

	"golang.org/x/tools/go/ssa"
)

// Folding of table-building initialisers. A package-level table is sometimes not written as one literal but
// assembled from literal data by a small function run at initialisation:
//
//	var precedences = build()
//	func build() map[K]V { t := make(map[K]V); for _, lv := range levels { for _, k := range lv.keys { t[k] = lv.val } }; return t }
//
// The value of such a table is a constant of the program. It is folded here the way a compiler folds a constant
// expression: literals, constants, fields and elements of literal aggregates, `range` over a literal list unrolled
// element by element, map stores with constant keys, and calls of parameterless functions of the same package whose
// bodies consist of these forms. Anything else (a parameter, a branch on a non-constant, a call out of the package,
// a loop that is not a range over literal data) stops the folding and the table counts as not read.

type cval struct {
	k     constant.Value
	list  []*cval
	flds  map[string]*cval
	mp    map[string]*cval
	mkeys []constant.Value
	isMap bool
}

type constEval struct {
	c     *Ctx
	pkg   string
	info  *types.Info
	steps int
	depth int
	fail  string
}

func (ce *constEval) stop(why string) (*cval, bool) {
	if ce.fail == "" {
		ce.fail = why
	}
	return nil, false
}

// packageVarInit finds the initialiser expression of a package-level variable.
func (ce *constEval) packageVarInit(obj types.Object) ast.Expr {
	for _, f := range ce.c.Pkgs[ce.pkg].Syntax {
		for _, d := range f.Decls {
			gd, ok := d.(*ast.GenDecl)
			if !ok || gd.Tok != token.VAR {
				continue
			}
			for _, sp := range gd.Specs {
				vs := sp.(*ast.ValueSpec)
				for i, nm := range vs.Names {
					if ce.info.Defs[nm] == obj && i < len(vs.Values) {
						return vs.Values[i]
					}
				}
			}
		}
	}
	return nil
}

func (ce *constEval) expr(env map[types.Object]*cval, e ast.Expr) (*cval, bool) {
	ce.steps++
	if ce.steps > 20000 {
		return ce.stop("folding budget exhausted")
	}
	e = ast.Unparen(e)
	if tv, ok := ce.info.Types[e]; ok && tv.Value != nil {
		return &cval{k: tv.Value}, true
	}
	switch x := e.(type) {
	case *ast.Ident:
		obj := ce.info.ObjectOf(x)
		if v, ok := env[obj]; ok {
			return v, true
		}
		if gv, ok := obj.(*types.Var); ok && gv.Parent() == ce.c.Pkgs[ce.pkg].Types.Scope() {
			// a package-level variable: its initialiser, provided nothing writes it afterwards
			ce.c.buildSSA()
			g, _ := ce.c.SSA[ce.pkg].Members[gv.Name()].(*ssa.Global)
			if g == nil || !globalWrittenOnlyInInit(g) {
				return ce.stop("package-level variable " + gv.Name() + " is written outside its initialiser")
			}
			init := ce.packageVarInit(obj)
			if init == nil {
				return ce.stop("package-level variable " + gv.Name() + " has no initialiser")
			}
			if ce.depth > 4 {
				return ce.stop("initialisers nested too deeply")
			}
			ce.depth++
			v, ok := ce.expr(map[types.Object]*cval{}, init)
			ce.depth--
			return v, ok
		}
		return ce.stop("identifier " + x.Name + " is not a constant, a folded local or a package-level literal")
	case *ast.CompositeLit:
		tv, ok := ce.info.Types[x]
		if !ok {
			return ce.stop("untyped composite literal")
		}
		switch u := tv.Type.Underlying().(type) {
		case *types.Slice, *types.Array:
			out := &cval{list: []*cval{}}
			for _, el := range x.Elts {
				if _, keyed := el.(*ast.KeyValueExpr); keyed {
					return ce.stop("keyed list literal")
				}
				v, ok := ce.elem(env, el)
				if !ok {
					return nil, false
				}
				out.list = append(out.list, v)
			}
			return out, true
		case *types.Struct:
			out := &cval{flds: map[string]*cval{}}
			for i, el := range x.Elts {
				if kv, keyed := el.(*ast.KeyValueExpr); keyed {
					id, ok := kv.Key.(*ast.Ident)
					if !ok {
						return ce.stop("struct literal key")
					}
					v, ok := ce.elem(env, kv.Value)
					if !ok {
						return nil, false
					}
					out.flds[id.Name] = v
					continue
				}
				if i >= u.NumFields() {
					return ce.stop("struct literal with too many values")
				}
				v, ok := ce.elem(env, el)
				if !ok {
					return nil, false
				}
				out.flds[u.Field(i).Name()] = v
			}
			return out, true
		case *types.Map:
			out := &cval{isMap: true, mp: map[string]*cval{}}
			for _, el := range x.Elts {
				kv, ok := el.(*ast.KeyValueExpr)
				if !ok {
					return ce.stop("map literal entry")
				}
				k, ok := ce.expr(env, kv.Key)
				if !ok || k.k == nil {
					return ce.stop("map literal with a non-constant key")
				}
				v, ok := ce.elem(env, kv.Value)
				if !ok {
					return nil, false
				}
				out.put(k.k, v)
			}
			return out, true
		}
		return ce.stop("composite literal of an unsupported type")
	case *ast.SelectorExpr:
		base, ok := ce.expr(env, x.X)
		if !ok {
			return nil, false
		}
		if base.flds == nil {
			return ce.stop("field of a non-struct value")
		}
		if v := base.flds[x.Sel.Name]; v != nil {
			return v, true
		}
		// a field left out of the literal: its zero value
		if tv, ok := ce.info.Types[x]; ok {
			return zeroCval(tv.Type), true
		}
		return ce.stop("unknown field")
	case *ast.IndexExpr:
		base, ok := ce.expr(env, x.X)
		if !ok {
			return nil, false
		}
		idx, ok := ce.expr(env, x.Index)
		if !ok || idx.k == nil {
			return ce.stop("non-constant index")
		}
		if base.isMap {
			if v := base.mp[keyString(idx.k)]; v != nil {
				return v, true
			}
			if tv, ok := ce.info.Types[x]; ok {
				return zeroCval(tv.Type), true
			}
		}
		if base.list != nil {
			if n, ok := constant.Int64Val(constant.ToInt(idx.k)); ok && n >= 0 && n < int64(len(base.list)) {
				return base.list[n], true
			}
		}
		return ce.stop("index out of the folded data")
	case *ast.CallExpr:
		if id, ok := ast.Unparen(x.Fun).(*ast.Ident); ok {
			if b, ok := ce.info.ObjectOf(id).(*types.Builtin); ok {
				switch b.Name() {
				case "make":
					if tv, ok := ce.info.Types[x]; ok {
						if _, isMap := tv.Type.Underlying().(*types.Map); isMap {
							return &cval{isMap: true, mp: map[string]*cval{}}, true
						}
					}
					return ce.stop("make of a non-map")
				case "len":
					if len(x.Args) == 1 {
						if v, ok := ce.expr(env, x.Args[0]); ok {
							switch {
							case v.list != nil:
								return &cval{k: constant.MakeInt64(int64(len(v.list)))}, true
							case v.isMap:
								return &cval{k: constant.MakeInt64(int64(len(v.mp)))}, true
							}
						}
					}
				}
				return ce.stop("builtin " + b.Name())
			}
		}
		f, ok := calleeFunc(ce.info, x)
		if !ok || f.Pkg() != ce.c.Pkgs[ce.pkg].Types || len(x.Args) != 0 {
			return ce.stop("call that is not a parameterless function of the same package")
		}
		fd := ce.c.declIdx[f]
		if fd == nil || fd.Body == nil || fd.Recv != nil || ce.depth > 4 {
			return ce.stop("callee body not available")
		}
		ce.depth++
		ret, ok := ce.block(map[types.Object]*cval{}, fd.Body.List)
		ce.depth--
		if !ok {
			return nil, false
		}
		if ret == nil {
			return ce.stop("function ends without returning a value")
		}
		return ret, true
	}
	return ce.stop("expression form not folded")
}

// elem evaluates an element of a composite literal; an elided inner literal type ({…} inside []T{…}) is a CompositeLit
// whose type the checker recorded.
func (ce *constEval) elem(env map[types.Object]*cval, e ast.Expr) (*cval, bool) {
	return ce.expr(env, e)
}

func keyString(k constant.Value) string {
	if k.Kind() != constant.String {
		k = constant.ToInt(k)
	}
	return k.ExactString()
}

func (v *cval) put(k constant.Value, val *cval) {
	ks := keyString(k)
	if _, dup := v.mp[ks]; !dup {
		v.mkeys = append(v.mkeys, k)
	}
	v.mp[ks] = val
}

func zeroCval(t types.Type) *cval {
	switch u := t.Underlying().(type) {
	case *types.Basic:
		return &cval{k: zeroOf(u)}
	case *types.Slice:
		return &cval{list: []*cval{}}
	case *types.Map:
		return &cval{isMap: true, mp: map[string]*cval{}}
	case *types.Struct:
		return &cval{flds: map[string]*cval{}}
	}
	return &cval{}
}

// block folds a statement list; it returns the returned value when a return statement was reached.
func (ce *constEval) block(env map[types.Object]*cval, list []ast.Stmt) (*cval, bool) {
	for _, st := range list {
		ce.steps++
		if ce.steps > 20000 {
			return ce.stop("folding budget exhausted")
		}
		switch s := st.(type) {
		case *ast.ReturnStmt:
			if len(s.Results) != 1 {
				return ce.stop("return of other than one value")
			}
			return ce.expr(env, s.Results[0])
		case *ast.DeclStmt:
			gd, ok := s.Decl.(*ast.GenDecl)
			if !ok || gd.Tok != token.VAR {
				if ok && gd.Tok == token.CONST {
					continue
				}
				return ce.stop("local declaration")
			}
			for _, sp := range gd.Specs {
				vs := sp.(*ast.ValueSpec)
				for i, nm := range vs.Names {
					if i < len(vs.Values) {
						v, ok := ce.expr(env, vs.Values[i])
						if !ok {
							return nil, false
						}
						env[ce.info.Defs[nm]] = v
					} else {
						env[ce.info.Defs[nm]] = zeroCval(ce.info.Defs[nm].Type())
					}
				}
			}
		case *ast.AssignStmt:
			if len(s.Lhs) != 1 || len(s.Rhs) != 1 || (s.Tok != token.ASSIGN && s.Tok != token.DEFINE) {
				return ce.stop("assignment form")
			}
			v, ok := ce.expr(env, s.Rhs[0])
			if !ok {
				return nil, false
			}
			switch l := ast.Unparen(s.Lhs[0]).(type) {
			case *ast.Ident:
				if l.Name != "_" {
					env[ce.info.ObjectOf(l)] = v
				}
			case *ast.IndexExpr:
				base, ok := ce.expr(env, l.X)
				if !ok {
					return nil, false
				}
				if !base.isMap {
					return ce.stop("element assignment to a non-map")
				}
				if id, isId := ast.Unparen(l.X).(*ast.Ident); !isId || env[ce.info.ObjectOf(id)] != base {
					return ce.stop("store into a map that is not a local of the folded function")
				}
				k, ok := ce.expr(env, l.Index)
				if !ok || k.k == nil {
					return ce.stop("map store with a non-constant key")
				}
				base.put(k.k, v)
			default:
				return ce.stop("assignment target")
			}
		case *ast.RangeStmt:
			if s.Tok != token.DEFINE && s.Key != nil {
				return ce.stop("range assigning to existing variables")
			}
			src, ok := ce.expr(env, s.X)
			if !ok {
				return nil, false
			}
			if src.list == nil {
				return ce.stop("range over something that is not a folded list")
			}
			for i, el := range src.list {
				if id, ok := s.Key.(*ast.Ident); ok && id.Name != "_" {
					env[ce.info.ObjectOf(id)] = &cval{k: constant.MakeInt64(int64(i))}
				}
				if s.Value != nil {
					if id, ok := s.Value.(*ast.Ident); ok && id.Name != "_" {
						env[ce.info.ObjectOf(id)] = el
					}
				}
				ret, ok := ce.block(env, s.Body.List)
				if !ok {
					return nil, false
				}
				if ret != nil {
					return ret, true
				}
			}
		case *ast.BlockStmt:
			ret, ok := ce.block(env, s.List)
			if !ok || ret != nil {
				return ret, ok
			}
		case *ast.EmptyStmt:
		default:
			return ce.stop("statement form not folded")
		}
	}
	return nil, true
}

// foldTable folds the initialiser of a package-level table to a map from integer keys to integer values.
func (c *Ctx) foldIntTable(pkg string, init ast.Expr) (map[int64]int64, string) {
	ce := &constEval{c: c, pkg: pkg, info: c.Pkgs[pkg].TypesInfo}
	v, ok := ce.expr(map[types.Object]*cval{}, init)
	if !ok || v == nil || !v.isMap {
		why := ce.fail
		if why == "" {
			why = "the initialiser does not fold to a map"
		}
		return nil, why
	}
	out := map[int64]int64{}
	for _, k := range v.mkeys {
		kv, ok1 := constant.Int64Val(constant.ToInt(k))
		val := v.mp[keyString(k)]
		if !ok1 || val == nil || val.k == nil {
			return nil, "an entry does not fold to a constant"
		}
		n, ok2 := constant.Int64Val(constant.ToInt(val.k))
		if !ok2 {
			return nil, "an entry does not fold to an integer"
		}
		out[kv] = n
	}
	return out, ""
}
