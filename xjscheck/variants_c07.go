package main

func init() {
	lx := "lexer/lexer.go"
	a := "ast/ast.go"
	pf := "parser/parser_functions.go"
	addVariants(
		variant{Prop: "C07", Name: "escaped-backslash-in-backticks-halved", File: lx, Old: "\t\t\t\tresult.WriteString(\"\\\\\\\\\")", New: "\t\t\t\tresult.WriteByte('\\\\')", Rule: "R7.8", Construct: "rounds"},
		variant{Prop: "C07", Name: "escaped-quote-loses-backslash", File: lx, Old: "\t\t\t\tcase 'n', 't', 'r', '\\\\', '\"', '\\'':\n\t\t\t\t\tresult.WriteByte('\\\\')\n\t\t\t\t\tresult.WriteByte(l.CurrentChar)", New: "\t\t\t\tcase 'n', 't', 'r', '\\\\':\n\t\t\t\t\tresult.WriteByte('\\\\')\n\t\t\t\t\tresult.WriteByte(l.CurrentChar)\n\t\t\t\tcase '\"', '\\'':\n\t\t\t\t\tresult.WriteByte(l.CurrentChar)", Rule: "R7.1", Construct: "readString"},
		variant{Prop: "C07", Name: "raw-double-quote-unescaped-again", File: lx, Old: "\t\tif l.CurrentChar == '\"' {\n\t\t\t// strings are always printed between double quotes: a double quote\n\t\t\t// inside a single-quoted string has to be escaped in the output\n\t\t\tresult.WriteByte('\\\\')\n\t\t\tresult.WriteByte('\"')\n\t\t\tcontinue\n\t\t}\n", New: "", Rule: "R7.1", Construct: "verbatim sink #1 after \"raw\""},
		variant{Prop: "C07", Name: "backtick-printed-unescaped-again", File: a, Old: "cw.WriteString(strings.ReplaceAll(sl.Value, \"`\", \"\\\\`\"))", New: "_ = strings.ReplaceAll\n\tcw.WriteString(sl.Value)", Rule: "R7.1", Construct: "readRawString"},
		variant{Prop: "C07", Name: "string-printed-with-single-quotes", File: a, Old: "\tcw.WriteRune('\"')\n\tcw.WriteString(sl.Value)\n\tcw.WriteRune('\"')", New: "\tcw.WriteRune('\\'')\n\tcw.WriteString(sl.Value)\n\tcw.WriteRune('\\'')", Rule: "R7.1", Construct: "verbatim sink"},
		variant{Prop: "C07", Name: "line-continuation-dropped-backslash", File: lx, Old: "\t\t\t\tdefault:\n\t\t\t\t\t// For any other character, include both \\ and the character\n\t\t\t\t\tresult.WriteByte('\\\\')\n\t\t\t\t\tresult.WriteByte(l.CurrentChar)", New: "\t\t\t\tdefault:\n\t\t\t\t\tresult.WriteByte(l.CurrentChar)", Rule: "R7.1", Construct: "readString"},
		variant{Prop: "C07", Name: "integer-printed-lowercased", File: a, Old: "func (il *IntegerLiteral) WriteTo(cw *CodeWriter) {\n\tcw.WriteLeadingComments(il.Token.LeadingComments)\n\tcw.AddMapping(il.Token.Start)\n\tcw.WriteString(il.Token.Literal)", New: "func (il *IntegerLiteral) WriteTo(cw *CodeWriter) {\n\tcw.WriteLeadingComments(il.Token.LeadingComments)\n\tcw.AddMapping(il.Token.Start)\n\tcw.WriteString(strings.TrimLeft(il.Token.Literal, \"0\"))", Rule: "R7.3", Construct: "INT"},
		variant{Prop: "C07", Name: "float-node-keeps-peek-token", File: pf, Old: "lit := &ast.FloatLiteral{Token: p.CurrentToken}", New: "lit := &ast.FloatLiteral{Token: p.PeekToken}", Rule: "R7.3", Construct: "FLOAT"},
		variant{Prop: "C07", Name: "integer-validation-dropped", File: pf, Old: "\t_, err := strconv.ParseInt(p.CurrentToken.Literal, 0, 64)\n\tif err != nil {\n\t\tp.AddError(fmt.Sprintf(\"could not parse %q as integer\", p.CurrentToken.Literal))\n\t\treturn nil\n\t}", New: "\t_, _ = strconv.ParseInt(p.CurrentToken.Literal, 0, 64)", Rule: "R7.4", Construct: "INT"},
		variant{Prop: "C07", Name: "benign-hex-escape-kept-verbatim", File: lx, Old: "\t\t\t\t\t\tvalue := hexDigitValue(hex1)*16 + hexDigitValue(hex2)\n\t\t\t\t\t\tresult.WriteByte(byte(value))\n\t\t\t\t\t\tcontinue", New: "\t\t\t\t\t\tresult.WriteByte('\\\\')\n\t\t\t\t\t\tresult.WriteByte('x')\n\t\t\t\t\t\tresult.WriteByte(hex1)\n\t\t\t\t\t\tresult.WriteByte(hex2)\n\t\t\t\t\t\tcontinue", Benign: true},
	)
}
