package main

func init() {
	pf := "parser/parser_functions.go"
	pc := "parser/parser_context.go"
	addVariants(
		variant{Prop: "C16", Name: "defer-pop-deleted-in-function-expression", File: pf, Old: "p.PushContext(FunctionContext)\n\tdefer p.PopContext()\n\tfe.Body", New: "p.PushContext(FunctionContext)\n\tfe.Body", Rule: "R16.3", Construct: "ParseFunctionExpression"},
		variant{Prop: "C16", Name: "pop-after-early-return-in-block", File: pf, Old: "p.PushContext(BlockContext)\n\tdefer p.PopContext()\n\tp.NextToken()", New: "p.PushContext(BlockContext)\n\tp.NextToken()\n\tif p.CurrentToken.Type == token.EOF {\n\t\treturn block\n\t}\n\tdefer p.PopContext()", Rule: "R16.3", Construct: "ParseBlockStatement"},
		variant{Prop: "C16", Name: "is-in-function-top-only", File: pc, Old: "return slices.Contains(p.contextStack, FunctionContext)", New: "_ = slices.Contains[[]ContextType]\n\treturn p.CurrentContext() == FunctionContext", Rule: "R16.5", Construct: "IsInFunction"},
		variant{Prop: "C16", Name: "pop-removes-two", File: pc, Old: "p.contextStack[:len(p.contextStack)-1]", New: "p.contextStack[:len(p.contextStack)-2]", Rule: "R16.2", Construct: "PopContext"},
		variant{Prop: "C16", Name: "push-before-brace-check", File: pf, Old: "if !p.ExpectToken(token.LBRACE) {\n\t\treturn nil\n\t}\n\tp.PushContext(FunctionContext)\n\tdefer p.PopContext()\n\tstmt.Body", New: "p.PushContext(FunctionContext)\n\tdefer p.PopContext()\n\tif !p.ExpectToken(token.LBRACE) {\n\t\treturn nil\n\t}\n\tstmt.Body", Rule: "R16.4", Construct: "ParseFunctionStatement"},
		variant{Prop: "C16", Name: "function-declaration-pushes-block-context", File: pf, Old: "p.PushContext(FunctionContext)\n\tdefer p.PopContext()\n\tstmt.Body", New: "p.PushContext(BlockContext)\n\tdefer p.PopContext()\n\tstmt.Body", Rule: "R16.4", Construct: "ParseFunctionStatement"},
		variant{Prop: "C16", Name: "push-in-if-statement", File: pf, Old: "stmt.ThenBranch = p.statementParseFn(p)", New: "p.PushContext(BlockContext)\n\tstmt.ThenBranch = p.statementParseFn(p)\n\tp.PopContext()", Rule: "R16.4", Construct: "ParseIfStatement"},
		variant{Prop: "C16", Name: "stack-reset-in-parse-program", File: "parser/parser.go", Old: "program.Statements = []ast.Statement{}", New: "program.Statements = []ast.Statement{}\n\tp.contextStack = p.contextStack[:0]", Rule: "R16.1", Construct: "ParseProgram"},
		variant{Prop: "C16", Name: "current-context-returns-first", File: pc, Old: "return p.contextStack[len(p.contextStack)-1]", New: "return p.contextStack[0]", Rule: "R16.5", Construct: "CurrentContext"},
		variant{Prop: "C16", Name: "params-parsed-inside-function-context", File: pf, Old: "fe.Parameters = p.ParseFunctionParameters()\n\tif !p.ExpectToken(token.LBRACE) {\n\t\treturn nil\n\t}\n\tp.PushContext(FunctionContext)\n\tdefer p.PopContext()", New: "p.PushContext(FunctionContext)\n\tdefer p.PopContext()\n\tfe.Parameters = p.ParseFunctionParameters()\n\tif !p.ExpectToken(token.LBRACE) {\n\t\treturn nil\n\t}", Rule: "R16.4", Construct: "ParseFunctionExpression"},
		// benign edits: must stay silent
		variant{Prop: "C16", Name: "benign-is-in-function-explicit-loop", File: pc, Old: "return slices.Contains(p.contextStack, FunctionContext)", New: "_ = slices.Contains[[]ContextType]\n\tfor _, c := range p.contextStack {\n\t\tif c == FunctionContext {\n\t\t\treturn true\n\t\t}\n\t}\n\treturn false", Benign: true},
		variant{Prop: "C16", Name: "benign-explicit-pops-instead-of-defer", File: pf, Old: "p.PushContext(FunctionContext)\n\tdefer p.PopContext()\n\tfe.Body = p.ParseBlockStatement()\n\treturn fe", New: "p.PushContext(FunctionContext)\n\tfe.Body = p.ParseBlockStatement()\n\tp.PopContext()\n\treturn fe", Benign: true},
		variant{Prop: "C16", Name: "benign-pop-guard-neq-zero", File: pc, Old: "if len(p.contextStack) > 0 {", New: "if len(p.contextStack) != 0 {", Benign: true},
	)
}
