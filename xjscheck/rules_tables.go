package main

import (
	"fmt"
	"go/ast"
	"go/token"
	"go/types"
	"sort"
	"strings"

	"golang.org/x/tools/go/ssa"
)

// shared table rules (A1) and parenthesisation guards (A4); each is reported under the calling property's rule id.

type tables struct {
	tc *tokConsts
	lt *lexemeTable
	pt *parserTables
	pr *printerTables
}

func (c *Ctx) tables() *tables {
	t := &tables{tc: c.tokenConsts(), lt: c.lexemes(), pt: c.parserTables(), pr: c.printerTables()}
	c.Tables["E2_lexemes"] = t.lt.dump(t.tc)
	c.Tables["E3_parser"] = t.pt.dump(t.tc)
	c.Tables["E4_printer"] = t.pr.dump(t.tc)
	return t
}

// extractorProblems reports extractor failures as unresolved obligations of the current rule.
func (c *Ctx) extractorProblems(t *tables, which ...string) bool {
	bad := false
	for _, w := range which {
		var ps []string
		switch w {
		case "lexemes":
			ps = t.lt.problems
		case "parser":
			ps = t.pt.problems
		case "printer":
			ps = t.pr.problems
		}
		for _, p := range ps {
			c.unres("extractor "+w, token.NoPos, "%s", p)
			bad = true
		}
	}
	return bad
}

// constructedNodes: the ast node types a parser method allocates (by composite literal).
func (c *Ctx) constructedNodes(m *types.Func) []string {
	fd := c.declIdx[m]
	if fd == nil {
		return nil
	}
	info := c.Pkgs["parser"].TypesInfo
	seen := map[string]bool{}
	var out []string
	ast.Inspect(fd.Body, func(n ast.Node) bool {
		cl, ok := n.(*ast.CompositeLit)
		if !ok {
			return true
		}
		tv, ok := info.Types[cl]
		if !ok {
			return true
		}
		nt := namedOf(tv.Type)
		if nt == nil || nt.Obj().Pkg() == nil || nt.Obj().Pkg().Path() != modPath+"/ast" {
			return true
		}
		// only node types (those with WriteTo)
		if !hasMethod(nt, "WriteTo") {
			return true
		}
		if !seen[nt.Obj().Name()] {
			seen[nt.Obj().Name()] = true
			out = append(out, nt.Obj().Name())
		}
		return true
	})
	return out
}

func hasMethod(nt *types.Named, name string) bool {
	ms := types.NewMethodSet(types.NewPointer(nt))
	for i := 0; i < ms.Len(); i++ {
		if ms.At(i).Obj().Name() == name {
			return true
		}
	}
	return false
}

// exprLevelArgs: constant levels passed to the interceptable expression function inside method m, and whether a
// call passes the level of the current token (currentPrecedence()).
func (c *Ctx) exprLevelArgs(t *tables, m *types.Func) (consts []int64, own bool) {
	c.buildSSA()
	f := c.Prog.FuncValue(m)
	if f == nil {
		return
	}
	curPrec := c.fn("(*parser.Parser).currentPrecedence")
	for _, g := range withClosures(f) {
		allInstrs(g, func(_ *ssa.BasicBlock, _ int, in ssa.Instruction) {
			call, ok := in.(*ssa.Call)
			if !ok {
				return
			}
			var lvl ssa.Value
			if _, ok := isFieldLoad(call.Call.Value, t.pt.exprFld); ok && len(call.Call.Args) == 2 {
				lvl = call.Call.Args[1]
			} else if sh := c.stepHelper(t, call.Call.StaticCallee()); sh != nil {
				lvl = call.Call.Args[sh.levelIdx]
			} else if cal := call.Call.StaticCallee(); cal != nil {
				switch fnName(cal) {
				case "(*parser.Parser).ParseExpressionWithPrecedence":
					lvl = call.Call.Args[1]
				case "(*parser.Parser).ParseExpression":
					consts = append(consts, mustConst(c, "parser", "LOWEST"))
					return
				}
			}
			if lvl == nil {
				return
			}
			lvl = resolve(lvl)
			if k, ok := constInt64(lvl); ok {
				consts = append(consts, k)
			} else if cc, ok := lvl.(*ssa.Call); ok && cc.Call.StaticCallee() == curPrec && curPrec != nil {
				own = true
			}
		})
	}
	return
}

// stepHelper: an unexported parser method  h(level int) <expression>  whose whole body is "step over the operator
// (one advance), then parse the operand through the interceptable expression function at `level`" — the operand
// step of the operator methods given a name. Verified on its SSA form: one block, exactly one advance, exactly one
// call through the expression field whose level argument is the parameter itself, and that call's result returned.
type stepHelperInfo struct {
	levelIdx int // index among the SSA parameters (receiver = 0)
}

func (c *Ctx) stepHelper(t *tables, f *ssa.Function) *stepHelperInfo {
	a := c.parserAnchors()
	if f == nil || a == nil || a.nextTok == nil || f.Blocks == nil || len(f.Blocks) != 1 || f.Pkg != a.nextTok.Pkg || f.Signature.Recv() == nil || f.Parent() != nil {
		return nil
	}
	if f.Object() == nil || f.Object().Exported() || f.Signature.Results().Len() != 1 || !isNodeIface(f.Signature.Results().At(0).Type()) {
		return nil
	}
	var adv, sub *ssa.Call
	other := false
	for _, in := range f.Blocks[0].Instrs {
		switch x := in.(type) {
		case *ssa.Call:
			switch {
			case x.Call.StaticCallee() == a.nextTok && adv == nil && sub == nil:
				adv = x
			case sub == nil && !x.Call.IsInvoke():
				if _, ok := isFieldLoad(x.Call.Value, t.pt.exprFld); ok && len(x.Call.Args) == 2 {
					sub = x
				} else {
					other = true
				}
			default:
				other = true
			}
		case *ssa.Store, *ssa.MapUpdate, *ssa.Defer, *ssa.Go, *ssa.Send, *ssa.Panic:
			other = true
		case *ssa.Return:
			if len(x.Results) != 1 || sub == nil || x.Results[0] != ssa.Value(sub) {
				other = true
			}
		}
	}
	if other || adv == nil || sub == nil || sub.Call.Args[0] != ssa.Value(f.Params[0]) {
		return nil
	}
	for i, p := range f.Params {
		if i > 0 && sub.Call.Args[1] == ssa.Value(p) {
			return &stepHelperInfo{levelIdx: i}
		}
	}
	return nil
}

func mustConst(c *Ctx, pkg, name string) int64 {
	v, _ := c.constInt(pkg, name)
	return v
}

// ---------------------------------------------------------------------------------------------
// table agreement printer <-> parser (R3.1)

func ruleTablesAgree(c *Ctx, t *tables) {
	if c.extractorProblems(t, "parser", "printer") {
		return
	}
	n := 0
	for _, name := range t.tc.names {
		k := t.tc.byName[name]
		pl, hasP := t.pt.prec[k]
		al, hasA := t.pr.opPrec[k]
		if !hasA {
			continue
		}
		n++
		key := "token " + name
		switch {
		case hasP && pl == al:
			c.ok(key, t.pt.precPos[k], "printer level %d = parser level %d", al, pl)
		case hasP:
			c.bad(key, t.pt.precPos[k], "printer-side precedence of %s is %d but the parser binds it at %d: a programmatic tree with this operator is parenthesised for the wrong level", name, al, pl)
		case al == t.pr.lowest:
			c.ok(key, token.NoPos, "no parser level; printer gives its lowest level %d", al)
		default:
			c.bad(key, token.NoPos, "printer-side precedence of %s is %d but the parser has no binding power for it", name, al)
		}
	}
	// the atomic level is above every parser level
	atomic, okA := t.pr.level["Identifier"]
	if !okA {
		for _, v := range t.pr.level {
			if v > atomic {
				atomic = v
			}
		}
	}
	max := int64(0)
	for _, v := range t.pt.prec {
		if v > max {
			max = v
		}
	}
	c.check(atomic > max, "atomic level above all binding powers", token.NoPos, fmt.Sprintf("atomic level %d > highest binding power %d", atomic, max), fmt.Sprintf("the level of atomic nodes (%d) is not above the highest binding power (%d)", atomic, max))
}

// ---------------------------------------------------------------------------------------------
// node levels agree with where the parser produces the node (R3.2)

type nodeRole struct {
	node   string
	via    string // "prefix" | "infix"
	tokens []int64
	method *types.Func
}

func (c *Ctx) nodeRoles(t *tables) []nodeRole {
	var out []nodeRole
	idx := map[string]int{}
	add := func(via string, tbl map[int64]*types.Func) {
		var keys []int64
		for k := range tbl {
			keys = append(keys, k)
		}
		sort.Slice(keys, func(i, j int) bool { return keys[i] < keys[j] })
		for _, k := range keys {
			m := tbl[k]
			for _, nd := range c.constructedNodes(m) {
				if _, isExpr := t.pr.exprs[nd]; !isExpr {
					continue
				}
				key := via + "/" + nd + "/" + m.Name()
				if i, ok := idx[key]; ok {
					out[i].tokens = append(out[i].tokens, k)
					continue
				}
				idx[key] = len(out)
				out = append(out, nodeRole{node: nd, via: via, tokens: []int64{k}, method: m})
			}
		}
	}
	add("prefix", t.pt.prefix)
	add("infix", t.pt.infix)
	return out
}

func ruleNodeLevels(c *Ctx, t *tables) {
	if c.extractorProblems(t, "parser", "printer") {
		return
	}
	atomicFloor := int64(0)
	for _, v := range t.pt.prec {
		if v > atomicFloor {
			atomicFloor = v
		}
	}
	lowest := mustConst(c, "parser", "LOWEST")
	for _, r := range c.nodeRoles(t) {
		lvl, isConst := t.pr.level[r.node]
		tokDerived := t.pr.tokLevel[r.node]
		for _, k := range r.tokens {
			key := fmt.Sprintf("%s via %s entry %s (%s)", r.node, r.via, t.tc.name(k), r.method.Name())
			pos := t.pt.entryPos[fmt.Sprintf("%s/%d", r.via, k)]
			if r.via == "infix" {
				pl, has := t.pt.prec[k]
				if !has {
					c.bad(key, pos, "infix entry for a token without binding power: the climbing loop can never reach it")
					continue
				}
				switch {
				case tokDerived:
					c.ok(key, pos, "level derived from the node's own token; equals the parser's %d by the table agreement rule", pl)
				case isConst && lvl == pl:
					c.ok(key, pos, "printer level %d = binding power of %s", lvl, t.tc.name(k))
				default:
					c.bad(key, pos, "%s reports level %d but the parser produces it at binding power %d of %s: its operands/parents are parenthesised for the wrong level", r.node, lvl, pl, t.tc.name(k))
				}
				continue
			}
			// prefix entries: operator-like (operand parsed above LOWEST) or atomic
			consts, _ := c.exprLevelArgs(t, r.method)
			opLevel := int64(-1)
			for _, k2 := range consts {
				if k2 > lowest {
					opLevel = k2
				}
			}
			switch {
			case opLevel > 0 && isConst && lvl == opLevel:
				c.ok(key, pos, "prefix operator node: printer level %d = level at which its operand is parsed", lvl)
			case opLevel > 0:
				c.bad(key, pos, "%s reports level %d but the parser parses its operand at level %d", r.node, lvl, opLevel)
			case isConst && lvl > atomicFloor:
				c.ok(key, pos, "atomic node: level %d above every binding power", lvl)
			default:
				c.bad(key, pos, "%s is produced in prefix position as a self-delimiting node but does not report an atomic level (reports %d, needs > %d)", r.node, lvl, atomicFloor)
			}
		}
	}
}

// ---------------------------------------------------------------------------------------------
// parenthesisation guards (R1.3 / R3.3)

type guardExpr struct {
	op    token.Token // comparison, or NOT
	x, y  *guardExpr
	kind  string // "child", "own", "const", "cmp", "not"
	field *types.Var
	k     int64
}

func (g *guardExpr) eval(child map[*types.Var]int64, own int64) (int64, bool) {
	switch g.kind {
	case "child":
		return child[g.field], false
	case "own":
		return own, false
	case "const":
		return g.k, false
	case "add":
		a, _ := g.x.eval(child, own)
		b, _ := g.y.eval(child, own)
		if g.op == token.SUB {
			return a - b, false
		}
		return a + b, false
	case "not":
		_, b := g.x.eval(child, own)
		return 0, !b
	case "cmp":
		a, _ := g.x.eval(child, own)
		b, _ := g.y.eval(child, own)
		switch g.op {
		case token.LSS:
			return 0, a < b
		case token.LEQ:
			return 0, a <= b
		case token.GTR:
			return 0, a > b
		case token.GEQ:
			return 0, a >= b
		case token.EQL:
			return 0, a == b
		case token.NEQ:
			return 0, a != b
		}
	}
	return 0, false
}

func (g *guardExpr) fields(out map[*types.Var]bool) {
	if g == nil {
		return
	}
	if g.kind == "child" {
		out[g.field] = true
	}
	g.x.fields(out)
	g.y.fields(out)
}

func buildGuard(v ssa.Value, recv ssa.Value, ownFn *ssa.Function) *guardExpr {
	switch x := v.(type) {
	case *ssa.Const:
		if k, ok := constInt64(x); ok {
			return &guardExpr{kind: "const", k: k}
		}
	case *ssa.UnOp:
		if x.Op == token.NOT {
			if g := buildGuard(x.X, recv, ownFn); g != nil {
				return &guardExpr{kind: "not", x: g}
			}
		}
	case *ssa.BinOp:
		switch x.Op {
		case token.LSS, token.LEQ, token.GTR, token.GEQ, token.EQL, token.NEQ:
			a, b := buildGuard(x.X, recv, ownFn), buildGuard(x.Y, recv, ownFn)
			if a != nil && b != nil {
				return &guardExpr{kind: "cmp", op: x.Op, x: a, y: b}
			}
		case token.ADD, token.SUB:
			a, b := buildGuard(x.X, recv, ownFn), buildGuard(x.Y, recv, ownFn)
			if a != nil && b != nil {
				return &guardExpr{kind: "add", op: x.Op, x: a, y: b}
			}
		}
	case *ssa.Call:
		if x.Call.IsInvoke() && x.Call.Method.Name() == "Precedence" {
			if u, ok := x.Call.Value.(*ssa.UnOp); ok && u.Op == token.MUL {
				if fa, ok := u.X.(*ssa.FieldAddr); ok && fa.X == recv {
					return &guardExpr{kind: "child", field: fieldOfAddr(fa)}
				}
			}
		}
		if cal := x.Call.StaticCallee(); cal != nil && cal == ownFn && len(x.Call.Args) == 1 && x.Call.Args[0] == recv {
			return &guardExpr{kind: "own"}
		}
	}
	return nil
}

// operandHelper: a function  h(cw *CodeWriter, operand <node interface>, cond bool)  (any parameter order) that writes
// '(' under cond, then operand.WriteTo(cw), then ')' under cond — verified on its SSA form.
type operandHelper struct {
	opIdx, condIdx int
	// second form: h(cw, operand, level int) parenthesises under `operand.Precedence() <cmp> level`
	levelIdx int
	cmp      token.Token
	swapped  bool // the comparison is written level <cmp> operand.Precedence()
}

var operandHelperCache = map[*ssa.Function]*operandHelper{}

func operandHelperOf(f *ssa.Function, writeRune *ssa.Function) *operandHelper {
	if f == nil || f.Blocks == nil || f.Pkg == nil || writeRune == nil || f.Pkg != writeRune.Pkg {
		return nil
	}
	if h, ok := operandHelperCache[f]; ok {
		return h
	}
	operandHelperCache[f] = nil
	h := &operandHelper{opIdx: -1, condIdx: -1, levelIdx: -1}
	for i, p := range f.Params {
		switch {
		case namedIs(p.Type(), "ast", "Expression") || namedIs(p.Type(), "ast", "Node") || namedIs(p.Type(), "ast", "Statement"):
			h.opIdx = i
		default:
			if b, ok := p.Type().Underlying().(*types.Basic); ok && b.Kind() == types.Bool {
				h.condIdx = i
			} else if ok && b.Kind() == types.Int {
				h.levelIdx = i
			}
		}
	}
	if h.opIdx < 0 || (h.condIdx < 0 && h.levelIdx < 0) {
		return nil
	}
	// the condition that controls the parentheses: the bool parameter, or operand.Precedence() compared with the level
	isCond := func(v ssa.Value) bool {
		if h.condIdx >= 0 {
			return v == ssa.Value(f.Params[h.condIdx])
		}
		bo, ok := v.(*ssa.BinOp)
		if !ok {
			return false
		}
		isPrec := func(x ssa.Value) bool {
			call, ok := x.(*ssa.Call)
			return ok && call.Call.IsInvoke() && call.Call.Method.Name() == "Precedence" && call.Call.Value == ssa.Value(f.Params[h.opIdx])
		}
		switch bo.Op {
		case token.LSS, token.LEQ, token.GTR, token.GEQ:
		default:
			return false
		}
		switch {
		case isPrec(bo.X) && bo.Y == ssa.Value(f.Params[h.levelIdx]):
			h.cmp, h.swapped = bo.Op, false
			return true
		case isPrec(bo.Y) && bo.X == ssa.Value(f.Params[h.levelIdx]):
			h.cmp, h.swapped = bo.Op, true
			return true
		}
		return false
	}
	var open, closeC, child ssa.Instruction
	var children []ssa.Instruction
	okShape := true
	allInstrs(f, func(b *ssa.BasicBlock, _ int, in ssa.Instruction) {
		call, ok := in.(*ssa.Call)
		if !ok {
			return
		}
		if call.Call.IsInvoke() && call.Call.Method.Name() == "WriteTo" && call.Call.Value == ssa.Value(f.Params[h.opIdx]) {
			children = append(children, call)
			return
		}
		if call.Call.StaticCallee() == writeRune {
			k, ok := constInt64(call.Call.Args[1])
			if !ok || (k != '(' && k != ')') {
				okShape = false
				return
			}
			iff, edge, ok := controllingIf(f, b)
			if !ok || !isCond(iff.Cond) || !edge {
				okShape = false
				return
			}
			if k == '(' {
				open = call
			} else {
				closeC = call
			}
			return
		}
		if call.Call.IsInvoke() && call.Call.Method.Name() == "Precedence" && call.Call.Value == ssa.Value(f.Params[h.opIdx]) && h.condIdx < 0 {
			return // the level read of the second form
		}
		okShape = false // any other call: not a pure operand writer
	})
	// one print of the operand between the parentheses; a second one is allowed on the path without them (the
	// early-return form `if cond { ( x ) ; return }; x`)
	if open != nil && closeC != nil {
		for _, ch := range children {
			if instrReachableAfter(open, ch) && instrReachableAfter(ch, closeC) {
				if child != nil {
					okShape = false
				}
				child = ch
			} else if instrReachableAfter(open, ch) || instrReachableAfter(ch, open) {
				okShape = false // printed on the parenthesised path as well, outside the parentheses
			}
		}
	}
	if !okShape || open == nil || closeC == nil || child == nil {
		return nil
	}
	if !(instrReachableAfter(open, child) && !instrReachableAfter(child, open) && instrReachableAfter(child, closeC) && !instrReachableAfter(closeC, child)) {
		return nil
	}
	operandHelperCache[f] = h
	return h
}

// controllingIf: the innermost If whose true or false edge dominates block b.
func controllingIf(f *ssa.Function, b *ssa.BasicBlock) (*ssa.If, bool, bool) {
	var best *ssa.BasicBlock
	var bestEdge bool
	for _, blk := range f.Blocks {
		if blockIf(blk) == nil {
			continue
		}
		for _, edge := range []bool{true, false} {
			if condEdgeDominates(blk, edge, b) {
				if best == nil || best.Dominates(blk) {
					best, bestEdge = blk, edge
				}
			}
		}
	}
	if best == nil {
		return nil, false, false
	}
	return blockIf(best), bestEdge, true
}

func ruleParenGuards(c *Ctx, t *tables) {
	if c.extractorProblems(t, "parser", "printer") {
		return
	}
	c.buildSSA()
	writeRune := c.fn("(*ast.CodeWriter).WriteRune")
	lparenT, _ := refTypeOf(t, "(")
	assignT, _ := refTypeOf(t, "=")
	callLevel, hasCall := t.pt.prec[lparenT]
	assignLevel, hasAssign := t.pt.prec[assignT]
	if writeRune == nil || !hasCall || !hasAssign {
		c.unres("anchors", token.NoPos, "WriteRune / levels of '(' and '=' not found")
		return
	}
	maxLevel := int64(0)
	for _, v := range t.pr.level {
		if v > maxLevel {
			maxLevel = v
		}
	}
	pinfo := c.Pkgs["parser"].TypesInfo
	seenNode := map[string]bool{}
	for _, r := range c.nodeRoles(t) {
		if seenNode[r.node+r.via] {
			continue
		}
		seenNode[r.node+r.via] = true
		nt := t.pr.exprs[r.node]
		wt := methodFn(c, nt, "WriteTo")
		ownPrec := methodFn(c, nt, "Precedence")
		if wt == nil {
			continue
		}
		// node level range
		var ownLevels []int64
		if lv, ok := t.pr.level[r.node]; ok {
			ownLevels = []int64{lv}
		} else {
			seen := map[int64]bool{}
			for _, k := range r.tokens {
				if lv, ok := t.pt.prec[k]; ok && !seen[lv] {
					seen[lv] = true
					ownLevels = append(ownLevels, lv)
				}
			}
		}
		// operand fields from the parser side: field <- left parameter (infix), field <- expression parse above LOWEST
		fd := c.declIdx[r.method]
		type operand struct {
			field  string
			strict bool // parens required when child < own (strict) or child <= own
			why    string
		}
		var operands []operand
		lowest := mustConst(c, "parser", "LOWEST")
		var leftParam *types.Var
		if r.via == "infix" && fd.Type.Params != nil && len(fd.Type.Params.List) > 0 && len(fd.Type.Params.List[0].Names) > 0 {
			leftParam, _ = pinfo.Defs[fd.Type.Params.List[0].Names[0]].(*types.Var)
		}
		fieldAssign := func(name string, val ast.Expr) {
			if id, ok := val.(*ast.Ident); ok && leftParam != nil && pinfo.Uses[id] == leftParam {
				operands = append(operands, operand{name, true, "left operand (the infix method's parameter)"})
				return
			}
			call, ok := val.(*ast.CallExpr)
			if !ok {
				return
			}
			// level of the sub-parse
			sel, _ := call.Fun.(*ast.SelectorExpr)
			if sel == nil {
				return
			}
			isExprFn := false
			if v, ok := pinfo.Uses[sel.Sel].(*types.Var); ok && v == t.pt.exprFld {
				isExprFn = true
			}
			if f, ok := pinfo.Uses[sel.Sel].(*types.Func); ok && f.Name() == "ParseExpressionWithPrecedence" {
				isExprFn = true
			}
			lvArg := len(call.Args) - 1
			if f, ok := pinfo.Uses[sel.Sel].(*types.Func); ok {
				c.buildSSA()
				if sh := c.stepHelper(t, c.Prog.FuncValue(f)); sh != nil && sh.levelIdx-1 < len(call.Args) {
					isExprFn = true
					lvArg = sh.levelIdx - 1
				}
			}
			if !isExprFn || len(call.Args) == 0 {
				return
			}
			lv := call.Args[lvArg]
			if k, ok := constOfExpr(pinfo, lv); ok {
				kk, _ := constantInt(k)
				if kk > lowest {
					operands = append(operands, operand{name, r.via == "prefix", fmt.Sprintf("operand parsed at constant level %d", kk)})
				}
				return
			}
			operands = append(operands, operand{name, r.via == "prefix", "operand parsed at the operator's own level"})
		}
		ast.Inspect(fd.Body, func(n ast.Node) bool {
			switch x := n.(type) {
			case *ast.CompositeLit:
				if tv, ok := pinfo.Types[x]; ok && namedOf(tv.Type) != nil && namedOf(tv.Type).Obj().Name() == r.node {
					for _, el := range x.Elts {
						if kv, ok := el.(*ast.KeyValueExpr); ok {
							if id, ok := kv.Key.(*ast.Ident); ok {
								fieldAssign(id.Name, kv.Value)
							}
						}
					}
				}
			case *ast.AssignStmt:
				if len(x.Lhs) == 1 && len(x.Rhs) == 1 {
					if sel, ok := x.Lhs[0].(*ast.SelectorExpr); ok {
						if tv, ok := pinfo.Types[sel.X]; ok && namedOf(tv.Type) != nil && namedOf(tv.Type).Obj().Name() == r.node {
							fieldAssign(sel.Sel.Name, x.Rhs[0])
						}
					}
				}
			}
			return true
		})
		if len(operands) == 0 {
			continue
		}
		// exemption by level: callee/object positions and assignment targets are outside the property's quantifier
		exempt := true
		for _, lv := range ownLevels {
			if lv < callLevel && lv != assignLevel {
				exempt = false
			}
		}
		// collect guards in the printer
		type parenWrite struct {
			call   *ssa.Call
			open   bool
			guard  *guardExpr
			cond   ssa.Value
			edge   bool
			helper bool // a call of an operand-writing helper (verified to write '(' operand ')' under its condition)
		}
		var parens []parenWrite
		recv := wt.Params[0]
		allInstrs(wt, func(b *ssa.BasicBlock, _ int, in ssa.Instruction) {
			call, ok := in.(*ssa.Call)
			if !ok || call.Call.StaticCallee() != writeRune {
				return
			}
			k, ok := constInt64(call.Call.Args[1])
			if !ok || (k != '(' && k != ')') {
				return
			}
			iff, edge, ok := controllingIf(wt, b)
			pw := parenWrite{call: call, open: k == '('}
			if ok {
				pw.cond, pw.edge = iff.Cond, edge
				pw.guard = buildGuard(iff.Cond, recv, ownPrec)
			}
			parens = append(parens, pw)
		})
		// calls of an operand-writing helper  h(cw, <recv>.<field>, <condition>)  count as a guarded '(' , the operand's
		// WriteTo and a guarded ')' under the condition passed at the call site
		helperChild := map[*types.Var][]ssa.Instruction{}
		allInstrs(wt, func(_ *ssa.BasicBlock, _ int, in ssa.Instruction) {
			call, ok := in.(*ssa.Call)
			if !ok {
				return
			}
			h := operandHelperOf(call.Call.StaticCallee(), writeRune)
			if h == nil {
				return
			}
			opArg := call.Call.Args[h.opIdx]
			if mi, ok := opArg.(*ssa.MakeInterface); ok {
				opArg = mi.X
			}
			u, ok := opArg.(*ssa.UnOp)
			if !ok {
				return
			}
			fa, ok := u.X.(*ssa.FieldAddr)
			if !ok || fa.X != ssa.Value(recv) {
				return
			}
			var cond ssa.Value
			var g *guardExpr
			if h.condIdx >= 0 {
				cond = call.Call.Args[h.condIdx]
				g = buildGuard(cond, recv, ownPrec)
			} else {
				// operand.Precedence() <cmp> <level argument>, with the operand being this field
				cond = call.Call.Args[h.levelIdx]
				if lv := buildGuard(cond, recv, ownPrec); lv != nil {
					child := &guardExpr{kind: "child", field: fieldOfAddr(fa)}
					if h.swapped {
						g = &guardExpr{kind: "cmp", op: h.cmp, x: lv, y: child}
					} else {
						g = &guardExpr{kind: "cmp", op: h.cmp, x: child, y: lv}
					}
				}
			}
			parens = append(parens, parenWrite{call: call, open: true, guard: g, cond: cond, edge: true, helper: true}, parenWrite{call: call, open: false, guard: g, cond: cond, edge: true, helper: true})
			helperChild[fieldOfAddr(fa)] = append(helperChild[fieldOfAddr(fa)], call)
		})
		for _, op := range operands {
			key := fmt.Sprintf("%s.%s", r.node, op.field)
			var fld *types.Var
			st := nt.Underlying().(*types.Struct)
			for i := 0; i < st.NumFields(); i++ {
				if st.Field(i).Name() == op.field {
					fld = st.Field(i)
				}
			}
			var opens, closes []parenWrite
			for _, pw := range parens {
				if pw.guard == nil {
					continue
				}
				fs := map[*types.Var]bool{}
				pw.guard.fields(fs)
				if fs[fld] {
					if pw.open {
						opens = append(opens, pw)
					} else {
						closes = append(closes, pw)
					}
				}
			}
			if len(opens) == 0 && len(closes) == 0 {
				if exempt {
					c.info(key+": no guard (outside the quantifier)", wt.Pos(), "%s; node level %v is call-level-or-tighter or assignment level: callee/object/target positions are restricted by the property", op.why, ownLevels)
					continue
				}
				c.bad(key+": guard", wt.Pos(), "%s is an operand (%s) but its printer writes no parenthesis controlled by a comparison of %s.Precedence() with the node's level", key, op.why, op.field)
				continue
			}
			// requirement over all orderings
			okAll := true
			var counter string
			for _, own := range ownLevels {
				for cl := int64(1); cl <= maxLevel; cl++ {
					need := cl < own || (!op.strict && cl == own)
					if !need {
						continue
					}
					for _, set := range [][]parenWrite{opens, closes} {
						any := false
						for _, pw := range set {
							_, b := pw.guard.eval(map[*types.Var]int64{fld: cl}, own)
							if b == pw.edge {
								any = true
							}
						}
						if !any {
							okAll = false
							counter = fmt.Sprintf("child level %d under node level %d", cl, own)
						}
					}
				}
			}
			req := "child < own"
			if !op.strict {
				req = "child <= own"
			}
			c.check(okAll && len(opens) > 0 && len(closes) > 0, key+": guard", opens0pos(opens, closes, wt), fmt.Sprintf("parenthesised whenever %s (evaluated over all %d×%d orderings; %s)", req, len(ownLevels), maxLevel, op.why),
				fmt.Sprintf("operand %s is not parenthesised when required (%s; %s): counterexample %s", key, req, op.why, counter))
			// open and close agree: for every ordering, '(' is written iff ')' is written
			agree := true
			for _, own := range ownLevels {
				for cl := int64(1); cl <= maxLevel; cl++ {
					o, cz := false, false
					for _, pw := range opens {
						if _, b := pw.guard.eval(map[*types.Var]int64{fld: cl}, own); b == pw.edge {
							o = true
						}
					}
					for _, pw := range closes {
						if _, b := pw.guard.eval(map[*types.Var]int64{fld: cl}, own); b == pw.edge {
							cz = true
						}
					}
					if o != cz {
						agree = false
						counter = fmt.Sprintf("child level %d under node level %d", cl, own)
					}
				}
			}
			c.check(agree, key+": '(' and ')' under the same condition", opens0pos(opens, closes, wt), "opening and closing parenthesis are written for exactly the same orderings", "unbalanced parentheses: '(' and ')' are controlled by different conditions ("+counter+")")
			// placement: '(' before the child's WriteTo, ')' after
			var childWrites []ssa.Instruction
			allInstrs(wt, func(_ *ssa.BasicBlock, _ int, in ssa.Instruction) {
				if call, ok := in.(*ssa.Call); ok && call.Call.IsInvoke() && call.Call.Method.Name() == "WriteTo" {
					if u, ok := call.Call.Value.(*ssa.UnOp); ok {
						if fa, ok := u.X.(*ssa.FieldAddr); ok && fa.X == recv && fieldOfAddr(fa) == fld {
							childWrites = append(childWrites, call)
						}
					}
				}
			})
			childWrites = append(childWrites, helperChild[fld]...)
			placed := len(childWrites) > 0
			for _, pw := range opens {
				ok := pw.helper
				for _, cw := range childWrites {
					if instrReachableAfter(pw.call, cw) && !instrReachableAfter(cw, pw.call) {
						ok = true
					}
				}
				placed = placed && ok
			}
			for _, pw := range closes {
				ok := pw.helper
				for _, cw := range childWrites {
					if instrReachableAfter(cw, pw.call) && !instrReachableAfter(pw.call, cw) {
						ok = true
					}
				}
				placed = placed && ok
			}
			c.check(placed, key+": parentheses enclose the operand", opens0pos(opens, closes, wt), "'(' precedes and ')' follows the operand's WriteTo", "the guarded parentheses do not enclose the operand "+op.field)
		}
		// unguarded or unrecognised parenthesis writes in an operator printer
		for _, pw := range parens {
			if pw.guard == nil && pw.cond != nil && dependsOn(pw.cond, func(v ssa.Value) bool {
				call, ok := v.(*ssa.Call)
				return ok && ((call.Call.IsInvoke() && call.Call.Method.Name() == "Precedence") || (call.Call.StaticCallee() != nil && call.Call.StaticCallee().Name() == "Precedence"))
			}) {
				c.unres(fmt.Sprintf("%s: parenthesis under an unrecognised condition", r.node), pw.call.Pos(), "accepted: comparisons of <child>.Precedence() with the node's own Precedence() or a constant")
			}
		}
	}
}

func opens0pos[T any](a, b []T, f *ssa.Function) token.Pos {
	return f.Pos()
}

// ---------------------------------------------------------------------------------------------
// reference order (R2.1)

// refOrder: ECMAScript's operator-precedence table (ECMA-262 §13 expression grammar, lowest to highest), keyed by the
// operator's LEXEME, not by the name the library gives its token constant: an operator of JavaScript that the subset
// gains later (`*=`, `===`, `**`, `??`, …) is judged against the same reference whatever its constant is called.
// Only order and ties are used. One comment per tier.
var refOrder = [][]string{
	{"=", "+=", "-=", "*=", "/=", "%=", "**=", "<<=", ">>=", ">>>=", "&=", "|=", "^=", "&&=", "||=", "??="}, // AssignmentExpression (right-assoc)
	{"?"},                      // ConditionalExpression
	{"||", "??"},               // LogicalORExpression / CoalesceExpression
	{"&&"},                     // LogicalANDExpression
	{"|"},                      // BitwiseORExpression
	{"^"},                      // BitwiseXORExpression
	{"&"},                      // BitwiseANDExpression
	{"==", "!=", "===", "!=="}, // EqualityExpression
	{"<", ">", "<=", ">=", "in", "instanceof"}, // RelationalExpression
	{"<<", ">>", ">>>"},                        // ShiftExpression
	{"+", "-"},                                 // AdditiveExpression
	{"*", "/", "%"},                            // MultiplicativeExpression
	{"**"},                                     // ExponentiationExpression (right-assoc)
	{"<unary>"},                                // UnaryExpression
	{"++", "--"},                               // UpdateExpression (postfix)
	{"("},                                      // CallExpression
	{".", "[", "?."},                           // MemberExpression (same LeftHandSide tier as calls: <= accepted)
}

// refRightAssoc: the operators of the reference that group to the right.
var refRightAssoc = map[string]bool{"**": true}

func init() {
	for _, l := range refOrder[0] {
		refRightAssoc[l] = true
	}
}

// refLexemeOf: the fixed lexeme (or keyword spelling) the lexer produces for token type k, "" when it has none.
func refLexemeOf(t *tables, k int64) string {
	best := ""
	for lx, ty := range t.lt.fixed {
		if ty == k && (best == "" || lx < best) {
			best = lx
		}
	}
	if best == "" {
		for lx, ty := range t.lt.keywords {
			if ty == k && (best == "" || lx < best) {
				best = lx
			}
		}
	}
	return best
}

// refRank: tier of token type k in the reference (by lexeme), ok=false when the lexeme is not an ECMAScript operator.
func refRank(t *tables, k int64) (int, bool) {
	lx := refLexemeOf(t, k)
	if lx == "" {
		return 0, false
	}
	for i, g := range refOrder {
		for _, n := range g {
			if n == lx {
				return i, true
			}
		}
	}
	return 0, false
}

// refTypeOf: the token type whose lexeme is lx (−1, false when the lexer produces no such token).
func refTypeOf(t *tables, lx string) (int64, bool) {
	if k, ok := t.lt.fixed[lx]; ok {
		return k, true
	}
	if k, ok := t.lt.keywords[lx]; ok {
		return k, true
	}
	return -1, false
}

func ruleRefOrder(c *Ctx, t *tables) {
	if c.extractorProblems(t, "parser", "lexemes") {
		return
	}
	rankOf := map[int64]int{}
	var toks []int64
	for k := range t.pt.prec {
		if r, ok := refRank(t, k); ok {
			rankOf[k] = r
			toks = append(toks, k)
		} else {
			c.info("token "+t.tc.name(k)+" not in reference", t.pt.precPos[k], "has binding power %d; its lexeme %q is not an operator of the ECMAScript reference order used here", t.pt.prec[k], refLexemeOf(t, k))
		}
	}
	sort.Slice(toks, func(i, j int) bool { return t.tc.name(toks[i]) < t.tc.name(toks[j]) })
	sign := func(a int64) int {
		switch {
		case a < 0:
			return -1
		case a > 0:
			return 1
		}
		return 0
	}
	callRank, memberRank := -1, -1
	for i, g := range refOrder {
		for _, n := range g {
			if n == "(" {
				callRank = i
			}
			if n == "." {
				memberRank = i
			}
		}
	}
	for i := 0; i < len(toks); i++ {
		for j := i + 1; j < len(toks); j++ {
			ka, kb := toks[i], toks[j]
			a, b := t.tc.name(ka), t.tc.name(kb)
			la, lb := t.pt.prec[ka], t.pt.prec[kb]
			got := sign(la - lb)
			ra, rb := rankOf[ka], rankOf[kb]
			want := sign(int64(ra - rb))
			ok := got == want
			// call vs member: same tier in ECMAScript; call <= member accepted
			if (ra == callRank && rb == memberRank) || (rb == callRank && ra == memberRank) {
				ok = got == want || got == 0
			}
			key := fmt.Sprintf("order %s vs %s", a, b)
			if ok {
				c.ok(key, t.pt.precPos[ka], "levels %d,%d ordered as in ECMAScript", la, lb)
			} else {
				c.bad(key, t.pt.precPos[ka], "binding powers of %s (%d) and %s (%d) are ordered differently from ECMAScript's operator precedence: expressions mixing them group differently from JavaScript", a, la, b, lb)
			}
		}
	}
	// the unary level: strictly above every binary tier below UnaryExpression and strictly below the postfix/call/member tiers
	unaryRank := -1
	for i, g := range refOrder {
		if g[0] == "<unary>" {
			unaryRank = i
		}
	}
	for k, m := range t.pt.prefix {
		consts, _ := c.exprLevelArgs(t, m)
		lowest := mustConst(c, "parser", "LOWEST")
		for _, u := range consts {
			if u <= lowest {
				continue
			}
			var wrong []string
			for _, kb := range toks {
				lv := t.pt.prec[kb]
				switch {
				case rankOf[kb] < unaryRank && lv >= u:
					wrong = append(wrong, fmt.Sprintf("%s (%d) is not below it", t.tc.name(kb), lv))
				case rankOf[kb] > unaryRank && lv <= u:
					wrong = append(wrong, fmt.Sprintf("%s (%d) is not above it", t.tc.name(kb), lv))
				}
			}
			key := fmt.Sprintf("unary level of prefix %s", t.tc.name(k))
			c.check(len(wrong) == 0, key, t.pt.entryPos[fmt.Sprintf("prefix/%d", k)], fmt.Sprintf("operand level %d lies above every binary operator and below postfix, call and member access", u), fmt.Sprintf("prefix operator %s parses its operand at level %d, which is not strictly between the binary operators and postfix/call/member: %s", t.tc.name(k), u, strings.Join(wrong, "; ")))
		}
	}
}

func joinNames(tc *tokConsts, ks []int64) string {
	var s []string
	for _, k := range ks {
		s = append(s, tc.name(k))
	}
	return strings.Join(s, ",")
}
