package main

// Twins: a kept behaviour-preserving refactoring (benign/<id>/patch.diff, written by a sub-agent that saw only the
// property text) is applied first; the check must stay silent on it (the "refactoring-…" variants), and must fire
// when the refactored code is then broken in the way the refactoring invites (the "twin-…" variants). They guard
// the widenings of DESIGN.md §9 in both directions.
func init() {
	ref := func(prop, id string) variant {
		return variant{Prop: prop, Name: "refactoring-" + id, Patch: "benign/" + id + "/patch.diff", Benign: true}
	}
	twin := func(prop, id, name, file, old, new, rule, construct string) variant {
		return variant{Prop: prop, Name: "twin-" + id + "-" + name, Patch: "benign/" + id + "/patch.diff", More: []edit{{File: file, Old: old, New: new}}, Rule: rule, Construct: construct}
	}
	addVariants(
		twin("C06", "C06-b1", "helper-queues-a-semicolon", "ast/code_writer_format.go", "cw.deferLayout(' ')", "cw.deferLayout(';')", "R6.1", "deferLayout"),
		twin("C14", "C14-b4", "code-differs-on-the-map-branch", "compiler/compiler.go", "return CompileResult{Code: code, SourceMap: w.Mapper.SourceMap()}", "return CompileResult{Code: code + \"\\n\", SourceMap: w.Mapper.SourceMap()}", "R14.6", "guard"),
		twin("C10", "C15-b1", "whitespace-helper-forgets-the-flag", "lexer/lexer.go", "\t\tif l.CurrentChar == '\\n' {\n\t\t\tl.hadNewlineBefore = true\n\t\t\tl.leadingComments = append(l.leadingComments, \"\")", "\t\tif l.CurrentChar == '\\n' {\n\t\t\tl.leadingComments = append(l.leadingComments, \"\")", "R10.6", "skipper"),
		twin("C15", "C15-b1", "comment-helper-skips-first-byte", "lexer/lexer.go", "\t\tcomment.WriteByte(l.CurrentChar)\n\t\tl.ReadChar()", "\t\tl.ReadChar()\n\t\tcomment.WriteByte(l.CurrentChar)", "R15.6", "append"),
		twin("C02", "C10-b3", "table-entry-for-paren-wrong", "lexer/base_functions.go", "'(': token.LPAREN,", "'(': token.RPAREN,", "R2.3", "LPAREN"),
		twin("C10", "C10-b1", "two-char-helper-forgets-advance", "lexer/base_functions.go", "\tfirst := l.CurrentChar\n\tl.ReadChar()", "\tfirst := l.CurrentChar", "R10.7", "dispatcher path"),
		twin("C12", "C12-b1", "literal-helper-accepts-end-of-input", "lexer/base_functions.go", "\tif l.CurrentChar == delimiter {", "\tif l.CurrentChar == delimiter || l.CurrentChar == 0 {", "R12.5", "token from"),
		twin("C02", "C02-b3", "minus-moved-to-product-level", "parser/parser.go", "{SUM, []token.Type{token.PLUS, token.MINUS}},", "{SUM, []token.Type{token.PLUS}}, {PRODUCT, []token.Type{token.MINUS}},", "R2.1", "MINUS"),
		twin("C09", "C09-b1", "sign-helper-keeps-the-sign", "sourcemap/vlq.go", "\t\treturn (-n << 1) | 1", "\t\treturn (n << 1) | 1", "R9.2", "sign"),
		twin("C16", "C16-b1", "body-helper-never-pops", "parser/parser_functions.go", "\tp.PushContext(FunctionContext)\n\tdefer p.PopContext()\n\treturn p.ParseBlockStatement()", "\tp.PushContext(FunctionContext)\n\treturn p.ParseBlockStatement()", "R16.3", "parseFunctionBody"),
		twin("C05", "C05-b4", "single-exit-allocator-increments-first", "lexer/builder.go", "\t\ttokenType = lb.nextTokenID\n\t\tlb.nextTokenID++", "\t\tlb.nextTokenID++\n\t\ttokenType = lb.nextTokenID", "R5.5", "allocation path"),
		twin("C09", "C08-b4", "bulk-semicolons-but-counter-plus-one", "sourcemap/sourcemap.go", "\t\t\tcurrentLine = mapping.GeneratedLine", "\t\t\tcurrentLine++", "R9.1", "per generated line"),
		twin("C04", "C04-b1", "combinator-restores-conditionally", "parser/parser.go", "\tdefer func() {\n\t\tp.currentExpressionPrecedence = oldPrecedence\n\t}()", "\tdefer func() {\n\t\tif oldPrecedence != 0 {\n\t\t\tp.currentExpressionPrecedence = oldPrecedence\n\t\t}\n\t}()", "R4.5", "restore"),
		twin("C04", "C04-b1", "combinator-given-another-level", "parser/parser.go", "return p.withExpressionPrecedence(precedence, func() ast.Expression {", "return p.withExpressionPrecedence(precedence+1, func() ast.Expression {", "R4.5", "save and set"),
		twin("C04", "C04-b1", "combinator-calls-the-body-twice", "parser/parser.go", "\treturn parse()", "\tparse()\n\treturn parse()", "R4.1", "interceptor called exactly once"),
		twin("C10", "C10-r3-1", "reported-line-break-ignored-by-the-skipper", "lexer/lexer.go", "\t\tif l.skipWhitespace() {\n\t\t\tl.hadNewlineBefore = true\n\t\t}", "\t\tl.skipWhitespace()", "R10.6", "skipper: return"),
		twin("C10", "C10-r3-1", "comment-helper-never-reports", "lexer/lexer.go", "\treturn commentText, sawNewline", "\treturn commentText, false", "R10.6", "skipper: return"),
		twin("C10", "C10-r3-1", "report-assigned-instead-of-ored", "lexer/lexer.go", "\t\t\tif sawNewline {\n\t\t\t\tl.hadNewlineBefore = true\n\t\t\t}", "\t\t\tl.hadNewlineBefore = sawNewline", "R10.6", "stored into the after-newline flag"),
		twin("C11", "C11-r3-1", "for-arm-bypasses-the-converter", "parser/base_parser_functions.go", "return statementOrNil(p.ParseForStatement())", "return p.ParseForStatement()", "R11.1", "ForStatement"),
		twin("C15", "C15-r3-2", "start-of-output-test-hoisted", "ast/code_writer_comments.go", "\tfor _, entry := range rest {\n\t\tif !cw.atOutputStart() {", "\tatStart := cw.atOutputStart()\n\tfor _, entry := range rest {\n\t\tif !atStart {", "R15.7", "emptiness test"),
		twin("C16", "C16-r3-1", "rest-helper-pushes-before-the-parameters", "parser/parser_functions.go", "\tparams := p.ParseFunctionParameters()", "\tp.PushContext(FunctionContext)\n\tdefer p.PopContext()\n\tparams := p.ParseFunctionParameters()", "R16.4", "ParseFunction"),
	)
	_ = ref
}
