package main

import (
	"fmt"
	"go/constant"
	"go/token"
	"go/types"

	"golang.org/x/tools/go/ssa"
)

// R1.6 — a number in front of a dot. The re-lexing argument of R1.2 uses the library's own lexeme table, and the
// library's number scanner takes a '.' only when a digit follows; JavaScript's does not ask: `1.toString()` is the
// number "1." followed by an identifier (a syntax error), while the source `1 .toString()` is a member access. So
// where a printer writes '.' (or anything else) directly behind a child that can be an integer literal, the output
// re-lexes to itself for this library and to something else for a JavaScript engine. Decided per printer that writes
// a '.' right after a child: on every path to that write, the child is written between '(' and ')' — or the path
// has found, by a type test, that the child is not an integer literal.

func ruleNumberBeforeDot(c *Ctx) {
	c.buildSSA()
	intLitN := c.lookupType("ast", "IntegerLiteral")
	if intLitN == nil {
		c.unres("ast.IntegerLiteral", token.NoPos, "node type not found")
		return
	}
	var intLit types.Type = intLitN
	writeRune := c.fn("(*ast.CodeWriter).WriteRune")
	writeString := c.fn("(*ast.CodeWriter).WriteString")
	textOf := func(call *ssa.Call) (string, bool) {
		cal := call.Call.StaticCallee()
		if cal == nil || (cal != writeRune && cal != writeString) || len(call.Call.Args) != 2 {
			return "", false
		}
		k, ok := call.Call.Args[1].(*ssa.Const)
		if !ok || k.Value == nil {
			return "", true // a text that is not a constant
		}
		if k.Value.Kind() == constant.String {
			return constant.StringVal(k.Value), true
		}
		if n, ok := constant.Int64Val(constant.ToInt(k.Value)); ok && n >= 0 && n < 0x80 {
			return string(rune(n)), true
		}
		return "", true
	}
	// the child a WriteTo invoke prints: the receiver's field it was loaded from
	childField := func(call *ssa.Call, recv ssa.Value) *types.Var {
		if !call.Call.IsInvoke() || call.Call.Method.Name() != "WriteTo" {
			return nil
		}
		root, path := loadedPath(call.Call.Value)
		if root != recv || len(path) != 1 {
			return nil
		}
		return path[0]
	}
	n := 0
	for _, nt := range nodeTypes(c) {
		m := methodFn(c, nt, "WriteTo")
		if m == nil || len(m.Params) == 0 {
			continue
		}
		recv := ssa.Value(m.Params[0])
		var dots []*ssa.Call
		allInstrs(m, func(_ *ssa.BasicBlock, _ int, in ssa.Instruction) {
			if call, ok := in.(*ssa.Call); ok {
				if txt, ok := textOf(call); ok && len(txt) > 0 && txt[0] == '.' {
					dots = append(dots, call)
				}
			}
		})
		for di, dot := range dots {
			// enumerate the acyclic paths from the entry to the dot's block; on each, the text events in order
			type ev struct {
				kind string // "(" ")" "text" "child"
				fld  *types.Var
			}
			type decision struct {
				v   ssa.Value
				out bool
			}
			var problems []string
			var child *types.Var
			paths, guarded, bracketed := 0, 0, 0
			var rec func(b *ssa.BasicBlock, evs []ev, dec []decision, on map[*ssa.BasicBlock]bool)
			rec = func(b *ssa.BasicBlock, evs []ev, dec []decision, on map[*ssa.BasicBlock]bool) {
				if on[b] || paths > 5000 {
					return
				}
				on[b] = true
				defer delete(on, b)
				for _, in := range b.Instrs {
					call, ok := in.(*ssa.Call)
					if !ok {
						continue
					}
					if call == dot {
						paths++
						// the last thing written before the dot
						if len(evs) == 0 || evs[len(evs)-1].kind == "text" || evs[len(evs)-1].kind == "(" {
							return // the dot does not follow a child here
						}
						last := evs[len(evs)-1]
						if last.kind == ")" {
							// '(' child ')' '.': fine
							if len(evs) >= 3 && evs[len(evs)-2].kind == "child" && evs[len(evs)-3].kind == "(" {
								child = evs[len(evs)-2].fld
								bracketed++
							}
							return
						}
						child = last.fld
						// an unbracketed child: the path must have found it not to be an integer literal
						for _, d := range dec {
							ex, ok := d.v.(*ssa.Extract)
							if !ok || ex.Index != 1 || d.out {
								continue
							}
							ta, ok := ex.Tuple.(*ssa.TypeAssert)
							if !ok || !ta.CommaOk {
								continue
							}
							pt, isPtr := ta.AssertedType.(*types.Pointer)
							if !isPtr || !types.Identical(pt.Elem(), intLit) {
								continue
							}
							if root, path := loadedPath(ta.X); root == recv && len(path) == 1 && path[0] == last.fld {
								guarded++
								return
							}
						}
						problems = append(problems, fmt.Sprintf("a path writes %s and then '.' with nothing in between", last.fld.Name()))
						return
					}
					if txt, ok := textOf(call); ok {
						switch txt {
						case "(":
							evs = append(append([]ev(nil), evs...), ev{kind: "("})
						case ")":
							evs = append(append([]ev(nil), evs...), ev{kind: ")"})
						default:
							evs = append(append([]ev(nil), evs...), ev{kind: "text"})
						}
						continue
					}
					if f := childField(call, recv); f != nil {
						evs = append(append([]ev(nil), evs...), ev{kind: "child", fld: f})
						continue
					}
				}
				iff := blockIf(b)
				if iff == nil {
					for _, s := range b.Succs {
						rec(s, evs, dec, on)
					}
					return
				}
				cond, pos := stripNot(iff.Cond, true)
				for i, s := range b.Succs {
					want := (i == 0) == pos
					known, prior := false, false
					for _, d := range dec {
						if d.v == cond {
							known, prior = true, d.out
						}
					}
					if known {
						if prior == want {
							rec(s, evs, dec, on)
						}
						continue
					}
					rec(s, evs, append(append([]decision(nil), dec...), decision{cond, want}), on)
				}
			}
			rec(m.Blocks[0], nil, nil, map[*ssa.BasicBlock]bool{})
			if child == nil && len(problems) == 0 {
				continue // this '.' never follows a child
			}
			n++
			key := fmt.Sprintf("%s: '.' #%d written behind a child", nt.Obj().Name(), di+1)
			if child != nil {
				key = fmt.Sprintf("%s: '.' written behind %s", nt.Obj().Name(), child.Name())
			}
			switch {
			case paths > 5000:
				c.unres(key, dot.Pos(), "too many paths")
			case len(problems) > 0:
				c.bad(key, dot.Pos(), "%s: when the child is an integer literal the output reads `1.x`, which JavaScript lexes as the number \"1.\" followed by x — `1 .toString()` is emitted as `1.toString()`, a syntax error for the engine although this library's own lexer reads it back", problems[0])
			default:
				c.ok(key, dot.Pos(), "%d path(s) bracket the child, %d found it not to be an integer literal", bracketed, guarded)
			}
		}
	}
	if n == 0 {
		c.unres("printers that write '.' behind a child", token.NoPos, "none found (member access is printed elsewhere or in another form)")
	}
}
