package main

import (
	"fmt"
	"go/ast"
	"go/token"
	"go/types"
	"sort"
	"strings"

	"golang.org/x/tools/go/ssa"
)

func init() {
	register("C02", &propSpec{
		run: runC02,
		explanation: "Conformance of the parser's mechanisms to ECMAScript, decided on the current source (tables by value, loops and methods in SSA on every path): " +
			"R2.1 the relative order and ties of all binding powers equal those of the ECMAScript operator-precedence table (a frozen 11-tier reference; only orderings are compared, so renumbering is not an alarm), and the unary operand level lies strictly between multiplicative and postfix; " +
			"R2.2 associativity: the climbing loop continues only on a STRICT 'requested < peek' comparison; every left-associative infix method reads its own token's level before advancing and parses its right operand exactly at that level; assignment operators parse their right side below their own level (right-associative); delimited operands are exempt; " +
			"R2.3 every keyword of the lexer's table has a consumer in the parser (dispatch case, prefix entry, or an explicit token test) and every token the parser tests for can be produced by the lexer; " +
			"R2.4 statement boundaries: (a) accept paths of the separator check (= R12.2); (b) restricted productions — no return value is parsed when the next token follows a line break or is ';', '}' or the end of the input, and the climbing loop does not apply a postfix operator that follows a line break; (c) the climbing loop has no other statement cut than these and the smart-semicolon cut. " +
			"R2.4c after a line break the separator check refuses only in front of a token with an infix function; R2.6 every function that builds a list of nodes element by element appends inside a loop (or is the body of its caller's loop); R2.7 every child a printer prints under a nil test and the parser fills under a condition can be left out and can be given on feasible success paths; " +
			"R2.5 the byte test the trivia skipper loops on, folded per byte, is true for space, tab, LF and CR and for nothing outside ECMAScript's ASCII white space. " +
			"Not decided: that every subset program is accepted and gets the ECMAScript tree (needs the grammar and a run).",
		notDecided: []string{"acceptance of every subset program / full grammar conformance", "ASI cases that depend on 'offending token not allowed by the grammar'", "CR, LS, PS as line terminators", "numeric literal acceptance (strconv vs ECMAScript)"},
	})
}

func runC02(c *Ctx) {
	t := c.tables()
	a := c.parserAnchors()
	c.rule("R2.0", "anchors and tables")
	for _, p := range a.problems {
		c.unres("anchors", token.NoPos, "%s", p)
	}
	if c.extractorProblems(t, "parser", "lexemes") || a.addErrAt == nil {
		return
	}
	c.ok("tables", token.NoPos, "%d binding powers, %d prefix and %d infix entries, %d dispatch cases, %d fixed lexemes, %d keywords", len(t.pt.prec), len(t.pt.prefix), len(t.pt.infix), len(t.pt.dispatch), len(t.lt.fixed), len(t.lt.keywords))
	c.rule("R2.1", "binding-power order and ties equal the ECMAScript reference; unary level between multiplicative and postfix")
	c.floor(100)
	ruleRefOrder(c, t)
	c.rule("R2.2", "associativity: strict comparison in the climbing loop; own-level right operands read before advancing; right-associative assignments")
	c.floor(10)
	ruleAssociativity(c, t, a)
	c.rule("R2.3", "every keyword has a parser consumer; every token the parser tests for is producible by the lexer")
	c.floor(10)
	ruleKeywordConsumers(c, t, a)
	c.rule("R2.4a", "accept paths of the separator check (= R12.2)")
	c.floor(4)
	ruleSeparatorAccepts(c, a)
	c.rule("R2.4b", "restricted productions: no return value after a line break, and none in front of ';', '}' or the end of the input; no postfix operator applied after a line break")
	c.floor(3)
	ruleRestrictedProductions(c, t, a)
	c.rule("R2.4c", "after a line break the separator check refuses only in front of a token that can continue the expression (one with an infix function): a line break in front of anything else — `{`, a keyword, an identifier — ends the statement")
	c.floor(1)
	ruleSeparatorRefusals(c, t, a)
	c.rule("R2.7", "every part of a construct that its printer treats as optional (a child printed under a nil test) can really be left out and can really be given: among the success paths of the parse methods that build the node there is one that leaves the field unset and one that fills it")
	c.floor(4)
	ruleOptionalPartsAreOptional(c, t)
	c.rule("R2.6", "lists are parsed by loops: every function of the parser that builds a list of nodes element by element appends to it inside a loop (a list of three parameters, arguments, elements, properties or statements is a valid program; an `if` where the loop belongs accepts at most two)")
	c.floor(3)
	ruleListsLoop(c)
	c.rule("R2.5", "white space: the byte test the trivia skipper loops on is true for space, tab, line feed and carriage return, and for nothing outside ECMAScript's ASCII white space and line terminators (a CR LF source must not produce ILLEGAL tokens, and no other byte may vanish between tokens)")
	c.floor(1)
	ruleWhitespaceSet(c)
}

// factIndex: where on the path a fact was established — the index of its block, or, for a fact that comes from inside a
// pure predicate the path enumerator expanded, the index of the block that calls that predicate. -1 when unknown.
func factIndex(pf pathFact, blocks []*ssa.BasicBlock) int {
	if pf.from == nil {
		return -1
	}
	for i, b := range blocks {
		if b == pf.from {
			return i
		}
	}
	callee := pf.from.Parent()
	for i, b := range blocks {
		for _, call := range callsIn(b) {
			g := call.Call.StaticCallee()
			for depth := 0; g != nil && depth < 3; depth++ {
				if g == callee {
					return i
				}
				// one more level: a predicate called by the predicate
				var next *ssa.Function
				allInstrs(g, func(_ *ssa.BasicBlock, _ int, in ssa.Instruction) {
					if c2, ok := in.(*ssa.Call); ok && c2.Call.StaticCallee() == callee {
						next = callee
					}
				})
				g = next
			}
		}
	}
	return -1
}

// ruleSeparatorRefusals (R2.4c): the refusing paths of the separator predicates that have established "the next token
// follows a line break".
func ruleSeparatorRefusals(c *Ctx, t *tables, a *parserAnchors) {
	tc := t.tc
	// the separator check and the bool predicates of the package it calls
	fns := []*ssa.Function{a.expectSemi}
	allInstrs(a.expectSemi, func(_ *ssa.BasicBlock, _ int, in ssa.Instruction) {
		if call, ok := in.(*ssa.Call); ok {
			g := call.Call.StaticCallee()
			if g != nil && g.Pkg == a.expectSemi.Pkg && g != a.nextTok && !a.errRecorders[g] && a.purePredicate(g) {
				fns = append(fns, g)
			}
		}
	})
	n := 0
	for _, f := range fns {
		complete := a.enumPaths(f.Blocks[0], func(facts []pathFact, blocks []*ssa.BasicBlock, last *ssa.BasicBlock) {
			ret, ok := last.Instrs[len(last.Instrs)-1].(*ssa.Return)
			if !ok || len(ret.Results) != 1 {
				return
			}
			for _, ra := range a.returnAlternatives(ret.Results[0], facts, blocks, last) {
				if ra.val {
					continue
				}
				nl := false
				var types_ []int64
				for _, pf := range ra.facts {
					if pf.at.kind == atPeekNewline && !pf.at.neg {
						nl = true
					}
					if pf.at.kind == atPeekType && !pf.at.neg {
						types_ = append(types_, pf.at.k)
					}
				}
				if !nl {
					continue // refusals on the same line are the normal case
				}
				n++
				key := fmt.Sprintf("%s: refusal #%d after a line break", fnName(f), n)
				if len(types_) == 0 {
					c.bad(key, ret.Pos(), "the separator is refused after a line break whatever the next token is: automatic semicolon insertion never applies on this path")
					continue
				}
				var wrong []string
				for _, k := range types_ {
					if t.pt.infix[k] == nil {
						wrong = append(wrong, tc.name(k))
					}
				}
				c.check(len(wrong) == 0, key, ret.Pos(), "only in front of a token with an infix function", fmt.Sprintf("after a line break the separator is refused in front of %s, which cannot continue an expression: a statement followed by such a token on the next line (a block after an expression statement, …) is reported as an error although a line break ends it", strings.Join(wrong, ", ")))
			}
		})
		if !complete {
			c.unres(fnName(f)+": paths", f.Pos(), "too many paths")
		}
	}
	if n == 0 {
		c.info("refusals after a line break", a.expectSemi.Pos(), "none: a line break always ends the statement")
	}
}

// ruleOptionalPartsAreOptional (R2.7): the printer's nil tests say which children a node may lack (`for (;;)`, an `if`
// without `else`, `return` without a value, `let x` without an initialiser). The parse-path enumerator must find, for
// each of them, a feasible success path without the child and one with it — a guard written against the wrong token
// (`for (a; b;)` testing for ';' where ')' ends the clause) makes one of the two infeasible although every test passes.
func ruleOptionalPartsAreOptional(c *Ctx, t *tables) {
	g := c.grammar(t)
	var nodes []string
	for n := range g.printers {
		nodes = append(nodes, n)
	}
	sort.Strings(nodes)
	for _, n := range nodes {
		pe := g.printers[n]
		opt := map[string]token.Pos{}
		var walk func(evs []*pev)
		walk = func(evs []*pev) {
			for _, e := range evs {
				if e.kind == evOpt && strings.HasPrefix(e.cond, "nonnil:") {
					f := strings.TrimPrefix(e.cond, "nonnil:")
					if _, ok := opt[f]; !ok {
						opt[f] = e.pos
					}
				}
				walk(e.kids)
				walk(e.alt)
			}
		}
		walk(pe.root)
		if len(opt) == 0 || len(g.byNode[n]) == 0 {
			continue
		}
		var fields []string
		for f := range opt {
			fields = append(fields, f)
		}
		sort.Strings(fields)
		understood := true
		for _, gm := range g.byNode[n] {
			if len(gm.issues) > 0 {
				understood = false
			}
		}
		for _, f := range fields {
			key := fmt.Sprintf("%s.%s can be left out and can be given", n, f)
			if !understood {
				c.unres(key, opt[f], "a parse method of the node was not understood by the path enumerator")
				continue
			}
			// only parts the PARSER treats as optional too: some parse method of the node assigns the field under a
			// condition (inside an if / switch) and nowhere unconditionally; a nil test in the printer alone is defensive
			condAssign, plainAssign := false, false
			for _, gm := range g.byNode[n] {
				fd := c.declIdx[gm.method]
				if fd == nil || fd.Body == nil {
					continue
				}
				var visit func(node ast.Node, nested bool)
				visit = func(node ast.Node, nested bool) {
					ast.Inspect(node, func(x ast.Node) bool {
						switch v := x.(type) {
						case *ast.IfStmt:
							if v.Init != nil {
								visit(v.Init, nested)
							}
							visit(v.Body, true)
							if v.Else != nil {
								visit(v.Else, true)
							}
							return false
						case *ast.CaseClause:
							for _, st := range v.Body {
								visit(st, true)
							}
							return false
						case *ast.AssignStmt:
							for _, l := range v.Lhs {
								if sel, ok := l.(*ast.SelectorExpr); ok && sel.Sel.Name == f {
									if nested {
										condAssign = true
									} else {
										plainAssign = true
									}
								}
							}
						case *ast.KeyValueExpr:
							if id, ok := v.Key.(*ast.Ident); ok && id.Name == f {
								if nested {
									condAssign = true
								} else {
									plainAssign = true
								}
							}
						}
						return true
					})
				}
				visit(fd.Body, false)
			}
			if !condAssign || plainAssign {
				c.info(key+" (not optional in the parser)", opt[f], "the parser fills it unconditionally; the printer's nil test is defensive")
				continue
			}
			set, unset := false, false
			for _, gm := range g.byNode[n] {
				for _, gp := range gm.paths {
					v, ok := gp.fields[f]
					if !ok || v.kind == vNil {
						unset = true
					} else {
						set = true
					}
				}
			}
			switch {
			case set && unset:
				c.ok(key, opt[f], "a success path without it and one with it")
			case !unset:
				c.bad(key, opt[f], "no feasible success path leaves %s.%s out although its printer allows that: the test that should skip it cannot succeed together with the token check that follows (the construct without this part — valid JavaScript — is rejected)", n, f)
			default:
				c.bad(key, opt[f], "no feasible success path fills %s.%s: the part can never be given", n, f)
			}
		}
	}
}

// ruleListsLoop (R2.6): per function and per element type, the appends of ast values; one of them must sit in a cycle
// of the control-flow graph.
func ruleListsLoop(c *Ctx) {
	c.buildSSA()
	n := 0
	for _, f := range c.libFunctions("parser") {
		type grp struct {
			first   *ssa.Call
			inCycle bool
			count   int
		}
		groups := map[string]*grp{}
		var order []string
		allInstrs(f, func(b *ssa.BasicBlock, _ int, in ssa.Instruction) {
			iv, isVal := in.(ssa.Value)
			if !isVal {
				return
			}
			call, ok := isBuiltinCall(iv, "append")
			if !ok {
				return
			}
			sl, ok := call.Type().Underlying().(*types.Slice)
			if !ok {
				return
			}
			et := sl.Elem()
			if pt, ok := et.(*types.Pointer); ok {
				et = pt.Elem()
			}
			nt := namedOf(et)
			if nt == nil || nt.Obj().Pkg() == nil || nt.Obj().Pkg().Path() != modPath+"/ast" {
				return
			}
			name := nt.Obj().Name()
			g := groups[name]
			if g == nil {
				g = &grp{first: call}
				groups[name] = g
				order = append(order, name)
			}
			g.count++
			if reachesBlock(b, b) {
				g.inCycle = true
			}
		})
		// a helper that appends one element may be the body of its caller's loop
		calledInLoop := false
		for _, h := range c.libFunctions("parser") {
			allInstrs(h, func(b *ssa.BasicBlock, _ int, in ssa.Instruction) {
				if call, ok := in.(*ssa.Call); ok && call.Call.StaticCallee() == f && f.Object() != nil && !f.Object().Exported() && reachesBlock(b, b) {
					calledInLoop = true
				}
			})
		}
		for _, name := range order {
			g := groups[name]
			n++
			if !g.inCycle && calledInLoop {
				c.ok(fmt.Sprintf("%s: the list of %s grows in a loop", fnName(f), name), g.first.Pos(), "%d append(s); the helper is called inside a loop of its caller", g.count)
				continue
			}
			c.check(g.inCycle, fmt.Sprintf("%s: the list of %s grows in a loop", fnName(f), name), g.first.Pos(), fmt.Sprintf("%d append(s), at least one inside a loop", g.count), fmt.Sprintf("the function appends %s values %d time(s) but never inside a loop: the list it parses can hold at most that many elements, a longer one (valid JavaScript) is rejected or cut short", name, g.count))
		}
	}
	if n == 0 {
		c.unres("list builders", token.NoPos, "no function of package parser appends ast values")
	}
}

// ruleWhitespaceSet (R2.5): the predicate the skipper skips with, folded for every byte.
func ruleWhitespaceSet(c *Ctx) {
	lf := c.lexFacts()
	if len(lf.problems) > 0 || lf.skipper == nil {
		c.unres("lexer analysis", token.NoPos, "not available")
		return
	}
	// by role: byte predicates called in the skipper (and its private helpers) whose true-set contains the space
	type cand struct {
		f   *ssa.Function
		set bset
	}
	var cands []cand
	seen := map[*ssa.Function]bool{}
	for _, skf := range lf.skipperFns() {
		allInstrs(skf, func(_ *ssa.BasicBlock, _ int, in ssa.Instruction) {
			call, ok := in.(*ssa.Call)
			if !ok {
				return
			}
			g := call.Call.StaticCallee()
			if s, ok := lf.preds[g]; ok && !seen[g] {
				seen[g] = true
				if s.has(' ') {
					cands = append(cands, cand{g, s})
				}
			}
		})
	}
	if len(cands) == 0 {
		c.unres("white-space test", lf.skipper.Pos(), "the skipper calls no byte predicate that accepts the space (white space is skipped in a form this rule does not read)")
		return
	}
	need := setOf(' ', '\t', '\n', '\r')
	allowed := setOf(' ', '\t', '\n', '\r', '\v', '\f')
	for _, cd := range cands {
		missing := need.minus(cd.set)
		extra := cd.set.minus(allowed)
		c.check(missing.empty() && extra.empty(), cd.f.Name()+": the white-space set", cd.f.Pos(), fmt.Sprintf("true for %s", cd.set), fmt.Sprintf("the white-space test misses %s and accepts %s: a source with such a byte between tokens gets ILLEGAL tokens (CR LF line ends), or a byte that is not white space in JavaScript silently disappears", missing, extra))
	}
}

// precReaders: functions of package parser that return the per-parser binding power of the peek / current token.
func precReaders(c *Ctx, t *tables, a *parserAnchors) (peekFn, curFn *ssa.Function) {
	for _, f := range c.libFunctions("parser") {
		if f.Parent() != nil || f.Signature.Results().Len() != 1 {
			continue
		}
		allInstrs(f, func(_ *ssa.BasicBlock, _ int, in ssa.Instruction) {
			lk, ok := in.(*ssa.Lookup)
			if !ok {
				return
			}
			if _, ok := isFieldLoad(lk.X, t.pt.precFld); !ok {
				return
			}
			if tokenFieldLoad(lk.Index, a.peek, "Type") {
				peekFn = f
			}
			if tokenFieldLoad(lk.Index, a.cur, "Type") {
				curFn = f
			}
		})
	}
	if peekFn != nil && curFn != nil {
		return
	}
	// the readers delegate to a shared lookup helper h(tokenType): f returns h(<peek/current token type>)
	isLookupHelper := func(h *ssa.Function) bool {
		if h == nil || h.Signature.Results().Len() != 1 {
			return false
		}
		found := false
		allInstrs(h, func(_ *ssa.BasicBlock, _ int, in ssa.Instruction) {
			if lk, ok := in.(*ssa.Lookup); ok {
				if _, ok := isFieldLoad(lk.X, t.pt.precFld); ok {
					if par, ok := lk.Index.(*ssa.Parameter); ok && par.Parent() == h {
						found = true
					}
				}
			}
		})
		return found
	}
	for _, f := range c.libFunctions("parser") {
		if f.Parent() != nil || f.Signature.Results().Len() != 1 || len(f.Blocks) != 1 {
			continue
		}
		ret, ok := f.Blocks[0].Instrs[len(f.Blocks[0].Instrs)-1].(*ssa.Return)
		if !ok || len(ret.Results) != 1 {
			continue
		}
		call, ok := ret.Results[0].(*ssa.Call)
		if !ok || !isLookupHelper(call.Call.StaticCallee()) {
			continue
		}
		for _, arg := range call.Call.Args {
			if tokenFieldLoad(arg, a.peek, "Type") && peekFn == nil {
				peekFn = f
			}
			if tokenFieldLoad(arg, a.cur, "Type") && curFn == nil {
				curFn = f
			}
		}
	}
	return
}

// climbingLoop: the function whose loop condition compares its int parameter with the peek binding power.
func climbingLoop(c *Ctx, t *tables, a *parserAnchors) (*ssa.Function, *ssa.BinOp) {
	peekFn, _ := precReaders(c, t, a)
	if peekFn == nil {
		return nil, nil
	}
	var fn *ssa.Function
	var cmp *ssa.BinOp
	for _, f := range c.libFunctions("parser") {
		allInstrs(f, func(_ *ssa.BasicBlock, _ int, in ssa.Instruction) {
			bo, ok := in.(*ssa.BinOp)
			if !ok {
				return
			}
			isPeek := func(v ssa.Value) bool {
				call, ok := v.(*ssa.Call)
				return ok && call.Call.StaticCallee() == peekFn
			}
			isParam := func(v ssa.Value) bool {
				_, ok := v.(*ssa.Parameter)
				return ok
			}
			if (isPeek(bo.X) && isParam(bo.Y)) || (isPeek(bo.Y) && isParam(bo.X)) {
				fn, cmp = f, bo
			}
		})
	}
	return fn, cmp
}

func ruleAssociativity(c *Ctx, t *tables, a *parserAnchors) {
	peekFn, curFn := precReaders(c, t, a)
	loop, cmp := climbingLoop(c, t, a)
	if peekFn == nil || curFn == nil || loop == nil {
		c.unres("climbing loop", token.NoPos, "could not find the binding-power readers / the loop comparing the requested level with the peek level")
		return
	}
	// (a) the loop continues exactly on requested < peek: the comparison may be written either way round and either as
	// the continue test (req < peek) or as the exit test (req >= peek)
	pol, strict, known := cmpSaysLess(cmp)
	key := fnName(loop) + ": loop comparison"
	var cmpBlock *ssa.BasicBlock
	for _, b := range loop.Blocks {
		if iff := blockIf(b); iff != nil {
			cond := iff.Cond
			neg := false
			for {
				if u, ok := cond.(*ssa.UnOp); ok && u.Op == token.NOT {
					cond, neg = u.X, !neg
					continue
				}
				break
			}
			if cond == ssa.Value(cmp) {
				cmpBlock = b
				if neg {
					pol = !pol
				}
			}
		}
	}
	switch {
	case !known:
		c.unres(key, cmp.Pos(), "comparison %s of the requested level with the peek level is not a recognised form", cmp.Op)
	case strict:
		c.ok(key, cmp.Pos(), "continues only while requested < peek binding power (strict)")
	default:
		c.bad(key, cmp.Pos(), "the climbing loop continues on requested <= peek: every operator becomes right-associative (a-b-c parses as a-(b-c))")
	}
	applied := 0
	allInstrs(loop, func(b *ssa.BasicBlock, _ int, in ssa.Instruction) {
		call, ok := in.(*ssa.Call)
		if !ok {
			return
		}
		isApply := false
		if cal := call.Call.StaticCallee(); cal != nil {
			// a helper that looks up the infix table
			allInstrs(cal, func(_ *ssa.BasicBlock, _ int, in2 ssa.Instruction) {
				if lk, ok := in2.(*ssa.Lookup); ok {
					if _, ok := isFieldLoad(lk.X, t.pt.infixFld); ok {
						isApply = true
					}
				}
			})
		}
		if !isApply {
			return
		}
		applied++
		c.check(cmpBlock != nil && condEdgeDominates(cmpBlock, pol, b), fmt.Sprintf("%s: infix application #%d under the comparison", fnName(loop), applied), call.Pos(), "an infix operator is applied only when requested < peek", "an infix operator is applied on a path that did not pass the level comparison")
	})
	if applied == 0 {
		c.unres(fnName(loop)+": infix application", loop.Pos(), "no call that applies an infix table entry found in the loop")
	}
	// (b)/(c) per infix entry
	rightAssoc := map[int64]bool{}
	for k := range t.pt.infix {
		if refRightAssoc[refLexemeOf(t, k)] {
			rightAssoc[k] = true
		}
	}
	var keys []int64
	for k := range t.pt.infix {
		keys = append(keys, k)
	}
	sort.Slice(keys, func(i, j int) bool { return keys[i] < keys[j] })
	lowest := mustConst(c, "parser", "LOWEST")
	_ = lowest
	for _, k := range keys {
		m := t.pt.infix[k]
		f := c.Prog.FuncValue(m)
		own, has := t.pt.prec[k]
		key := fmt.Sprintf("infix %s (%s)", t.tc.name(k), m.Name())
		pos := t.pt.entryPos[fmt.Sprintf("infix/%d", k)]
		if !has || f == nil {
			c.bad(key, pos, "infix entry without binding power")
			continue
		}
		consts, ownLevel := c.exprLevelArgs(t, m)
		delimited := false
		allInstrs(f, func(_ *ssa.BasicBlock, _ int, in ssa.Instruction) {
			if call, ok := in.(*ssa.Call); ok {
				if cal := call.Call.StaticCallee(); cal == a.expect || (cal != nil && cal.Name() == "ParseExpressionList") {
					delimited = true
				}
			}
		})
		switch {
		case len(consts) == 0 && !ownLevel:
			c.ok(key, pos, "parses no right operand (postfix form)")
		case delimited:
			c.ok(key, pos, "operand is delimited by a closing token; associativity does not apply")
		case rightAssoc[k]:
			good := !ownLevel
			for _, l := range consts {
				if l >= own {
					good = false
				}
			}
			c.check(good, key, pos, fmt.Sprintf("right-associative: right side parsed at %v < own level %d", consts, own), fmt.Sprintf("assignment operator %s must parse its right side below its own level %d (got %v, own-level=%v): a = b = c would group to the left", t.tc.name(k), own, consts, ownLevel))
		default:
			good := true
			for _, l := range consts {
				if l != own {
					good = false
				}
			}
			if ownLevel {
				// the level must be read before the token is advanced, and the advance must precede the sub-parse
				if why := ownLevelOrder(c, t, a, f, curFn); why != "" {
					c.bad(key+": level read before advance", pos, "%s", why)
					continue
				}
			}
			c.check(good && (ownLevel || len(consts) > 0), key, pos, fmt.Sprintf("left-associative: right operand parsed at the operator's own level %d", own), fmt.Sprintf("left-associative operator %s (level %d) parses its right operand at %v: grouping differs from JavaScript", t.tc.name(k), own, consts))
		}
	}
}

// cmpSaysLess normalises the loop comparison: the loop's continue condition "requested < peek" holds exactly when the
// comparison evaluates to pol (strict) — or "requested <= peek" (strict == false).
func cmpSaysLess(cmp *ssa.BinOp) (pol, strict, ok bool) {
	_, xIsParam := cmp.X.(*ssa.Parameter)
	op := cmp.Op
	if !xIsParam { // peek OP requested  ==  requested OP' peek
		switch op {
		case token.LSS:
			op = token.GTR
		case token.GTR:
			op = token.LSS
		case token.LEQ:
			op = token.GEQ
		case token.GEQ:
			op = token.LEQ
		}
	}
	switch op {
	case token.LSS:
		return true, true, true
	case token.GEQ:
		return false, true, true
	case token.LEQ:
		return true, false, true
	case token.GTR:
		return false, false, true
	}
	return false, false, false
}

func ownLevelOrder(c *Ctx, t *tables, a *parserAnchors, f *ssa.Function, curFn *ssa.Function) string {
	var lvlCall, adv, sub ssa.Instruction
	allInstrs(f, func(_ *ssa.BasicBlock, _ int, in ssa.Instruction) {
		call, ok := in.(*ssa.Call)
		if !ok {
			return
		}
		switch {
		case call.Call.StaticCallee() == curFn:
			lvlCall = call
		case call.Call.StaticCallee() == a.nextTok:
			if adv == nil {
				adv = call
			}
		default:
			if _, ok := isFieldLoad(call.Call.Value, t.pt.exprFld); ok {
				sub = call
			}
			// the operand step as a helper: advance and sub-parse in one call, the level evaluated before it
			if sh := c.stepHelper(t, call.Call.StaticCallee()); sh != nil {
				if adv == nil {
					adv = call
				}
				sub = call
			}
		}
	})
	if lvlCall == nil || adv == nil || sub == nil {
		return "could not find the level read, the advance and the sub-parse in the method"
	}
	if !instrDominates(lvlCall, adv) {
		return "the operator's level is read after the token was advanced: it is the level of the operand's first token, not of the operator"
	}
	if !instrDominates(adv, sub) {
		return "the right operand is parsed before the operator token is consumed"
	}
	return ""
}

func ruleKeywordConsumers(c *Ctx, t *tables, a *parserAnchors) {
	// token constants the parser tests for
	tested := map[int64]string{}
	for k := range t.pt.dispatch {
		tested[k] = "statement dispatch"
	}
	for k := range t.pt.prefix {
		if _, ok := tested[k]; !ok {
			tested[k] = "prefix entry"
		}
	}
	for k := range t.pt.infix {
		if _, ok := tested[k]; !ok {
			tested[k] = "infix entry"
		}
	}
	for _, f := range c.libFunctions("parser") {
		allInstrs(f, func(_ *ssa.BasicBlock, _ int, in ssa.Instruction) {
			switch x := in.(type) {
			case *ssa.BinOp:
				at := a.parseCond(x)
				if at.kind == atPeekType || at.kind == atCurType {
					if _, ok := tested[at.k]; !ok {
						tested[at.k] = "token test in " + f.Name()
					}
				}
			case *ssa.Call:
				if cal := x.Call.StaticCallee(); cal == a.expect || (cal != nil && cal.Name() == "ParseExpressionList") {
					if k, ok := constInt64(unwrap(x.Call.Args[1])); ok {
						if _, ok := tested[k]; !ok {
							tested[k] = "expected in " + f.Name()
						}
					}
				}
			}
		})
	}
	// keywords: each has a consumer
	var kws []string
	for s := range t.lt.keywords {
		kws = append(kws, s)
	}
	sort.Strings(kws)
	for _, s := range kws {
		k := t.lt.keywords[s]
		how, ok := tested[k]
		c.check(ok, fmt.Sprintf("keyword %q (%s)", s, t.tc.name(k)), token.NoPos, "consumed by: "+how, "keyword "+s+" is produced by the lexer but no parser code tests for it: it can only ever be a syntax error")
	}
	// producible: fixed lexemes, keywords, open classes, EOF
	producible := map[int64]bool{t.tc.byName["EOF"]: true, t.tc.byName["IDENT"]: t.lt.identType}
	for _, v := range t.lt.fixed {
		producible[v] = true
	}
	for _, v := range t.lt.keywords {
		producible[v] = true
	}
	for _, v := range t.lt.strDelims {
		producible[v] = true
	}
	for v := range t.lt.numTypes {
		producible[v] = true
	}
	var ks []int64
	for k := range tested {
		ks = append(ks, k)
	}
	sort.Slice(ks, func(i, j int) bool { return ks[i] < ks[j] })
	for _, k := range ks {
		c.check(producible[k], "token "+t.tc.name(k)+" tested by the parser", token.NoPos, "producible by the lexer ("+tested[k]+")", "the parser tests for "+t.tc.name(k)+" ("+tested[k]+") but the lexer never produces it: the construct it introduces can no longer be parsed")
	}
}

// cut: a path of the climbing loop that returns although the level comparison allowed continuing.
type loopCut struct {
	types   map[int64]bool
	newline bool
	flags   map[*types.Var]bool
	other   []string
	ret     *ssa.Return
}

func loopCuts(c *Ctx, t *tables, a *parserAnchors) (*ssa.Function, []loopCut, bool) {
	loop, cmp := climbingLoop(c, t, a)
	if loop == nil {
		return nil, nil, false
	}
	var cuts []loopCut
	complete := a.enumPaths(loop.Blocks[0], func(facts []pathFact, blocks []*ssa.BasicBlock, last *ssa.BasicBlock) {
		ret, ok := last.Instrs[len(last.Instrs)-1].(*ssa.Return)
		if !ok {
			return
		}
		pol, _, _ := cmpSaysLess(cmp)
		passed := false
		for _, pf := range facts {
			if pf.at.kind == atCmp && pf.at.bin == cmp && pf.at.neg == !pol {
				passed = true
			}
		}
		if !passed {
			return // normal loop exit
		}
		cut := loopCut{types: map[int64]bool{}, flags: map[*types.Var]bool{}, ret: ret}
		for _, pf := range facts {
			switch pf.at.kind {
			case atPeekType:
				if !pf.at.neg {
					cut.types[pf.at.k] = true
				}
			case atPeekNewline:
				if !pf.at.neg {
					cut.newline = true
				}
			case atFlag:
				if !pf.at.neg {
					cut.flags[pf.at.fld] = true
				} else {
					cut.other = append(cut.other, "flag "+pf.at.fld.Name()+" false")
				}
			case atCmp:
			default:
				if pf.at.kind != atPeekType {
					cut.other = append(cut.other, "unrecognised condition")
				}
			}
		}
		for _, b := range blocks {
			for _, call := range callsIn(b) {
				if cal := call.Call.StaticCallee(); cal == a.nextTok || (cal != nil && cal.Name() == "ParseInfixExpression") {
					cut.other = append(cut.other, "consumes tokens")
				}
			}
		}
		cuts = append(cuts, cut)
	})
	return loop, cuts, complete
}

func ruleRestrictedProductions(c *Ctx, t *tables, a *parserAnchors) {
	// return statement
	found := false
	for _, f := range c.libFunctions("parser") {
		als := allocsOf(f, "ast", "ReturnStatement")
		if len(als) == 0 {
			continue
		}
		found = true
		st := storeToNodeField(f, als[0], "ReturnValue")
		if st == nil {
			c.unres(fnName(f)+": return value", f.Pos(), "no assignment of ReturnValue found")
			continue
		}
		src, _ := st.Val.(ssa.Instruction)
		if src == nil {
			c.unres(fnName(f)+": return value", st.Pos(), "the value is not the result of a sub-parse")
			continue
		}
		guarded := false
		for _, ob := range f.Blocks {
			for i := range ob.Succs {
				if at, ok := a.edgeAtom(ob, i); ok && at.kind == atPeekNewline && at.neg && edgeDominates(ob, ob.Succs[i], src.Block()) {
					guarded = true
				}
			}
		}
		if !guarded {
			// path by path (the test may sit in a predicate): on every path that parses the value, "the next token is on
			// the same line" was established before the first token advance
			okAll, n := true, 0
			complete := a.enumPaths(f.Blocks[0], func(facts []pathFact, blocks []*ssa.BasicBlock, last *ssa.BasicBlock) {
				at := -1
				firstAdv := len(blocks)
				for i, b := range blocks {
					if b == src.Block() && at < 0 {
						at = i
					}
					for _, call := range callsIn(b) {
						if call.Call.StaticCallee() == a.nextTok && i < firstAdv {
							firstAdv = i
						}
					}
				}
				if at < 0 {
					return
				}
				n++
				found := false
				for _, pf := range facts {
					if pf.at.kind != atPeekNewline || !pf.at.neg {
						continue
					}
					if i := factIndex(pf, blocks); i >= 0 && i <= firstAdv && i <= at {
						found = true
					}
				}
				if !found {
					okAll = false
				}
			})
			guarded = complete && okAll && n > 0
		}
		c.check(guarded, fnName(f)+": no value after a line break", src.Pos(), "the value is parsed only when the next token is on the same line", "`return` followed by a line break still parses the next line as its value: ECMAScript's restricted production ends the statement at the line break (return⏎x is `return; x`)")
		// … and only when the next token can start an expression at all: `return }`, `return;` and a `return` at the end
		// of the input have no value (the statement ends there); parsing one reports an error for a valid program
		tcR := c.tokenConsts()
		for _, name := range []string{"SEMICOLON", "RBRACE", "EOF"} {
			k, okK := tcR.byName[name]
			if !okK {
				continue
			}
			okAll, n := true, 0
			complete := a.enumPaths(f.Blocks[0], func(facts []pathFact, blocks []*ssa.BasicBlock, last *ssa.BasicBlock) {
				at := -1
				firstAdv := len(blocks)
				for i, b := range blocks {
					if b == src.Block() && at < 0 {
						at = i
					}
					for _, call := range callsIn(b) {
						if call.Call.StaticCallee() == a.nextTok && i < firstAdv {
							firstAdv = i
						}
					}
				}
				if at < 0 {
					return
				}
				n++
				found := false
				for _, pf := range facts {
					if pf.at.kind != atPeekType || !pf.at.neg || pf.at.k != k {
						continue
					}
					if i := factIndex(pf, blocks); i >= 0 && i <= firstAdv && i <= at {
						found = true
					}
				}
				if !found {
					okAll = false
				}
			})
			c.check(complete && okAll && n > 0, fnName(f)+": no value in front of "+name, src.Pos(), "the value is parsed only when the next token is not "+name, "`return` directly followed by "+name+" still tries to parse a value: a value-less return in front of it (`function f() { return }`, `return;`, the last statement of the input) is reported as an error although it is valid")
		}
	}
	if !found {
		c.unres("return statement parser", token.NoPos, "no function allocating ast.ReturnStatement")
	}
	// postfix operators after a line break
	postfix := map[int64]bool{}
	for k, m := range t.pt.infix {
		for _, nd := range c.constructedNodes(m) {
			if nd == "PostfixExpression" {
				postfix[k] = true
			}
		}
	}
	loop, cuts, complete := loopCuts(c, t, a)
	if loop == nil || !complete {
		c.unres("climbing loop cuts", token.NoPos, "loop not found or too many paths")
		return
	}
	lparen, lbracket := t.tc.byName["LPAREN"], t.tc.byName["LBRACKET"]
	covered := map[int64]bool{}
	for i, cut := range cuts {
		key := fmt.Sprintf("%s: cut #%d", fnName(loop), i+1)
		var tys []string
		for k := range cut.types {
			tys = append(tys, t.tc.name(k))
		}
		sort.Strings(tys)
		desc := fmt.Sprintf("types {%s}, after-newline=%v, flags=%d", strings.Join(tys, ","), cut.newline, len(cut.flags))
		switch {
		case len(cut.other) > 0:
			c.bad(key, cut.ret.Pos(), "statement cut with side conditions (%s): %s", strings.Join(dedupSorted(cut.other), ", "), desc)
		case len(cut.flags) == 1 && cut.flags[a.smart] && cut.newline && len(cut.types) == 1 && (cut.types[lparen] || cut.types[lbracket]):
			c.ok(key, cut.ret.Pos(), "smart-semicolon cut (judged by C13 R13.2): %s", desc)
		case len(cut.flags) == 0 && cut.newline && len(cut.types) == 1 && subset(cut.types, postfix):
			for k := range cut.types {
				covered[k] = true
			}
			c.ok(key, cut.ret.Pos(), "restricted production: postfix operator after a line break ends the expression: %s", desc)
		default:
			c.bad(key, cut.ret.Pos(), "the climbing loop stops the expression on a condition ECMAScript does not have (%s): a continuation line would be split off", desc)
		}
	}
	var pk []int64
	for k := range postfix {
		pk = append(pk, k)
	}
	sort.Slice(pk, func(i, j int) bool { return pk[i] < pk[j] })
	for _, k := range pk {
		c.check(covered[k], fmt.Sprintf("%s: postfix %s after a line break", fnName(loop), t.tc.name(k)), loop.Pos(), "not applied to the previous line's operand", fmt.Sprintf("a %s at the start of a line is applied as a postfix operator to the previous line's expression; ECMAScript's restricted production makes it a prefix operator of the next statement (a⏎++b is `a; ++b`)", t.tc.lexeme(k)))
	}
}

func subset(a, b map[int64]bool) bool {
	for k := range a {
		if !b[k] {
			return false
		}
	}
	return true
}

func (tc *tokConsts) lexeme(k int64) string { return tc.name(k) }
