package main

func init() {
	pf := "parser/parser_functions.go"
	pp := "parser/parser.go"
	addVariants(
		variant{Prop: "C13", Name: "benign-for-this-statement-tolerant-skips-expected-token-on-error-path", File: pp, Old: "\tp.AddErrorAtToken(fmt.Sprintf(\"%s expected\", t), p.PeekToken)\n\treturn false", New: "\tif p.tolerantMode {\n\t\tp.NextToken()\n\t\treturn true\n\t}\n\tp.AddErrorAtToken(fmt.Sprintf(\"%s expected\", t), p.PeekToken)\n\treturn false", Benign: true},
		variant{Prop: "C13", Name: "tolerant-in-climbing-loop", File: pf, Old: "for p.PeekToken.Type != token.SEMICOLON && precedence < p.peekPrecedence() {", New: "for p.PeekToken.Type != token.SEMICOLON && (precedence < p.peekPrecedence() || p.tolerantMode && precedence == p.peekPrecedence()) {", Rule: "R13.1", Construct: "ParseRemainingExpressionWithPrecedence"},
		variant{Prop: "C13", Name: "tolerant-return-skips-value", File: pf, Old: "\tstmt := &ast.ReturnStatement{Token: p.CurrentToken}\n\tif p.PeekToken.Type != token.SEMICOLON", New: "\tstmt := &ast.ReturnStatement{Token: p.CurrentToken}\n\tif !(p.tolerantMode && p.PeekToken.AfterNewline) && p.PeekToken.Type != token.SEMICOLON", Rule: "R13.1", Construct: "ParseReturnStatement"},
		variant{Prop: "C13", Name: "smart-also-cuts-minus", File: pf, Old: "case token.LPAREN, token.LBRACKET:\n\t\t\t\t// These", New: "case token.LPAREN, token.LBRACKET, token.MINUS:\n\t\t\t\t// These", Rule: "R13.2", Construct: "smart-semicolon flag"},
		variant{Prop: "C13", Name: "smart-newline-conjunct-dropped", File: pf, Old: "if p.smartSemicolons && p.PeekToken.AfterNewline {", New: "if p.smartSemicolons {", Rule: "R13.2", Construct: "smart-semicolon flag"},
		variant{Prop: "C13", Name: "smart-cut-consumes-token", File: pf, Old: "\t\t\t\t// These tokens after a newline should not continue the expression\n\t\t\t\treturn left", New: "\t\t\t\tp.NextToken()\n\t\t\t\treturn left", Rule: "R13.2", Construct: "smart-semicolon flag"},
		variant{Prop: "C13", Name: "options-crossed-in-build", File: "parser/builder.go", Old: "tolerantMode:     pb.tolerantMode,\n\t\tsmartSemicolons:  pb.smartSemicolons,", New: "tolerantMode:     pb.smartSemicolons,\n\t\tsmartSemicolons:  pb.tolerantMode,", Rule: "R13.1", Construct: "tolerant flag"},
		variant{Prop: "C13", Name: "tolerant-option-not-copied", File: "parser/builder.go", Old: "tolerantMode:     pb.tolerantMode,\n", New: "tolerantMode:     pb.smartSemicolons,\n", Rule: "R13.3", Construct: "anchors"},
		variant{Prop: "C13", Name: "smart-flag-consulted-in-asi", File: pf, Old: "\tif !p.PeekToken.AfterNewline {\n\t\treturn false\n\t}", New: "\tif !p.PeekToken.AfterNewline {\n\t\treturn p.smartSemicolons && p.PeekToken.Type == token.LPAREN\n\t}", Rule: "R13.2", Construct: "shouldInsertSemicolon"},
		variant{Prop: "C13", Name: "benign-smart-if-chain-instead-of-switch", File: pf, Old: "\t\t\tswitch p.PeekToken.Type {\n\t\t\tcase token.LPAREN, token.LBRACKET:\n\t\t\t\t// These tokens after a newline should not continue the expression\n\t\t\t\treturn left\n\t\t\t}", New: "\t\t\tif p.PeekToken.Type == token.LPAREN || p.PeekToken.Type == token.LBRACKET {\n\t\t\t\treturn left\n\t\t\t}", Benign: true},
	)
}
