package main

func init() {
	pf := "parser/parser_functions.go"
	pp := "parser/parser.go"
	a := "ast/ast.go"
	addVariants(
		variant{Prop: "C02", Name: "and-or-swapped-both-tables", File: pp, Old: "token.OR:           LOGICAL_OR,\n\ttoken.AND:          LOGICAL_AND,", New: "token.OR:           LOGICAL_AND,\n\ttoken.AND:          LOGICAL_OR,", More: []edit{{File: a, Old: "\tcase token.OR:\n\t\treturn PrecedenceLogicalOr\n\tcase token.AND:\n\t\treturn PrecedenceLogicalAnd", New: "\tcase token.OR:\n\t\treturn PrecedenceLogicalAnd\n\tcase token.AND:\n\t\treturn PrecedenceLogicalOr"}}, Rule: "R2.1", Construct: "order AND vs OR"},
		variant{Prop: "C02", Name: "modulo-at-sum-level-both-tables", File: pp, Old: "token.MODULO:       PRODUCT,", New: "token.MODULO:       SUM,", Rule: "R2.1", Construct: "MODULO"},
		variant{Prop: "C02", Name: "climbing-loop-non-strict", File: pf, Old: "precedence < p.peekPrecedence() {", New: "precedence <= p.peekPrecedence() {", Rule: "R2.2", Construct: "loop comparison"},
		variant{Prop: "C02", Name: "binary-right-operand-at-lowest", File: pf, Old: "\tprecedence := p.currentPrecedence()\n\tp.NextToken()\n\texpression.Right = p.expressionParseFn(p, precedence)", New: "\tp.NextToken()\n\texpression.Right = p.expressionParseFn(p, LOWEST)", Rule: "R2.2", Construct: "infix PLUS"},
		variant{Prop: "C02", Name: "binary-level-read-after-advance", File: pf, Old: "\tprecedence := p.currentPrecedence()\n\tp.NextToken()\n\texpression.Right = p.expressionParseFn(p, precedence)", New: "\tp.NextToken()\n\tprecedence := p.currentPrecedence()\n\texpression.Right = p.expressionParseFn(p, precedence)", Rule: "R2.2", Construct: "infix"},
		variant{Prop: "C02", Name: "assignment-left-associative", File: pf, Old: "\tp.NextToken()\n\texpression.Value = p.ParseExpression()\n\treturn expression\n}\n\nfunc (p *Parser) ParseCompoundAssignmentExpression", New: "\tp.NextToken()\n\texpression.Value = p.ParseExpressionWithPrecedence(ASSIGNMENT)\n\treturn expression\n}\n\nfunc (p *Parser) ParseCompoundAssignmentExpression", Rule: "R2.2", Construct: "infix ASSIGN"},
		variant{Prop: "C02", Name: "unary-operand-at-product-level", File: pf, Old: "expression.Right = p.expressionParseFn(p, UNARY)", New: "expression.Right = p.expressionParseFn(p, PRODUCT)", Rule: "R2.1", Construct: "unary level"},
		variant{Prop: "C02", Name: "keyword-while-dropped-from-table", File: "token/token.go", Old: "\t\"while\":    WHILE,\n", New: "", Rule: "R2.3", Construct: "token WHILE"},
		variant{Prop: "C02", Name: "return-value-after-newline", File: pf, Old: "if !p.PeekToken.AfterNewline && p.PeekToken.Type != token.SEMICOLON", New: "if p.PeekToken.Type != token.SEMICOLON", Rule: "R2.4b", Construct: "ParseReturnStatement"},
		variant{Prop: "C02", Name: "postfix-cut-only-for-increment", File: pf, Old: "case token.INCREMENT, token.DECREMENT:\n\t\t\t\treturn left", New: "case token.INCREMENT:\n\t\t\t\treturn left", Rule: "R2.4b", Construct: "postfix DECREMENT"},
		variant{Prop: "C02", Name: "loop-cuts-minus-after-newline", File: pf, Old: "case token.INCREMENT, token.DECREMENT:\n\t\t\t\treturn left", New: "case token.INCREMENT, token.DECREMENT, token.MINUS:\n\t\t\t\treturn left", Rule: "R2.4b", Construct: "cut"},
		variant{Prop: "C02", Name: "benign-levels-renumbered-consistently", File: pp, Old: "\tLOWEST\n", New: "\tLOWEST\n\tRESERVED\n", More: []edit{{File: a, Old: "\tPrecedenceLowest\n", New: "\tPrecedenceLowest\n\tPrecedenceReserved\n"}}, Benign: true},
		variant{Prop: "C02", Name: "benign-loop-comparison-flipped", File: pf, Old: "precedence < p.peekPrecedence() {", New: "p.peekPrecedence() > precedence {", Benign: true},
	)
}
