package main

import (
	"fmt"
	"go/token"
	"go/types"
	"sort"

	"golang.org/x/tools/go/ssa"
)

// ---- may-return-nil and nil-implies-error summaries ------------------------------------------

type nilSummaries struct {
	mayNil     map[*ssa.Function]bool // some return yields a nil pointer/interface/slice
	nilIsError map[*ssa.Function]bool // every nil-yielding return is reached only after an error was recorded
	falseIsErr map[*ssa.Function]bool // bool functions: every `return false` is reached only after an error was recorded
}

func isNilConst(v ssa.Value) bool {
	k, ok := v.(*ssa.Const)
	return ok && k.IsNil()
}

func isFalseConst(v ssa.Value) bool {
	k, ok := v.(*ssa.Const)
	return ok && k.Value != nil && k.Value.String() == "false"
}

func nodeLike(t types.Type) bool {
	switch u := t.Underlying().(type) {
	case *types.Pointer:
		n := namedOf(u)
		return n != nil && n.Obj().Pkg() != nil && n.Obj().Pkg().Path() == modPath+"/ast"
	case *types.Interface:
		n := namedOf(t)
		return n != nil && n.Obj().Pkg() != nil && n.Obj().Pkg().Path() == modPath+"/ast"
	case *types.Slice:
		return nodeLike(u.Elem())
	}
	return false
}

// cleanAt computes, for function f, the set of blocks whose ENTRY is reachable on a path on which no error has been
// recorded ("clean"), using edge refinements from calls with falseIsErr / nilIsError summaries.
type cleanInfo struct {
	entryClean map[*ssa.BasicBlock]bool
}

func (ns *nilSummaries) cleanPaths(a *parserAnchors, f *ssa.Function) *cleanInfo {
	ci := &cleanInfo{entryClean: map[*ssa.BasicBlock]bool{}}
	if len(f.Blocks) == 0 {
		return ci
	}
	work := []*ssa.BasicBlock{f.Blocks[0]}
	ci.entryClean[f.Blocks[0]] = true
	for len(work) > 0 {
		b := work[len(work)-1]
		work = work[:len(work)-1]
		clean := true
		for _, in := range b.Instrs {
			if call, ok := in.(*ssa.Call); ok && a.errRecorders[call.Call.StaticCallee()] {
				clean = false
			}
		}
		if !clean {
			continue
		}
		for i, s := range b.Succs {
			if ns.edgeImpliesError(a, b, i) {
				continue
			}
			if !ci.entryClean[s] {
				ci.entryClean[s] = true
				work = append(work, s)
			}
		}
	}
	return ci
}

// cleanBefore reports whether instruction in (in block b) can be reached without an error recorded.
func (ci *cleanInfo) cleanBefore(a *parserAnchors, in ssa.Instruction) bool {
	b := in.Block()
	if !ci.entryClean[b] {
		return false
	}
	for _, x := range b.Instrs {
		if x == in {
			return true
		}
		if call, ok := x.(*ssa.Call); ok && a.errRecorders[call.Call.StaticCallee()] {
			return false
		}
	}
	return true
}

// edgeImpliesError: taking edge i out of b implies an error has been recorded (false result of an expect-like call,
// or nil result of a call whose nil results are all error-recorded).
func (ns *nilSummaries) edgeImpliesError(a *parserAnchors, b *ssa.BasicBlock, i int) bool {
	at, ok := a.edgeAtom(b, i)
	if !ok {
		return false
	}
	switch at.kind {
	case atCall:
		// edge on which the call returned false
		if at.neg {
			return ns.falseIsErr[at.call.Call.StaticCallee()]
		}
	case atNil:
		// edge on which value == nil
		if !at.neg {
			if call, ok := at.val.(*ssa.Call); ok {
				return ns.nilIsError[call.Call.StaticCallee()]
			}
			if ex, ok := at.val.(*ssa.Extract); ok {
				if call, ok := ex.Tuple.(*ssa.Call); ok {
					return ns.nilIsError[call.Call.StaticCallee()]
				}
			}
		}
	}
	return false
}

func (c *Ctx) nilSummaries(a *parserAnchors) *nilSummaries {
	ns := &nilSummaries{mayNil: map[*ssa.Function]bool{}, nilIsError: map[*ssa.Function]bool{}, falseIsErr: map[*ssa.Function]bool{}}
	fns := c.libFunctions("parser")
	// may-return-nil: least fixpoint
	for changed := true; changed; {
		changed = false
		for _, f := range fns {
			if ns.mayNil[f] {
				continue
			}
			allInstrs(f, func(_ *ssa.BasicBlock, _ int, in ssa.Instruction) {
				r, ok := in.(*ssa.Return)
				if !ok {
					return
				}
				for _, v := range r.Results {
					if !nodeLike(v.Type()) {
						continue
					}
					if returnsNilValue(ns, v, map[ssa.Value]bool{}) && !ns.mayNil[f] {
						ns.mayNil[f] = true
						changed = true
					}
				}
			})
		}
	}
	// nil-is-error / false-is-error: greatest fixpoint (assume, then refute)
	for _, f := range fns {
		ns.nilIsError[f] = true
		if f.Signature.Results().Len() == 1 {
			if b, ok := f.Signature.Results().At(0).Type().Underlying().(*types.Basic); ok && b.Kind() == types.Bool {
				ns.falseIsErr[f] = true
			}
		}
	}
	for changed := true; changed; {
		changed = false
		for _, f := range fns {
			ci := ns.cleanPaths(a, f)
			allInstrs(f, func(_ *ssa.BasicBlock, _ int, in ssa.Instruction) {
				r, ok := in.(*ssa.Return)
				if !ok {
					return
				}
				for _, v := range r.Results {
					if ns.nilIsError[f] && nodeLike(v.Type()) {
						for _, org := range nilOrigins(ns, v) {
							if org.cleanNil(ns, a, ci, r) {
								ns.nilIsError[f] = false
								changed = true
							}
						}
					}
					if ns.falseIsErr[f] && isFalseConst(v) && ci.cleanBefore(a, r) {
						ns.falseIsErr[f] = false
						changed = true
					}
				}
			})
		}
	}
	return ns
}

func returnsNilValue(ns *nilSummaries, v ssa.Value, seen map[ssa.Value]bool) bool {
	if seen[v] {
		return false
	}
	seen[v] = true
	switch x := v.(type) {
	case *ssa.Const:
		return x.IsNil()
	case *ssa.Phi:
		for _, e := range x.Edges {
			if returnsNilValue(ns, e, seen) {
				return true
			}
		}
	case *ssa.Call:
		if cal := x.Call.StaticCallee(); cal != nil {
			return ns.mayNil[cal]
		}
	case *ssa.MakeInterface:
		return false // a typed nil is not a nil interface; R11.1 handles it
	case *ssa.UnOp:
		for _, st := range cellStores(x) {
			if returnsNilValue(ns, st.Val, seen) {
				return true
			}
		}
	}
	return false
}

// cellStores: all stores into the local cell that v loads from (defer-spilled results, captured variables).
func cellStores(v ssa.Value) []*ssa.Store {
	u, ok := v.(*ssa.UnOp)
	if !ok || u.Op != token.MUL {
		return nil
	}
	al, ok := u.X.(*ssa.Alloc)
	if !ok {
		return nil
	}
	var out []*ssa.Store
	for _, r := range *al.Referrers() {
		if st, ok := r.(*ssa.Store); ok && st.Addr == al {
			out = append(out, st)
		}
	}
	return out
}

// nilOrigin: one way a returned value can be nil.
type nilOrigin struct {
	konst bool          // the nil constant itself (directly or through a phi edge from block pred)
	pred  *ssa.BasicBlock
	store *ssa.Store // nil stored into a result cell at this instruction
	call  *ssa.Call // nil propagated from this call's result
}

func nilOrigins(ns *nilSummaries, v ssa.Value) []nilOrigin {
	switch x := v.(type) {
	case *ssa.Const:
		if x.IsNil() {
			return []nilOrigin{{konst: true}}
		}
	case *ssa.Phi:
		var out []nilOrigin
		for i, e := range x.Edges {
			for _, o := range nilOrigins(ns, e) {
				if o.konst && o.pred == nil {
					o.pred = x.Block().Preds[i]
				}
				out = append(out, o)
			}
		}
		return out
	case *ssa.Call:
		if cal := x.Call.StaticCallee(); cal != nil && ns.mayNil[cal] {
			return []nilOrigin{{call: x}}
		}
	case *ssa.UnOp:
		var out []nilOrigin
		for _, st := range cellStores(x) {
			for _, o := range nilOrigins(ns, st.Val) {
				if o.konst && o.pred == nil && o.store == nil {
					o.store = st
				}
				out = append(out, o)
			}
		}
		return out
	}
	return nil
}

// cleanNil: can this nil reach the return r without an error having been recorded?
func (o nilOrigin) cleanNil(ns *nilSummaries, a *parserAnchors, ci *cleanInfo, r *ssa.Return) bool {
	if o.call != nil {
		// nil propagated from a callee: error-recorded iff the callee's nils are
		return !ns.nilIsError[o.call.Call.StaticCallee()] && ci.cleanBefore(a, r)
	}
	if o.store != nil {
		return ci.cleanBefore(a, o.store)
	}
	if o.pred != nil {
		// nil constant flowing in from predecessor block pred: clean iff pred's exit is clean
		if !ci.entryClean[o.pred] {
			return false
		}
		for _, x := range o.pred.Instrs {
			if call, ok := x.(*ssa.Call); ok && a.errRecorders[call.Call.StaticCallee()] {
				return false
			}
		}
		// and the edge pred -> phi block does not itself imply an error
		for i, s := range o.pred.Succs {
			if s == r.Block() || true {
				_ = i
			}
		}
		return true
	}
	return ci.cleanBefore(a, r)
}

// ---------------------------------------------------------------------------------------------

func init() {
	register("C11", &propSpec{
		run: runC11,
		explanation: "Error-contract discipline of package parser decided on every path (SSA): " +
			"R11.1 no typed nil pointer enters a Statement/Expression/Node interface slot: every conversion of a may-be-nil node pointer to an ast interface is dominated by a nil test of that pointer (otherwise the statement loops' `stmt != nil` filter is ineffective and a nil entry reaches a statement list); " +
			"R11.2 every nil-valued return of a node pointer/interface/slice is reached only after an error was recorded (directly, through the false edge of an expect call, or through the nil edge of a callee with the same summary — summaries are verified, not assumed); " +
			"R11.4 ParseProgram returns a non-nil error exactly on the branch where the error list is non-empty, a non-nil program on every path; only the constructor and the single error constructor write the error list (append only); only that function builds ParserError values, with the range {tok.Start, tok.End} of one token parameter; every caller passes the parser's current or peek token. " +
			"A pass means every enumerated obligation is discharged on the current source; termination and absence of panics for all inputs are covered only as far as R11.5/R11.6 are armed (see rules list).",
		notDecided: []string{"stack exhaustion on deeply nested input", "errors added by plugins", "termination/panic-freedom beyond the enumerated obligations"},
	})
}

func runC11(c *Ctx) {
	a := c.parserAnchors()
	c.rule("R11.0", "anchors of package parser (token fields, error list, error constructor, expect functions)")
	for _, p := range a.problems {
		c.unres("anchors", token.NoPos, "%s", p)
	}
	if a.addErrAt == nil {
		return
	}
	c.ok("anchors", a.addErrAt.Pos(), "error constructor %s; recorders %d", fnName(a.addErrAt), len(a.errRecorders))
	ns := c.nilSummaries(a)
	var mn []string
	for f, v := range ns.mayNil {
		if v {
			mn = append(mn, fnName(f))
		}
	}
	sort.Strings(mn)
	c.Tables["may_return_nil"] = mn
	r11_1(c, a, ns, "R11.1")
	r11_2(c, a, ns, "R11.2")
	r11_4(c, a)
	t := c.tables()
	if !c.extractorProblems(t, "lexemes", "parser", "printer") {
		g := c.grammar(t)
		c.rule("R11.3", "mandatory children are assigned: every child field a printer dereferences without a nil test is filled with a sub-parse on every success path of the parse method that builds the node")
		c.floor(25)
		ruleTokenOrder(c, t, g, "assigned")
	}
}

// R11.1 no typed nil into an interface slot
func r11_1(c *Ctx, a *parserAnchors, ns *nilSummaries, id string) {
	c.rule(id, "every conversion of a may-be-nil node pointer to an ast interface is dominated by a nil test of that pointer")
	c.floor(6)
	for _, f := range c.libFunctions("parser") {
		n := 0
		allInstrs(f, func(b *ssa.BasicBlock, _ int, in ssa.Instruction) {
			mi, ok := in.(*ssa.MakeInterface)
			if !ok || !nodeLike(mi.Type()) {
				return
			}
			if _, isPtr := mi.X.Type().Underlying().(*types.Pointer); !isPtr {
				return
			}
			n++
			key := fmt.Sprintf("%s: conversion #%d of %s to %s", fnName(f), n, shortType(mi.X.Type()), shortType(mi.Type()))
			pos := mi.Pos()
			if !pos.IsValid() {
				pos = mi.X.Pos()
			}
			if !returnsNilValue(ns, mi.X, map[ssa.Value]bool{}) {
				c.ok(key, pos, "operand is never nil (fresh allocation or a callee that never returns nil)")
				return
			}
			// dominated by the non-nil edge of a test of the same value
			guarded := false
			for _, ob := range f.Blocks {
				for i := range ob.Succs {
					at, ok := a.edgeAtom(ob, i)
					if ok && at.kind == atNil && at.neg && at.val == mi.X && edgeDominates(ob, ob.Succs[i], b) {
						guarded = true
					}
				}
			}
			if guarded {
				c.ok(key, pos, "dominated by a nil test of the operand")
			} else {
				c.bad(key, pos, "a pointer that may be nil is converted to an interface without a nil test: the result is a non-nil interface holding a nil pointer, which passes `stmt != nil` and enters the statement list; compiling it dereferences nil")
			}
		})
	}
}

func shortType(t types.Type) string {
	return types.TypeString(t, func(p *types.Package) string { return p.Name() })
}

// R11.2 nil result => error recorded
func r11_2(c *Ctx, a *parserAnchors, ns *nilSummaries, id string) {
	c.rule(id, "every nil-valued return of a node pointer/interface/slice is reached only after an error was recorded")
	c.floor(15)
	for _, f := range c.libFunctions("parser") {
		ci := ns.cleanPaths(a, f)
		n := 0
		seenStore := map[*ssa.Store]bool{}
		allInstrs(f, func(_ *ssa.BasicBlock, _ int, in ssa.Instruction) {
			r, ok := in.(*ssa.Return)
			if !ok {
				return
			}
			for _, v := range r.Results {
				if !nodeLike(v.Type()) {
					continue
				}
				for _, o := range nilOrigins(ns, v) {
					if o.call != nil {
						continue // propagated: judged in the callee
					}
					if o.store != nil {
						if seenStore[o.store] {
							continue
						}
						seenStore[o.store] = true
					}
					n++
					key := fmt.Sprintf("%s: nil return #%d", fnName(f), n)
					pos := r.Pos()
					if o.store != nil {
						pos = o.store.Pos()
					}
					if o.cleanNil(ns, a, ci, r) {
						c.bad(key, pos, "returns nil on a path on which no error was recorded: a failed parse is reported as success (the caller drops the construct silently)")
					} else {
						c.ok(key, pos, "every path to this nil return records an error first")
					}
				}
			}
		})
	}
	// the summaries relied upon
	for _, f := range []*ssa.Function{a.expect, a.expectSemi} {
		c.check(ns.falseIsErr[f], fnName(f)+": false only after an error", f.Pos(), "every `return false` is reached only after an error was recorded", "returns false on a path without recording an error, so callers' `return nil` after it are silent")
	}
}

// R11.4 error contract
func r11_4(c *Ctx, a *parserAnchors) {
	c.rule("R11.4", "ParseProgram: error iff the error list is non-empty, program never nil; single writer/constructor of errors; ranges are {tok.Start, tok.End} of a parser token")
	c.floor(8)
	pp := c.fn("(*parser.Parser).ParseProgram")
	if pp == nil {
		c.unres("ParseProgram", token.NoPos, "not found")
		return
	}
	// the non-empty test
	nonEmpty := func(b *ssa.BasicBlock, i int) (bool, bool) { // (isLenTest, edgeMeansNonEmpty)
		iff := blockIf(b)
		if iff == nil {
			return false, false
		}
		bo, ok := iff.Cond.(*ssa.BinOp)
		if !ok {
			return false, false
		}
		call, ok := isBuiltinCall(bo.X, "len")
		if !ok {
			return false, false
		}
		if _, ok := isFieldLoad(call.Call.Args[0], a.errorsFld); !ok {
			return false, false
		}
		k, ok := constInt64(bo.Y)
		if !ok {
			return false, false
		}
		var trueMeans bool
		switch {
		case bo.Op == token.GTR && k == 0, bo.Op == token.NEQ && k == 0, bo.Op == token.GEQ && k == 1:
			trueMeans = true
		case bo.Op == token.EQL && k == 0, bo.Op == token.LSS && k == 1, bo.Op == token.LEQ && k == 0:
			trueMeans = false
		default:
			return false, false
		}
		if i == 0 {
			return true, trueMeans
		}
		return true, !trueMeans
	}
	nret := 0
	allInstrs(pp, func(b *ssa.BasicBlock, _ int, in ssa.Instruction) {
		r, ok := in.(*ssa.Return)
		if !ok || len(r.Results) != 2 {
			return
		}
		nret++
		key := fmt.Sprintf("ParseProgram: return #%d", nret)
		// program non-nil
		if al, ok := r.Results[0].(*ssa.Alloc); ok && al.Heap {
			c.ok(key+": program", r.Pos(), "a freshly allocated program")
		} else {
			c.bad(key+": program", r.Pos(), "the returned program may be nil")
		}
		errNil := isNilConst(r.Results[1])
		want := !errNil // non-nil error must be under the non-empty edge, nil error under the empty edge
		okEdge := false
		for _, ob := range pp.Blocks {
			for i := range ob.Succs {
				if isLen, ne := nonEmpty(ob, i); isLen && ne == want && edgeDominates(ob, ob.Succs[i], b) {
					okEdge = true
				}
			}
		}
		if errNil {
			c.check(okEdge, key+": nil error", r.Pos(), "returned only when the error list is empty", "a nil error can be returned while the error list is non-empty (accepted tests: len(errors) > 0, != 0, >= 1)")
		} else {
			c.check(okEdge, key+": non-nil error", r.Pos(), "returned only when the error list is non-empty", "an error value can be returned while the error list is empty")
		}
	})
	// writers of the error list
	for _, f := range c.libFunctions() {
		n := 0
		allInstrs(f, func(_ *ssa.BasicBlock, _ int, in ssa.Instruction) {
			st, ok := in.(*ssa.Store)
			if !ok {
				return
			}
			if _, ok := isFieldAddr(st.Addr, a.errorsFld); !ok {
				return
			}
			n++
			key := fmt.Sprintf("%s: store #%d to the error list", fnName(f), n)
			switch f {
			case a.ctor:
				el, ok := sliceLitElems(st.Val)
				c.check((ok && len(el) == 0) || isNilConst(st.Val), key, st.Pos(), "constructor: empty list", "the constructor must start with an empty error list")
			case a.addErrAt:
				call, ok := isBuiltinCall(st.Val, "append")
				good := false
				if ok {
					_, good = isFieldLoad(call.Call.Args[0], a.errorsFld)
				}
				c.check(good, key, st.Pos(), "append to the list", "the error constructor must only append to the list")
				// every call records: no path from the entry to a return avoids the append (a filtered or
				// de-duplicated error makes `nil result => error recorded` false)
				skip := reachesAvoiding(f, nil, st.Block(), func(*ssa.BasicBlock, int) bool { return false })
				c.check(!skip, fmt.Sprintf("%s: every call appends (store #%d)", fnName(f), n), st.Pos(), "the append is on every path from entry to return", "the error constructor can return without appending: an error is dropped, so a failed parse (nil node) can end with an empty error list and ParseProgram reports success for an incomplete tree")
			default:
				c.bad(key, st.Pos(), "the error list is written outside the constructor and the error constructor: errors can be lost or invented")
			}
		})
	}
	// constructions of ParserError
	pe := c.lookupType("parser", "ParserError")
	for _, f := range c.libFunctions() {
		allInstrs(f, func(_ *ssa.BasicBlock, _ int, in ssa.Instruction) {
			if al, ok := in.(*ssa.Alloc); ok && pe != nil && types.Identical(deref(al.Type()), pe) && al.Comment == "complit" {
				c.check(f == a.addErrAt, fmt.Sprintf("%s: constructs a ParserError", fnName(f)), al.Pos(), "the single error constructor", "ParserError values are built outside the single error constructor: their ranges are not checked")
			}
		})
	}
	// the range of the constructed error is {tok.Start, tok.End} of the token parameter
	var tokParam *ssa.Parameter
	for _, p := range a.addErrAt.Params {
		if namedIs(p.Type(), "token", "Token") {
			tokParam = p
		}
	}
	if tokParam == nil {
		c.unres("error constructor: token parameter", a.addErrAt.Pos(), "no token.Token parameter")
	} else {
		fromTok := func(v ssa.Value, sub string) bool {
			// load of (&tokcell).<sub> where tokcell holds the parameter, or Field of the parameter
			if fv, ok := v.(*ssa.Field); ok && fv.X == tokParam && fieldOfField(fv).Name() == sub {
				return true
			}
			u, ok := v.(*ssa.UnOp)
			if !ok {
				return false
			}
			fa, ok := u.X.(*ssa.FieldAddr)
			if !ok || fieldOfAddr(fa).Name() != sub {
				return false
			}
			if s, ok := cellStored(fa.X); ok && s == ssa.Value(tokParam) {
				return true
			}
			return false
		}
		rng := c.lookupType("parser", "Range")
		okS, okE := false, false
		allInstrs(a.addErrAt, func(_ *ssa.BasicBlock, _ int, in ssa.Instruction) {
			st, ok := in.(*ssa.Store)
			if !ok {
				return
			}
			fa, ok := st.Addr.(*ssa.FieldAddr)
			if !ok || rng == nil || !types.Identical(deref(fa.X.Type()), rng) {
				return
			}
			switch fieldOfAddr(fa).Name() {
			case "Start":
				okS = fromTok(st.Val, "Start")
			case "End":
				okE = fromTok(st.Val, "End")
			}
		})
		c.check(okS && okE, "error constructor: range = {tok.Start, tok.End}", a.addErrAt.Pos(), "both ends come from the same token parameter", "the error range is not {Start, End} of the token parameter: a reported range no longer coincides with a token of the input")
	}
	// callers pass a parser token
	for _, f := range c.libFunctions("parser") {
		n := 0
		allInstrs(f, func(_ *ssa.BasicBlock, _ int, in ssa.Instruction) {
			call, ok := in.(*ssa.Call)
			if !ok || call.Call.StaticCallee() != a.addErrAt {
				return
			}
			n++
			key := fmt.Sprintf("%s: error call #%d", fnName(f), n)
			var arg ssa.Value
			for i, p := range a.addErrAt.Params {
				if p == tokParam {
					arg = call.Call.Args[i]
				}
			}
			_, isCur := isFieldLoad(arg, a.cur)
			_, isPeek := isFieldLoad(arg, a.peek)
			_, isParam := arg.(*ssa.Parameter)
			c.check(isCur || isPeek || isParam, key, call.Pos(), "passes the parser's current or peek token (a token of the input)", "the error is located at a token that is neither the current nor the peek token")
		})
	}
}
